import MptModel.Impl.Encode
import MptModel.Impl.Decode
import MptModel.Impl.CodecTable
import MptModel.Spec.Cobs
import Driver.Util
namespace Driver.Codec
open Mpt Mpt.Cobs Mpt.Codec

/-- driver state: implementation model and spec bookkeeping side by side -/
structure St where
  codec : Codec := .cobs .cobs
  -- M: direct encoder calls on a caller-granted window
  est : EncState := {}
  win : List Byte := []
  pending : List Byte := []            -- unconsumed rest of the last push
  -- M: mpt_array_push
  arr : EncArray := {}
  -- S: frames finished so far, marked bytes of the message in progress, start of the last frame
  wire : List Byte := []
  cur : List (Byte × Bool) := []       -- bytes the model's encoder calls consumed, a cut after each call
  sbytes : List Byte := []             -- S: bytes handed over by the script since the last finished frame
  xshift : Nat := 0                    -- S: finished bytes consumed through encode_array::shift
  lastStart : Nat := 0
  lastEnd : Nat := 0
  haveFrame : Bool := false
  lastMsg : List Byte := []
  -- M: decoder state and guarded segments; S: the bytes as supplied and the start of the current frame
  dst : DecState := {}
  segs : List Seg := []
  orig : List Byte := []
  fstart : Option Nat := none
  decReady : Bool := false
  deriving Inhabited

def fillByte : Byte := 0xEE     -- new window bytes (the C driver memsets them)
def mallocFill : Byte := 0xBE   -- ASAN malloc_fill_byte of vlib/run.py

def resName {α} : CRes α → String
  | .ok _ => "ok" | .err e => e.name | .oob => "OOB" | .unmodelled => "UNMODELLED"

def fmtEncI (ret : String) (st : EncState) (win : List Byte) : String :=
  s!"ret={ret} done={st.done} scratch={st.scratch} ctx={st.ctx} cap={win.length} open={toHex ((win.drop st.done).take st.scratch)}"

def encLine (r : String) (st : EncState) (win : List Byte) (ret : String) (s : String) : String :=
  s!"R {r} | C {toHex (win.take st.done)} | I {fmtEncI ret st win} | S {s}"

/-- spec frame of the message in progress -/
def specFrame (c : Codec) (cur : List (Byte × Bool)) : Option (List Byte) :=
  match c with
  | .cobs v => some (encB v [] false cur ++ [0])
  | .command => encStr (cur.map Prod.fst)

/-- reference decoding of a frame, as the `msg=` text of a check op -/
def specDecode (c : Codec) (frame : List Byte) : String :=
  match c with
  | .cobs v => match dec v frame with
    | some m => s!"msg={toHex m}"
    | none => "err"
  | .command => match decCmd frame with
    | some m => s!"msg={toHex m}"
    | none => "err"

def markChunk (bytes : List Byte) : List (Byte × Bool) :=
  (bytes.dropLast.map fun b => (b, false)) ++ (bytes.getLast?.toList.map fun b => (b, true))

/-- S for one encoder data call offering `bytes`.  A single alternative is given only where the spec
    state after the op does not depend on the outcome (vlib/run.py keeps judging later ops against S after a
    code/model difference in that case): the message is what the script handed over, whatever part of it
    this call took.  For the ZPE framings the frame also depends on where a call ended between two zeros,
    and command text must not accept a zero: there the alternatives are listed separately. -/
def pushAlts (c : Codec) (bytes : List Byte) : String :=
  match c with
  | .cobs v => if v.isZpe ∧ bytes.contains 0 then "* ; * || * ; *" else "* ; *"
  | .command =>
    match bytes.findIdx? (· == 0) with
    | none => "* ; *"
    | some z => " || ".intercalate ("refused n=0 ; *" :: (List.range (min z 64)).map fun k => s!"ok n={k + 1} ; *")

/-- S: the finished data without its last `k` frames (frames are zero-free up to their delimiter) -/
def specDel : Nat → List Byte → Option (List Byte)
  | 0, w => some w
  | k + 1, w =>
    if w.isEmpty then none
    else specDel k ((w.reverse.drop 1).dropWhile (· != 0)).reverse

/-- is a message in progress?  Script-determined, except when bytes were handed over but none taken yet:
    then the model's view decides (and `delAlts` lists both readings) -/
def inProgress (s : St) (modelCtx : Bool) : Bool :=
  if s.sbytes.isEmpty then false
  else if s.cur.isEmpty then (match s.codec with | .cobs _ => modelCtx | .command => false)
  else true

/-- S for a deletion of `k` messages: a message in progress counts as the first one.  Whether the encoder
    has seen a message in progress is determined by the script (bytes handed over since the last finished
    frame) except when none of them has been taken yet: then both readings are listed. -/
def delAlts (s : St) (k : Nat) (okText : List Byte → String) : String × List (List Byte) :=
  let one (j : Nat) : String × List (List Byte) := match specDel j s.wire with
    | some w => (okText w, [w])
    | none => ("refused ; *", [])
  if k = 0 then ("refused ; *", [])
  else if s.sbytes.isEmpty then one k
  else
    let a := one (k - 1)
    if s.cur.isEmpty then let b := one k; (a.1 ++ " || " ++ b.1, a.2 ++ b.2) else a

/-- frame of the message in progress: the script's bytes; cuts (ZPE only) where the model's calls ended -/
def curMarks (s : St) : List (Byte × Bool) := s.cur ++ markChunk s.pending

/-- S for a termination: the finished frames plus the frame of the current message; refusal is allowed
    exactly when the window cannot hold the frame; `pending` = the script terminates although a part of
    the last push has not been taken (harness convention: nothing is encoded then) -/
def termAlts (s : St) (cap : Option Nat) : String × List Byte :=
  match specFrame s.codec (curMarks s) with
  | some f =>
    let w := s.wire ++ f
    match cap with
    | some n => if w.length ≤ n then (s!"ok ; {toHex w} || pending ; *", w) else ("refused ; * || pending ; *", w)
    | none => (s!"ok ret=0 ; {toHex w}", w)
  | none => ("refused ; * || pending ; *", s.wire)

/-- one encoder data call with everything not yet taken (`pending`) plus the new bytes -/
def doPush (s : St) (new : List Byte) : St × String :=
  let bytes := s.pending ++ new
  let alts := pushAlts s.codec bytes
  let s := { s with sbytes := s.sbytes ++ new }
  match encode s.codec s.est s.win (some bytes) with
  | .ok o =>
    let s' := { s with est := o.st, win := o.win, pending := bytes.drop o.ret,
                       cur := s.cur ++ markChunk (bytes.take o.ret) }
    (s', encLine s!"ok n={o.ret}" o.st o.win (toString o.ret) alts)
  | x => ({ s with pending := bytes }, encLine "refused n=0" s.est s.win (resName x) alts)

/-- "<align>:<hex>" -/
def parseSeg (w : String) : Option Seg :=
  match w.splitOn ":" with
  | [a, h] =>
    match a.toNat?, parseHex h with
    | some a, some b => if a ≤ 15 then some (a, b) else none
    | _, _ => none
  | _ => none

def parseSegs : List String → Option (List Seg)
  | [] => some []
  | w :: ws => do
    let s ← parseSeg w
    let r ← parseSegs ws
    pure (s :: r)

/-- put the first bytes of `bytes` back into the segment structure -/
def resplit : List Seg → List Byte → List Seg
  | [], _ => []
  | (a, bs) :: rest, bytes =>
    (a, bytes.take bs.length ++ bs.drop bytes.length) :: resplit rest (bytes.drop bs.length)

def retName : DecRet → String
  | .val n => toString n | .err e => e.name | .oob => "OOB" | .clobber => "CLOBBER"

def decLine (s : St) (ret : DecRet) (call : Bool) (alts : String) : String :=
  let st := s.dst
  let store := flat s.segs
  let total := s.orig.length
  let unread := ((List.range (total - st.curr)).all fun i => store[st.curr + i]? == s.orig[st.curr + i]?)
  let msg := match ret, st.msg with
    | .val 1, some m => if call ∧ st.pos + m ≤ total then s!" msg={toHex ((store.drop st.pos).take m)}" else ""
    | _, _ => ""
  let part := if st.pos + st.len ≤ total ∧ st.len ≠ 0 then toHex ((store.drop st.pos).take st.len) else "-"
  let m := match st.msg with | some m => toString m | none => "-1"
  let segsHex := if s.segs.isEmpty then "-" else ",".intercalate (s.segs.map fun x => toHex x.2)
  s!"R ret={retName ret}{msg} guards=ok unread={if unread then "ok" else "bad"} | C data={st.pos},{st.len},{m} part={part} | I ctx={st.ctx % 256},{st.ctx / 256} curr={st.curr} store={segsHex} | S {alts}"

/-- the frame starting at `fstart` in the supplied bytes, if its delimiter has arrived -/
def frameAt (orig : List Byte) (fstart : Nat) : Option (List Byte) :=
  let rest := orig.drop fstart
  match rest.findIdx? (· == 0) with
  | some z => some (rest.take (z + 1))
  | none => none

/-- S for a decoder call, judged on the concatenation of all segments supplied so far (the property says
    "in any segmentation"): with the frame at the input position complete,
      * well-formed (reference decoder accepts): the call must deliver exactly the reference message; the only
        other outcome is MissingBuffer where the framing may need more work area than the input provides
        (ZPE zero pairs, command header) — in particular not 0 ("need more data") and no other message;
      * malformed (reference decoder rejects): an error, never a message, never 0;
    with the frame still incomplete: 0 or an error, never a message.  Peek mode never has to deliver. -/
def decAlts (s : St) (peek : Bool) : String :=
  let safe := "guards=ok unread=ok"
  let errs (names : List String) := names.map fun r => s!"ret={r} {safe} ; *"
  let allErrs := ["BadArgument", "BadValue", "BadOperation", "MissingData", "MissingBuffer"]
  let quiet := errs ("0" :: allErrs)
  match s.fstart with
  | none => "* ; *"
  | some f =>
    let alts : List String :=
      match frameAt s.orig f with
      | none => quiet
      | some frame =>
        if peek then
          match s.codec with
          | .command => (if (decCmd frame).isSome then [s!"ret=1 {safe} ; *"] else []) ++ quiet
          | .cobs _ => quiet
        else
          match s.codec with
          | .cobs v => match dec v frame with
            | some m => s!"ret=1 msg={toHex m} {safe} ; *" :: (if v.isZpe then errs ["MissingBuffer"] else [])
            | none => errs allErrs
          | .command => match decCmd frame with
            | some m => s!"ret=1 msg={toHex m} {safe} ; *" :: errs ["MissingBuffer"]
            | none => errs allErrs
    " || ".intercalate alts

def runDecoder (c : Codec) (st : DecState) (segs : List Seg) (peek : Bool) : DecOut :=
  match c with
  | .cobs v => decodeV v st segs peek
  | .command => decodeCommand st segs peek

/-- frames (each up to its delimiter) of finished data -/
def splitFrames (w : List Byte) : List (List Byte) :=
  (w.foldl (fun (acc : List (List Byte) × List Byte) b =>
    if b = 0 then (acc.1 ++ [acc.2 ++ [0]], []) else (acc.1, acc.2 ++ [b])) ([], [])).1

/-- `frames=<complete frames> msgs=<their decodings>` of bytes handed out by `data()`, and the rest -/
def dataText (c : Codec) (d : List Byte) : String × List Byte :=
  let fs := splitFrames d
  let complete := fs.flatten
  let msgs := fs.map fun f => match specDecode c f with
    | "err" => "err"
    | t => (t.drop 4).toString
  (s!"frames={toHex complete} msgs={if fs.isEmpty then "-" else ",".intercalate msgs}", d.drop complete.length)

def xaLine (a : EncArray) (r c alts : String) : String :=
  s!"R {r} | C {c} | I done={a.st.done} scratch={a.st.scratch} used={a.used} | S {alts}"

def errName (r : Int) : String :=
  if r = -1 then "BadArgument" else if r = -2 then "BadValue" else if r = -3 then "BadType"
  else if r = -4 then "BadOperation" else if r = -8 then "BadEncoding" else if r = -16 then "MissingData"
  else if r = -17 then "MissingBuffer" else "ERR?"

/-- ops on the C++ wrapper `mpt::encode_array` (second driver part, harness/drvxx_codec.cpp) -/
def xaStep (s : St) (w : List String) : St × String :=
  let marksOf (cons : List Nat) (bytes : List Byte) : List (Byte × Bool) :=
    (cons.foldl (fun (acc : List (Byte × Bool) × List Byte) k =>
      (acc.1 ++ markChunk (acc.2.take k), acc.2.drop k)) ([], bytes)).1
  let openAlts (bytes : List Byte) (okText : String) : String :=
    match s.codec, bytes.contains 0 with
    | .command, true => "* ; * || * ; *"
    | .cobs v, true => if v.isZpe then "* ; * || * ; *" else okText
    | _, _ => okText
  match w with
  | ["new", name] =>
    match Codec.ofName name with
    | some c => let s' : St := { codec := c }; (s', xaLine s'.arr "ok" "-" "ok ; *")
    | none => (s, "bad-op")
  | ["push", dat] =>
    match parseHex dat with
    | some bytes =>
      if bytes.isEmpty then (s, "bad-op") else
      let alts := openAlts bytes s!"ok ret={bytes.length} ; *"
      match arrayPush s.codec mallocFill s.arr (some bytes) with
      | .ok (a, ret, cons) =>
        let taken := cons.foldl (· + ·) 0
        let s' := { s with arr := a, cur := s.cur ++ marksOf cons bytes, sbytes := s.sbytes ++ bytes.take taken }
        (s', xaLine a (if ret < 0 then s!"refused ret={errName ret}" else s!"ok ret={ret}") "-" alts)
      | x => (s, xaLine s.arr s!"refused ret={resName x}" "-" alts)
    | none => (s, "bad-op")
  | ["term"] =>
    let (_, wr) := termAlts s none
    let sp := { s with wire := wr, cur := [], sbytes := [] }
    match arrayPush s.codec mallocFill s.arr none with
    | .ok (a, ret, _) =>
      ({ sp with arr := a }, xaLine a (if ret < 0 then s!"refused ret={errName ret}" else s!"ok ret={ret}") "-" "ok ret=0 ; *")
    | x => (sp, xaLine s.arr s!"refused ret={resName x}" "-" "ok ret=0 ; *")
  | ["msg", frs] =>
    match ((frs.splitOn ",").map parseHex).foldr (fun x acc => match x, acc with
        | some b, some l => some (b :: l) | _, _ => none) (some []) with
    | some frags =>
      if frags.isEmpty ∨ frags.length > 17 then (s, "bad-op") else
      let all := frags.flatten
      let alts := openAlts all "ok ; *"
      match xaPushMsg s.codec mallocFill s.arr frags [] with
      | .ok (a, ok, cons) =>
        let taken := cons.foldl (· + ·) 0
        let s' := { s with arr := a, cur := s.cur ++ marksOf cons all, sbytes := s.sbytes ++ all.take taken }
        (s', xaLine a (if ok then "ok" else "refused") "-" alts)
      | x => (s, xaLine s.arr s!"refused:{resName x}" "-" alts)
    | none => (s, "bad-op")
  | ["data"] =>
    let (r, rest) := dataText s.codec (xaData s.arr)
    let (sr, _) := dataText s.codec (s.wire.drop s.xshift)
    (s, xaLine s.arr r s!"rest={toHex rest}" s!"{sr} ; *")
  | ["shift", nn] =>
    match nn.toNat? with
    | some n =>
      let avail := (s.wire.drop s.xshift).length
      let alts := if n = 0 then "* ; *" else if n ≤ avail then "ok ; *" else "* ; * || * ; *"
      match xaShift s.arr n with
      | some a => ({ s with arr := a, xshift := if n ≤ avail then s.xshift + n else s.xshift }, xaLine a "ok" "-" alts)
      | none => ({ s with xshift := if n ≠ 0 ∧ n ≤ avail then s.xshift + n else s.xshift }, xaLine s.arr "refused" "-" alts)
    | none => (s, "bad-op")
  | ["prepare", nn] =>
    match nn.toNat? with
    | some _ => (s, xaLine s.arr "refused" "-" "refused ; *")     -- only raw arrays can be prepared
    | none => (s, "bad-op")
  | _ => (s, "bad-op")

/-- one `mpt_array_push` data call; `failAt` = index of the allocation refused inside it (0 = none); `isNew` = the
    bytes come from the script now (else: the pending rest of an earlier push).  What was not taken stays pending
    for `apush more`, so the message is what the script handed over, however much each call took; only where the
    frame or the admission depends on it (ZPE data with a zero, command text with a zero) the outcomes are listed. -/
def apushData (s : St) (bytes : List Byte) (failAt : Nat) (isNew : Bool) : St × String :=
  let drvErr (r : Int) : String := errName r
  let res := if failAt = 0 then arrayPush s.codec mallocFill s.arr (some bytes)
             else arrayPushF s.codec mallocFill failAt s.arr (some bytes)
  let zero := bytes.contains 0
  let refuse := match s.codec with | .command => zero | _ => false
  let alts := match s.codec with
    | .command => if zero then (if failAt = 0 then "refused ret=BadEncoding ; *" else "* ; * || * ; *") else "* ; *"
    | .cobs v => if v.isZpe ∧ zero then "* ; * || * ; *" else "* ; *"
  let s := if isNew ∧ !refuse then { s with sbytes := s.sbytes ++ bytes } else s
  match res with
  | .ok (a, ret, cons) =>
    let buf := a.buf.getD []
    let taken := cons.foldl (· + ·) 0
    -- marks: one piece per encoder call
    let marks := (cons.foldl (fun (acc : List (Byte × Bool) × List Byte) k =>
      (acc.1 ++ markChunk (acc.2.take k), acc.2.drop k)) ([], bytes)).1
    let s' := { s with arr := a, cur := s.cur ++ marks, pending := if refuse then [] else bytes.drop taken }
    let r := if ret < 0 then s!"refused ret={drvErr ret}" else s!"ok ret={ret}"
    (s', s!"R {r} | C {toHex (buf.take a.st.done)} | I used={a.used} scratch={a.st.scratch} cap={buf.length} taken={taken} | S {alts}")
  | x => ({ s with pending := if refuse then [] else bytes }, s!"R refused ret={resName x} | C - | I - | S {alts}")

def step (s : St) (w : List String) : St × String :=
  match w with
  | "dec" :: "new" :: name :: segw =>
    match Codec.ofName name, parseSegs segw with
    | some c, some segs =>
      if segs.length > 8 then (s, "bad-op") else
      let s' : St := { codec := c, segs := segs, orig := flat segs, fstart := some 0, decReady := true }
      (s', decLine s' (.val 0) false "* ; *")
    | _, _ => (s, "bad-op")
  | ["dec", "state", c, cu, p, l, m] =>
    if !s.decReady then (s, "bad-op") else
    match c.toNat?, cu.toNat?, p.toNat?, l.toNat?, m.toInt? with
    | some c, some cu, some p, some l, some m =>
      if m < -1 then (s, "bad-op") else
      let msg := if m < 0 then none else some m.toNat
      -- the spec follows the frames only from a fresh state (optionally with head room `curr`)
      let fresh := c = 0 ∧ p = 0 ∧ l = 0 ∧ msg.isNone ∧ s.fstart = some 0 ∧ s.dst = {}
      let s' := { s with dst := { ctx := c, curr := cu, pos := p, len := l, msg := msg },
                         fstart := if fresh then some cu else none }
      (s', decLine s' (.val 0) false "* ; *")
    | _, _, _, _, _ => (s, "bad-op")
  | ["dec", "append", dat] =>
    match parseHex dat, s.segs.getLast? with
    | some b, some last =>
      let s' := { s with segs := s.segs.dropLast ++ [(last.1, last.2 ++ b)], orig := s.orig ++ b }
      (s', decLine s' (.val 0) false "* ; *")
    | _, _ => (s, "bad-op")
  | ["dec", "seg", sw] =>
    match parseSeg sw with
    | some sg =>
      if s.segs.length ≥ 8 then (s, "bad-op") else
      let s' := { s with segs := s.segs ++ [sg], orig := s.orig ++ sg.2 }
      (s', decLine s' (.val 0) false "* ; *")
    | none => (s, "bad-op")
  | ["dec", op] =>
    if (op ≠ "run" ∧ op ≠ "peek") ∨ s.segs.isEmpty then (s, "bad-op") else
    let peek := op = "peek"
    let alts := decAlts s peek
    let o := runDecoder s.codec s.dst s.segs peek
    let fstart := match s.fstart, o.ret with
      | some _, .val 1 => if peek then s.fstart else some o.st.curr
      | some f, .err .BadValue => some (f + 1)
      | x, _ => x
    let s' := { s with dst := o.st, segs := resplit s.segs o.store, fstart := fstart }
    (s', decLine s' o.ret true alts)
  | ["dec", "size", n] =>
    if !s.decReady then (s, "bad-op") else
    match n.toNat?, s.codec with
    | some n, .cobs v =>
      let (r, st) := decodeQuery v s.dst n
      -- a reset forgets the frame in progress: the framing starts again at the input position (where the spec
      -- followed the frames so far)
      let s' := { s with dst := st, fstart := if n = 0 then s.fstart.map (fun _ => st.curr) else s.fstart }
      (s', decLine s' r false "* ; *")
    | some _, .command =>
      let s' := { s with dst := {}, fstart := none }
      (s', decLine s' (.val 0) false "* ; *")
    | none, _ => (s, "bad-op")
  | ["enc", "new", name, cap] =>
    match Codec.ofName name, cap.toNat? with
    | some c, some n =>
      let s' : St := { codec := c, win := List.replicate n fillByte }
      (s', encLine "ok" s'.est s'.win "0" "ok ; -")
    | _, _ => (s, "bad-op")
  | ["enc", "cap", cap] =>
    match cap.toNat? with
    | some n =>
      let win := s.win.take n ++ List.replicate (n - s.win.length) fillByte
      let s' := { s with win := win }
      (s', encLine "ok" s'.est s'.win "0" "ok ; *")
    | none => (s, "bad-op")
  | ["enc", "push", dat] =>
    match parseHex dat with
    | some bytes => doPush s bytes
    | none => (s, "bad-op")
  | ["enc", "more"] =>
    if s.pending.isEmpty then (s, encLine "idle" s.est s.win "0" "* ; *")
    else doPush s []
  | ["enc", "term"] =>
    let (alts, w) := termAlts s (some s.win.length)
    if !s.pending.isEmpty then (s, encLine "pending" s.est s.win "0" alts) else
    match encode s.codec s.est s.win none with
    | .ok o =>
      let s' := { s with est := o.st, win := o.win, pending := [], wire := w, cur := [], sbytes := [],
                         lastStart := s.lastEnd, lastEnd := o.st.done, haveFrame := true, lastMsg := s.sbytes }
      (s', encLine "ok" o.st o.win (toString o.ret) alts)
    | x => (s, encLine "refused" s.est s.win (resName x) alts)
  | ["enc", "del", kk] =>
    match kk.toNat? with
    | some k =>
      let (alts, _) := delAlts s k fun w => s!"ok ; {toHex w}"
      match encodeDel s.codec s.est s.win k with
      | .ok o =>
        let s' := { s with est := o.st, win := o.win, pending := [], cur := [], sbytes := [],
                           wire := ((specDel (if inProgress s (s.est.ctx ≠ 0) then k - 1 else k) s.wire).getD s.wire),
                           haveFrame := false, lastEnd := o.st.done }
        (s', encLine "ok" o.st o.win (toString o.ret) alts)
      | x => ({ s with pending := [] }, encLine "refused" s.est s.win (resName x) alts)
    | none => (s, "bad-op")
  | ["enc", "nullwin", what] =>
    -- the encoder is called with iov_base = NULL, iov_len = 0: nothing can be stored
    let src : Option (Option (List Byte)) := if what = "term" then some none else (parseHex what).map some
    match src with
    | some src =>
      -- a window that holds nothing cannot belong to an encoder state that has data in it (finished frames or
      -- an open message, known from the script): that is an inconsistency (BadArgument), not a request for
      -- space — a caller that grants space on MissingBuffer and calls again would continue the frame in a window
      -- that lacks its beginning.  With nothing encoded yet both refusals are acceptable.
      let used := !s.wire.isEmpty ∨ !s.cur.isEmpty ∨ !s.sbytes.isEmpty
      let alts := if used then "refused ret=BadArgument ; *"
        else "refused ret=MissingBuffer ; * || refused ret=BadArgument ; *"
      let rn := resName (encodeNull s.codec s.est src)
      (s, encLine s!"refused ret={rn}" s.est s.win rn alts)
    | none => (s, "bad-op")
  | ["enc", "check"] =>
    -- decode the last finished frame (model window content) with the reference decoder
    if !s.haveFrame then (s, "R none | C - | I - | S none ; *") else
    let frame := (s.win.take s.lastEnd).drop s.lastStart
    let expect := match s.codec with
      | .cobs _ => s!"msg={toHex s.lastMsg}"
      | .command => s!"msg={toHex (cmdHeader ++ s.lastMsg)}"
    (s, s!"R {specDecode s.codec frame} | C {toHex frame} | I - | S {expect} ; *")
  | ["apush", "new", name] =>
    match Codec.ofName name with
    | some c =>
      let s' : St := { codec := c }
      (s', s!"R ok ret=0 | C - | I used=0 scratch=0 cap=0 | S ok ret=0 ; -")
    | none => (s, "bad-op")
  | ["apush", "push", dat] =>
    match parseHex dat with
    | some bytes => if bytes.isEmpty then (s, "bad-op") else apushData s bytes 0 true
    | none => (s, "bad-op")
  | ["apush", "more"] =>
    if s.pending.isEmpty then (s, "R idle | C - | I - | S * ; *") else apushData s s.pending 0 false
  | ["apush", "failpush", kk, dat] =>
    -- the kk-th allocation inside this mpt_array_push call is refused
    match kk.toNat?, parseHex dat with
    | some k, some bytes => if bytes.isEmpty ∨ k = 0 then (s, "bad-op") else apushData s bytes k true
    | _, _ => (s, "bad-op")
  | ["apush", "failterm", kk] =>
    match kk.toNat? with
    | some k =>
      if k = 0 then (s, "bad-op") else
      -- a refused allocation may make the termination fail (nothing changes then) or not be needed at all
      let (alts, w) := termAlts s none
      let alts := alts ++ " || pending ; *"
      if !s.pending.isEmpty then (s, s!"R pending | C - | I - | S {alts}") else
      match arrayPushF s.codec mallocFill k s.arr none with
      | .ok (a, ret, _) =>
        let buf := a.buf.getD []
        let s' := if ret ≥ 0 then { s with arr := a, wire := w, cur := [], sbytes := [], haveFrame := true, lastMsg := s.sbytes,
                                           lastStart := s.lastEnd, lastEnd := a.st.done }
                  else { s with arr := a }
        let r := if ret < 0 then s!"refused ret={drvErr ret}" else s!"ok ret={ret}"
        (s', s!"R {r} | C {toHex (buf.take a.st.done)} | I used={a.used} scratch={a.st.scratch} cap={buf.length} taken=0 | S {alts} || refused ret=BadOperation ; * || refused ret=MissingBuffer ; *")
      | x => (s, s!"R refused ret={resName x} | C - | I - | S * ; * || * ; *")
    | none => (s, "bad-op")
  | ["apush", "term"] =>
    let (alts, w) := termAlts s none
    let alts := alts ++ " || pending ; *"
    if !s.pending.isEmpty then (s, s!"R pending | C - | I - | S {alts}") else
    -- the array provides the space: the spec demands success, so the spec state moves on whatever happened
    let sp := { s with wire := w, cur := [], sbytes := [], haveFrame := true, lastMsg := s.sbytes }
    match arrayPush s.codec mallocFill s.arr none with
    | .ok (a, ret, _) =>
      let buf := a.buf.getD []
      let s' := if ret ≥ 0 then { sp with arr := a, lastStart := s.lastEnd, lastEnd := a.st.done } else { sp with arr := a }
      let r := if ret < 0 then s!"refused ret={drvErr ret}" else s!"ok ret={ret}"
      (s', s!"R {r} | C {toHex (buf.take a.st.done)} | I used={a.used} scratch={a.st.scratch} cap={buf.length} taken=0 | S {alts}")
    | x => (sp, s!"R refused ret={resName x} | C - | I - | S {alts}")
  | ["apush", "del", kk] =>
    match kk.toNat? with
    | some 0 => (s, "bad-op")     -- `mpt_array_push(arr, 0, NULL)` is the termination
    | some k =>
      let (alts, _) := delAlts s k fun w => s!"ok ret={w.length} ; {toHex w}"
      match arrayDel s.codec mallocFill s.arr k with
      | .ok (a, ret) =>
        let buf := a.buf.getD []
        if ret < 0 then
          ({ s with arr := a }, s!"R refused ret={drvErr ret} | C {toHex (buf.take a.st.done)} | I used={a.used} scratch={a.st.scratch} cap={buf.length} taken=0 | S {alts.replace "refused ;" s!"refused ret={drvErr ret} ;"}")
        else
          let s' := { s with arr := a, cur := [], sbytes := [],
                             wire := ((specDel (if inProgress s (s.arr.st.ctx ≠ 0) then k - 1 else k) s.wire).getD s.wire),
                             haveFrame := false, lastEnd := a.st.done }
          (s', s!"R ok ret={ret} | C {toHex (buf.take a.st.done)} | I used={a.used} scratch={a.st.scratch} cap={buf.length} taken=0 | S {alts}")
      | x => (s, s!"R refused ret={resName x} | C - | I - | S {alts}")
    | none => (s, "bad-op")
  | ["apush", "check"] =>
    if !s.haveFrame then (s, "R none | C - | I - | S none ; *") else
    let buf := s.arr.buf.getD []
    let frame := (buf.take s.lastEnd).drop s.lastStart
    let expect := match s.codec with
      | .cobs _ => s!"msg={toHex s.lastMsg}"
      | .command => s!"msg={toHex (cmdHeader ++ s.lastMsg)}"
    (s, s!"R {specDecode s.codec frame} | C {toHex frame} | I - | S {expect} ; *")
  | ["py", msg, frame] =>
    -- `frame` is what /repo/mpt.py:encode_cobs returned for `msg` (run by vlib/props/c01.py);
    -- the C driver echoes it and decodes it with the real mpt_decode_cobs
    match parseHex msg, parseHex frame with
    | some m, some _ =>
      let f := pyEnc m
      (s, s!"R frame={toHex f} {specDecode (.cobs .cobs) f} | C - | I - | S frame={toHex (enc .cobs m)} msg={toHex m} ; *")
    | _, _ => (s, "bad-op")
  | "xa" :: rest => xaStep s rest
  | ["lookup", what, arg] =>
    -- S: the framing the coding number stands for (convert.h), the same on the encoder and the decoder side
    let specOf (n : Nat) : String := if n = 1 then "command" else ((Variant.ofCoding n).map Variant.name).getD "none"
    let nameOf (c : Option Codec) : String := (c.map Codec.name).getD "none"
    match what, arg.toNat? with
    | "enc", some n =>
      (s, s!"R fn={nameOf (encoderOf n)} | C - | I - | S {if n < 128 then s!"fn={specOf n} ; *" else "* ; *"}")
    | "dec", some n =>
      (s, s!"R fn={nameOf (decoderOf n)} | C - | I - | S {if n < 128 then s!"fn={specOf n} ; *" else "* ; *"}")
    | "type", some n =>
      -- the name reported for a coding number must stand for that number
      let nm := (encodingType n).map fun cs => String.ofList (cs.map Char.ofNat)
      let alt := if n < 128 ∧ specOf n ≠ "none" then s!"name={specOf n} ; *" else "* ; *"
      (s, s!"R name={nm.getD "null"} | C - | I - | S {alt}")
    | "name", _ =>
      match parseHex arg with
      | some bs =>
        let text := String.ofList (bs.map fun b => Char.ofNat b.toNat)
        let v := encodingValue (bs.map (·.toNat))
        let spec : Option Nat := if text = "command" then some 1 else (Variant.ofName text).map Variant.coding
        (s, s!"R val={v} | C - | I - | S {match spec with | some n => s!"val={n} ; *" | none => "* ; *"}")
      | none => (s, "bad-op")
    | _, _ => (s, "bad-op")
  | ["pycmd", msg, out] =>
    -- `out` is what /repo/mpt.py:encode_command returned for `msg` ("raise" = ValueError); the C driver
    -- echoes it and decodes a returned frame with the real mpt_decode_command
    match parseHex msg with
    | some m =>
      if out ≠ "raise" ∧ (parseHex out).isNone then (s, "bad-op") else
      let fmt (r : Option (List Byte)) : String := match r with
        | some f => s!"out={toHex f} {specDecode .command f}"
        | none => "out=raise"
      (s, s!"R {fmt (pyCmd m)} | C - | I - | S {fmt (encStr m)} ; *")
    | none => (s, "bad-op")
  | _ => (s, "bad-op")
where
  drvErr (r : Int) : String :=
    if r = -1 then "BadArgument" else if r = -2 then "BadValue" else if r = -3 then "BadType"
    else if r = -4 then "BadOperation" else if r = -8 then "BadEncoding" else if r = -16 then "MissingData"
    else if r = -17 then "MissingBuffer" else "ERR?"

def main (_args : List String) : IO Unit := do
  Driver.loop (← IO.getStdin) (← IO.getStdout) step ({} : St)

end Driver.Codec
