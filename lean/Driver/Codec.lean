import MptModel.Impl.Encode
import MptModel.Spec.Cobs
import Driver.Util
namespace Driver.Codec
open Mpt Mpt.Cobs Mpt.Codec

/-- driver state: implementation model and spec bookkeeping side by side -/
structure St where
  codec : Codec := .cobs .cobs
  -- M: direct encoder calls on a caller-granted window
  est : EncState := {}
  win : List Byte := []
  pending : List Byte := []            -- unconsumed rest of the last push
  -- M: mpt_array_push
  arr : EncArray := {}
  -- S: frames finished so far, marked bytes of the message in progress, start of the last frame
  wire : List Byte := []
  cur : List (Byte × Bool) := []
  lastStart : Nat := 0
  lastEnd : Nat := 0
  haveFrame : Bool := false
  lastMsg : List Byte := []
  deriving Inhabited

def fillByte : Byte := 0xEE     -- new window bytes (the C driver memsets them)
def mallocFill : Byte := 0xBE   -- ASAN malloc_fill_byte of vlib/run.py

def resName {α} : CRes α → String
  | .ok _ => "ok" | .err e => e.name | .oob => "OOB" | .unmodelled => "UNMODELLED"

def fmtEncI (ret : String) (st : EncState) (win : List Byte) : String :=
  s!"ret={ret} done={st.done} scratch={st.scratch} ctx={st.ctx} cap={win.length} open={toHex ((win.drop st.done).take st.scratch)}"

def encLine (r : String) (st : EncState) (win : List Byte) (ret : String) (s : String) : String :=
  s!"R {r} | C {toHex (win.take st.done)} | I {fmtEncI ret st win} | S {s}"

/-- spec frame of the message in progress -/
def specFrame (c : Codec) (cur : List (Byte × Bool)) : Option (List Byte) :=
  match c with
  | .cobs v => some (encB v [] false cur ++ [0])
  | .command => encStr (cur.map Prod.fst)

/-- reference decoding of a frame, as the `msg=` text of a check op -/
def specDecode (c : Codec) (frame : List Byte) : String :=
  match c with
  | .cobs v => match dec v frame with
    | some m => s!"msg={toHex m}"
    | none => "err"
  | .command => match decCmd frame with
    | some m => s!"msg={toHex m}"
    | none => "err"

def markChunk (bytes : List Byte) : List (Byte × Bool) :=
  (bytes.dropLast.map fun b => (b, false)) ++ (bytes.getLast?.toList.map fun b => (b, true))

/-- S for a push of `bytes`: the COBS framings admit everything; command text must not accept a zero -/
def pushAlts (c : Codec) (bytes : List Byte) : String :=
  match c with
  | .cobs _ => "* ; *"
  | .command =>
    match bytes.findIdx? (· == 0) with
    | none => "* ; *"
    | some z => " || ".intercalate ("refused n=0 ; *" :: (List.range (min z 64)).map fun k => s!"ok n={k + 1} ; *")

/-- S for a termination: the finished frames plus the frame of the current message; refusal is
    allowed exactly when the window cannot hold the frame -/
def termAlts (s : St) (cap : Option Nat) : String × List Byte :=
  match specFrame s.codec s.cur with
  | some f =>
    let w := s.wire ++ f
    match cap with
    | some n => if w.length ≤ n then (s!"ok ; {toHex w}", w) else ("refused ; *", w)
    | none => (s!"ok ; {toHex w}", w)
  | none => ("refused ; *", s.wire)

def doPush (s : St) (bytes : List Byte) : St × String :=
  let alts := pushAlts s.codec bytes
  match encode s.codec s.est s.win (some bytes) with
  | .ok o =>
    let s' := { s with est := o.st, win := o.win, pending := bytes.drop o.ret,
                       cur := s.cur ++ markChunk (bytes.take o.ret) }
    (s', encLine s!"ok n={o.ret}" o.st o.win (toString o.ret) alts)
  | x => ({ s with pending := bytes }, encLine "refused n=0" s.est s.win (resName x) alts)

def step (s : St) (w : List String) : St × String :=
  match w with
  | ["enc", "new", name, cap] =>
    match Codec.ofName name, cap.toNat? with
    | some c, some n =>
      let s' : St := { codec := c, win := List.replicate n fillByte }
      (s', encLine "ok" s'.est s'.win "0" "ok ; -")
    | _, _ => (s, "bad-op")
  | ["enc", "cap", cap] =>
    match cap.toNat? with
    | some n =>
      let win := s.win.take n ++ List.replicate (n - s.win.length) fillByte
      let s' := { s with win := win }
      (s', encLine "ok" s'.est s'.win "0" "ok ; *")
    | none => (s, "bad-op")
  | ["enc", "push", dat] =>
    match parseHex dat with
    | some bytes => doPush s bytes
    | none => (s, "bad-op")
  | ["enc", "more"] =>
    if s.pending.isEmpty then (s, encLine "idle" s.est s.win "0" "* ; *")
    else doPush s s.pending
  | ["enc", "term"] =>
    let (alts, w) := termAlts s (some s.win.length)
    match encode s.codec s.est s.win none with
    | .ok o =>
      let s' := { s with est := o.st, win := o.win, pending := [], wire := w, cur := [],
                         lastStart := s.lastEnd, lastEnd := o.st.done, haveFrame := true, lastMsg := s.cur.map Prod.fst }
      (s', encLine "ok" o.st o.win (toString o.ret) alts)
    | x => (s, encLine "refused" s.est s.win (resName x) alts)
  | ["enc", "check"] =>
    -- decode the last finished frame (model window content) with the reference decoder
    if !s.haveFrame then (s, "R none | C - | I - | S none ; *") else
    let frame := (s.win.take s.lastEnd).drop s.lastStart
    let expect := match s.codec with
      | .cobs _ => s!"msg={toHex s.lastMsg}"
      | .command => s!"msg={toHex (cmdHeader ++ s.lastMsg)}"
    (s, s!"R {specDecode s.codec frame} | C {toHex frame} | I - | S {expect} ; *")
  | ["apush", "new", name] =>
    match Codec.ofName name with
    | some c =>
      let s' : St := { codec := c }
      (s', s!"R ok ret=0 | C - | I used=0 scratch=0 cap=0 | S ok ret=0 ; -")
    | none => (s, "bad-op")
  | ["apush", "push", dat] =>
    match parseHex dat with
    | some bytes =>
      if bytes.isEmpty then (s, "bad-op") else
      let alts := match pushAlts s.codec bytes with
        | "* ; *" => "* ; *"
        | _ => "refused ret=BadEncoding ; *"
      match arrayPush s.codec mallocFill s.arr (some bytes) with
      | .ok (a, ret, cons) =>
        let buf := a.buf.getD []
        let taken := cons.foldl (· + ·) 0
        -- marks: one piece per encoder call
        let marks := (cons.foldl (fun (acc : List (Byte × Bool) × List Byte) k =>
          (acc.1 ++ markChunk (acc.2.take k), acc.2.drop k)) ([], bytes)).1
        let s' := { s with arr := a, cur := s.cur ++ marks }
        let r := if ret < 0 then s!"refused ret={drvErr ret}" else s!"ok ret={ret}"
        (s', s!"R {r} | C {toHex (buf.take a.st.done)} | I used={a.used} scratch={a.st.scratch} cap={buf.length} taken={taken} | S {alts}")
      | x => (s, s!"R refused ret={resName x} | C - | I - | S {alts}")
    | none => (s, "bad-op")
  | ["apush", "term"] =>
    let (alts, w) := termAlts s none
    let alts := alts.replace "ok ;" "ok ret=0 ;"
    match arrayPush s.codec mallocFill s.arr none with
    | .ok (a, ret, _) =>
      let buf := a.buf.getD []
      let ok := ret ≥ 0
      let s' := if ok then { s with arr := a, wire := w, cur := [], lastStart := s.lastEnd, lastEnd := a.st.done, haveFrame := true, lastMsg := s.cur.map Prod.fst }
                else { s with arr := a }
      let r := if ret < 0 then s!"refused ret={drvErr ret}" else s!"ok ret={ret}"
      (s', s!"R {r} | C {toHex (buf.take a.st.done)} | I used={a.used} scratch={a.st.scratch} cap={buf.length} taken=0 | S {alts}")
    | x => (s, s!"R refused ret={resName x} | C - | I - | S {alts}")
  | ["apush", "check"] =>
    if !s.haveFrame then (s, "R none | C - | I - | S none ; *") else
    let buf := s.arr.buf.getD []
    let frame := (buf.take s.lastEnd).drop s.lastStart
    let expect := match s.codec with
      | .cobs _ => s!"msg={toHex s.lastMsg}"
      | .command => s!"msg={toHex (cmdHeader ++ s.lastMsg)}"
    (s, s!"R {specDecode s.codec frame} | C {toHex frame} | I - | S {expect} ; *")
  | ["py", msg, frame] =>
    -- `frame` is what /repo/mpt.py:encode_cobs returned for `msg` (run by vlib/props/c01.py);
    -- the C driver echoes it and decodes it with the real mpt_decode_cobs
    match parseHex msg, parseHex frame with
    | some m, some _ =>
      let f := pyEnc m
      (s, s!"R frame={toHex f} {specDecode (.cobs .cobs) f} | C - | I - | S frame={toHex (enc .cobs m)} msg={toHex m} ; *")
    | _, _ => (s, "bad-op")
  | _ => (s, "bad-op")
where
  drvErr (r : Int) : String :=
    if r = -1 then "BadArgument" else if r = -2 then "BadValue" else if r = -3 then "BadType"
    else if r = -4 then "BadOperation" else if r = -8 then "BadEncoding" else if r = -16 then "MissingData"
    else if r = -17 then "MissingBuffer" else "ERR?"

def main (_args : List String) : IO Unit := do
  Driver.loop (← IO.getStdin) (← IO.getStdout) step ({} : St)

end Driver.Codec
