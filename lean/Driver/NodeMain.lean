import Driver.Node
def main (args : List String) : IO Unit := Driver.Node.main args
