import MptModel.Impl.Dispatch
import MptModel.Spec.Dispatch
import Driver.Util
namespace Driver.Event
open Mpt Mpt.Dispatch

/-- model state and spec (monitor) state, run side by side -/
structure DSt where
  active : Bool := false
  m : St := St.init .nofb
  sp : Spec := Spec.init .nofb
  deriving Inhabited

/-- strict decimal: digits only, no leading zero, no sign -/
def parseDec (s : String) : Option Nat :=
  let cs := s.toList
  if cs.isEmpty then none
  else if !cs.all (fun c => '0' ≤ c && c ≤ '9') then none
  else if cs.length > 1 && cs.head? == some '0' then none
  else some (cs.foldl (fun n c => n * 10 + (c.toNat - 48)) 0)

def parseId (s : String) : Option Id :=
  match parseDec s with
  | some n => if n < 2 ^ 64 then some (UInt64.ofNat n) else none
  | none => none

/-- `<int>` or `<int>z` within the range of C `int`; `-0` is not accepted -/
def parseRes (s : String) : Option HRes :=
  let cs := s.toList
  let (zero, cs) := if cs.getLast? == some 'z' then (true, cs.dropLast) else (false, cs)
  let (neg, ds) := match cs with
    | '-' :: rest => (true, rest)
    | _ => (false, cs)
  match parseDec (String.ofList ds) with
  | some n =>
    if neg then (if n = 0 ∨ n > 2147483648 then none else some ⟨-(n : Int), zero⟩)
    else (if n > 2147483647 then none else some ⟨(n : Int), zero⟩)
  | none => none

/-- stable insertion sort by key -/
def insertBy {α} (key : α → Nat) (x : α) : List α → List α
  | [] => [x]
  | y :: ys => if key x < key y then x :: y :: ys else y :: insertBy key x ys
def sortBy {α} (key : α → Nat) (l : List α) : List α := l.foldl (fun acc x => insertBy key x acc) []

def LogE.reg : LogE → Nat
  | .call r _ => r
  | .fin r => r
def fmtEntry : LogE → String
  | .call r id => s!"{r}:{id.toNat}"
  | .fin r => s!"{r}:F"
def fmtLog (l : List LogE) : String :=
  if l.isEmpty then "-" else ",".intercalate (l.map fmtEntry)

def isRegistering : Op → Bool
  | .set _ | .cset _ | .clear _ | .tcopy _ | .setDefault _ => true
  | _ => false

/-- the R section text of an outcome -/
def fmtR (op : Op) (out : Out) (fresh : Bool := true) : String :=
  let v := match out.ret, op with
    | .fault, _ => "FAULT"
    | .null, _ => "refused"
    | .val _, .reserve _ => s!"ok fresh={if fresh then 1 else 0}"
    | .val v, .clearAll => if v < 0 then "refused" else "ok"
    | .val v, .fini => if v < 0 then "refused" else "ok"
    | .val v, .drop => if v < 0 then "refused" else "ok"
    | .val v, .setError => if v < 0 then "refused" else "ok"
    | .val v, op => if isRegistering op then (if v < 0 then "refused" else "ok") else s!"ret={v}"
  s!"{v} log={fmtLog (sortBy LogE.reg out.log)}"

/-- the C section: live registrations in registration order, fallback, default id -/
def fmtC (live : List (Id × Reg)) (unknown : List Id) (fb : Option Reg) (dflt : Id) (bi : Bool := false)
    (newReg : Option Reg := none) : String :=
  -- the element reserved by the running op shows as `new>r`: which fresh id is handed out is free
  let items := (sortBy (·.2) live).map (fun p => if some p.2 == newReg then s!"new>{p.2}" else s!"{p.1.toNat}>{p.2}") ++ unknown.map (fun i => s!"{i.toNat}>?")
  let l := if items.isEmpty then "-" else ",".intercalate items
  let f := match fb with | some r => toString r | none => if bi then "builtin" else "-"
  s!"live={l} fb={f} def={dflt.toNat}"

def fmtCSpec (sp : Spec) (newReg : Option Reg := none) : String := fmtC sp.live [] sp.fb sp.dflt sp.bi newReg

def userLive (tab : Option Table) : List (Id × Reg) :=
  match tab with
  | none => []
  | some t => (t.slots.filter (fun s => s.cmd == some .user)).map fun s => (s.id, s.arg)
def otherLive (tab : Option Table) : List Id :=
  match tab with
  | none => []
  | some t => (t.slots.filter (fun s => s.cmd == some .logReply)).map (·.id)

def fmtCModel (m : St) (newReg : Option Reg := none) : String :=
  fmtC (userLive m.d.tab) (otherLive m.d.tab) m.d.err m.d.dflt m.d.bi newReg

def fmtSlot (s : Slot) : String :=
  match s.cmd with
  | none => s!"{s.id.toNat}:-"
  | some .user => s!"{s.id.toNat}:{s.arg}"
  | some .logReply => s!"{s.id.toNat}:?"

def fmtI (m : St) (ret : String) (evid : Id) (raw : List LogE) : String :=
  let (n, cap, typed, sl) := match m.d.tab with
    | none => (0, 0, 0, "-")
    | some t => (t.slots.length, t.cap, 1,
                 if t.slots.isEmpty then "-" else ",".intercalate (t.slots.map fmtSlot))
  s!"ret={ret} evid={evid.toNat} used={n} cap={cap} typed={typed} slots={sl} raw={fmtLog raw}"

def retText : Ret → String
  | .val v => toString v
  | .null => "null"
  | .fault => "FAULT"

def errCodes : List Int := [-1, -2, -3, -4, -8, -16, -17]

/-- outcomes worth offering to the monitor for this op (besides the model's own) -/
def candidates (sp : Spec) (op : Op) : List Out :=
  let refusals : List Out := errCodes.map fun e => ⟨.val e, []⟩
  let finsOf (id : Id) : List Out := match sp.lookup id with
    | some old => [⟨.val 0, [.fin old]⟩]
    | none => []
  let deliver (id : Id) (h : HRes) (msg : Option (List Byte) := none) : List Out :=
    (match sp.target id with
     | some r => [⟨.val (book sp.dflt id h).1, [.call r id]⟩]
     | none => if sp.bi then [⟨.val (book sp.dflt id (builtinAnswer id msg)).1, []⟩] else []) ++ refusals
  match op with
  | .set id | .cset id => [⟨.val 0, []⟩, ⟨.val (-1), []⟩] ++ finsOf id
  | .clear id => finsOf id ++ [⟨.val (-1), []⟩]
  | .clearAll => [⟨.val 0, sp.live.map (.fin ·.2)⟩]
  | .fini => [⟨.val 0, sp.liveRegs.map .fin⟩]
  | .emitId id h => deliver id h
  | .emitMsg msg h => match msg with
    | [] => refusals
    | b :: _ => deliver b.toUInt64 h (some msg)
  | .emitCmd msg h => match msg with
    | [] => refusals
    | b :: _ =>
      (match sp.target b.toUInt64 with
       | some r => (sp.hashOutcomes (some msg) h).map fun o =>
           ⟨.val (book sp.dflt o.2.2 ⟨o.2.1, false⟩).1, .call r b.toUInt64 :: o.1⟩
       | none => deliver b.toUInt64 h (some msg))
  | .emitNone h =>
    if sp.dflt = 0 then [⟨.val 0, []⟩]
    else deliver sp.dflt h ++ (match sp.fb with
      | some r => [⟨.val (book sp.dflt sp.dflt h).1, [.call r sp.dflt]⟩]
      | none => [])
  | .hash msg h =>
    (cmdIds msg).flatMap fun cid => match cid with
      | none => [⟨.val failDefault, []⟩]
      | some id => match sp.target id with
        | some r => [⟨.val h.val, [.call r id]⟩, ⟨.val failDefault, [.call r id]⟩]
        | none => [⟨.val failDefault, []⟩, ⟨.val (builtinAnswer id (some msg)).val, []⟩]
  | .hashFrag frags h =>
    (cmdIdsFrag frags).flatMap fun cid => match cid with
      | none => [⟨.val failDefault, []⟩]
      | some id => match sp.target id with
        | some r => [⟨.val h.val, [.call r id]⟩, ⟨.val failDefault, [.call r id]⟩]
        | none => [⟨.val failDefault, []⟩, ⟨.val (builtinAnswer id (some frags.flatten)).val, []⟩]
  | .hashNone => [⟨.val failDefault, []⟩]
  | .reserve _ => [⟨.null, []⟩]
  | .drop => [⟨.val 0, sp.live.map (.fin ·.2)⟩]
  | .tcopy _ => [⟨.val (-4), []⟩, ⟨.val 0, []⟩]
  | .setDefault _ => [⟨.val 1, []⟩, ⟨.val (-1), []⟩]
  | .setError => [⟨.val 0, match sp.fb with | some o => [.fin o] | none => []⟩]

/-- S section: every candidate the monitor accepts, as `R text ; C text` -/
def fmtS (sp : Spec) (op : Op) (mOut : Out) : String :=
  let cands := (mOut :: candidates sp op).eraseDups
  let ok := cands.filterMap fun o => (sp.step op o).map fun sp' =>
    match op, o.ret with
    -- which fresh id is handed out is free (shown as `new`); everything that was registered stays as it was
    | .reserve _, .val _ => s!"{fmtR op o} ; {fmtCSpec sp' (some sp.next)}"
    | _, _ => s!"{fmtR op o} ; {fmtCSpec sp'}"
  let ok := match op with
    | .reserve _ => ok ++ [s!"ok fresh=1 log=- ; {fmtCSpec { sp with live := sp.live ++ [(0, sp.next)] } (some sp.next)}"]
    | _ => ok
  if ok.isEmpty then "(none)" else " || ".intercalate ok.eraseDups

/-- spec state read off the model state (used to continue after a rejected outcome) -/
def resync (m : St) (sp : Spec) : Spec :=
  { sp with live := userLive m.d.tab, fb := m.d.err, bi := m.d.bi, dflt := m.d.dflt, next := m.next }

def runOp (s : DSt) (op : Op) (evid : Id := 0) : DSt × String :=
  let (m', out) := step s.m op
  let sline := fmtS s.sp op out
  let sp' := match s.sp.step op out with
    | some x => x
    | none => resync m' s.sp
  -- model-side observation for reserve: no other active element carries the id handed out
  let fresh := match op, out.ret with
    | .reserve _, .val v => ((userLive m'.d.tab).filter (fun p => p.1.toNat == v.toNat)).length ≤ 1
    | _, _ => true
  let newReg : Option Reg := match op, out.ret with
    | .reserve _, .val _ => some s.m.next
    | _, _ => none
  let line := s!"R {fmtR op out fresh} | C {fmtCModel m' newReg} | I {fmtI m' (retText out.ret) evid out.log} | S {sline}"
  ({ s with m := m', sp := sp' }, line)

/-- event id as left in the caller's event structure (internal) -/
def evidAfter (op : Op) (out : Out) (d : Disp) : Id :=
  let bi := d.bi
  let handled := bi && (match out.ret with | .val v => decide (0 ≤ v) | _ => false)
  match op, out.log with
  | .hash msg h, _ => (hashExec d (hashId msg) msg h).2
  | .hashFrag frags h, _ => (hashExec d (hashIdFrag frags) frags.flatten h).2
  | .emitCmd (b :: r) _, [] => if handled then (unknownEvent b.toUInt64 (some (b :: r))).2 else b.toUInt64
  | .emitCmd (b :: r) h, _ => (nestedCall d (some (b :: r)) h).2
  | .emitId id _, [] => if handled then (unknownEvent id none).2 else id
  | .emitMsg (b :: r) _, [] => if handled then (unknownEvent b.toUInt64 (some (b :: r))).2 else b.toUInt64
  | .emitId id h, [.call _ _] => if h.zero then 0 else id
  | .emitId id _, _ => id
  | .emitMsg (b :: _) h, [.call _ _] => if h.zero then 0 else b.toUInt64
  | .emitMsg (b :: _) _, _ => b.toUInt64
  | _, _ => 0

def parseOp (w : List String) : Option Op :=
  match w with
  | ["e", "set", id] => (parseId id).map .set
  | ["e", "cset", id] => (parseId id).map .cset
  | ["e", "clear", id] => (parseId id).map .clear
  | ["e", "clearall"] => some .clearAll
  | ["e", "emit", "id", id, r] => do
    let h ← parseRes r
    let i ← parseId id
    pure (.emitId i h)
  | ["e", "emit", "msg", hex, r] => do
    let h ← parseRes r
    let b ← parseHex hex
    pure (.emitMsg b h)
  | ["e", "emit", "cmd", hex, r] => do
    let h ← parseRes r
    let b ← parseHex hex
    pure (.emitCmd b h)
  | ["e", "hashf", frags, r] => do
    let h ← parseRes r
    let fs ← (frags.splitOn ",").mapM parseHex
    if fs.length > 16 then none else pure (.hashFrag fs h)
  | ["e", "emit", "none", r] => (parseRes r).map .emitNone
  | ["e", "hash", hex, r] => do
    let h ← parseRes r
    let b ← parseHex hex
    pure (.hash b h)
  | ["e", "reserve", n] => (parseId n).map fun v => .reserve v.toNat
  | ["e", "fini"] => some .fini
  | ["e", "drop"] => some .drop
  | ["e", "hashn"] => some .hashNone
  | ["e", "tcopy", r] => (parseDec r).bind fun n => if n ≤ 99999 then some (.tcopy n) else none
  | _ => none

def startOf (f : String) : Option Start :=
  if f = "fb" then some .fb else if f = "nofb" then some .nofb else if f = "builtin" then some .builtin else none

/-- is registration `r` held by a live table element? (operand check of `tcopy`) -/
def holdsReg (m : St) (r : Nat) : Bool := (userLive m.d.tab).any (·.2 == r)

def stepOp (s : DSt) (op : Op) : DSt × String :=
  -- registrations are limited in the harness
  if decide (s.m.next ≥ 4096) && (match op with | .set _ | .cset _ | .reserve _ | .setError => true | _ => false) then (s, "bad-op")
  else
    let out := (step s.m op).2
    runOp s op (evidAfter op out s.m.d)

/-- `k` calls of `mpt_command_reserve` whose elements keep the placeholder handler (the caller does not activate them);
    stops at the first refusal.  `commandReserve` on such tables is what `reserve_unique_any_table` is about. -/
def holdRun (d : Disp) (w : Nat) : Nat → List Id → Disp × List Id
  | 0, acc => (d, acc)
  | k + 1, acc =>
    match commandReserve d.tab w with
    | (tab', some idx) =>
      let id : Id := (((tab'.bind fun t => t.slots[idx]?).map (·.id)).getD 0)
      holdRun { d with tab := tab' } w k (acc ++ [id])
    | (tab', none) => ({ d with tab := tab' }, acc)

def stepLine (s : DSt) (w : List String) : DSt × String :=
  match w with
  | ["e", "new", f] =>
    match startOf f with
    | some st =>
      let m := St.init st
      let sp := Spec.init st
      ({ active := true, m := m, sp := sp },
       s!"R ok log=- | C {fmtCModel m} | I {fmtI m "0" 0 []} | S ok log=- ; {fmtCSpec sp}")
    | none => (s, "bad-op")
  | _ =>
    if !s.active then (s, "bad-op")
    else match w with
      | ["e", "reentry", mode, vw] =>
        -- handlers on a dispatcher of their own whose end-of-life call unregisters another id: whatever the order,
        -- every registration gets exactly one end-of-life call (the property itself; no model behind it)
        let vs := (vw.splitOn ",").mapM fun t => match t.toList with
          | [c] => if '0' ≤ c ∧ c ≤ '8' then some (c.toNat - 48) else none
          | _ => none
        let km : Option (Nat × Nat) :=
          if mode = "fini" ∨ mode = "clearall" ∨ mode = "drop" then some (0, 0)
          else match mode.toList with
            | ['c', 'l', 'e', 'a', 'r', c] => if '1' ≤ c ∧ c ≤ '8' then some (0, c.toNat - 48) else none
            | ['c', 's', 'e', 't', c] => if '1' ≤ c ∧ c ≤ '8' then some (1, c.toNat - 48) else none
            | _ => none
        match vs, km with
        | some v, some (extra, which) =>
          if v.isEmpty ∨ v.length > 8 ∨ v.any (· > v.length) ∨ which > v.length then (s, "bad-op")
          else
            let r := "eol=" ++ ",".intercalate (List.replicate (v.length + extra) "1")
            (s, s!"R {r} log=- | C {fmtCModel s.m} | I {fmtI s.m "0" 0 []} | S {r} log=- ; {fmtCSpec s.sp}")
        | _, _ => (s, "bad-op")
      | ["e", "fbreentry"] =>
        -- a fallback whose end-of-life call emits an unknown id: exactly one end-of-life call, no invocation after it
        (s, s!"R eol=1 after=0 log=- | C {fmtCModel s.m} | I {fmtI s.m "0" 0 []} | S eol=1 after=0 log=- ; {fmtCSpec s.sp}")
      | ["e", "stale", idw] =>
        -- message events are emitted in an event structure whose id field is already set: the first byte decides
        match parseId idw with
        | some _ => (s, s!"R ok log=- | C {fmtCModel s.m} | I {fmtI s.m "0" 0 []} | S ok log=- ; {fmtCSpec s.sp}")
        | none => (s, "bad-op")
      | ["e", "ctx"] =>
        -- the dispatcher gets a fallback reply context of its own: nothing the property speaks of changes
        (s, s!"R ok log=- | C {fmtCModel s.m} | I {fmtI s.m "0" 0 []} | S ok log=- ; {fmtCSpec s.sp}")
      | ["e", "rc", onoff] =>
        -- from now on the events carry (no longer carry) a reply context: nothing the property speaks of changes
        if onoff = "on" ∨ onoff = "off" then
          (s, s!"R ok log=- | C {fmtCModel s.m} | I {fmtI s.m "0" 0 []} | S ok log=- ; {fmtCSpec s.sp}")
        else (s, "bad-op")
      | ["e", "djb2", hex] =>
        -- `mpt_hash_djb2` with `len = -1` (C string) and with the byte count
        match parseHex hex with
        | some b =>
          let z := b.takeWhile (· != 0)
          (s, s!"R z={(mptHash z).toNat} n={(mptHash b).toNat} log=- | C {fmtCModel s.m} | I {fmtI s.m "0" 0 []} | S z={(hashDjb2 z).toNat} n={(hashDjb2 b).toNat} log=- ; {fmtCSpec s.sp}")
        | none => (s, "bad-op")
      | ["e", "holdemit", ww] =>
        -- known finding: an event reaches an outstanding reservation (`invoke .logReply` = undefined behaviour)
        match parseDec ww with
        | some wd =>
          if wd > 9 then (s, "bad-op")
          else match commandReserve s.m.d.tab wd with
            | (tab', some idx) =>
              let id : Id := (((tab'.bind fun t => t.slots[idx]?).map (·.id)).getD 0)
              let d1 : Disp := { s.m.d with tab := tab' }
              let r := dispatchEmit d1 (some ⟨id, none⟩) ⟨0, false⟩
              let m' : St := { s.m with d := r.1 }
              ({ s with m := m' }, s!"R {match r.2.ret with | .fault => "FAULT" | .val v => s!"ret={v}" | .null => "null"} log=- | C {fmtCModel m'} | I {fmtI m' "0" 0 []} | S * ; *")
            | (tab', none) =>
              let m' : St := { s.m with d := { s.m.d with tab := tab' } }
              ({ s with m := m' }, s!"R refused log=- | C {fmtCModel m'} | I {fmtI m' "null" 0 []} | S refused log=- ; {fmtCSpec s.sp}")
        | none => (s, "bad-op")
      | ["e", "hold", ww, kw] =>
        match parseDec ww, parseDec kw with
        | some wd, some k =>
          if k > 300 ∨ wd > 9 then (s, "bad-op")
          else
            let (d1, ids) := holdRun s.m.d wd k []
            let fresh := ids.eraseDups.length == ids.length && ids.all fun i => (commandGet s.m.d.tab i).isNone
            let d2 := ids.foldl (fun d i => (dispatchSet d i none 0).1) d1
            let m' : St := { s.m with d := d2 }
            let last := (ids.getLast?.map (·.toNat)).getD 0
            ({ s with m := m' },
             s!"R ok n={ids.length} fresh={if fresh then 1 else 0} log=- | C {fmtCModel m'} | I {fmtI m' (toString last) 0 []} | S ok n={s.sp.reserveCount wd k} fresh=1 log=- ; {fmtCSpec s.sp}")
        | _, _ => (s, "bad-op")
      | _ =>
      match parseOp w with
      | none => (s, "bad-op")
      | some op => stepOp s op

/-- `set_handler` answers a bool: the return code among the internals is 0 or -1 -/
def boolRet (line : String) : String :=
  match line.splitOn " | I ret=" with
  | [a, b] =>
    let rest := (b.splitOn " ").drop 1
    let v := (b.splitOn " ").headD ""
    a ++ " | I ret=" ++ (if v.startsWith "-" then "-1" else "0") ++ " " ++ " ".intercalate rest
  | _ => line

/-- the C++ class `mpt::dispatch` (mpt++/event.cpp): its methods are the C functions on `this`, plus
    `handler(id)`, `set_default`, `set_error` and the destructor -/
def stepX (s : DSt) (w : List String) : DSt × String :=
  match w with
  | ["xe", "new", f] => stepLine s ["e", "new", f]
  | ["xe", "set", id] => let (s', o) := stepLine s ["e", "set", id]; (s', boolRet o)
  | ["xe", "clear", id] => let (s', o) := stepLine s ["e", "clear", id]; (s', boolRet o)
  | "xe" :: "emit" :: rest => stepLine s ("e" :: "emit" :: rest)
  | ["xe", "hash", a, b] => stepLine s ["e", "hash", a, b]
  | ["xe", "rc", a] => stepLine s ["e", "rc", a]
  | ["xe", "stale", a] => stepLine s ["e", "stale", a]
  | ["xe", "reserve", n] => stepLine s ["e", "reserve", n]
  | ["xe", "get", idw] =>
    if !s.active then (s, "bad-op")
    else match parseId idw with
      | some id =>
        let fmt (o : Option Nat) : String := match o with | some r => s!"found={r}" | none => "none"
        let mr : Option Nat := (commandGet s.m.d.tab id).map (·.2.arg)
        (s, s!"R {fmt mr} log=- | C {fmtCModel s.m} | I {fmtI s.m "0" 0 []} | S {fmt (s.sp.lookup id)} log=- ; {fmtCSpec s.sp}")
      | none => (s, "bad-op")
  | ["xe", "setdef", idw] =>
    if !s.active then (s, "bad-op")
    else match parseId idw with
      | some id => stepOp s (.setDefault id)
      | none => (s, "bad-op")
  | ["xe", "seterr"] => if !s.active then (s, "bad-op") else stepOp s .setError
  | ["xe", "del"] =>
    if !s.active then (s, "bad-op")
    else
      let (m', out) := step s.m .fini
      let sline := fmtS s.sp .fini out
      let r := fmtR .fini out
      -- the object is gone: only the log is shown
      ({ active := false, m := m', sp := s.sp },
       s!"R {r} | C gone | I raw={fmtLog out.log} | S " ++ " || ".intercalate ((sline.splitOn " || ").map fun a => (a.splitOn " ; ").headD "" ++ " ; gone"))
  | _ => (s, "bad-op")

def stepAny (s : DSt) (w : List String) : DSt × String :=
  match w with
  | "xe" :: _ => stepX s w
  | _ => stepLine s w

def main (_args : List String) : IO Unit := do
  Driver.loop (← IO.getStdin) (← IO.getStdout) stepAny ({} : DSt)

end Driver.Event
