import Driver.Elem
def main (args : List String) : IO Unit := Driver.Elem.main args
