import MptModel.Impl.Registry
import Driver.Util
namespace Driver.Types
open Mpt Mpt.Generated Mpt.Registry Mpt.RegSpec

structure St where
  r : Reg := Registry.init
  s : RegSpec.State := []
  /-- `static traits` of metatype::basic::pointer_traits() (C++ part) -/
  basic : Option Named := none
  /-- the entry `mpt_rawdata_type_traits()` (mptplot) registered and caches -/
  raw : Option Named := none
  /-- ids `type_properties<T>::id(true)` obtained and caches (C++ part): pointer type, class type -/
  prop : List (String × Nat) := []

def sweepMax : Nat := 0x1100

def hexName (n : Option Name) : String :=
  match n with
  | none => "null"
  | some b => toHex (b.map UInt8.ofNat)

def parseName (w : String) : Option (Option Name) :=
  if w = "null" then some none
  else match parseHex w with
    | some bs => if bs.all (· ≠ 0) then some (some (bs.map (·.toNat))) else none
    | none => none

def b01 (b : Bool) : String := if b then "1" else "0"
def fmtDesc (d : Desc) : String := s!"size={d.size} init={b01 d.init} fini={b01 d.fini}"
def fmtTraits : TraitsVal → String
  | .known d => fmtDesc d
  | .indeterminate => "size=? init=? fini=?"
def fmtTraitsOpt : Option TraitsVal → String
  | some t => fmtTraits t
  | none => "none"
def yn (b : Bool) : String := if b then "yes" else "no"

def issuedBefore (s : RegSpec.State) (id : Nat) : Bool :=
  (s.any (·.id = id)) || (builtinNames.any (·.2 = id)) ||
  (TypeId._TypeInterfaceBase ≤ id && id < TypeId._TypeInterfaceAdd)

def ptrDesc : Desc := { size := 8, init := false, fini := false }

/-- S for an add: refusal when the property demands it, else a fresh in-range id with the requested description -/
def altsAdd (s : RegSpec.State) (k : Kind) (name : Option Name) (descs : List Desc) (named : Bool) (mayRefuse : Bool := false) : String :=
  if mustRefuse s k name then "refused ; *"
  else
    let oks := descs.map fun d =>
      if named then s!"ok fresh=yes range=yes name={hexName name} {fmtDesc d} ; *" else s!"ok fresh=yes range=yes {fmtDesc d} ; *"
    " || ".intercalate (oks ++ (if mayRefuse then ["refused ; *"] else []))

def inRangeK (k : Kind) (id : Nat) : Bool := k.lo ≤ id && id ≤ k.hi

/-- run-length listing `a-b=size[i][f]` of all ids with traits -/
def listing (get : Nat → Option String) : String :=
  let rec go (id : Nat) (fuel : Nat) (start : Nat) (cur : Option String) (acc : List String) : List String :=
    match fuel with
    | 0 => acc
    | fuel + 1 =>
      let v := if id ≤ sweepMax then get id else none
      if id = 0 then go 1 fuel 0 v acc
      else if v = cur then go (id + 1) fuel start cur acc
      else
        let acc := match cur with
          | some a => acc ++ [if start = id - 1 then s!"{start}={a}" else s!"{start}-{id - 1}={a}"]
          | none => acc
        go (id + 1) fuel id v acc
  let parts := go 0 (sweepMax + 2) 0 none []
  if parts.isEmpty then "-" else ",".intercalate parts

def attrText (d : Desc) : String := s!"{d.size}{if d.init then "i" else ""}{if d.fini then "f" else ""}"
def attrTextT : TraitsVal → String
  | .known d => attrText d
  | .indeterminate => "?"

def namedIds : List Nat :=
  (List.range (TypeId._TypeInterfaceMax + 1 - TypeId._TypeInterfaceBase)).map (· + TypeId._TypeInterfaceBase) ++
  (List.range (TypeId._TypeMetaPtrMax + 1 - TypeId._TypeMetaPtrBase)).map (· + TypeId._TypeMetaPtrBase)

def namesListing (get : Nat → Option (Option Name)) : String :=
  let parts := namedIds.filterMap fun id => (get id).map fun n => s!"{id}:{hexName n}"
  if parts.isEmpty then "-" else ",".intercalate parts

def sweepModel (r : Reg) : String :=
  let t := listing fun id => (traits r id).map attrTextT
  let n := namesListing fun id =>
    if id ≤ TypeId._TypeInterfaceMax then (interfaceTraits r id).map (·.name) else (metatypeTraits r id).map (·.name)
  s!"traits={t} names={n} moved=-"

/-- `descOf s` / `namedOf s` for all ids at once (one pass over the history instead of one search per id;
    ids are unique, the first entry of an id wins as in `List.find?`) -/
def specTables (s : RegSpec.State) : Array (Option Entry) :=
  s.foldl (fun a e => if e.id ≤ sweepMax then (if (a.getD e.id none).isNone then a.set! e.id (some e) else a) else a)
    (Array.replicate (sweepMax + 1) none)

def sweepSpec (s : RegSpec.State) : String :=
  let tab := specTables s
  let t := listing fun id =>
    match tab.getD id none with
    | some e => some (attrText e.desc)
    | none => (builtinDesc id).map attrText
  let n := namesListing fun id =>
    match tab.getD id none with
    | some e => if e.kind.named then some e.name else none
    | none => (namedOf [] (id ≤ TypeId._TypeInterfaceMax) id).map (·.1)
  s!"traits={t} names={n} moved=-"

def fmtNamed : Option Named → String
  | some e => s!"found id={e.id} name={hexName e.name} {fmtTraits e.traits}"
  | none => "none"

def fmtNamedSpec (s : RegSpec.State) (iface : Bool) (id : Nat) : String :=
  match namedOf s iface id with
  | some (n, d) => s!"found id={id} name={hexName n} {fmtDesc d}"
  | none => "none"

/-- S for a lookup by name -/
def specNamed (s : RegSpec.State) (idOpt : Option Nat) : String :=
  match idOpt with
  | some id =>
    match namedOf s (id ≤ TypeId._TypeInterfaceMax) id with
    | some (n, d) => s!"found id={id} name={hexName n} {fmtDesc d}"
    | none => "none"
  | none => "none"

def bytesBasic : Name := [98, 97, 115, 105, 99]

def stepT (st : St) (w : List String) : St × String :=
  match w with
  | ["t", "basic", sz] =>
    match sz.toNat? with
    | some size =>
      let alts := altsAdd st.s .basic none [{ size := if size = 0 then 8 else size, init := false, fini := false }] false (size = 0)
      match basicAdd st.r size with
      | (r', .ok id) =>
        let d : Desc := { size := if size = 0 then 8 else size, init := false, fini := false }
        let fresh := !issuedBefore st.s id
        ({ st with r := r', s := st.s ++ [{ kind := .basic, id := id, name := none, desc := d }] },
          s!"R ok fresh={yn fresh} range={yn (inRangeK .basic id)} {fmtTraitsOpt (traits r' id)} | C id={id} | I - | S {alts}")
      | (_, .err e) => (st, s!"R refused | C - | I err={e.name} | S {alts}")
      | _ => (st, s!"R FAULT | C - | I - | S {alts}")
    | none => (st, "bad-op")
  | "t" :: "generic" :: sz :: rest =>
    match sz.toNat?, rest with
    | some size, flags =>
      let fl := match flags with
        | [] => some ""
        | [f] => if f ∈ ["i", "f", "if", "fi"] then some f else none
        | _ => none
      match fl with
      | some f =>
        let d : Desc := { size := size, init := f.contains 'i', fini := f.contains 'f' }
        let alts := if size = 0 then "refused ; *" else altsAdd st.s .generic none [d] false
        match genericAdd st.r d with
        | (r', .ok id) =>
          let fresh := !issuedBefore st.s id
          ({ st with r := r', s := st.s ++ [{ kind := .generic, id := id, name := none, desc := d }] },
            s!"R ok fresh={yn fresh} range={yn (inRangeK .generic id)} {fmtTraitsOpt (traits r' id)} | C id={id} | I - | S {alts}")
        | (_, .err e) => (st, s!"R refused | C - | I err={e.name} | S {alts}")
        | _ => (st, s!"R FAULT | C - | I - | S {alts}")
      | none => (st, "bad-op")
    | _, _ => (st, "bad-op")
  | ["t", kind, nm] =>
    if kind = "iface" ∨ kind = "meta" then
      match parseName nm with
      | some name =>
        let k : Kind := if kind = "iface" then .iface else .mtype
        let alts := altsAdd st.s k name [ptrDesc] true
        let (r', res) := if kind = "iface" then ifaceAdd st.r name else metaAdd st.r name
        match res with
        | some e =>
          let fresh := !issuedBefore st.s e.id
          ({ st with r := r', s := st.s ++ [{ kind := k, id := e.id, name := name, desc := ptrDesc }] },
            s!"R ok fresh={yn fresh} range={yn (inRangeK k e.id)} name={hexName e.name} {fmtTraits e.traits} | C id={e.id} | I - | S {alts}")
        | none => (st, s!"R refused | C - | I - | S {alts}")
      | none => (st, "bad-op")
    else if kind = "traits" then
      match nm.toNat? with
      | some id =>
        let sp := match descOf st.s id with
          | some d => fmtDesc d
          | none => "none"
        (st, s!"R {fmtTraitsOpt (traits st.r id)} | C - | I - | S {sp} ; *")
      | none => (st, "bad-op")
    else if kind = "itraits" ∨ kind = "mtraits" then
      match nm.toNat? with
      | some id =>
        let m := if kind = "itraits" then interfaceTraits st.r id else metatypeTraits st.r id
        (st, s!"R {fmtNamed m} | C - | I - | S {fmtNamedSpec st.s (kind = "itraits") id} ; *")
      | none => (st, "bad-op")
    else if kind = "alias" ∨ kind = "alias0" then
      match parseName nm with
      | some (some desc) =>
        -- S: the name in front of the separator (or the whole text), with or without short-name expansion
        let sepAt := desc.findIdx? (· = 58)
        let key := match sepAt with
          | some k => (desc.take k).reverse.dropWhile isSpaceC |>.reverse
          | none => desc
        let endOff := match sepAt with
          | some k => k + 1 + ((desc.drop (k + 1)).takeWhile isSpaceC).length
          | none => desc.length
        -- without a separator the description is a name: the alias lookup has to agree with the whole-string lookup of the
        -- registry (short forms included); in front of a separator either reading of a short form is allowed
        let cands := if sepAt.isNone then [lookupName st.s key (-1)]
          else [lookupName st.s key (-1), lookupName st.s key key.length]
        let endTxt := if kind = "alias0" then "-1" else toString endOff
        let oks := (cands.filterMap id).eraseDups.map fun i => s!"id={i} end={endTxt} ; *"
        let alts := " || ".intercalate (oks ++ (if cands.any (·.isNone) ∨ key = [] then ["refused ; *"] else []))
        match aliasTypeid st.r desc with
        | .ok (i, e) => (st, s!"R id={i} end={if kind = "alias0" then "-1" else toString e} | C - | I - | S {alts}")
        | .err e => (st, s!"R refused | C - | I err={e.name} | S {alts}")
        | _ => (st, s!"R FAULT | C - | I - | S {alts}")
      | _ => (st, "bad-op")
    else if kind = "int" ∨ kind = "uint" then
      match nm.toNat? with
      | some size =>
        let code := if kind = "int" then typeInt size else typeUint size
        -- S: the code of the (un)signed integer type of that byte size, 0 if there is none
        let sp : Nat := if kind = "int" then
            (if size = 1 then 98 else if size = 2 then 110 else if size = 4 then 105 else if size = 8 then 120 else 0)
          else (if size = 1 then 121 else if size = 2 then 113 else if size = 4 then 117 else if size = 8 then 116 else 0)
        (st, s!"R code={code} | C - | I - | S code={sp} ; *")
      | none => (st, "bad-op")
    else if kind = "mcode" then
      match nm.toInt? with
      | some t =>
        let m := if t < 0 then none else msgCode t.toNat
        let sp := if t < 0 then none else specMsgCode t.toNat
        let f (o : Option Nat) := match o with
          | some c => s!"code={c}"
          | none => "code=-1"
        (st, s!"R {f m} | C - | I - | S {f sp} ; *")
      | none => (st, "bad-op")
    else if kind = "mtype" then
      match nm.toNat? with
      | some fmt =>
        if fmt > 255 then (st, "bad-op") else
        let (m, i) := match msgTypeid fmt with
          | .ok t => (s!"type={t}", "-")
          | .err e => ("refused", s!"err={e.name}")
          | _ => ("refused", "-")
        let sp := match specMsgType fmt with
          | some t => s!"type={t}"
          | none => "refused"
        (st, s!"R {m} | C - | I {i} | S {sp} ; *")
      | none => (st, "bad-op")
    else if kind = "msize" then
      match nm.toNat? with
      | some fmt =>
        if fmt > 255 then (st, "bad-op") else
        -- S: the size the format code encodes (message.h): low five bits + 1, in bytes or in atoms of 64 bytes
        let f := fmt % 128
        let sp := if (f / 32) % 4 ≠ 0 then f % 32 + 1 else (f % 32 + 1) * 64
        (st, s!"R size={msgSize fmt} | C - | I - | S size={sp} ; *")
      | none => (st, "bad-op")
    else if kind = "size" then
      match nm.toNat? with
      | some id =>
        match builtinDesc id with
        | some d =>
          let m := match traits st.r id with
            | some (.known t) => toString t.size
            | some .indeterminate => "?"
            | none => "none"
          (st, s!"R size={m} sizeof={d.size} | C - | I - | S size={d.size} sizeof={d.size} ; *")
        | none => (st, "bad-op")
      | none => (st, "bad-op")
    else (st, "bad-op")
  | ["t", "named", nm, ln] =>
    match parseName nm, ln.toInt? with
    | some (some name), some len =>
      (st, s!"R {fmtNamed (namedTraits st.r name len)} | C - | I - | S {specNamed st.s (lookupName st.s name len)} ; *")
    | _, _ => (st, "bad-op")
  | ["t", "reset"] => ({}, "R ok | C - | I - | S ok ; *")
  | ["t", "rawdata"] =>
    -- `mpt_rawdata_type_traits()`: registers the interface "mpt.rawdata" on first use and hands the same entry out from then on
    let name : Name := [109, 112, 116, 46, 114, 97, 119, 100, 97, 116, 97]
    match st.raw with
    | some e =>
      let l := s!"ok fresh=same range=yes name={hexName e.name} {fmtTraits e.traits}"
      (st, s!"R {l} | C id={e.id} | I - | S ok fresh=same range=yes name={hexName e.name} {fmtDesc ptrDesc} ; *")
    | none =>
      let alts := altsAdd st.s .iface (some name) [ptrDesc] true
      match ifaceAdd st.r (some name) with
      | (r', some e) =>
        let fresh := !issuedBefore st.s e.id
        ({ st with r := r', raw := some e, s := st.s ++ [{ kind := .iface, id := e.id, name := some name, desc := ptrDesc }] },
          s!"R ok fresh={yn fresh} range={yn (inRangeK .iface e.id)} name={hexName e.name} {fmtTraits e.traits} | C id={e.id} | I - | S {alts}")
      | (_, none) => (st, s!"R refused | C - | I - | S {alts}")
  | ["t", "sweep"] =>
    (st, s!"R {sweepModel st.r} | C - | I - | S {sweepSpec st.s} ; *")
  | ["t", "abi"] =>
    let l := s!"type_traits={TypeTab.traitsRecord} ptr={TypeTab.pointerSize} iovec={(cSize "struct iovec").getD 0}"
    (st, s!"R {l} | C - | I - | S {l} ; *")
  | _ => (st, "bad-op")

/-- ops of the C++ part (`tx ..`): the mpt::type_traits wrappers are the C functions; `metatype::basic::pointer_traits`
    registers the metatype "basic" once (anonymously if the name is refused) and caches the entry -/
def stepX (st : St) (w : List String) : St × String :=
  match w with
  | ["basicmeta"] =>
    match st.basic with
    | some e =>
      let l := s!"ok fresh=same range=yes name={hexName e.name} {fmtTraits e.traits}"
      (st, s!"R {l} | C id={e.id} | I - | S ok fresh=same range=yes name={hexName e.name} {fmtDesc ptrDesc} ; *")
    | none =>
      let (r1, res1) := metaAdd st.r (some bytesBasic)
      let (r2, res2) := match res1 with
        | some e => (r1, some e)
        | none => metaAdd st.r none
      let alts :=
        if count st.s .mtype ≥ Kind.capacity .mtype then "refused ; *"
        else s!"ok fresh=yes range=yes name={hexName (some bytesBasic)} {fmtDesc ptrDesc} ; * || ok fresh=yes range=yes name=null {fmtDesc ptrDesc} ; *"
      match res2 with
      | some e =>
        let fresh := !issuedBefore st.s e.id
        ({ st with r := r2, basic := some e, s := st.s ++ [{ kind := .mtype, id := e.id, name := e.name, desc := ptrDesc }] },
          s!"R ok fresh={yn fresh} range={yn (inRangeK .mtype e.id)} name={hexName e.name} {fmtTraits e.traits} | C id={e.id} | I - | S {alts}")
      | none => (st, s!"R refused | C - | I - | S {alts}")
  | [op, which] =>
    if (op = "propid" ∨ op = "propid0") ∧ (which = "ptr" ∨ which = "obj") then
      -- `type_properties<T>::id(obtain)`: registers the traits of the C++ type once (mpt_type_add) and caches the id
      let d : Desc := if which = "ptr" then ptrDesc else { size := 40, init := true, fini := true }
      match st.prop.find? (·.1 = which) with
      | some (_, id) =>
        let l := s!"ok fresh=same range=yes {fmtDesc d}"
        (st, s!"R ok fresh=same range=yes {fmtTraitsOpt (traits st.r id)} | C id={id} | I - | S {l} ; *")
      | none =>
        if op = "propid0" then (st, "R refused | C - | I err=-3 | S refused ; *") else
        let alts := altsAdd st.s .generic none [d] false
        match genericAdd st.r d with
        | (r', .ok id) =>
          let fresh := !issuedBefore st.s id
          ({ st with r := r', prop := st.prop ++ [(which, id)], s := st.s ++ [{ kind := .generic, id := id, name := none, desc := d }] },
            s!"R ok fresh={yn fresh} range={yn (inRangeK .generic id)} {fmtTraitsOpt (traits r' id)} | C id={id} | I - | S {alts}")
        | (_, .err e) => (st, s!"R refused | C - | I err={e.name} | S {alts}")
        | _ => (st, s!"R FAULT | C - | I - | S {alts}")
    else stepT st ["t", op, which]
  | rest => stepT st ("t" :: rest)


def step (st : St) (w : List String) : St × String :=
  match w with
  | "tx" :: rest => stepX st rest
  | _ => stepT st w

def main (_args : List String) : IO Unit := do
  Driver.loop (← IO.getStdin) (← IO.getStdout) step ({} : St)

end Driver.Types
