import Driver.Config
def main (args : List String) : IO Unit := Driver.Config.main args
