import MptModel.Basic
namespace Driver
open Mpt

def words (line : String) : List String :=
  (line.trimAscii.toString.splitOn " ").filter (· ≠ "")

/-- `-` empty, `zero:n` n zero bytes (reported as `none` = NULL data of that length), hex otherwise -/
def parseData (s : String) : Option (Option (List Byte) × Nat) :=
  if s.startsWith "zero:" then
    match (s.drop 5).toString.toNat? with
    | some n => some (none, n)
    | none => none
  else match parseHex s with
    | some b => some (some b, b.length)
    | none => none

/-- generic line loop: `step` maps a state and the words of a line to a new state and an output line -/
partial def loop {σ : Type} (h : IO.FS.Stream) (out : IO.FS.Stream) (step : σ → List String → σ × String) (s : σ) : IO Unit := do
  let line ← h.getLine
  if line.isEmpty then
    out.flush
    return ()
  let t := line.trimAscii.toString
  if t.isEmpty || t.startsWith "#" then
    out.putStrLn t
    loop h out step s
  else
    let (s', o) := step s (words t)
    out.putStrLn o
    loop h out step s'

end Driver
