import MptModel.Impl.Heap
import MptModel.Impl.HeapXX
import MptModel.Spec.Vec
import MptModel.Spec.ArrayOps
import MptModel.Spec.Tokens
import MptModel.Lemmas.TokReplay
import Driver.Util
import Driver.Refs
/-
  Model driver for the areas `array` (C04) and `elem` (C05, `elem = true`): same op lines and output
  format as harness/drv_array.c.  The implementation model (Impl/Heap.lean) and the spec (one
  independent byte vector per handle, Spec/Vec.lean; token life cycle, Spec/Tokens.lean) run side by side.
-/
namespace Driver.Array
open Mpt Mpt.Heap

structure St where
  m : State := {}
  sp : List Vec.Vec := []              -- S: value read through each handle (window for slice handles)
  nh : Nat := 0
  names : List (Nat × Nat) := []       -- model buffer identity → number in order of first appearance
  nextName : Nat := 0
  seenLog : Nat := 0                   -- events already printed
  live : Tokens.Live := Tokens.empty   -- S of C05: live tokens
  illegal : String := ""
  xkind : String := ""                 -- C++ part: kind of the handles of this script (`x handles n kind`)
  refs : Driver.Refs.RSt := {}         -- third part of C05 (`r` lines): buffers of references
  nullable : Bool := false             -- the script uses the destructor-only type f8 (a zeroed element is empty)
  tails : List Nat := []               -- S: bytes of a slice handle's array behind its window
  deriving Inhabited

def traitsByName (elem : Bool) : String → Option (Option Traits)
  | "-" => some none
  | "p1" => some (some { id := 1, size := 1, init := false, fini := none })
  | "p4" => some (some { id := 2, size := 4, init := false, fini := none })
  | "p24" => some (some { id := 3, size := 24, init := false, fini := none })
  | "z" => some (some { id := 4, size := 0, init := false, fini := none })
  | "c" => some (some { id := 5, size := 1, init := false, fini := none })
  | "d" => some (some { id := 15, size := 8, init := false, fini := none })
  | "m4" => if elem then some (some { id := 6, size := 4, init := true, fini := some 1 }) else none
  | "m8" => if elem then some (some { id := 7, size := 8, init := true, fini := some 2 }) else none
  | "n4" => if elem then some (some { id := 8, size := 4, init := true, fini := some 1 }) else none
  | "f8" => if elem then some (some { id := 9, size := 8, init := false, fini := some 2 }) else none
  | "q8" => if elem then some (some { id := 10, size := 8, init := true, fini := some 1 }) else none
  | _ => none

def traitsC : Traits := { id := 5, size := 1, init := false, fini := none }

def traitsName : Option Traits → String
  | none => "-"
  | some t => match t.id with
    | 1 => "p1" | 2 => "p4" | 3 => "p24" | 4 => "z" | 5 => "c" | 6 => "m4" | 7 => "m8" | 8 => "n4" | 9 => "f8" | 10 => "q8"
    | 11 => "x1" | 12 => "x12" | 13 => "xe" | 14 => "i" | 15 => "d" | 16 => "xm" | 17 => "xp" | _ => "?"

def bufOf (m : State) (h : Nat) : Option Buf := (m.handle h).bind m.buf?

/-- `nat | u | u+k | u-k | s | s+k | s-k` relative to the buffer of handle `h` -/
def opnd (m : State) (h : Nat) (s : String) : Option Nat :=
  let base : Option Nat :=
    if s.startsWith "u" then some ((bufOf m h).map (·.used) |>.getD 0)
    else if s.startsWith "s" then some ((bufOf m h).map (·.size) |>.getD 0)
    else none
  match base with
  | none => if s.startsWith "+" ∨ s.startsWith "-" then none else s.toNat?
  | some b =>
    let rest := (s.drop 1).toString
    if rest = "" then some b
    else if rest.startsWith "+" then ((rest.drop 1).toString.toNat?).map (b + ·)
    else if rest.startsWith "-" then
      match (rest.drop 1).toString.toNat? with
      | some k => if k > b then none else some (b - k)
      | none => none
    else none

/-- strict decimal (no sign, non-empty) -/
def nat? (s : String) : Option Nat := if s.startsWith "+" ∨ s.startsWith "-" then none else s.toNat?

def fillBytes (n start : Nat) : List Byte := (List.range n).map fun i => UInt8.ofNat ((start - 1 + i) % 255 + 1)

/-- data argument: (bytes, data pointer is NULL) -/
def dataArg (m : State) (h : Nat) (s : String) : Option (List Byte × Bool) :=
  if s.startsWith "zero:" then (opnd m h (s.drop 5).toString).map fun n => (Heap.zeros n, true)
  else if s.startsWith "fill:" then
    match ((s.drop 5).toString.splitOn ":") with
    | [n, hh] =>
      match opnd m h n, parseHex hh with
      | some n, some [b] => if b = 0 then none else some (fillBytes n b.toNat, false)
      | _, _ => none
    | _ => none
  else (parseHex s).map fun b => (b, false)

def handleArg (nh : Nat) (s : String) : Option Nat :=
  if s.startsWith "h" then
    match nat? (s.drop 1).toString with
    | some v => if v < nh then some v else none
    | none => none
  else none

/-- what the model reads through handle `h` -/
def view (m : State) (h : Nat) : List Byte :=
  match m.win h with
  | some w => match bufOf m h with
    | some x => (x.data.drop w.off).take w.len
    | none => []
  | none => m.abs h

def fmtC (m : State) (vals : List (List Byte)) : String :=
  " ".intercalate ((List.range vals.length).map fun h =>
    let v := vals.getD h []
    s!"h{h}={if (m.win h).isSome then "w" else ""}{v.length}:{toHex v}")

def lookup (names : List (Nat × Nat)) (b : Nat) : Option Nat := (names.find? (·.1 = b)).map (·.2)

/-- number buffers in order of first appearance in the handle table -/
def renumber (st : St) : St := Id.run do
  let mut names := st.names.filter fun (b, _) => (List.range st.nh).any fun h => st.m.handle h = some b
  let mut next := st.nextName
  for h in List.range st.nh do
    match st.m.handle h with
    | some b =>
      if (lookup names b).isNone then
        names := names ++ [(b, next)]
        next := next + 1
    | none => pure ()
  return { st with names := names, nextName := next }

def heapBytes (m : State) : Nat :=
  m.bufs.foldl (fun acc x => match x with | some b => acc + b.size + 64 | none => acc) 0

def fmtI (st : St) (ret : String) : String :=
  let hs := ",".intercalate ((List.range st.nh).map fun h =>
    match st.m.handle h with
    | none => s!"h{h}:-"
    | some b =>
      let n := (lookup st.names b).getD 999
      match st.m.win h with
      | some w => s!"h{h}:b{n}@{w.off}+{w.len}"
      | none => s!"h{h}:b{n}")
  let sorted := (List.range st.nextName).filterMap fun id => (st.names.find? (·.2 = id))
  let bufs := if sorted.isEmpty then "-" else ",".intercalate (sorted.map fun (b, id) =>
    match st.m.buf? b with
    | some x => s!"b{id}:r{x.ref}:f{x.flags}:t{traitsName x.traits}:z{x.size}:u{x.used}"
    | none => s!"b{id}:freed")
  s!"ret={ret} hs={hs} bufs={bufs} heap={heapBytes st.m}"

def fmtEv : Ev → String
  | .init t => s!"i{t}"
  | .copy t k => s!"c{t}<{k}"
  | .fail => "x"
  | .fini t => s!"f{t}"

/-- an outcome the spec allows: R text and the value of every handle -/
abbrev Alt := String × List Vec.Vec

def setNth (l : List Vec.Vec) (h : Nat) (v : Vec.Vec) : List Vec.Vec := l.set h v

/-- tokens stored in `[0, used)` of every live buffer with a destructor (`stored` of Lemmas/TokState.lean; for the
    destructor-only type a zeroed element is an empty reference) -/
def storedTokens (st : St) : List Nat :=
  st.m.bufs.flatMap fun ob =>
    match ob with
    | some x => match x.traits with
      | some t => if t.fini.isSome ∧ t.size ≠ 0 then
          let toks := (List.range (x.used / t.size)).map fun i => rdTok x.data (i * t.size)
          if t.init then toks else toks.filter (· ≠ 0)
        else []
      | none => []
    | none => []

/-- first event that is not legal for the live set (message only; the verdict is `replay`) -/
def firstIllegal (live : Tokens.Live) : List Ev → String
  | [] => "replay"
  | .init t :: r => if Tokens.isLive live t then s!"init-live:{t}" else firstIllegal (Tokens.create live t) r
  | .copy t k :: r =>
    if Tokens.isLive live t then s!"copy-live:{t}"
    else if ¬ Tokens.isLive live k then s!"copy-from-dead:{k}"
    else firstIllegal (Tokens.create live t) r
  | .fail :: r => firstIllegal live r
  | .fini t :: r => if Tokens.isLive live t then firstIllegal (Tokens.destroy live t) r else s!"fini-dead:{t}"

/-- C05 judgement: the new events must be legal for the live set — `Mpt.Heap.replay`, the function the theorems
    `exactly_once` / `exactly_once_history` are about — and the resulting live set must be exactly the stored tokens
    (`TokInv`: a permutation without duplicates) -/
def judge (st : St) (final : Bool) : St × String :=
  -- the destructor of the destructor-only type ignores empty (zeroed) elements
  let evs := (st.m.log.drop st.seenLog).filter fun e => ¬ (st.nullable ∧ e = Ev.fini 0)
  let stored := storedTokens st
  let (lv, bad) : Tokens.Live × String :=
    if st.illegal ≠ "" then (st.live, st.illegal)
    else match Mpt.Heap.replay st.live evs with
      | none => (st.live, firstIllegal st.live evs)
      | some lv =>
        if lv.isPerm stored ∧ stored.Nodup then (lv, "")
        else (lv, match Tokens.checkStored lv stored with
          | .ok => "stored-mismatch"
          | .dead t => s!"stored-dead:{t}"
          | .twice t => s!"stored-twice:{t}"
          | .missing t => (if final then s!"alive-at-end:{t}" else s!"live-not-stored:{t}"))
  ({ st with live := lv, illegal := bad, seenLog := st.m.log.length },
   ",".intercalate (evs.map fmtEv))

/-- result line -/
def emit (elem : Bool) (st0 : St) (verdict detail ret : String) (alts : List Alt) (final : Bool := false) : St × String :=
  let st := renumber st0
  let vals := (List.range st.nh).map (view st.m)
  let c := fmtC st.m vals
  if elem then
    let (st1, evs) := judge st final
    let legal := if st1.illegal = "" then "legal" else st1.illegal
    (st1, s!"R {legal} | C {verdict} ev={if evs = "" then "-" else evs} {c} | I {fmtI st1 ret} | S legal ; *")
  else
    let salt := " || ".intercalate (alts.map fun (r, vs) => s!"{r} ; {fmtC st.m vs}")
    (st, s!"R {verdict} {detail} | C {c} | I {fmtI st ret} | S {salt}")

def failName : Fail → String
  | .null => "null"
  | .err e => e.name

/-- run one model op, follow the spec alternative the model took -/
def finish {α} (elem : Bool) (st : St) (r : Out α) (okDetail : α → State → String) (okRet : α → State → String)
    (alts : List Alt) : St × String :=
  match r with
  | .fault w => (st, s!"R FAULT {w.replace " " "_"} | C - | I - | S {" || ".intercalate (alts.map fun (r, vs) => s!"{r} ; {fmtC st.m vs}")}")
  | .ok m v =>
    let rt := s!"ok {okDetail v m}"
    let st1 := { st with m := m }
    let cur := (List.range st.nh).map (view m)
    let sp := match alts.find? (fun a => a.1 = rt ∧ a.2 = cur) with
      | some a => a.2
      | none => match alts.find? (fun a => a.1 = rt) with
        | some a => a.2
        | none => st.sp
    emit elem { st1 with sp := sp } "ok" (okDetail v m) (okRet v m) alts
  | .fail m e =>
    emit elem { st with m := m } "refused" "-" (failName e) alts

def okAlt (st : St) (h : Nat) (v : Vec.Vec) (detail : String := "-") : Alt := (s!"ok {detail}", setNth st.sp h v)
def refAlt (st : St) : Alt := ("refused -", st.sp)

/-- the S column of an operation of the C04 alphabet: the alternatives of `Spec/ArrayOps.lean` (the list the theorems
    of Props/C04.lean are about, `specRel_iff_alts`), or a refusal that changes nothing -/
def opAlts (st : St) (h : Nat) (op : Op) : List Alt :=
  (specAlts st.m op (st.sp.getD h [])).map (fun v' => okAlt st h v') ++
    (if mustSucceed st.m op (st.sp.getD h []) then [] else [refAlt st])

def offRet (v : Nat) (_ : State) : String := s!"+{v}"
def noDetail {α} (_ : α) (_ : State) : String := "-"

def step (elem : Bool) (st : St) (w : List String) : St × String :=
  let m := st.m
  let bad : St × String := (st, "bad-op")
  match w with
  | ["a", "handles", n] =>
    match nat? n with
    | some n =>
      if n < 1 ∨ n > 8 then bad
      else
        let st1 : St := { nh := n, m := { hs := List.replicate n none, wins := List.replicate n none }, sp := List.replicate n [] }
        emit elem st1 "ok" "-" "-" [("ok -", st1.sp)]
    | none => bad
  | ["a", "end"] =>
    if st.nh = 0 then bad
    else
      -- drop every handle
      let r : Out Unit := (List.range st.nh).foldl (fun acc h =>
        match acc with
        | .ok s _ => match arrayClone (s.setWin h none) h none with
          | .ok s1 _ => .ok s1 ()
          | .fail s1 e => .fail s1 e
          | .fault w => .fault w
        | x => x) (.ok m ())
      let sp := List.replicate st.nh ([] : Vec.Vec)
      match r with
      | .ok m1 _ => emit elem { st with m := m1, sp := sp } "ok" "-" "-" [("ok -", sp)] true
      | .fail m1 e => emit elem { st with m := m1 } "refused" "-" (failName e) [("ok -", sp)] true
      | .fault w => (st, s!"R FAULT {w.replace " " "_"} | C - | I - | S ok - ; -")
  | ["a", "oracle", bits] =>
    if ¬ elem ∨ st.nh = 0 then bad
    else
      let cs := if bits = "-" then [] else bits.toList
      if cs.all (fun c => c = '0' ∨ c = '1') then
        emit elem { st with m := { m with oracle := cs.map (· = '1') } } "ok" "-" "-" [("ok -", st.sp)]
      else bad
  | "a" :: op :: hs :: args =>
    if st.nh = 0 then bad else
    match handleArg st.nh hs with
    | none => bad
    | some h =>
      let v := st.sp.getD h []
      let isWin := (m.win h).isSome
      if isWin ∧ op ≠ "swrite" ∧ op ≠ "drop" then bad else
      match op, args with
      | "drop", [] =>
        finish elem st (arrayClone (m.setWin h none) h none) noDetail (fun r _ => toString r) [okAlt st h []]
      | "clone", [src] =>
        match handleArg st.nh src with
        | some h2 =>
          if (m.win h2).isSome then bad
          else finish elem st (arrayClone m h (some h2)) noDetail (fun r _ => toString r) [okAlt st h (st.sp.getD h2 []), refAlt st]
        | none => bad
      | "alloc", [n, fl, tr, dat] =>
        if elem ∧ dat.startsWith "el:" then
          -- the owner constructs k elements in the new buffer
          match opnd m h n, nat? fl, traitsByName elem tr, nat? (dat.drop 3).toString with
          | some n, some fl, some (some t), some k =>
            if fl > 3 ∨ k > 64 ∨ t.fini.isNone ∨ t.size = 0 then bad
            else finish elem st (allocOpE m h n fl t k) noDetail (fun _ _ => "-") [refAlt st]
          | _, _, _, _ => bad
        else
        match opnd m h n, nat? fl, traitsByName elem tr, dataArg m h dat with
        | some n, some fl, some t, some (bytes, _) =>
          if fl > 3 then bad
          else finish elem st (allocOp m h n fl t bytes) noDetail (fun _ _ => "-") [okAlt st h bytes]
        | _, _, _, _ => bad
      | "append", [dat] =>
        match dataArg m h dat with
        | some (bytes, _) => finish elem st (arrayAppend m h bytes) noDetail offRet (opAlts st h (.append h bytes))
        | none => bad
      | "insert", [pos, dat] =>
        match opnd m h pos, dataArg m h dat with
        | some pos, some (bytes, _) =>
          finish elem st (if elem then insertOpE m h pos bytes else insertOp m h pos bytes) noDetail offRet (opAlts st h (.insert h pos bytes))
        | _, _ => bad
      | "vprep", [n] =>
        if elem then bad
        else
          let nv : Option Int :=
            if n.startsWith "-" ∧ n.length > 1 then (nat? (n.drop 1).toString).map fun a => - Int.ofNat a
            else (nat? n).map Int.ofNat
          match nv with
          | some nv =>
            if nv.natAbs > 100000 then bad
            else
              let add := nv.natAbs * 8
              let alts :=
                if nv ≥ 0 then [okAlt st h (v ++ Heap.zeros add), refAlt st]
                else if add ≤ v.length then [okAlt st h (v ++ v.drop (v.length - add)), refAlt st]
                else [refAlt st]
              finish elem st (valuesPrepare m h { id := 15, size := 8, init := false, fini := none } nv) noDetail offRet alts
          | none => bad
      | "binsert", [pos, dat] =>
        if elem then bad
        else
          match opnd m h pos, dataArg m h dat with
          | some pos, some (bytes, _) =>
            -- a position far behind any buffer can only be refused
            let alts := if pos > 1000000 then [refAlt st] else [okAlt st h (Vec.insert v pos bytes), refAlt st]
            finish elem st (binsertOp m h pos bytes) noDetail offRet alts
          | _, _ => bad
      | "set", [tr, off, dat] =>
        let offv : Option Int :=
          if off.startsWith "-" ∧ off.length > 1 then (nat? (off.drop 1).toString).map fun a => - Int.ofNat a
          else (opnd m h off).map Int.ofNat
        match traitsByName elem tr, offv, (if elem ∧ dat.startsWith "el:" then none else dataArg m h dat) with
        | some (some t), some off, none =>
          -- `el:<k>`: k source elements constructed and destroyed again by the caller
          match (if elem ∧ dat.startsWith "el:" then nat? (dat.drop 3).toString else none) with
          | some k =>
            if k > 64 ∨ ¬ t.init ∨ t.fini.isNone ∨ off.natAbs > 1000000 then bad
            else
              finish elem st (setOpE m h t off k true) noDetail offRet [refAlt st]
          | none => bad
        | some t, some off, some (bytes, isnull) =>
          if off.natAbs > 1000000 then bad
          else
            let esz := match t with
              | some t => t.size
              | none => 1
            let alts := match t with
              | some t' => opAlts st h (.set h t' off bytes (!isnull))
              | none => (match Vec.setAt v esz off bytes with
                | some v' => [okAlt st h v', refAlt st]
                | none => [refAlt st])
            finish elem st (arraySet m h t bytes (!isnull) off) noDetail offRet alts
        | _, _, _ => bad
      | "slice", [off, len] =>
        match opnd m h off, opnd m h len with
        | some off, some len =>
          if len > 60000 then bad
          else
            let v' := Vec.slice v off len
            finish elem st (arraySlice m h off len)
              (fun p s1 => toHex (match (s1.handle h).bind s1.buf? with | some x => (x.data.drop p).take len | none => []))
              offRet [okAlt st h v' (toHex (Vec.sub v' off len)), refAlt st]
        | _, _ => bad
      | "reserve", [n, tr] =>
        match opnd m h n, traitsByName elem tr with
        | some n, some t =>
          -- a value never loses data by reserving room (the content is dropped only with a change of the element type;
          -- content that can not be copied makes the call fail)
          let alts := opAlts st h (.reserve h n t)
          finish elem st (arrayReserve m h n t) noDetail (fun _ _ => "ptr") alts
        | _, _ => bad
      | "reduce", [] =>
        finish elem st (arrayReduce m h) noDetail (fun r _ => toString r) ((specAlts m (.reduce h) v).map (okAlt st h))
      | "detach", [n] =>
        match opnd m h n with
        | some n =>
          -- buffer-level primitive: only a unique immutable buffer is cut down to the requested size
          let alts := opAlts st h (.detach h n)
          finish elem st (detachOp m h n) noDetail (fun _ _ => "ptr") alts
        | none => bad
      | "cut", [off, len] =>
        match opnd m h off, opnd m h len with
        | some off, some len =>
          finish elem st (cutOp m h off len) noDetail (fun r _ => toString r) (opAlts st h (.cut h off len))
        | _, _ => bad
      | "bset", [pos, dat] =>
        match opnd m h pos, (if elem ∧ dat.startsWith "el:" then none else dataArg m h dat) with
        | some pos, none =>
          match (if elem ∧ dat.startsWith "el:" then nat? (dat.drop 3).toString else none), (bufOf m h).bind (·.traits) with
          | some k, some t =>
            if k > 64 ∨ ¬ t.init ∨ t.fini.isNone then bad
            else
              finish elem st (bsetSrcE m h pos k) noDetail (fun r _ => toString r) [refAlt st]
          | _, _ => bad
        | some pos, some (bytes, isnull) =>
          finish elem st (bsetOp m h pos bytes (!isnull)) noDetail (fun r _ => toString r) (opAlts st h (.bset h pos bytes (!isnull)))
        | _, _ => bad
      | "bsetas", [tr, pos, dat] =>
        -- mpt_buffer_set with an element type named by the caller (the buffer's own, a compatible or a foreign one)
        if elem then bad
        else
          match traitsByName elem tr, opnd m h pos, dataArg m h dat with
          | some src, some pos, some (bytes, isnull) =>
            -- only the buffer's own element type is accepted (plain types are never compatible with one another)
            let own := (bufOf m h).map (·.traits) = some src
            finish elem st (bsetAsOp m h src pos bytes (!isnull)) noDetail (fun r _ => toString r)
              ((if own then [okAlt st h (Vec.write v pos bytes)] else []) ++ [refAlt st])
          | _, _, _ => bad
      | "printf", [dat] =>
        match dataArg m h dat with
        | some (bytes, isnull) =>
          if isnull ∨ bytes.contains 0 then bad
          else finish elem st (arrayPrintf m h traitsC bytes) noDetail (fun r _ => toString r) [okAlt st h (Vec.append v bytes), refAlt st]
        | none => bad
      | "string", [] =>
        finish elem st (arrayString m h traitsC) noDetail (fun _ _ => "ptr")
          [okAlt st h (if v.contains 0 then v else v ++ [0]), refAlt st]
      | "window", [off, len] =>
        match opnd m h off, opnd m h len with
        | some off, some len =>
          let used := (bufOf m h).map (·.used) |>.getD 0
          if off + len > used then emit elem st "refused" "-" "-" [refAlt st]
          else
            let st1 := { st with m := m.setWin h (some { off := off, len := len }), sp := setNth st.sp h (Vec.sub v off len),
                                 tails := (st.tails ++ List.replicate (st.nh - st.tails.length) 0).set h (v.length - (off + len)) }
            emit elem st1 "ok" "-" "-" [("ok -", st1.sp)]
        | _, _ => bad
      | "swrite", [nblk, esz, dat] =>
        match nat? nblk, nat? esz, dataArg m h dat with
        | some nblk, some esz, some (bytes, _) =>
          if ¬ isWin ∨ esz = 0 ∨ nblk > 64 ∨ esz > 4096 ∨ bytes.length ≠ nblk * esz then bad
          else
            -- what lies behind the window is scratch space: the written blocks use it up (the rest stays) or the
            -- array ends with the window (moved to the front / private copy of the window)
            let tail := st.tails.getD h 0
            let tailOf := fun (m' : State) => match m'.win h, bufOf m' h with
              | some w, some x => x.used - (w.off + w.len)
              | _, _ => 0
            let alts := (((List.range (nblk + 1)).filter fun k => nblk = 0 ∨ k ≠ 0).flatMap fun k =>
              ([0, tail - k * esz].eraseDups.map fun t' =>
                okAlt st h (Vec.append v (Vec.blocks bytes k esz)) s!"n{k}t{t'}")) ++ [refAlt st]
            let (st', line) := finish elem st (sliceWrite m h nblk esz bytes) (fun r m' => s!"n{r}t{tailOf m'}") (fun r _ => toString r) alts
            ({ st' with tails := (st.tails ++ List.replicate (st.nh - st.tails.length) 0).set h (tailOf st'.m) }, line)
        | _, _, _ => bad
      | _, _ => bad
  | _ => bad


/-! ### C++ layer (`x` lines, harness/drvxx_array.cpp) -/

def xTraits1 : Traits := { id := 11, size := 1, init := false, fini := none }
def xTraits12 : Traits := { id := 12, size := 12, init := false, fini := none }
def xTraitsE : Traits := { id := 13, size := 4, init := true, fini := some 3 }

/-- kinds of typed arrays; `arr` (mpt::array) has no kind -/
def xKindOf : String → Option XKind
  | "t1" => some { t := xTraits1, unique := false }
  | "t12" => some { t := xTraits12, unique := false }
  | "te" => some { t := xTraitsE, unique := false }
  | "u1" => some { t := xTraits1, unique := true }
  | "u12" => some { t := xTraits12, unique := true }
  | "ue" => some { t := xTraitsE, unique := true }
  | "mp" => some { t := { id := 16, size := 2, init := false, fini := none }, unique := false }
  | "pa" => some { t := { id := 17, size := 8, init := false, fini := none }, unique := false }
  | _ => none

def intArg (s : String) : Option Int :=
  if s.startsWith "-" ∧ s.length > 1 then
    match nat? (s.drop 1).toString with
    | some a => if a > 100000 then none else some (- Int.ofNat a)
    | none => none
  else match nat? s with
    | some a => if a > 100000 then none else some (Int.ofNat a)
    | none => none

/-- data argument of the C++ driver: plain numbers only -/
def xData (s : String) : Option (List Byte × Bool) :=
  if s.startsWith "zero:" then (nat? (s.drop 5).toString).map fun n => (Heap.zeros n, true)
  else if s.startsWith "fill:" then
    match ((s.drop 5).toString.splitOn ":") with
    | [n, hh] =>
      match nat? n, parseHex hh with
      | some n, some [b] => if b = 0 ∨ n > 100000 then none else some (fillBytes n b.toNat, false)
      | _, _ => none
    | _ => none
  else (parseHex s).map fun b => (b, false)

/-- the value inserted/assigned for a one-byte argument -/
def xVal (k : XKind) (b : Byte) : List Byte :=
  if k.t.id = 17 then b :: Heap.zeros 7      -- a pointer with that numeric value
  else (List.range k.t.size).map fun i => UInt8.ofNat (b.toNat + i)

def mapUnit {α} (r : Out α) : Out Unit :=
  match r with
  | .ok s _ => .ok s ()
  | .fail s e => .fail s e
  | .fault w => .fault w

def boolRet {α} (_ : α) (_ : State) : String := "true"

/-- `finish` with the refusal return text of bool/pointer methods -/
def finishX {α} (elem : Bool) (st : St) (r : Out α) (okRet : α → State → String) (failRet : String) (alts : List Alt) : St × String :=
  match r with
  | .fail m _ => emit elem { st with m := m } "refused" "-" failRet alts
  | r => finish elem st r noDetail okRet alts

def stepX (elem : Bool) (st : St) (w : List String) : St × String :=
  let m := st.m
  let bad : St × String := (st, "bad-op")
  match w with
  | ["x", "handles", n, kind] =>
    match nat? n with
    | some n =>
      if n < 1 ∨ n > 8 ∨ (kind ≠ "arr" ∧ (xKindOf kind).isNone) then bad
      else if (kind = "te" ∨ kind = "ue") ≠ elem then bad
      else
        let st1 : St := { nh := n, m := { hs := List.replicate n none, wins := List.replicate n none }, sp := List.replicate n [], xkind := kind }
        emit elem st1 "ok" "-" "-" [("ok -", st1.sp)]
    | none => bad
  | ["x", "end"] =>
    if st.nh = 0 ∨ st.xkind = "" then bad
    else
      let r : Out Unit := (List.range st.nh).foldl (fun acc h =>
        match acc with
        | .ok s _ => refDrop s h
        | x => x) (.ok m ())
      let sp := List.replicate st.nh ([] : Vec.Vec)
      match r with
      | .ok m1 _ => emit elem { st with m := m1, sp := sp } "ok" "-" "-" [("ok -", sp)] true
      | .fail m1 e => emit elem { st with m := m1 } "refused" "-" (failName e) [("ok -", sp)] true
      | .fault w => (st, s!"R FAULT {w.replace " " "_"} | C - | I - | S ok - ; -")
  | "x" :: op :: hs :: args =>
    if st.nh = 0 ∨ st.xkind = "" then bad else
    match handleArg st.nh hs with
    | none => bad
    | some h =>
      let v := st.sp.getD h []
      match op, args with
      | "drop", [] => finish elem st (refDrop m h) noDetail (fun _ _ => "-") [okAlt st h []]
      | "clone", [src] =>
        match handleArg st.nh src with
        | some h2 => finish elem st (refAssign m h h2) noDetail (fun _ _ => "-") [okAlt st h (st.sp.getD h2 [])]
        | none => bad
      | "copy", [src] =>
        match handleArg st.nh src with
        | some h2 =>
          if h2 = h then bad
          else
            let r : Out Unit := match refDrop m h with
              | .ok s1 _ => refAssign s1 h h2
              | x => x
            finish elem st r noDetail (fun _ _ => "-") [okAlt st h (st.sp.getD h2 [])]
        | none => bad
      | _, _ =>
        if st.xkind = "arr" then
          match op, args with
          | "set", [dat] =>
            match xData dat with
            | some (bytes, _) => finishX elem st (arraySetX m h bytes) offRet "null" [okAlt st h bytes, refAlt st]
            | none => bad
          | "insert", [off, dat] =>
            match nat? off, xData dat with
            | some off, some (bytes, _) =>
              if off > 100000 then bad
              else finishX elem st (arrayInsertX m h off bytes) offRet "null"
                (okAlt st h (Vec.insert v off bytes) :: (if mustSucceed m (.insert h off bytes) v then [] else [refAlt st]))
            | _, _ => bad
          | "append", [dat] =>
            match xData dat with
            | some (bytes, _) => finishX elem st (arrayAppendX m h bytes) offRet "null"
                (okAlt st h (Vec.append v bytes) :: (if mustSucceed m (.append h bytes) v then [] else [refAlt st]))
            | none => bad
          | "setv", [kind, dat] =>
            -- array::set(const value &): s = string, i = int32, d = double
            match xData dat with
            | some (bytes, false) =>
              let spec : Option (Traits × Bool × Nat) :=
                if kind = "s" then (if bytes.contains 0 then none else some (traitsC, true, 115))
                else if kind = "a" then some (traitsC, decide (bytes ≠ [] ∧ bytes.getLast? ≠ some 0), 2050)
                else if kind = "i" ∧ bytes.length = 4 then some ({ id := 14, size := 4, init := false, fini := none }, false, 105)
                else if kind = "d" ∧ bytes.length = 8 then some ({ id := 15, size := 8, init := false, fini := none }, false, 100)
                else none
              match spec with
              | some (t, nul, code) =>
                let data := if nul then bytes ++ [0] else bytes
                -- the value becomes the content of a new buffer: nothing the handle held before can make this fail
                finishX elem st (arraySetValue m h t bytes nul) (fun _ _ => toString code) "BadOperation" [okAlt st h data]
              | none => bad
            | _ => bad
          | "printf", [dat] =>
            -- array::printf("%s", text): the C function behind a variadic wrapper
            match xData dat with
            | some (bytes, false) =>
              if bytes.contains 0 then bad
              else
                match arrayPrintf m h traitsC bytes with
                | .fail m1 e => emit elem { st with m := m1 } "refused" "-" (failName e) [okAlt st h (Vec.append v bytes), refAlt st]
                | r => finish elem st r noDetail (fun r _ => toString r) [okAlt st h (Vec.append v bytes), refAlt st]
            | _ => bad
          | "setc", [mode, dat] =>
            -- array::set(convertable &): generic / character vector data, a string (terminated), no string, nothing
            match xData dat with
            | some (bytes, false) =>
              if mode = "v" ∨ mode = "c" then
                finishX elem st (arraySetX m h bytes) (fun _ _ => "0") "BadOperation" [okAlt st h bytes, refAlt st]
              else if mode = "s" then
                if bytes.contains 0 then bad
                else finishX elem st (arraySetX m h (bytes ++ [0])) (fun _ _ => toString bytes.length) "BadOperation"
                  [okAlt st h (bytes ++ [0]), refAlt st]
              else if mode = "z" then emit elem st "refused" "-" "MissingData" [refAlt st]
              else if mode = "e" then emit elem st "refused" "-" "BadType" [refAlt st]
              else bad
            | _ => bad
          | "ebuf", [n] =>
            -- io::buffer b(array); b.shift(n); b.shift(0): another handle on the data consumes and compacts its view;
            -- the array keeps its value (return: bit 0 = shift(n) accepted, bit 1 = shift(0) compacted)
            match nat? n with
            | some n =>
              if n > 100000 then bad
              else
                -- a typed array shows no raw data to `array::length()`: nothing to compact
                let acc := 0 < n ∧ n ≤ v.length
                let r := if acc then (if handleTyped m h then 1 else 3) else 0
                -- detail: what the io::buffer still offers to its reader (the unconsumed rest)
                let rest := toHex (if acc then v.drop n else v)
                emit elem st "ok" rest (toString r) [(s!"ok {rest}", st.sp)]
            | none => bad
          | "setslice", [src, off, len] =>
            match handleArg st.nh src, nat? off, nat? len with
            | some h2, some off, some len =>
              let sv := st.sp.getD h2 []
              -- a range inside the raw data of the source is never refused (a typed source shows no raw data)
              let alts := if off + len ≤ sv.length then
                  (okAlt st h (Vec.sub sv off len) :: (if handleTyped m h2 then [refAlt st] else []))
                else [refAlt st]
              finishX elem st (arraySetSlice m h h2 off len) (fun _ _ => "true") "false" alts
            | _, _, _ => bad
          | _, _ => bad
        else
          match xKindOf st.xkind with
          | none => bad
          | some k =>
            let sz := k.t.size
            let n := v.length / sz
            let isE := k.t.init
            if st.xkind = "mp" then
              -- map<uint8_t, uint8_t>: S = the list of (key, value) pairs as a value of its own
              match op, args with
              | "mset", [kd, vd] =>
                match xData kd, xData vd with
                | some ([key], false), some ([val], false) =>
                  let idx := (List.range (v.length / 2)).find? fun i => v.getD (2 * i) 0 = key
                  let v' := match idx with
                    | some i => v.take (2 * i + 1) ++ [val] ++ v.drop (2 * i + 2)
                    | none => v ++ [key, val]
                  finishX elem st (mapSet m h k key val) boolRet "false" [okAlt st h v', refAlt st]
                | _, _ => bad
              | "mget", [kd] =>
                match xData kd with
                | some ([key], false) =>
                  let idx := (List.range (v.length / 2)).find? fun i => v.getD (2 * i) 0 = key
                  match idx, mapGet m h key with
                  | some i, some b =>
                    let hx := toHex [b]
                    let want := toHex [v.getD (2 * i + 1) 0]
                    emit elem st "ok" hx hx [(s!"ok {want}", st.sp)]
                  | none, none => emit elem st "refused" "-" "null" [("refused -", st.sp)]
                  | _, _ => (st, "bad-op model/spec disagree")
                | _ => bad
              | _, _ => bad
            else
            match op, args with
            | "insert", [pos, dat] =>
              match intArg pos, xData dat with
              | some pos, some ([b], false) =>
                let val : Option (List Byte) := if isE then none else some (xVal k b)
                let alts := match insertPos n pos with
                  | some (p, _) => [okAlt st h (Vec.insert v (p * sz) (val.getD (Heap.zeros sz))), refAlt st]
                  | none => [refAlt st]
                if isE ∧ ¬ k.unique then
                  -- `Elem val; insert(pos, val)`: a temporary source element around the call
                  finishX elem st (uInsertE m h k pos) boolRet "false" alts
                else finishX elem st (uInsert m h k pos val none) boolRet "false" alts
              | _, _ => bad
            | "set", [pos, dat] =>
              match intArg pos, xData dat with
              | some pos, some ([b], false) =>
                if isE then bad
                else
                  let p : Option Nat :=
                    if pos < 0 then (if pos + Int.ofNat n < 0 then none else some (pos + Int.ofNat n).toNat)
                    else if pos ≥ Int.ofNat n then none else some pos.toNat
                  let alts := match p with
                    | some p => [okAlt st h (Vec.write v (p * sz) (xVal k b)), refAlt st]
                    | none => [refAlt st]
                  finishX elem st (uSet m h k pos (xVal k b)) boolRet "false" alts
              | _, _ => bad
            | "resize", [cnt] =>
              match intArg cnt with
              | some c =>
                if c < 0 then bad
                else
                  let c := c.toNat
                  let v' := if c * sz ≤ v.length then v.take (c * sz) else Vec.padTo v (c * sz)
                  finishX elem st (uResize m h k c) boolRet "false" [okAlt st h v', refAlt st]
              | none => bad
            | "reserve", [cnt] =>
              match intArg cnt with
              | some c =>
                if c < 0 then bad
                else finishX elem st (uReserve m h k c.toNat) boolRet "false" [okAlt st h v, refAlt st]
              | none => bad
            | "detach", [] => finishX elem st (uDetach m h k) boolRet "false" [okAlt st h v, refAlt st]
            | "swap", [p1, p2] =>
              if st.xkind ≠ "pa" then bad
              else
                match intArg p1, intArg p2 with
                | some p1, some p2 =>
                  let len := v.length / 8
                  let alts :=
                    if p1 < 0 ∨ p2 < 0 ∨ p1.toNat ≥ len ∨ p2.toNat ≥ len then [refAlt st]
                    else
                      let es := elems8 v
                      let a := es.getD p1.toNat []
                      let b := es.getD p2.toNat []
                      [okAlt st h ((es.set p1.toNat b).set p2.toNat a).flatten, refAlt st]
                  finishX elem st (swapX m h k p1 p2) boolRet "false" alts
                | _, _ => bad
            | "compact", [] =>
              if st.xkind ≠ "pa" then bad
              else
                let kept := ((elems8 v).filter fun e => e ≠ Heap.zeros 8).flatten
                finish elem st (compactX m h k) noDetail (fun _ _ => "-") [okAlt st h kept, okAlt st h v]
            | "trim", [cnt] =>
              match nat? cnt with
              | some c =>
                if c > 100000 then bad
                else
                  -- whole elements inside the data of a buffer nobody shares are never refused
                  let priv := ((bufOf m h).map fun x => decide (x.ref = 1) && !x.immutable) = some true
                  let alts := if c * sz ≤ v.length then (okAlt st h (v.take (v.length - c * sz)) :: (if priv then [] else [refAlt st])) else [refAlt st]
                  finishX elem st (xTrim m h k c) boolRet "false" alts
              | none => bad
            | "skip", [cnt] =>
              match nat? cnt with
              | some c =>
                if c > 100000 then bad
                else
                  let priv := ((bufOf m h).map fun x => decide (x.ref = 1) && !x.immutable) = some true
                  let alts := if c * sz ≤ v.length then (okAlt st h (v.drop (c * sz)) :: (if priv then [] else [refAlt st])) else [refAlt st]
                  finishX elem st (xSkip m h k c) boolRet "false" alts
              | none => bad
            | _, _ => bad
  | _ => bad

/-- marker lines (`# ...`) separate scripts: both drivers start afresh -/
def stepLine (elem : Bool) (st0 : St) (w : List String) : St × String :=
  let st := if w.contains "f8" then { st0 with nullable := true } else st0
  match w with
  | "x" :: _ => stepX elem st w
  | "r" :: _ =>
    -- C05: the bookkeeping must stay legal; C04 (stage part): every handle is an independent nested value
    let (r', out) := Driver.Refs.step (!elem) st.refs w
    ({ st with refs := r' }, out)
  | _ => step elem st w

def main (elem : Bool) : IO Unit := do
  Driver.loop (← IO.getStdin) (← IO.getStdout) (stepLine elem) ({} : St)

end Driver.Array
