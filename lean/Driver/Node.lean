import MptModel.Impl.Nodes
import MptModel.Impl.NodesRun
import MptModel.Spec.Forest
import Driver.Util
namespace Driver.Node
open Mpt Mpt.Nodes Mpt.Forest

/-- state: the pointer model and the spec forest, run side by side -/
structure St where
  m : Store := {}
  sp : Forest.St := {}
  /-- `n fail k`: the k-th malloc of the next clone op fails -/
  failAt : Nat := 0
  deriving Inhabited

/-! ### canonical text -/

def fmtName : Name → String
  | none => "-"
  | some "" => "."
  | some n => n

def fmtVal : Val → String
  | none => ""
  | some "" => "=."
  | some v => "=" ++ v

def fmtList : Nat → Forest → String
  | 0, _ => "?"
  | f + 1, l => ",".intercalate (l.map fun t =>
      s!"{t.id}:{fmtName t.name}{fmtVal t.value}" ++
        (if t.children.isEmpty then "" else "(" ++ fmtList f t.children ++ ")"))

def depthFuel : Nat := 100000

def fmtTops (tops : List Forest) : String :=
  let ne := tops.filter (fun l => !l.isEmpty)
  if ne.isEmpty then "-" else
  let sorted := ne.mergeSort (fun a b => (headId a).getD 0 ≤ (headId b).getD 0)
  "/".intercalate (sorted.map (fmtList depthFuel))

/-- `C` text of the model: the walk of the pointer structure -/
def fmtStore (s : Store) : String :=
  match s.walk with
  | .ok tops => fmtTops tops
  | .error e => "BROKEN:" ++ e

def resName {α} : Res α → String
  | .ok _ => "ok" | .err e => e.name | .null => "null" | .oob => "OOB" | .fault => "FAULT"

def line (r : String) (m : Store) (ret : String) (specR : String) (sp : Forest.St) : String :=
  s!"R {r} | C {fmtStore m} | I ret={ret} | S {specR} ; {fmtTops sp.tops}"

/-! ### operands -/

def parseName (w : String) : Name :=
  if w = "-" then none else if w = "." then some "" else some w

def parseInt (w : String) : Option Int :=
  match w.toInt? with
  | some v => if -1000 ≤ v ∧ v ≤ 1000 then some v else none
  | none => none

/-- a token names a live node -/
def tok (s : St) (w : String) : Option Nat :=
  match w.toNat? with
  | some i =>
    match s.m.nodes[i]? with
    | some n => if n.alive then some i else none
    | none => none
  | none => none

/-- number of malloc calls `mpt_node_clone` makes for one node: the value's metatype (if any), the node, and the
    name when it does not fit into the node `mpt_node_new(len)` makes for it (len = name + terminator; node size 64,
    doubled up to 256 while smaller than len + 40; 44 bytes of the node are not name space) -/
def mallocsNode (n : Name) (v : Val) : Nat :=
  let len := match n with | some nm => nm.utf8ByteSize + 1 | none => 0
  let size := if len + 40 ≤ 64 ∨ len + 40 > 256 then 64 else if len + 40 ≤ 128 then 128 else 256
  (if v.isSome then 1 else 0) + 1 + (if len > size - 44 then 1 else 0)

def mallocsForest : Nat → Forest → Nat
  | 0, _ => 0
  | f + 1, l => l.foldl (fun acc t => acc + mallocsNode t.name t.value + mallocsForest f t.children) 0

def okWord (w : String) : Bool := w.length ≤ 600

/-- outcome of an op that changes the structure: model result `r`, spec result `sp'` (`none` = precondition
    of the call not met: both drivers skip the call) -/
def finish (s : St) (r : Res Store) (sp' : Forest.St) (ret : String := "ptr") : St × String :=
  match r with
  | .ok m' => ({ m := m', sp := sp' }, line "ok" m' ret "ok" sp')
  | x => (s, line (resName x) s.m ret "ok" sp')

def precond (s : St) : St × String := (s, line "precond" s.m "-" "precond" s.sp)

/-- the specification state with the next handle = record count, as `runOp` uses it -/
def specOf (s : St) : Forest.St := { s.sp with next := s.m.nodes.length }

/-- the operations of the history language go through `Mpt.Nodes.runOp`, the function `history_wf` is about;
    `spRes` = what the specification says about the call (`none`: precondition not met, both drivers skip it) -/
def viaRun (s : St) (op : NOp) (spRes : Option Forest.St) (ret : NSt → String) (word : String := "ok") : St × String :=
  match spRes with
  | none => precond s
  | some sp' =>
    match runOp { m := s.m, sp := s.sp } op with
    | .ok s' => ({ m := s'.m, sp := s'.sp }, line word s'.m (ret s') word s'.sp)
    | x => (s, line (resName x) s.m "-" word sp')

/-- destroy everything that is alive (the `end` op): heads in creation order, each list front to back -/
def cleanupList (m : Store) : Nat → Option Nat → Res Store
  | _, none => .ok m
  | 0, some _ => .fault
  | f + 1, some i => do
    let nd ← m.get i
    let u ← m.unlink i
    let d ← u.1.destroy u.1.fuel i
    cleanupList d.1 f nd.next

def cleanupHeads (m : Store) : List Nat → Res Store
  | [] => .ok m
  | h :: hs =>
    match m.nodes[h]? with
    | some n =>
      if n.alive then
        match cleanupList m m.fuel (some h) with
        | .ok m' => cleanupHeads m' hs
        | x => x
      else cleanupHeads m hs
    | none => .fault

/-- "depth:name[=value]" entries joined by ';' ("-" = none) -/
def parseDesc (w : String) : Option (List (Nat × Name × Val)) :=
  if w = "-" then some [] else
  (w.splitOn ";").mapM fun e =>
    match e.splitOn ":" with
    | [d, rest] =>
      match d.toNat? with
      | none => none
      | some d =>
        match rest.splitOn "=" with
        | [nm] => some (d, some nm, none)
        | [nm, v] => some (d, some nm, some v)
        | _ => none
    | _ => none

/-- the forest of the entries of depth `d` at the front of the list, handles counted from `k` in pre-order; returns the
    forest, the next handle and the remaining entries -/
def buildDesc : List (Nat × Name × Val) → Nat → Nat → Nat → Forest × Nat × List (Nat × Name × Val)
  | ents, _, k, 0 => ([], k, ents)
  | [], _, k, _ => ([], k, [])
  | (d', nm, v) :: rest, d, k, fuel + 1 =>
    if d' ≠ d then ([], k, (d', nm, v) :: rest)
    else
      let kids := buildDesc rest (d + 1) (k + 1) fuel
      let sibs := buildDesc kids.2.2 d kids.2.1 fuel
      (.node k nm v kids.1 :: sibs.1, sibs.2.1, sibs.2.2)

/-- the records of a forest whose handles are consecutive in pre-order (in that order) -/
def layout : Forest → Option Nat → Option Nat → List Node
  | [], _, _ => []
  | (.node i n v cs) :: ts, par, prev =>
    { next := headId ts, prev := prev, parent := par, children := headId cs, name := n, value := v, alive := true }
      :: (layout cs (some i) none ++ layout ts par (some i))

def step (s : St) (w : List String) : St × String :=
  match w with
  | ["n", "cxxlist", k, i] =>
    -- third part: k C++ nodes in a parentless sibling list, the i-th is deleted: the rest must stay a sound list
    match k.toNat?, i.toNat? with
    | some k, some i => if k = 0 ∨ k > 16 ∨ i ≥ k then (s, "bad-op") else (s, "R sound | C - | I ret=- | S sound ; -")
    | _, _ => (s, "bad-op")
  | ["n", "cxxreread", file, cycles] =>
    -- third part (harness/drvxx_treeparse.cpp): the C++ parser wrapper reads a file, then re-reads it `cycles` times
    -- after reset(): the clauses are relational (same tree every time, nothing lost, nothing left), the number of
    -- nodes is not modelled
    match parseHex file, cycles.toNat? with
    | some _, some c => if c > 16 then (s, "bad-op") else (s, "R same | C - | I ret=- | S same ; -")
    | _, _ => (s, "bad-op")
  | ["n", "pmerge", x, desc] =>
    -- mpt_parse_node on a node that keeps its children: the forest that is read (given by `desc`: "depth:name[=value]"
    -- in pre-order) takes the place of the children, the old children without namesake are moved into it
    -- (mpt_node_move), the others are released
    match tok s x, parseDesc desc with
    | some x, some ents =>
      match s.sp.find? x with
      | none => precond s
      | some tx =>
        let n0 := s.m.nodes.length
        let P := (buildDesc ents 0 n0 ents.length).1
        if P.isEmpty then (s, line "ok" s.m "0" "ok" s.sp) else
        let old := tx.children
        let r := Forest.merge old P 0
        let sp' : Forest.St := { s.sp with tops := s.sp.tops.map (modKids x fun _ => r.2.1), next := n0 + ents.length,
                                           freed := s.sp.freed ++ ids r.1 }
        -- model: the new list is laid out, the old children are moved into it, what is left of them is cleared,
        -- the list becomes the children of x
        let m1 : Store := { s.m with nodes := s.m.nodes ++ layout P none none }
        let res : Res Store :=
          (match old with
           | [] => Res.ok m1
           | _ => (m1.move m1.fuel (.kids x) (headId old) n0).bind fun r => .ok r.1).bind fun m2 =>
          (m2.clear m2.fuel x).bind fun m3 =>
          (m3.modify x fun y => { y with children := some n0 }).bind fun m4 =>
          m4.setParents x m4.fuel (some n0)
        finish s res sp' "0"
    | _, _ => (s, "bad-op")
  | ["n", "nparse", x, lim, inp] =>
    if inp ≠ "empty" ∧ inp ≠ "broken" then (s, "bad-op") else
    match tok s x with
    | some x =>
      -- accepted: known limit characters and an input without syntax error (here: empty) — the children are
      -- replaced by what was read, i.e. released; refused: nothing changes
      let accept := inp = "empty" ∧ lim.toList.all (fun c => "fcnswebFCNSWEB".toList.contains c)
      if accept then
        match s.sp.clear x with
        | none => precond s
        | some sp' => finish s (s.m.clear s.m.fuel x) sp' "0"
      else (s, line "refused" s.m (if inp = "broken" then "-2" else "-1") "refused" s.sp)
    | none => (s, "bad-op")
  | ["n", "newkey", key, v] =>
    -- a node identified by a binary key instead of a text name: the key (written #<hex>) takes the place of the name
    match parseHex key with
    | some kb =>
      if kb.isEmpty ∨ kb.length > 8 ∨ !okWord v then (s, "bad-op") else
      let name : Name := some ("#" ++ toHex kb)
      let val : Val := if v = "-" then none else some v
      viaRun s (.new name val) (some ((specOf s).new name val)) (fun _ => toString s.m.nodes.length)
    | none => (s, "bad-op")
  | ["n", "newsmall", nm, v] =>
    -- same node as `new`; only the storage of the name differs in the code
    if okWord nm ∧ okWord v then
      let name := parseName nm
      let val : Val := if v = "-" then none else some v
      viaRun s (.new name val) (some ((specOf s).new name val)) (fun _ => toString s.m.nodes.length)
    else (s, "bad-op")
  | ["n", "new", nm, v] =>
    if okWord nm ∧ okWord v then
      let name := parseName nm
      let val : Val := if v = "-" then none else some v
      viaRun s (.new name val) (some ((specOf s).new name val)) (fun _ => toString s.m.nodes.length)
    else (s, "bad-op")
  | ["n", "after", p, x] =>
    match tok s p, tok s x with
    | some p, some x =>
      viaRun s (.after p x) ((specOf s).after p x) (fun _ => "ptr")
    | _, _ => (s, "bad-op")
  | ["n", "before", p, x] =>
    match tok s p, tok s x with
    | some p, some x =>
      viaRun s (.before p x) ((specOf s).before p x) (fun _ => "ptr")
    | _, _ => (s, "bad-op")
  | "n" :: "add" :: f :: pos :: x :: rest =>
    if rest ≠ [] ∧ rest ≠ ["byname"] then (s, "bad-op") else
    match tok s f, parseInt pos, tok s x with
    | some f, some pos, some x =>
      let byName := rest = ["byname"]
      viaRun s (.add f pos x byName) ((specOf s).add f pos x byName) (fun _ => "ptr")
    | _, _, _ => (s, "bad-op")
  | "n" :: "insert" :: p :: pos :: x :: rest =>
    if rest ≠ [] ∧ rest ≠ ["byname"] then (s, "bad-op") else
    match tok s p, parseInt pos, tok s x with
    | some p, some pos, some x =>
      let byName := rest = ["byname"]
      viaRun s (.insert p pos x byName) ((specOf s).insert p pos x byName) (fun _ => "0")
    | _, _, _ => (s, "bad-op")
  | ["n", "unlink", x] =>
    match tok s x with
    | some x =>
      viaRun s (.unlink x) ((specOf s).unlink x) (fun _ => "ptr")
    | none => (s, "bad-op")
  | ["n", "move", a, b] =>
    match tok s a, tok s b with
    | some a, some b =>
      -- the caller's list reference afterwards (a variable of the caller, not part of the store): the first
      -- element that stayed, as the specification's merge says
      let frm := match s.sp.sibsOf? a, s.sp.sibsOf? b with
        | some (l, i), some (dl, d) =>
          match headId (Forest.merge (l.drop i) dl d).1 with
          | some h => toString h
          | none => "null"
        | _, _ => "?"
      match (specOf s).move a b with
      | some (sp', _) =>
        -- different top-level structures: the case of `history_wf`
        viaRun s (.move a b) (some sp') (fun s' => toString s'.ret) s!"ok:from={frm}"
      | none =>
        -- inside one structure (two sibling lists none of which lies in the other's moving part): run only
        match s.sp.moveSame a b with
        | none => precond s
        | some (sp', _) =>
          match slotOf s.m a with
          | .ok slot =>
            match s.m.move s.m.fuel slot (some a) b with
            | .ok r => ({ m := r.1, sp := sp' }, line s!"ok:from={frm}" r.1 (toString r.2) s!"ok:from={frm}" sp')
            | x => (s, line (resName x) s.m "-" s!"ok:from={frm}" sp')
          | x => (s, line (resName x) s.m "-" "ok" sp')
    | _, _ => (s, "bad-op")
  | ["n", "swap", a, b] =>
    match tok s a, tok s b with
    | some a, some b =>
      match s.sp.swap a b with
      | none => precond s
      | some sp' => finish s (s.m.swap s.m.fuel a b) sp' "-"
    | _, _ => (s, "bad-op")
  | ["n", "switch", a, b] =>
    match tok s a, tok s b with
    | some a, some b =>
      match s.sp.switch a b with
      | none => precond s
      | some sp' => finish s (s.m.switch a b) sp' "-"
    | _, _ => (s, "bad-op")
  | "n" :: "relink" :: x :: rest =>
    if rest ≠ [] ∧ rest ≠ ["scramble"] then (s, "bad-op") else
    match tok s x with
    | some x =>
      match s.sp.relink x, s.sp.find? x with
      | some sp', some t =>
        -- "scramble": parent and predecessor links of everything below `x` are made wrong (they point to `x`) before the call
        let m0 : Res Store :=
          if rest = [] then .ok s.m
          else (ids t.children).foldlM (fun m i => m.modify i fun y => { y with parent := some x, prev := some x }) s.m
        finish s (m0.bind fun m => m.relink m.fuel x) sp' "-"
      | _, _ => precond s
    | none => (s, "bad-op")
  | ["n", "fail", k] =>
    match k.toNat? with
    | some k =>
      if k = 0 ∨ k > 100000 then (s, "bad-op") else
      let s' := { s with failAt := k }
      (s', line "ok" s.m "-" "ok" s.sp)
    | none => (s, "bad-op")
  | "n" :: "clone" :: x :: rest =>
    if rest ≠ [] ∧ rest ≠ ["tree"] ∧ rest ≠ ["list"] then (s, "bad-op") else
    match tok s x with
    | some x =>
      let mode := if rest = [] then 0 else if rest = ["tree"] then 1 else 2
      let s0 := { s with failAt := 0 }
      match (specOf s).clone x mode, s.sp.sibsOf? x with
      | some sp', some (l, i) =>
        let src : Forest := match l[i]? with
          | some t => if mode = 0 then [.node t.id t.name t.value []] else if mode = 1 then [t] else l.drop i
          | none => []
        let total := mallocsForest depthFuel src
        if s.failAt ≠ 0 ∧ s.failAt ≤ total then
          -- an allocation fails: the call is refused, everything it had built is released again
          (s0, line "refused" s.m s!"null mallocs={s.failAt}" "refused" s.sp)
        else
          viaRun s0 (.clone x mode) (some sp') (fun _ => s!"{s.m.nodes.length} mallocs={total}")
      | _, _ => precond s0
    | none => (s, "bad-op")
  | ["n", "clear", x] =>
    match tok s x with
    | some x =>
      viaRun s (.clear x) ((specOf s).clear x) (fun _ => "-")
    | none => (s, "bad-op")
  | ["n", "destroy", x] =>
    match tok s x with
    | some x =>
      match (specOf s).destroy x with
      | some sp' =>
        -- a detached root: through `runOp`
        viaRun s (.destroy x) (some sp') (fun _ => "null")
      | none =>
        -- linked: the call is made and must be refused
        match s.m.destroy s.m.fuel x with
        | .ok (m', done) => ({ s with m := m' }, line (if done then "ok" else "refused") m' (if done then "null" else "node") "refused" s.sp)
        | r => (s, line (resName r) s.m "-" "refused" s.sp)
    | none => (s, "bad-op")
  | ["n", "locate", f, pos, nm] =>
    match tok s f, parseInt pos with
    | some f, some pos =>
      if nm = "-" ∨ !okWord nm then (s, "bad-op") else
      let key := parseName nm
      let fmt : Option Nat → String := fun r => match r with | some i => s!"found={i}" | none => "none"
      let specR := match s.sp.locate f pos key with | some r => fmt r | none => "?"
      match s.m.locate (some f) pos key with
      | .ok r => (s, line (fmt r) s.m (if r.isSome then "ptr" else "null") specR s.sp)
      | x => (s, line (resName x) s.m "-" specR s.sp)
    | _, _ => (s, "bad-op")
  | ["n", "pos", f, pos] =>
    match tok s f, parseInt pos with
    | some f, some pos =>
      let fmt : Option Nat → String := fun r => match r with | some i => s!"found={i}" | none => "none"
      let specR := match s.sp.pos f pos with | some r => fmt r | none => "?"
      match s.m.gnodePos (some f) pos with
      | .ok r => (s, line (fmt r) s.m (if r.isSome then "ptr" else "null") specR s.sp)
      | x => (s, line (resName x) s.m "-" specR s.sp)
    | _, _ => (s, "bad-op")
  | ["n", "begin"] =>
    let empty : Forest.St := {}
    ({}, line "ok" {} "0" "ok" empty)
  | ["n", "end"] =>
    let empty : Forest.St := {}
    match cleanupHeads s.m s.m.heads with
    | .ok m' =>
      -- every record released, each exactly once
      let allFreed := m'.liveIds.isEmpty
      let once := m'.freed.length = m'.nodes.length && (List.range m'.nodes.length).all (fun i => m'.freed.contains i)
      let r := if !allFreed then "not-released" else if !once then "leak" else "ok"
      ({}, line r m' "0" "ok" empty)
    | x => ({}, line (resName x) s.m "-" "ok" empty)
  | _ => (s, "bad-op")

/-- a pending `n fail k` only concerns the op that follows it -/
def stepTop (s : St) (w : List String) : St × String :=
  let r := step s w
  match w with
  | ["n", "fail", _] => r
  | _ => ({ r.1 with failAt := 0 }, r.2)

def main (_args : List String) : IO Unit := do
  Driver.loop (← IO.getStdin) (← IO.getStdout) stepTop ({} : St)

end Driver.Node
