import MptModel.Impl.Linepart
import MptModel.Impl.Dyadic
import Driver.Util
namespace Driver.Linepart
open Mpt Mpt.Visible Mpt.Linepart

/-- state: current range (`none` = NULL pointer) and data -/
structure St where
  range : Option Range := none
  data : List Rat := []
  deriving Inhabited

def fmtPart (p : Part) : String := s!"{p.raw}:{p.usr}:{p.cut}:{p.trim}"

def fmtParts (ps : List Part) : String :=
  if ps.isEmpty then "-" else ",".intercalate (ps.map fmtPart)

/-- `n*v` (n copies) or `v` -/
def parseItem (s : String) : Option (List Rat) :=
  match s.splitOn "*" with
  | [v] => (Dyadic.parse v).map fun q => [q]
  | [n, v] =>
    match Dyadic.parseNat n, Dyadic.parse v with
    | some k, some q => if k ≤ 200000 then some (List.replicate k q) else none
    | _, _ => none
  | _ => none

def parseItems : List String → Option (List Rat)
  | [] => some []
  | s :: rest => do
    let a ← parseItem s
    let b ← parseItems rest
    pure (a ++ b)

def parsePart (s : String) : Option Part :=
  match (s.splitOn ":").map Dyadic.parseNat with
  | [some a, some b, some c, some d] =>
    if a ≤ 65535 ∧ b ≤ 65535 ∧ c ≤ 65535 ∧ d ≤ 65535 then some { raw := a, usr := b, cut := c, trim := d } else none
  | _ => none

def sumRaw (ps : List Part) : Nat := (ps.map (·.raw)).sum
def sumUsr (ps : List Part) : Nat := (ps.map (·.usr)).sum

/-- S for `l run`: the property allows every record sequence that `Visible.validB` accepts.  The line
    protocol can list only finitely many alternatives: the model's own sequence is listed when the
    checker accepts it (theorems `partition`, `visible_once` say it always does), `!invalid` otherwise. -/
def runLine (s : St) : String :=
  let ps := parts s.data s.range
  let stall := ps.any fun p => p.raw == 0
  let r := s!"n={ps.length} recs={fmtParts ps}" ++ (if stall then " stall" else "")
  let c := s!"raw={sumRaw ps} usr={sumUsr ps}"
  let ok := match s.range with
    | some rg => if s.data.length * (ps.length + 1) ≤ 20000000 then validB rg s.data ps
                 else decide (sumRaw ps = s.data.length) && !stall
    | none => decide (sumRaw ps = s.data.length) && !stall && decide (sumUsr ps = s.data.length)
  s!"R {r} | C {c} | I len={s.data.length} | S " ++ (if ok then s!"{r} ; {c}" else "!invalid ; !invalid")

/-- codes within one unit of `f·65536` (the precision the property grants) -/
def codeAlts (f : Rat) : List Int :=
  let lo := (f * 65536).floor
  -- a code of 0 means "nothing cut" to the consumers (polyline::part::points): a non-zero fraction needs a
  -- non-zero code
  ([lo - 1, lo, lo + 1, lo + 2].filter fun c =>
    0 ≤ c ∧ c ≤ 65535 ∧ (c : Rat) - f * 65536 ≤ 1 ∧ f * 65536 - (c : Rat) ≤ 1 ∧ (f = 0 ∨ 1 ≤ c))

def codeR (c : Int) : String :=
  if c < 0 then s!"code={c} real=-" else s!"code={c} real={Dyadic.text (real c)}"

def step (s : St) (w : List String) : St × String :=
  match w with
  | ["l", "range", "null"] => ({ s with range := none }, "R ok | C - | I -")
  | ["l", "range", a, b] =>
    match Dyadic.parse a, Dyadic.parse b with
    | some mn, some mx => ({ s with range := some ⟨mn, mx⟩ }, "R ok | C - | I -")
    | _, _ => (s, "bad-op")
  | ["l", "data", "-"] => ({ s with data := [] }, "R ok | C - | I len=0")
  | ["l", "data", items] =>
    match parseItems (items.splitOn ",") with
    | some xs => ({ s with data := xs }, s!"R ok | C - | I len={xs.length}")
    | none => (s, "bad-op")
  | ["l", "run"] => (s, runLine s)
  | ["l", "code", v] =>
    match Dyadic.parse v with
    | some f =>
      let c := code f
      let alts :=
        if 0 ≤ f ∧ f ≤ 1 then " || ".intercalate ((codeAlts f).map fun c => s!"{codeR c} ; -")
        else "* ; -"       -- outside [0,1]: the property does not say (the code answers -2)
      (s, s!"R {codeR c} | C - | I - | S {alts}")
    | none => (s, "bad-op")
  | ["l", "join", a, b] =>
    match parsePart a, parsePart b with
    | some to, some post =>
      let tot := s!"raw={to.raw + post.raw} usr={to.usr + post.usr}"
      let joined : Part := { raw := to.raw + post.raw, usr := to.usr + post.usr, cut := to.cut, trim := post.trim }
      -- S: refusing is always allowed; joining only when the joined record denotes the same drawn points
      -- and fractions and fits the fields
      let may := to.usr = to.raw ∧ to.trim = 0 ∧ post.cut = 0 ∧ joined.raw ≤ 65535 ∧ joined.usr ≤ 65535
      let alts := s!"refused ; {tot}" ++ (if may then s!" || joined {fmtPart joined} ; {tot}" else "")
      match linepartJoin to post with
      | some j => (s, s!"R joined {fmtPart j} | C raw={j.raw} usr={j.usr} | I - | S {alts}")
      | none => (s, s!"R refused | C {tot} | I - | S {alts}")
    | _, _ => (s, "bad-op")
  | _ => (s, "bad-op")

def main (_args : List String) : IO Unit := do
  Driver.loop (← IO.getStdin) (← IO.getStdout) step ({} : St)

end Driver.Linepart
