import MptModel.Impl.Linepart
import MptModel.Impl.LinepartArray
import MptModel.Impl.Dyadic
import Driver.Util
namespace Driver.Linepart
open Mpt Mpt.Visible Mpt.Linepart

/-- state: current range (`none` = NULL pointer) and data; for the C++ layer (`xl` ops) a range and a data
    set per dimension, the part array and the dimensions applied so far -/
structure St where
  range : Option Range := none
  data : List Rat := []
  xrange : List (Option Range) := [none, none, none]
  xdata : List (List Rat) := [[], [], []]
  xarr : List Part := []
  /-- a second handle made by `xl share`: its own value (copy on write) -/
  xarr2 : Option (List Part) := none
  xdims : List Nat := []
  xlen : Nat := 0
  /-- transformation: 0 = test double, 1 = layout::graph::transform3, 2 = plain (default part(), no limits) -/
  xtr : Nat := 0
  deriving Inhabited

/-- the visible range a dimension is split against: none for the plain transformation; for logarithmic limits
    (`xtr = 3`) the range gives decades: `[10^⌊min⌋, 10^⌈max⌉]` -/
def effRange (s : St) (d : Nat) : Option Range :=
  if s.xtr = 2 then none
  else match s.xrange.getD d none with
    | none => none
    | some r =>
      if s.xtr = 3 then
        let p10 (e : Int) : Rat := if 0 ≤ e then ((10 ^ e.toNat : Nat) : Rat) else 1 / ((10 ^ (-e).toNat : Nat) : Rat)
        some ⟨p10 r.min.floor, p10 (-((-r.max).floor))⟩
      else some r

def fmtPart (p : Part) : String := s!"{p.raw}:{p.usr}:{p.cut}:{p.trim}"

def fmtParts (ps : List Part) : String :=
  if ps.isEmpty then "-" else ",".intercalate (ps.map fmtPart)

/-- `n*v` (n copies) or `v` -/
def parseItem (s : String) : Option (List Rat) :=
  match s.splitOn "*" with
  | [v] => (Dyadic.parse v).map fun q => [q]
  | [n, v] =>
    match Dyadic.parseNat n, Dyadic.parse v with
    | some k, some q => if k ≤ 200000 then some (List.replicate k q) else none
    | _, _ => none
  | _ => none

def parseItems : List String → Option (List Rat)
  | [] => some []
  | s :: rest => do
    let a ← parseItem s
    let b ← parseItems rest
    pure (a ++ b)

def parsePart (s : String) : Option Part :=
  match (s.splitOn ":").map Dyadic.parseNat with
  | [some a, some b, some c, some d] =>
    if a ≤ 65535 ∧ b ≤ 65535 ∧ c ≤ 65535 ∧ d ≤ 65535 then some { raw := a, usr := b, cut := c, trim := d } else none
  | _ => none

def sumRaw (ps : List Part) : Nat := (ps.map (·.raw)).sum
def sumUsr (ps : List Part) : Nat := (ps.map (·.usr)).sum

/-- S for `l run`: the property allows every record sequence that `Visible.validB` accepts.  The line
    protocol can list only finitely many alternatives: the model's own sequence is listed when the
    checker accepts it (theorems `partition`, `visible_once` say it always does), `!invalid` otherwise. -/
def runLine (s : St) : String :=
  let ps := parts s.data s.range
  let stall := ps.any fun p => p.raw == 0
  let r := s!"n={ps.length} recs={fmtParts ps}" ++ (if stall then " stall" else "")
  let c := s!"raw={sumRaw ps} usr={sumUsr ps}"
  let ok := match s.range with
    | some rg => if s.data.length * (ps.length + 1) ≤ 20000000 then validB rg s.data ps
                 else decide (sumRaw ps = s.data.length) && !stall
    | none => decide (sumRaw ps = s.data.length) && !stall && decide (sumUsr ps = s.data.length)
  s!"R {r} | C {c} | I len={s.data.length} | S " ++ (if ok then s!"{r} ; {c}" else "!invalid ; !invalid")

/-- codes within one unit of `f·65536` (the precision the property grants) -/
def codeAlts (f : Rat) : List Int :=
  let lo := (f * 65536).floor
  -- a code of 0 means "nothing cut" to the consumers (polyline::part::points): a non-zero fraction needs a
  -- non-zero code
  ([lo - 1, lo, lo + 1, lo + 2].filter fun c =>
    0 ≤ c ∧ c ≤ 65535 ∧ (c : Rat) - f * 65536 ≤ 1 ∧ f * 65536 - (c : Rat) ≤ 1 ∧ (f = 0 ∨ 1 ≤ c))

def codeR (c : Int) : String :=
  if c < 0 then s!"code={c} real=-" else s!"code={c} real={Dyadic.text (real c)}"

/-- spec for the C++ layer: the parts consume `n` points; a point visible in every applied dimension is
    drawn by exactly one part; the interior of every drawn portion is visible in every applied dimension -/
def visAll (dims : List (Option Range × Array Rat)) (i : Nat) : Bool :=
  dims.all fun (rg, a) =>
    match rg, a[i]? with
    | some r, some x => r.has x
    | none, some _ => true
    | _, none => false

def interiorAll (dims : List (Option Range × Array Rat)) : List Part → Nat → Bool
  | [], _ => true
  | p :: ps, start =>
    ((List.range p.usr).all fun k => if 0 < k ∧ k + 1 < p.usr then visAll dims (start + k) else true)
    && interiorAll dims ps (start + p.raw)

/-- a drawn end point that is invisible in some applied dimension carries a non-zero cut / trim code -/
def flaggedAll (dims : List (Option Range × Array Rat)) : List Part → Nat → Bool
  | [], _ => true
  | p :: ps, start =>
    (p.usr == 0 || visAll dims start || decide (0 < p.cut))
    && (p.usr == 0 || visAll dims (start + p.usr - 1) || decide (0 < p.trim) || (p.usr == 1 && decide (0 < p.cut)))
    -- the points handed out by the part view: never more points removed than drawn
    && decide ((if p.cut ≠ 0 then 1 else 0) + (if p.trim ≠ 0 then 1 else 0) ≤ p.usr ∨ p.usr = 0)
    && flaggedAll dims ps (start + p.raw)

/-- the points a part view hands out (span `a+b` inside the drawn points that start at `c`) are visible in
    every applied dimension; `start` = data position of the part's first point -/
def reportedAll (dims : List (Option Range × Array Rat)) : List Part → List (Nat × Int × Nat × Nat) → Nat → Bool
  | p :: ps, (a, b, c, _) :: spans, start =>
    ((List.range b.toNat).all fun j => visAll dims (start + (a - c) + j)) && reportedAll dims ps spans (start + p.raw)
  | [], [], _ => true
  | _, _, _ => false

def validMulti (s : St) (ps : List Part) : Bool :=
  let dims := s.xdims.map fun d => ((effRange s d), (s.xdata.getD d []).toArray)
  decide (sumRaw ps = s.xlen)
  && (List.range s.xlen).all (fun i => if visAll dims i then drawnCount ps 0 i == 1 else true)
  && interiorAll dims ps 0 && flaggedAll dims ps 0

def xdump (s : St) (verdict : String) : String :=
  let ps := s.xarr
  let r := s!"{verdict} n={ps.length} recs={fmtParts ps}"
  let c := s!"raw={lengthRaw ps} usr={lengthUser ps}"
  let judged := s.xlen * (ps.length + 1) ≤ 2000000
  let ok := !judged || validMulti s ps
  s!"R {r} | C {c} | I len={s.xlen} | S " ++ (if ok then s!"{r} ; {c}" else "!invalid ; !invalid")

/-- records of the second handle (its data history is not tracked: not judged, only compared) -/
def dump2 (ps : List Part) (verdict : String) : String :=
  s!"R {verdict} n={ps.length} recs={fmtParts ps} | C raw={lengthRaw ps} usr={lengthUser ps} | I len=0 | S * ; *"

def setAt {α} (l : List α) (i : Nat) (v : α) : List α := l.set i v

def xstep (s : St) (w : List String) : St × String :=
  match w with
  | ["xl", "new"] => ({ s with xrange := [none, none, none], xdata := [[], [], []], xarr := [], xarr2 := none, xdims := [], xlen := 0, xtr := 0 },
      "R ok | C - | I -")
  | ["xl", "range", d, "null"] =>
    match Dyadic.parseNat d with
    | some k => if k < 3 then ({ s with xrange := setAt s.xrange k none }, "R ok | C - | I -") else (s, "bad-op")
    | none => (s, "bad-op")
  | ["xl", "range", d, a, b] =>
    match Dyadic.parseNat d, Dyadic.parse a, Dyadic.parse b with
    | some k, some mn, some mx =>
      if k < 3 then ({ s with xrange := setAt s.xrange k (some ⟨mn, mx⟩) }, "R ok | C - | I -") else (s, "bad-op")
    | _, _, _ => (s, "bad-op")
  | ["xl", "data", d, items] =>
    match Dyadic.parseNat d, (if items = "-" then some [] else parseItems (items.splitOn ",")) with
    | some k, some xs =>
      if k < 3 then ({ s with xdata := setAt s.xdata k xs }, s!"R ok | C - | I len={xs.length}") else (s, "bad-op")
    | _, _ => (s, "bad-op")
  | ["xl", "set", n] =>
    match Dyadic.parseNat n with
    | some k =>
      if k > 400000 then (s, "bad-op") else
      let s1 := { s with xarr := arraySet k, xdims := [], xlen := k }
      (s1, xdump s1 "ok")
    | none => (s, "bad-op")
  | ["xl", "tr", kind] =>
    if kind = "double" then ({ s with xtr := 0 }, "R ok | C - | I -")
    else if kind = "t3" then ({ s with xtr := 1 }, "R ok | C - | I -")
    else if kind = "plain" then ({ s with xtr := 2 }, "R ok | C - | I -")
    else if kind = "t3lg" then ({ s with xtr := 3 }, "R ok | C - | I -")
    else (s, "bad-op")
  | ["xl", "walk", d] =>
    match Dyadic.parseNat d with
    | some k =>
      if k ≥ 3 then (s, "bad-op") else
      let vals := s.xdata.getD k []
      let rg := effRange s k
      let ps := parts vals rg
      let stall := ps.any fun p => p.raw == 0
      let r := s!"recs={fmtParts ps} n={ps.length}" ++ (if stall then " stall" else "")
      let ok := match rg with
        | some r0 => if vals.length * (ps.length + 1) ≤ 20000000 then validB r0 vals ps else decide (sumRaw ps = vals.length) && !stall
        | none => decide (sumRaw ps = vals.length) && !stall && decide (sumUsr ps = vals.length)
      (s, s!"R {r} | C - | I - | S " ++ (if ok then s!"{r} ; *" else "!invalid ; *"))
    | none => (s, "bad-op")
  | ["xl", "apply", d] =>
    match Dyadic.parseNat d with
    | some k =>
      if k ≥ 3 then (s, "bad-op") else
      let vals := s.xdata.getD k []
      match arrayApply s.xarr vals (effRange s k) with
      | none => (s, xdump s "refused")
      | some ps =>
        let xlen := if s.xarr.isEmpty then vals.length else s.xlen
        let s1 := { s with xarr := ps, xdims := if s.xdims.contains k then s.xdims else k :: s.xdims, xlen := xlen }
        (s1, xdump s1 "ok")
    | none => (s, "bad-op")
  | ["xl", "pset", n] =>
    -- polyline::set: parts for the points, then every store applied as its dimension
    match Dyadic.parseNat n with
    | some k =>
      let len := (s.xdata.getD 0 []).length
      if k < 1 ∨ k > 3 ∨ len = 0 ∨ (List.range k).any (fun d => (s.xdata.getD d []).length ≠ len) then (s, "bad-op")
      else
        let ps := (List.range k).foldl (fun acc d =>
          match arrayApply acc (s.xdata.getD d []) (effRange s d) with
          | some q => q
          | none => acc) (arraySet len)
        let s1 := { s with xarr := ps, xdims := List.range k, xlen := len }
        let out := xdump s1 (if lengthUser ps = 0 then "refused" else "ok")
        -- `polyline::iterator` compares positions in the point array: trailing parts without drawn points are
        -- not visited
        let total := lengthUser ps
        let walked := ((List.range (ps.length + 1)).find? fun k => lengthUser (ps.take k) = total).getD ps.length
        -- the point storage holds exactly the drawn points of THIS data (none when nothing is visible)
        let out1 := out.replace " | C raw=" s!" pts={total} | C raw="
        let out2 := out1.replace " ; raw=" s!" pts={total} ; raw="
        (s, out2.replace s!"I len={len}" s!"I len={len} walked={walked}")
    | none => (s, "bad-op")
  | ["xl", "reset"] =>
    let s1 := { s with xarr := arraySet (lengthRaw s.xarr), xdims := [] }
    (s1, xdump s1 "ok")
  | ["xl", "applybad"] => (s, xdump s "refused")
  | ["xl", "wjoin", a, b] =>
    match parsePart a, parsePart b with
    | some to, some post =>
      if [to.raw, to.usr, to.cut, to.trim, post.raw, post.usr, post.cut, post.trim].any (· > 65535) then (s, "bad-op") else
      let tot := s!"raw={to.raw + post.raw} usr={to.usr + post.usr}"
      match linepartJoin to post with
      | some j => (s, s!"R joined {fmtPart j} cut={j.cut} trim={j.trim} | C raw={j.raw} usr={j.usr} | I - | S * ; {tot}")
      | none => (s, s!"R refused {fmtPart to} | C {tot} | I - | S * ; {tot}")
    | _, _ => (s, "bad-op")
  | ["xl", "wcode", v] =>
    match Dyadic.parse v with
    | some f =>
      let c := code f
      if c < 0 then (s, "R refused cut=7 trim=9 | C - | I - | S refused cut=7 trim=9 ; *")
      else (s, s!"R ok cut={c} trim={c} | C - | I - | S * ; *")
    | none => (s, "bad-op")
  | ["xl", "share"] => ({ s with xarr2 := some s.xarr }, "R ok | C - | I -")
  | ["xl", "dump2"] =>
    match s.xarr2 with
    | some ps => (s, dump2 ps "ok")
    | none => (s, "bad-op")
  | ["xl", "set2", n] =>
    match s.xarr2, Dyadic.parseNat n with
    | some _, some k =>
      if k > 400000 then (s, "bad-op") else ({ s with xarr2 := some (arraySet k) }, dump2 (arraySet k) "ok")
    | _, _ => (s, "bad-op")
  | ["xl", "apply2", d] =>
    match s.xarr2, Dyadic.parseNat d with
    | some old, some k =>
      if k ≥ 3 ∨ old.isEmpty then (s, "bad-op") else
      match arrayApply old (s.xdata.getD k []) (effRange s k) with
      | none => (s, dump2 old "refused")
      | some ps => ({ s with xarr2 := some ps }, dump2 ps "ok")
    | _, _ => (s, "bad-op")
  | ["xl", "dump"] => (s, xdump s "ok")
  | ["xl", "poly"] =>
    let ps := polyParts s.xarr 0
    let txt := if ps.isEmpty then "-" else ",".intercalate (ps.map fun (a, b, c, d) => s!"{a}+{b}/{c}+{d}")
    -- spec: the points of a part lie inside its drawn points, and every point handed out is visible in every
    -- applied dimension (the drawn points without an out-of-range first / last point)
    let sane := ps.all fun (a, b, c, d) => 0 ≤ b ∧ a + b.toNat ≤ lengthUser s.xarr ∧ c + d ≤ lengthUser s.xarr
    let dims := s.xdims.map fun d => ((effRange s d), (s.xdata.getD d []).toArray)
    let judged := s.xlen * (s.xarr.length + 1) ≤ 2000000
    let visible := !judged || reportedAll dims s.xarr ps 0
    (s, s!"R spans={txt} | C - | I - | S " ++ (if sane && visible then s!"spans={txt} ; *" else "!invalid ; *"))
  | _ => (s, "bad-op")

def step (s : St) (w : List String) : St × String :=
  if w.head? = some "xl" then xstep s w else
  match w with
  | ["l", "range", "null"] => ({ s with range := none }, "R ok | C - | I -")
  | ["l", "range", a, b] =>
    match Dyadic.parse a, Dyadic.parse b with
    | some mn, some mx => ({ s with range := some ⟨mn, mx⟩ }, "R ok | C - | I -")
    | _, _ => (s, "bad-op")
  | ["l", "data", "-"] => ({ s with data := [] }, "R ok | C - | I len=0")
  | ["l", "data", items] =>
    match parseItems (items.splitOn ",") with
    | some xs => ({ s with data := xs }, s!"R ok | C - | I len={xs.length}")
    | none => (s, "bad-op")
  | ["l", "empty"] =>
    -- no values: nothing is read, the empty part is returned
    let p := linepartLinear [] s.range
    (s, s!"R part {fmtPart p} | C - | I - | S part 0:0:0:0 ; *")
  | ["l", "run"] => (s, runLine s)
  | ["l", "code", v] =>
    match Dyadic.parse v with
    | some f =>
      let c := code f
      let alts :=
        if 0 ≤ f ∧ f ≤ 1 then " || ".intercalate ((codeAlts f).map fun c => s!"{codeR c} ; -")
        else "* ; -"       -- outside [0,1]: the property does not say (the code answers -2)
      (s, s!"R {codeR c} | C - | I - | S {alts}")
    | none => (s, "bad-op")
  | ["l", "join", a, b] =>
    match parsePart a, parsePart b with
    | some to, some post =>
      let tot := s!"raw={to.raw + post.raw} usr={to.usr + post.usr}"
      let joined : Part := { raw := to.raw + post.raw, usr := to.usr + post.usr, cut := to.cut, trim := post.trim }
      -- S: refusing is always allowed; joining only when the joined record denotes the same drawn points
      -- and fractions and fits the fields
      let may := to.usr = to.raw ∧ to.trim = 0 ∧ post.cut = 0 ∧ joined.raw ≤ 65535 ∧ joined.usr ≤ 65535
      let alts := s!"refused ; {tot}" ++ (if may then s!" || joined {fmtPart joined} ; {tot}" else "")
      match linepartJoin to post with
      | some j => (s, s!"R joined {fmtPart j} | C raw={j.raw} usr={j.usr} | I - | S {alts}")
      | none => (s, s!"R refused | C {tot} | I - | S {alts}")
    | _, _ => (s, "bad-op")
  | _ => (s, "bad-op")

def main (_args : List String) : IO Unit := do
  Driver.loop (← IO.getStdin) (← IO.getStdout) step ({} : St)

end Driver.Linepart
