import MptModel.Impl.Ident
import MptModel.Spec.Ident
import MptModel.Impl.IdentAbs
import Driver.Util
namespace Driver.Ident
open Mpt Mpt.Ident

/-- model system (slots of identifiers + heap) and the spec values, side by side -/
structure DSys where
  m : Mpt.Ident.Sys := Sys.empty
  spec : List (Option Val) := []
  nodes : List Nat := []     -- slots that are node identifiers, in list (creation) order
  items : List Nat := []     -- slots that are the identifier of a stand-alone C++ item<T>
  deriving Inhabited

def parseDec (s : String) : Option Nat :=
  let cs := s.toList
  if cs.isEmpty then none
  else if !cs.all (fun c => '0' ≤ c && c ≤ '9') then none
  else if cs.length > 1 && cs.head? == some '0' then none
  else if cs.length > 18 then none
  else some (cs.foldl (fun n c => n * 10 + (c.toNat - 48)) 0)

/-- byte-string operand: `-`, hex, `rep:<hh>:<n>` (n ≤ 200000), or `null` (= none) -/
def parseBytes (s : String) : Option (Option (List Byte)) :=
  if s = "null" then some none
  else if s.startsWith "rep:" then
    match (s.drop 4).toString.splitOn ":" with
    | [hh, n] =>
      match parseHex hh, parseDec n with
      | some [b], some k => if hh.length = 2 ∧ k ≤ 200000 then some (some (List.replicate k b)) else none
      | _, _ => none
    | _ => none
  else if s.startsWith "zero:" then none
  else (parseHex s).map some

/-- list position operand: decimal with optional minus, |pos| ≤ 20, no `-0` -/
def parsePos (s : String) : Option Int :=
  match s.toList with
  | '-' :: rest => match parseDec (String.ofList rest) with
    | some n => if n = 0 ∨ n > 20 then none else some (-(n : Int))
    | none => none
  | _ => match parseDec s with
    | some n => if n > 20 then none else some (n : Int)
    | none => none

def parseLen (s : String) : Option Int :=
  if s = "-1" then some (-1)
  else match parseDec s with
    | some n => if n ≤ 1000000 then some (n : Int) else none
    | none => none

def fnv (b : List Byte) : Nat :=
  (b.foldl (fun (h : UInt32) x => (h ^^^ x.toUInt32) * 16777619) 2166136261).toNat

def hex8 (n : Nat) : String :=
  String.ofList ((List.range 8).reverse.map fun i => hexDigit ((n / 16 ^ i) % 16))

def fmtContent (b : List Byte) : String :=
  if b.length ≤ 40 then toHex b
  else s!"#{b.length}:{hex8 (fnv b)}:{toHex (b.take 8)}..{toHex (b.drop (b.length - 8))}"

def fmtVal (v : Val) : String :=
  if v.charset = utf8 then s!"1:{fmtContent v.bytes}"
  else if v.bytes.isEmpty then s!"{v.charset}:unset"
  else s!"{v.charset}:raw:{fmtContent v.bytes}"

def faultName : Fault → String
  | .oob => "oob" | .indet => "indet" | .wildFree => "wildFree" | .doubleFree => "doubleFree"
  | .foreignFree => "foreignFree" | .deadRead => "deadRead" | .badRead => "badRead"

/-- what the identifier reads back as in the model -/
def fmtIdent (id : Mpt.Ident.Ident) (h : Heap) : String :=
  if id.len = 0 then s!"{id.charset}:unset"
  else match readData id h id.len with
    | .error f => s!"{id.charset}:!{faultName f}"
    | .ok d =>
      if id.charset = 1 then
        (if d.getLast? != some 0 then s!"1:!unterminated:" else "1:") ++ fmtContent d.dropLast
      else s!"{id.charset}:raw:{fmtContent d}"

def enum {α} (l : List α) : List (Nat × α) := (List.range l.length).zip l

def fmtC (items : List (Nat × String)) : String :=
  if items.isEmpty then "-" else " ".intercalate (items.map fun (k, s) => s!"k{k}={s}")

def fmtCModel (s : DSys) : String :=
  fmtC ((enum s.m.ids).filterMap fun (k, o) => o.map fun id => (k, fmtIdent id s.m.heap))

def fmtCSpec (sp : List (Option Val)) : String :=
  fmtC ((enum sp).filterMap fun (k, o) => o.map fun v => (k, fmtVal v))

def fmtI (s : DSys) (extra : String := "") : String :=
  let items := (enum s.m.ids).filterMap fun (k, o) => o.map fun id =>
    s!"k{k}={id.len}/{id.max}/{if id.len > id.max then "ext" else "inl"}/{s.m.owned k}"
  let live := (s.m.heap.blocks.filter (·.live)).length
  let pre := if items.isEmpty then "" else " ".intercalate items ++ " "
  s!"{pre}heap={live}{extra}"

abbrev Alts := List (String × List (Option Val))

def line (r : String) (s : DSys) (alts : Alts) (extra : String := "") : String :=
  let a := " || ".intercalate (alts.map fun (rt, sp) => s!"{rt} ; {fmtCSpec sp}")
  s!"R {r} | C {fmtCModel s} | I {fmtI s extra} | S {a}"

def getSlot (s : DSys) (w : String) : Option (Nat × Mpt.Ident.Ident) :=
  match parseDec w with
  | some k => (s.m.get k).map fun id => (k, id)
  | none => none

def specOf (s : DSys) (k : Nat) : Val := ((s.spec[k]?).getD none).getD Val.unset

def maxSlots : Nat := 16

/-- the harness releases what an ended identifier left behind -/
def reap (m : Mpt.Ident.Sys) (k : Nat) : Mpt.Ident.Sys :=
  { m with heap := ⟨m.heap.blocks.map fun b => if b.live && b.owner == k then { b with live := false } else b⟩ }

/-- run one model operation and print it.  The spec column is the value-level machine of Spec/Ident.lean
    (`Vals.step` on `Op.abs op` — the functions `history_refines_values` is about) with the verdict `verdict`. -/
def runOp (s : DSys) (op : Op) (verdict : String) : DSys × String :=
  let sp' : Vals := Vals.step s.spec op.abs
  let alts : Alts := [(verdict, sp')]
  match s.m.step op with
  | .error f => (s, line s!"FAULT:{faultName f}" s alts)
  | .ok (m', res) =>
    match res, op with
    | .invalid, _ => (s, "bad-op")
    | .done ok, _ =>
      let s' : DSys := { s with m := m', spec := sp' }
      (s', line (if ok then "ok" else "refused") s' alts)
    | .ended leaked, .free k | .ended leaked, .tfini k =>
      let s' : DSys := { m := reap m' k, spec := sp', nodes := s.nodes.filter (· != k) }
      (s', line s!"ok leaked={leaked}" s' alts)
    | .ended leaked, _ =>
      let s' : DSys := { s with m := m', spec := sp' }
      (s', line s!"ok leaked={leaked}" s' alts)

/-- verdict the property demands of a set: refused exactly beyond the documented limit -/
def setVerdict (name : Option (List Byte)) (len : Int) : String :=
  if ((nameOf name len).bind setVal).isSome then "ok" else "refused"

def newSlot (s : DSys) (size : Nat) : DSys × String := runOp s (.new size) "ok"

def step (s : DSys) (w : List String) : DSys × String :=
  match w with
  | ["i", "reset"] =>
    let s' : DSys := {}
    (s', line "ok" s' [("ok", [])])
  | ["i", "new", sz] =>
    match parseDec sz with
    | some n => if n < 16 ∨ n > 300 ∨ s.m.ids.length ≥ maxSlots then (s, "bad-op") else newSlot s n
    | none => (s, "bad-op")
  | ["i", "sinit"] =>
    -- `MPT_IDENTIFIER_INIT` in a block of `sizeof(struct identifier)`: the same as `mpt_identifier_init(id, 16)`
    if s.m.ids.length ≥ maxSlots then (s, "bad-op") else newSlot s 16
  | ["i", "ninit"] =>
    -- `MPT_NODE_INIT`: the node's identifier is the last member, initialised like `MPT_IDENTIFIER_INIT`
    if s.m.ids.length ≥ maxSlots then (s, "bad-op") else newSlot s 16
  | "i" :: "setfail" :: kw :: dw :: rest =>
    -- `mpt_identifier_set` while malloc fails: refused and unchanged when an allocation is needed, else as usual;
    -- the property allows both verdicts (it does not know the storage size) but nothing else
    match getSlot s kw, parseBytes dw, (match rest with | [] => some none | [l] => (parseLen l).map some | _ => none) with
    | some (k, id), some name, some olen =>
      let len : Int := olen.getD ((name.getD []).length : Int)
      let bad := match name with
        | none => olen.isNone || len < 0
        | some b => len > (b.length : Int)
      if bad then (s, "bad-op")
      else
        let spSet : Vals := Vals.step s.spec (Op.abs (.set k name len))
        let alts : Alts := [(setVerdict name len, spSet), ("refused", s.spec)]
        match setNoMem id s.m.heap k (name.map (· ++ [0])) len with
        | .error f => (s, line s!"FAULT:{faultName f}" s alts)
        | .ok (id', h', ok) =>
          let s' : DSys := { s with m := { ids := s.m.ids.set k (some id'), heap := h' }, spec := if ok then spSet else s.spec }
          (s', line (if ok then "ok" else "refused") s' alts)
    | _, _, _ => (s, "bad-op")
  | "i" :: "tfiniset" :: kw :: dw :: rest =>
    -- traits fini, then `mpt_identifier_set` on the same storage without a new init
    match getSlot s kw, parseBytes dw, (match rest with | [] => some none | [l] => (parseLen l).map some | _ => none) with
    | some (k, id), some name, some olen =>
      let len : Int := olen.getD ((name.getD []).length : Int)
      let bad := match name with
        | none => olen.isNone || len < 0 || len > 60000
        | some b => len > (b.length : Int) || len > 60000 || b.length > 60000
      if bad then (s, "bad-op")
      else
        let spSet : Vals := Vals.step s.spec (Op.abs (.set k name len))
        let alts : Alts := [(setVerdict name len, spSet)]
        match (do let (id1, h1) ← fini id s.m.heap k; set id1 h1 k (name.map (· ++ [0])) len) with
        | .error f => (s, line s!"FAULT:{faultName f}" s alts)
        | .ok (id', h', ok) =>
          let s' : DSys := { s with m := { ids := s.m.ids.set k (some id'), heap := h' }, spec := spSet }
          (s', line (if ok then "ok" else "refused") s' alts)
    | _, _, _ => (s, "bad-op")
  | ["i", "alloc", ln] =>
    match parseDec ln with
    | some n =>
      if n > 100000 ∨ s.m.ids.length ≥ maxSlots then (s, "bad-op")
      else match newSize n with
        | none => (s, line "refused" s [("refused", s.spec)])
        | some size => newSlot s size
    | none => (s, "bad-op")
  | ["i", "node", ln] =>
    match parseDec ln with
    | some n =>
      if n > 100000 ∨ s.m.ids.length ≥ maxSlots then (s, "bad-op")
      else
        let k := s.m.ids.length
        let (s', out) := newSlot s (nodeIdentSize n)
        ({ s' with nodes := if s'.m.ids.length > k then s.nodes ++ [k] else s.nodes }, out)
    | none => (s, "bad-op")
  | "i" :: "set" :: kw :: dw :: rest =>
    match getSlot s kw, parseBytes dw, (match rest with | [] => some none | [l] => (parseLen l).map some | _ => none) with
    | some (k, _), some name, some olen =>
      let len : Int := olen.getD ((name.getD []).length : Int)
      let bad := match name with
        | none => olen.isNone || len < 0
        | some b => len > (b.length : Int)
      if bad then (s, "bad-op")
      else
        runOp s (.set k name len) (setVerdict name len)
    | _, _, _ => (s, "bad-op")
  | ["i", "setself", kw, ow, lw] =>
    -- the name is part of the identifier's own current content
    match getSlot s kw, parseDec ow, parseDec lw with
    | some (k, id), some off, some ln =>
      match readData id s.m.heap id.len with
      | .ok d =>
        if off + ln > id.len then (s, "bad-op")
        else
          let name := (d.drop off).take ln
          runOp s (.set k (some name) ln) (setVerdict (some name) ln)
      | .error _ => (s, "bad-op")
    | _, _, _ => (s, "bad-op")
  | "i" :: "locate" :: kw :: pw :: dw :: rest =>
    match getSlot s kw, parsePos pw, parseBytes dw, (match rest with | [] => some none | [l] => (parseLen l).map some | _ => none) with
    | some (k, _), some pos, some (some b), some olen =>
      let len : Int := olen.getD (b.length : Int)
      if len < 0 ∨ len > (b.length : Int) ∨ !s.nodes.contains k then (s, "bad-op")
      else
        let t := b.take len.toNat
        let start := (s.nodes.findIdx? (· == k)).getD 0
        let ids := s.nodes.filterMap fun j => s.m.get j
        let vals := s.nodes.map fun j => specOf s j
        let fmt (o : Option Int) : String := match o with
          | some i => if i < 0 then "found=?" else s!"found=k{(s.nodes[i.toNat]?).getD 0}"
          | none => "none"
        match locate ids s.m.heap start pos t with
        | .ok r => (s, line (fmt r) s [(fmt (locateS vals start pos t), s.spec)])
        | .error f => (s, line s!"FAULT:{faultName f}" s [(fmt (locateS vals start pos t), s.spec)])
    | _, _, _, _ => (s, "bad-op")
  | ["i", "next", kw, dw] =>
    match getSlot s kw, parseBytes dw with
    | some (k, _), some name =>
      if !s.nodes.contains k then (s, "bad-op")
      else
        let start := (s.nodes.findIdx? (· == k)).getD 0
        let ids := s.nodes.filterMap fun j => s.m.get j
        let vals := s.nodes.map fun j => specOf s j
        let fmt (o : Option Nat) : String := match o with
          | some i => s!"found=k{(s.nodes[i]?).getD 0}"
          | none => "none"
        let alts : Alts := match name with
          | some b => [(fmt ((walkS (cstr b) 1 (vals.drop start) 1 start).map Int.toNat), s.spec)]
          | none => [("*", s.spec)]
        match nodeNext s.m.heap (name.map (· ++ [0])) (ids.drop start) start with
        | .ok r => (s, line (fmt r) s alts)
        | .error f => (s, line s!"FAULT:{faultName f}" s alts)
    | _, _ => (s, "bad-op")
  | ["i", "copy", kw, jw] =>
    match getSlot s kw with
    | some (k, _) =>
      let src : Option (Option Nat) := if jw = "null" then some none else (getSlot s jw).map fun p => some p.1
      match src with
      | none => (s, "bad-op")
      | some o => runOp s (.copy k o) "ok"
    | none => (s, "bad-op")
  | "i" :: "cmp" :: kw :: dw :: rest =>
    match getSlot s kw, parseBytes dw, (match rest with | [] => some none | [l] => (parseLen l).map some | _ => none) with
    | some (k, id), some name, some olen =>
      let len : Int := olen.getD ((name.getD []).length : Int)
      let bad := match name with
        | none => olen.isNone
        | some b => len > (b.length : Int)
      if bad then (s, "bad-op")
      else
        let alts : Alts := match name with
          | some b =>
            let t := if len < 0 then cstr b else b.take len.toNat
            [(if cmpEq (specOf s k) t then "eq" else "ne", s.spec)]
          | none => [("*", s.spec)]
        match compare id s.m.heap (name.map (· ++ [0])) len with
        | .ok r => (s, line (if r = 0 then "eq" else "ne") s alts s!" ret={if r < 0 then r else if r > 0 then 1 else 0}")
        | .error f => (s, line s!"FAULT:{faultName f}" s alts)
    | _, _, _ => (s, "bad-op")
  | ["i", "ineq", kw, jw] =>
    match getSlot s kw, getSlot s jw with
    | some (k, a), some (j, b) =>
      let alts := [(if sameVal (specOf s k) (specOf s j) then "eq" else "ne", s.spec)]
      match inequal a b s.m.heap with
      | .ok r => (s, line (if r = 0 then "eq" else "ne") s alts)
      | .error f => (s, line s!"FAULT:{faultName f}" s alts)
    | _, _ => (s, "bad-op")
  | ["i", "free", kw] =>
    match getSlot s kw with
    | some (k, _) => runOp s (.free k) "ok leaked=0"
    | none => (s, "bad-op")
  | ["i", "tinit", jw] =>
    let src : Option (Option Nat) := if jw = "null" then some none else (getSlot s jw).map fun p => some p.1
    match src with
    | none => (s, "bad-op")
    | some o =>
      if s.m.ids.length ≥ maxSlots then (s, "bad-op")
      else
        let sp' : Vals := Vals.step s.spec (Op.abs (.tinit o))
        -- a refused copy construction still occupies the slot
        match s.m.step (.tinit o) with
        | .error f => (s, line s!"FAULT:{faultName f}" s [("ok", sp')])
        | .ok (m', res) =>
          let s' : DSys := { s with m := m', spec := sp' }
          (s', line (if res == .done true then "ok" else "refused") s' [("ok", sp')])
  | ["i", "tfini", kw] =>
    match getSlot s kw with
    | some (k, _) => runOp s (.tfini k) "ok leaked=0"
    | none => (s, "bad-op")
  | _ => (s, "bad-op")

/-- the C++ class `mpt::identifier` (mpt++/identifier.cpp): its methods are the C functions on `this` -/
def stepX (s : DSys) (w : List String) : DSys × String :=
  match w with
  | ["xi", "reset"] => step s ["i", "reset"]
  | ["xi", "new", sz] => step s ["i", "new", sz]
  | "xi" :: "set" :: rest => step s ("i" :: "set" :: rest)
  | ["xi", "free", kw] => step s ["i", "free", kw]
  | ["xi", "copyctor", jw] => if jw = "null" then (s, "bad-op") else step s ["i", "tinit", jw]
  | ["xi", "assign", kw, jw] => if jw = "null" then (s, "bad-op") else step s ["i", "copy", kw, jw]
  | "xi" :: "equal" :: rest =>
    let (s', out) := step s ("i" :: "cmp" :: rest)
    -- `equal` answers a bool: no return code among the internals
    (s', match out.splitOn " ret=" with
      | [a, b] => a ++ ((b.splitOn " | S ").drop 1 |>.foldl (fun acc x => acc ++ " | S " ++ x) "")
      | _ => out)
  | ["xi", "gappend", jw] =>
    -- `item_group::append(const identifier *, metatype *)`: a new item (identifier of 24 bytes) gets a copy
    match getSlot s jw with
    | some _ =>
      if s.m.ids.length ≥ maxSlots then (s, "bad-op")
      else
        let k := s.m.ids.length
        let (s1, _) := newSlot s 24
        step s1 ["i", "copy", toString k, jw]
    | none => (s, "bad-op")
  | "xi" :: "aappend" :: dw :: rest =>
    -- `item_array::append(T *, const char *, int)`: a new item (identifier of 24 bytes) named with `set_name`;
    -- a refused name takes the item away again
    if dw = "null" ∨ rest.length > 1 ∨ s.m.ids.length ≥ maxSlots then (s, "bad-op")
    else
      let k := s.m.ids.length
      let (s1, _) := newSlot s 24
      let (s2, out) := step s1 ("i" :: "set" :: toString k :: dw :: rest)
      if out = "bad-op" then (s, "bad-op")
      else if out.startsWith "R refused" then (s, line "refused" s [("refused", s.spec)])
      else (s2, out)
  | ["xi", "inew"] =>
    -- `item<T>()`: an identifier with 24 bytes of storage
    if s.m.ids.length ≥ maxSlots then (s, "bad-op")
    else
      let k := s.m.ids.length
      let (s1, out) := newSlot s 24
      ({ s1 with items := s.items ++ [k] }, out)
  | ["xi", "icopy", jw] =>
    -- `item<T>(const item &)`: the identifier base is copy-constructed (traits-init shape: 16 bytes, then copy)
    match getSlot s jw with
    | some (j, _) =>
      if !s.items.contains j ∨ s.m.ids.length ≥ maxSlots then (s, "bad-op")
      else
        let k := s.m.ids.length
        let (s1, out) := step s ["i", "tinit", jw]
        ({ s1 with items := s.items ++ [k] }, out)
    | none => (s, "bad-op")
  | ["xi", "iassign", kw, jw] =>
    -- `item::operator=(const item &)`: the identifier is copied, nothing else of the name storage is touched
    match getSlot s kw, getSlot s jw with
    | some (k, _), some (j, _) =>
      if !s.items.contains k ∨ !s.items.contains j then (s, "bad-op") else step s ["i", "copy", kw, jw]
    | _, _ => (s, "bad-op")
  | ["xi", "gclear", lw, ow] =>
    -- names of items in a group survive the removal of other items (array compaction) and nothing is left allocated
    let nums (w : String) : Option (List Nat) := (w.splitOn ",").mapM parseDec
    match nums lw, (if ow = "-" then some [] else nums ow) with
    | some lens, some order =>
      if lens.isEmpty ∨ lens.length > 8 ∨ order.length > 8 ∨ lens.any (· > 5000) ∨ order.any (· ≥ lens.length)
          ∨ order.eraseDups.length ≠ order.length then (s, "bad-op")
      else
        let keep := (List.range lens.length).filter fun i => !order.contains i
        let txt := if keep.isEmpty then "-" else ",".intercalate (keep.map fun i => s!"{i}:{lens[i]?.getD 0}")
        let r := s!"ok items={txt} leaked=0"
        (s, line r s [(r, s.spec)])
    | _, _ => (s, "bad-op")
  | ["xi", "name", kw] =>
    match getSlot s kw with
    | some (k, id) =>
      let v := specOf s k
      let alts : Alts := [(if v.charset = utf8 then s!"name={fmtContent v.bytes}" else "null", s.spec)]
      if id.charset ≠ 1 then (s, line "null" s alts)
      else if id.len = 0 then (s, line "name=!nolength" s alts)
      else match readData id s.m.heap id.len with
        | .ok d => (s, line s!"name={fmtContent d.dropLast}" s alts)
        | .error f => (s, line s!"FAULT:{faultName f}" s alts)
    | none => (s, "bad-op")
  | _ => (s, "bad-op")

def stepAny (s : DSys) (w : List String) : DSys × String :=
  match w with
  | "xi" :: _ => stepX s w
  | _ => step s w

def main (_args : List String) : IO Unit := do
  Driver.loop (← IO.getStdin) (← IO.getStdout) stepAny ({} : DSys)

end Driver.Ident
