import MptModel.Impl.Ident
import MptModel.Spec.Ident
import Driver.Util
namespace Driver.Ident
open Mpt Mpt.Ident

/-- model system (slots of identifiers + heap) and the spec values, side by side -/
structure Sys where
  ids : List (Option Mpt.Ident.Ident) := []
  heap : Heap := ⟨[]⟩
  spec : List (Option Val) := []
  deriving Inhabited

def parseDec (s : String) : Option Nat :=
  let cs := s.toList
  if cs.isEmpty then none
  else if !cs.all (fun c => '0' ≤ c && c ≤ '9') then none
  else if cs.length > 1 && cs.head? == some '0' then none
  else if cs.length > 18 then none
  else some (cs.foldl (fun n c => n * 10 + (c.toNat - 48)) 0)

/-- byte-string operand: `-`, hex, `rep:<hh>:<n>` (n ≤ 200000), or `null` (= none) -/
def parseBytes (s : String) : Option (Option (List Byte)) :=
  if s = "null" then some none
  else if s.startsWith "rep:" then
    match (s.drop 4).toString.splitOn ":" with
    | [hh, n] =>
      match parseHex hh, parseDec n with
      | some [b], some k => if hh.length = 2 ∧ k ≤ 200000 then some (some (List.replicate k b)) else none
      | _, _ => none
    | _ => none
  else if s.startsWith "zero:" then none
  else (parseHex s).map some

def parseLen (s : String) : Option Int :=
  if s = "-1" then some (-1)
  else match parseDec s with
    | some n => if n ≤ 1000000 then some (n : Int) else none
    | none => none

def fnv (b : List Byte) : Nat :=
  b.foldl (fun h x => ((h ^^^ x.toNat) * 16777619) % 4294967296) 2166136261

def hex8 (n : Nat) : String :=
  String.ofList ((List.range 8).reverse.map fun i => hexDigit ((n / 16 ^ i) % 16))

def fmtContent (b : List Byte) : String :=
  if b.length ≤ 40 then toHex b
  else s!"#{b.length}:{hex8 (fnv b)}:{toHex (b.take 8)}..{toHex (b.drop (b.length - 8))}"

def fmtVal (v : Val) : String :=
  if v.charset = utf8 then s!"1:{fmtContent v.bytes}"
  else if v.bytes.isEmpty then s!"{v.charset}:unset"
  else s!"{v.charset}:raw:{fmtContent v.bytes}"

def faultName : Fault → String
  | .oob => "oob" | .indet => "indet" | .wildFree => "wildFree" | .doubleFree => "doubleFree"
  | .foreignFree => "foreignFree" | .deadRead => "deadRead" | .badRead => "badRead"

/-- what the identifier reads back as in the model -/
def fmtIdent (id : Mpt.Ident.Ident) (h : Heap) : String :=
  if id.len = 0 then s!"{id.charset}:unset"
  else match readData id h id.len with
    | .error f => s!"{id.charset}:!{faultName f}"
    | .ok d =>
      if id.charset = 1 then
        (if d.getLast? != some 0 then s!"1:!unterminated:" else "1:") ++ fmtContent d.dropLast
      else s!"{id.charset}:raw:{fmtContent d}"

def enum {α} (l : List α) : List (Nat × α) := (List.range l.length).zip l

def fmtC (items : List (Nat × String)) : String :=
  if items.isEmpty then "-" else " ".intercalate (items.map fun (k, s) => s!"k{k}={s}")

def fmtCModel (s : Sys) : String :=
  fmtC ((enum s.ids).filterMap fun (k, o) => o.map fun id => (k, fmtIdent id s.heap))

def fmtCSpec (sp : List (Option Val)) : String :=
  fmtC ((enum sp).filterMap fun (k, o) => o.map fun v => (k, fmtVal v))

def owned (h : Heap) (k : Nat) : Nat := (h.blocks.filter fun b => b.live && b.owner == k).length

def fmtI (s : Sys) (extra : String := "") : String :=
  let items := (enum s.ids).filterMap fun (k, o) => o.map fun id =>
    s!"k{k}={id.len}/{id.max}/{if id.len > id.max then "ext" else "inl"}/{owned s.heap k}"
  let live := (s.heap.blocks.filter (·.live)).length
  let pre := if items.isEmpty then "" else " ".intercalate items ++ " "
  s!"{pre}heap={live}{extra}"

def line (r : String) (s : Sys) (alts : List (String × List (Option Val))) (extra : String := "") : String :=
  let a := " || ".intercalate (alts.map fun (rt, sp) => s!"{rt} ; {fmtCSpec sp}")
  s!"R {r} | C {fmtCModel s} | I {fmtI s extra} | S {a}"

def getSlot (s : Sys) (w : String) : Option (Nat × Mpt.Ident.Ident) :=
  match parseDec w with
  | some k => match s.ids[k]? with
    | some (some id) => some (k, id)
    | _ => none
  | none => none

def setAt {α} (l : List α) (k : Nat) (v : α) : List α := l.set k v

def specOf (s : Sys) (k : Nat) : Val := ((s.spec[k]?).getD none).getD Val.unset

def addSlot (s : Sys) (id : Mpt.Ident.Ident) (h : Heap) (v : Val) : Sys :=
  { ids := s.ids ++ [some id], heap := h, spec := s.spec ++ [some v] }

def maxSlots : Nat := 16

/-- the effective name operand as the spec sees it -/
def nameOf (name : Option (List Byte)) (len : Int) : Option Name :=
  match name with
  | some b => if len < 0 then some (.text (cstr b)) else some (.text (b.take len.toNat))
  | none => if len < 0 then none else some (.null len.toNat)

def fault (s : Sys) (f : Fault) (alts : List (String × List (Option Val))) : Sys × String :=
  (s, line s!"FAULT:{faultName f}" s alts)

def step (s : Sys) (w : List String) : Sys × String :=
  match w with
  | ["i", "reset"] =>
    let s' : Sys := {}
    (s', line "ok" s' [("ok", [])])
  | ["i", "new", sz] =>
    match parseDec sz with
    | some n =>
      if n < 16 ∨ n > 300 ∨ s.ids.length ≥ maxSlots then (s, "bad-op")
      else
        let sp' := s.spec ++ [some Val.unset]
        match create n with
        | .ok id => let s' := addSlot s id s.heap Val.unset; (s', line "ok" s' [("ok", sp')])
        | .error f => fault s f [("ok", sp')]
    | none => (s, "bad-op")
  | ["i", "alloc", ln] =>
    match parseDec ln with
    | some n =>
      if n > 100000 ∨ s.ids.length ≥ maxSlots then (s, "bad-op")
      else match newSize n with
        | none => (s, line "refused" s [("refused", s.spec)])
        | some size =>
          let sp' := s.spec ++ [some Val.unset]
          match create size with
          | .ok id => let s' := addSlot s id s.heap Val.unset; (s', line "ok" s' [("ok", sp')])
          | .error f => fault s f [("ok", sp')]
    | none => (s, "bad-op")
  | ["i", "node", ln] =>
    match parseDec ln with
    | some n =>
      if n > 100000 ∨ s.ids.length ≥ maxSlots then (s, "bad-op")
      else
        let sp' := s.spec ++ [some Val.unset]
        match create (nodeIdentSize n) with
        | .ok id => let s' := addSlot s id s.heap Val.unset; (s', line "ok" s' [("ok", sp')])
        | .error f => fault s f [("ok", sp')]
    | none => (s, "bad-op")
  | "i" :: "set" :: kw :: dw :: rest =>
    match getSlot s kw, parseBytes dw, (match rest with | [] => some none | [l] => (parseLen l).map some | _ => none) with
    | some (k, id), some name, some olen =>
      let len : Int := olen.getD ((name.getD []).length : Int)
      let bad := match name with
        | none => olen.isNone || len < 0
        | some b => len > (b.length : Int)
      if bad then (s, "bad-op")
      else
        let alts : List (String × List (Option Val)) := match (nameOf name len).bind setVal with
          | some v => [("ok", setAt s.spec k (some v))]
          | none => [("refused", s.spec)]
        match set id s.heap k (name.map (· ++ [0])) len with
        | .ok (id', h', ok) =>
          let sp' := if ok then (match (nameOf name len).bind setVal with | some v => setAt s.spec k (some v) | none => s.spec) else s.spec
          let s' : Sys := { ids := setAt s.ids k (some id'), heap := h', spec := sp' }
          (s', line (if ok then "ok" else "refused") s' alts)
        | .error f => fault s f alts
    | _, _, _ => (s, "bad-op")
  | ["i", "copy", kw, jw] =>
    match getSlot s kw with
    | some (k, id) =>
      let src : Option (Option (Nat × Mpt.Ident.Ident)) := if jw = "null" then some none else (getSlot s jw).map some
      match src with
      | none => (s, "bad-op")
      | some o =>
        let v : Val := match o with | some (j, _) => specOf s j | none => Val.unset
        let sp' := setAt s.spec k (some v)
        let alts := [("ok", sp')]
        match copy id (o.map (·.2)) (match o with | some (j, _) => j == k | none => false) s.heap k with
        | .ok (id', h', ok) =>
          let s' : Sys := { ids := setAt s.ids k (some id'), heap := h', spec := if ok then sp' else s.spec }
          (s', line (if ok then "ok" else "refused") s' alts)
        | .error f => fault s f alts
    | none => (s, "bad-op")
  | "i" :: "cmp" :: kw :: dw :: rest =>
    match getSlot s kw, parseBytes dw, (match rest with | [] => some none | [l] => (parseLen l).map some | _ => none) with
    | some (k, id), some name, some olen =>
      let len : Int := olen.getD ((name.getD []).length : Int)
      let bad := match name with
        | none => olen.isNone
        | some b => len > (b.length : Int)
      if bad then (s, "bad-op")
      else
        let alts : List (String × List (Option Val)) := match name with
          | some b =>
            let t := if len < 0 then cstr b else b.take len.toNat
            [(if cmpEq (specOf s k) t then "eq" else "ne", s.spec)]
          | none => [("*", s.spec)]
        match compare id s.heap (name.map (· ++ [0])) len with
        | .ok r => (s, line (if r = 0 then "eq" else "ne") s alts s!" ret={if r < 0 then r else if r > 0 then 1 else 0}")
        | .error f => fault s f alts
    | _, _, _ => (s, "bad-op")
  | ["i", "ineq", kw, jw] =>
    match getSlot s kw, getSlot s jw with
    | some (k, a), some (j, b) =>
      let alts := [(if sameVal (specOf s k) (specOf s j) then "eq" else "ne", s.spec)]
      match inequal a b s.heap with
      | .ok r => (s, line (if r = 0 then "eq" else "ne") s alts)
      | .error f => fault s f alts
    | _, _ => (s, "bad-op")
  | ["i", "free", kw] =>
    match getSlot s kw with
    | some (k, id) =>
      let sp' := setAt s.spec k none
      let alts := [("ok leaked=0", sp')]
      match set id s.heap k none 0 with
      | .ok (_, h', _) =>
        let leaked := owned h' k
        -- the harness releases what was left behind
        let h'' : Heap := ⟨h'.blocks.map fun b => if b.live && b.owner == k then { b with live := false } else b⟩
        let s' : Sys := { ids := setAt s.ids k none, heap := h'', spec := sp' }
        (s', line s!"ok leaked={leaked}" s' alts)
      | .error f => fault s f alts
    | none => (s, "bad-op")
  | ["i", "tinit", jw] =>
    let src : Option (Option (Nat × Mpt.Ident.Ident)) := if jw = "null" then some none else (getSlot s jw).map some
    match src with
    | none => (s, "bad-op")
    | some o =>
      if s.ids.length ≥ maxSlots then (s, "bad-op")
      else
        let v : Val := match o with | some (j, _) => specOf s j | none => Val.unset
        let k := s.ids.length
        let alts := [("ok", s.spec ++ [some v])]
        match traitsInit (o.map (·.2)) s.heap k with
        | .ok (id', h', r) =>
          let s' := addSlot s id' h' v
          (s', line (if r < 0 then "refused" else "ok") s' alts)
        | .error f => fault s f alts
  | ["i", "tfini", kw] =>
    match getSlot s kw with
    | some (k, id) =>
      let sp' := setAt s.spec k none
      let alts := [("ok leaked=0", sp')]
      match fini id s.heap k with
      | .ok (_, h') =>
        let leaked := owned h' k
        let h'' : Heap := ⟨h'.blocks.map fun b => if b.live && b.owner == k then { b with live := false } else b⟩
        let s' : Sys := { ids := setAt s.ids k none, heap := h'', spec := sp' }
        (s', line s!"ok leaked={leaked}" s' alts)
      | .error f => fault s f alts
    | none => (s, "bad-op")
  | _ => (s, "bad-op")

def main (_args : List String) : IO Unit := do
  Driver.loop (← IO.getStdin) (← IO.getStdout) step ({} : Sys)

end Driver.Ident
