import Driver.Convert
def main (args : List String) : IO Unit := Driver.Convert.main args
