import MptModel.Impl.CodedQueue
import MptModel.Spec.Stream
import Driver.Util
namespace Driver.Cqueue
open Mpt Mpt.Cobs Mpt.Codec Mpt.CQ Mpt.Stream

/-- driver state: implementation model (M) and spec bookkeeping (S) side by side -/
structure St where
  variant : Option Variant := none      -- framing of the encode side (`none` = raw or command text)
  cmd : Bool := false                   -- zero terminated command text (`mpt_encode_string` / `mpt_decode_command`)
  -- M: encode queue, unconsumed rest of the last push, the wire (bytes taken from the encode queue)
  eq : EncodeQueue := {}
  eqReady : Bool := false
  pending : List Byte := []
  wire : List Byte := []
  wirepos : Nat := 0
  fdone : Nat := 0                      -- M: finished bytes that belong to complete frames
  -- S, encode side: complete frames not yet taken, marked bytes of the message in progress, bytes of the
  -- frame in progress that have been taken already, the messages written so far
  fin : List Byte := []
  cur : List (Byte × Bool) := []
  early : Nat := 0
  sentMsgs : List (List Byte) := []
  scripted : Bool := false              -- wire bytes were supplied by the script (`dq feed`)
  -- M: decode queue
  dq : DecodeQueue := {}
  dqReady : Bool := false
  -- S, decode side: every byte accepted by the receive queue, number of messages delivered so far,
  -- the message that has to stay available
  fed : List Byte := []
  got : Nat := 0
  skip : Nat := 0                      -- S: empty frames (stray delimiters) the decoder has skipped with BadValue
  avail : Option (List Byte) := none
  sent : Nat := 0
  -- stream glue (`st` ops): the sender's queue as `mpt_stream_push` drives it, the bytes flushed, the number
  -- of bytes moved to the receiver, messages written / in progress / dispatched
  txq : EncodeQueue := {}
  txWire : List Byte := []
  moved : Nat := 0
  loaded : Nat := 0
  stSent : List (List Byte) := []
  stCur : List Byte := []
  stGot : Nat := 0
  stReady : Bool := false
  -- receiver variant: 0 `mpt_stream_dispatch`, 1 the input object, 2 `mpt_stream_sync` with waiting commands
  -- (ids still registered, messages logged, a message that is no reply stays in front for good)
  stMode : Nat := 0
  stLive : List Nat := []
  stLogged : Nat := 0
  stBlocked : Bool := false
  -- data written since the last end of message; part of that message flushed already
  stInMsg : Bool := false
  stTorn : Bool := false
  stEof : Bool := false
  -- raw byte queue (no encoder): the open data, `fin` holds the finished bytes not yet taken
  rawOpen : List Byte := []
  deriving Inhabited

/-- bytes as text: `-` empty, hex up to 96 bytes, else `<len>:<adler32 parts>` -/
def showB (bs : List Byte) : String :=
  if bs.length ≤ 96 then toHex bs
  else
    let r := bs.foldl (fun (a : Nat × Nat) b => let s1 := (a.1 + b.toNat) % 65521; (s1, (a.2 + s1) % 65521)) (1, 0)
    s!"{bs.length}:{r.1}.{r.2}"

def errName (r : Int) : String :=
  if r = -1 then "BadArgument" else if r = -2 then "BadValue" else if r = -3 then "BadType"
  else if r = -4 then "BadOperation" else if r = -8 then "BadEncoding" else if r = -16 then "MissingData"
  else if r = -17 then "MissingBuffer" else if r < 0 then "ERR?" else toString r

def resName {α} : Res α → String
  | .ok _ => "ok" | .err e => e.name | .null => "null" | .oob => "OOB" | .fault => "FAULT"

def codecOf (name : String) : Option (Option Variant) :=
  if name = "raw" ∨ name = "command" then some none else (Variant.ofName name).map some

/-- "key=<nat>" -/
def keyNat (w key : String) : Option Nat :=
  match w.splitOn "=" with
  | [k, v] => if k = key then v.toNat? else none
  | _ => none

def markChunk (bytes : List Byte) : List (Byte × Bool) :=
  (bytes.dropLast.map fun b => (b, false)) ++ (bytes.getLast?.toList.map fun b => (b, true))

/-- marks of the consumed bytes: one piece per encoder call -/
def marksOf (cons : List Nat) (bytes : List Byte) : List (Byte × Bool) :=
  (cons.foldl (fun (acc : List (Byte × Bool) × List Byte) k => (acc.1 ++ markChunk (acc.2.take k), acc.2.drop k)) ([], bytes)).1

/-! ### encode side -/

def eqI (ret : String) (q : EncodeQueue) (fdone : Nat) : String :=
  let c := q.ring.content
  let done := min q.st.done q.ring.len
  let open_ := min q.st.scratch (q.ring.len - done)
  let fd := min fdone done
  s!"ret={ret} done={q.st.done} scratch={q.st.scratch} len={q.ring.len} max={q.ring.max} off={q.ring.off} part={showB ((c.drop fd).take (done - fd))} open={showB ((c.drop done).take open_)}"

def eqFin (q : EncodeQueue) (fdone : Nat) : List Byte := q.ring.content.take (min fdone (min q.st.done q.ring.len))

def eqLine (r : String) (q : EncodeQueue) (fdone : Nat) (ret : String) (alts : String) : String :=
  s!"R {r} | C fin={showB (eqFin q fdone)} | I {eqI ret q fdone} | S {alts}"

/-- S for an operation that must not change the finished data -/
def keepAlts (s : St) : String :=
  if s.variant.isSome ∨ s.cmd ∨ s.eq.codec.isNone then s!"* ; fin={showB s.fin}" else "* ; *"

def doPush (s : St) (bytes : List Byte) : St × String :=
  -- command text must not accept a zero byte
  let alts := match s.cmd, bytes.findIdx? (· == 0) with
    | true, some z => " || ".intercalate (s!"refused n=0 ; fin={showB s.fin}" ::
        (List.range (min z 64)).map fun k => s!"ok n={k + 1} ; fin={showB s.fin}")
    | _, _ =>
      if s.eq.codec.isNone then
        -- raw byte queue: as many bytes as the storage has room for
        let free := s.eq.ring.max - (s.fin.length + s.rawOpen.length)
        if free = 0 then s!"refused n=0 ; fin={showB s.fin}" else s!"ok n={min free bytes.length} ; fin={showB s.fin}"
      else keepAlts s
  match queuePush s.eq (some bytes) with
  | .ok o =>
    if o.ret < 0 then
      ({ s with eq := o.q, pending := bytes }, eqLine "refused n=0" o.q s.fdone (errName o.ret) alts)
    else
      let n := min o.ret.toNat bytes.length
      let s' := { s with eq := o.q, pending := bytes.drop n, cur := s.cur ++ marksOf o.cons (bytes.take n),
                         rawOpen := if s.eq.codec.isNone then s.rawOpen ++ bytes.take n else s.rawOpen }
      (s', eqLine s!"ok n={o.ret}" o.q s.fdone (errName o.ret) alts)
  | x => (s, eqLine s!"model-{resName x}" s.eq s.fdone (resName x) alts)

def termAlts (s : St) : String × List Byte :=
  match (if s.cmd then some (s.cur.map Prod.fst ++ [0]) else s.variant.map fun v => encB v [] false s.cur ++ [0]) with
  | none =>
    if s.eq.codec.isNone then (s!"ok ; fin={showB (s.fin ++ s.rawOpen)}", s.fin ++ s.rawOpen) else ("* ; *", s.fin)
  | some f =>
    let w := s.fin ++ f.drop s.early
    -- refusal is allowed exactly when the queue cannot hold the rest of the frame
    if w.length ≤ s.eq.ring.max then (s!"ok ; fin={showB w}", w)
    else (s!"ok ; fin={showB w} || refused ; fin={showB s.fin}", w)

/-! ### decode side -/

def msgText (q : DecodeQueue) : String :=
  match currentMessage q with
  | none => "none"
  | some (.ok (c, bytes)) => if c < 0 then s!"err{c}" else showB bytes
  | some x => s!"model-{resName x}"

def dqI (ret : String) (q : DecodeQueue) : String :=
  let st := q.st
  let m := match st.msg with | some m => toString m | none => "-1"
  s!"ret={ret} content={showB q.ring.content} data={st.pos},{st.len},{m} curr={st.curr} ctx={st.ctx % 256},{st.ctx / 256} len={q.ring.len} max={q.ring.max} off={q.ring.off} store={showB q.ring.store}"

def dqLine (r : String) (q : DecodeQueue) (ret : String) (alts : String) : String :=
  s!"R {r} guards=ok | C avail={msgText q} | I {dqI ret q} | S {alts}"

/-- S for an operation that must keep the available message -/
def availAlts (s : St) : String :=
  match s.avail with
  | some m => s!"* ; avail={showB m}"
  | none => if s.dq.codec.isSome ∨ s.dq.command then "* ; avail=none" else "* ; *"

/-- the frames and messages a reference receiver sees in the bytes fed so far; `none` when a complete
    frame is malformed (outside this property) -/
def specMsgs (s : St) : Option (List (List Byte) × List (List Byte)) :=
  match s.dq.codec with
  | none =>
    if s.dq.command then
      -- the command decoder puts its two byte header in front of the text
      let frames := (splitFrames s.fed).1
      if s.scripted then some (frames, frames.map fun f => cmdHeader ++ f.dropLast)
      else if s.cmd then some (frames, (s.sentMsgs.take frames.length).map fun m => cmdHeader ++ m)
      else none
    else none
  | some v =>
    let frames := (splitFrames s.fed).1
    if s.scripted then
      let ms := frames.filterMap (dec v)
      if ms.length = frames.length then some (frames, ms) else none
    else if s.variant = some v then
      -- the bytes came from the encode side: the k-th complete frame carries the k-th message written
      some (frames, s.sentMsgs.take frames.length)
    else none

/-- positions of the code bytes as a reader of the framing sees them: number of bytes from `wirepos` up
    to and including the next code byte.  `p` = index of the head of the list, `n` = data bytes left in
    the open block -/
def codeCut (maxlen wirepos : Nat) : List Byte → Nat → Nat → Nat
  | [], p, _ => p - wirepos
  | b :: rest, p, n =>
    if n > 0 ∧ b ≠ 0 then codeCut maxlen wirepos rest (p + 1) (n - 1)
    else if b = 0 then codeCut maxlen wirepos rest (p + 1) 0
    else if p ≥ wirepos then p + 1 - wirepos
    else codeCut maxlen wirepos rest (p + 1) (if b.toNat ≤ maxlen then b.toNat - 1 else b.toNat - 0xe0)

def frameCut (wire : List Byte) (wirepos : Nat) : Nat :=
  match (wire.drop wirepos).findIdx? (· == 0) with
  | some z => z + 1
  | none => wire.length - wirepos

/-- number of zero pair blocks of the (possibly unfinished) frame `f`: each may cost the decoder one byte
    of work area more than the frame supplies -/
def pairBlocks (maxlen : Nat) : List Byte → Nat → Nat
  | [], _ => 0
  | b :: rest, n =>
    if n > 0 then pairBlocks maxlen rest (n - 1)
    else if b.toNat ≤ maxlen then pairBlocks maxlen rest (b.toNat - 1)
    else 1 + pairBlocks maxlen rest (b.toNat - 0xe0)

/-- may the reader ask for space?  Only the zero pair framings can need more work area than the frame
    itself supplies, at most one byte per zero pair block of the frame being decoded -/
def mayAsk (s : St) (frames : List (List Byte)) : Bool :=
  match s.dq.codec with
  | some v =>
    if v.isZpe then
      let rest := (splitFrames s.fed).2
      let f := (frames[s.got]?).getD rest
      decide (s.dq.ring.max - s.dq.ring.len < pairBlocks v.maxlen f 0)
    else false
  | none => s.dq.command && decide (s.dq.ring.max - s.dq.ring.len < 2)     -- head room for the header

/-- scripted wire bytes (`dq feed`, arbitrary and malformed input): the complete frames fed so far and the
    reference decoding of each (`none` = the reference decoder rejects it) -/
def fedFrames (s : St) : Option (List (List Byte) × List (Option (List Byte))) :=
  if !s.scripted then none else
  let frames := (splitFrames s.fed).1
  match s.dq.codec with
  | some v => some (frames, frames.map (dec v))
  | none => if s.dq.command then some (frames, frames.map fun f => some (cmdHeader ++ f.dropLast)) else none

/-- may the reader ask for space while it works on frame `f` (see `mayAsk`) -/
def mayAskFor (s : St) (f : List Byte) : Bool :=
  match s.dq.codec with
  | some v => v.isZpe && decide (s.dq.ring.max - s.dq.ring.len < pairBlocks v.maxlen f 0)
  | none => s.dq.command && decide (s.dq.ring.max - s.dq.ring.len < 2)

def recvAlts (s : St) : String × Option (List Byte) :=
  match fedFrames s with
  | some (frames, ds) =>
    -- arbitrary bytes: the frame at the input position is the one behind the delivered and the skipped ones
    let idx := s.got + s.skip
    let f := (frames[idx]?).getD (splitFrames s.fed).2
    let ask := if mayAskFor s f then ["ret=MissingBuffer guards=ok ; *"] else []
    match ds[idx]? with
    | some (some m) => (" || ".intercalate ([s!"ret=1 msg={showB m} guards=ok ; avail={showB m}"] ++ ask), some m)
    | some none =>
      -- malformed: an error, never a message, never "need more data"
      (" || ".intercalate (["ret=BadValue guards=ok ; avail=none", "ret=MissingData guards=ok ; avail=none"] ++ ask), none)
    | none => (" || ".intercalate (["ret=0 guards=ok ; avail=none", "ret=MissingData guards=ok ; avail=none"] ++ ask), none)
  | none =>
  match specMsgs s with
  | none => ("* ; *", none)
  | some (frames, ms) =>
    let ask := if mayAsk s frames then ["ret=MissingBuffer guards=ok ; *"] else []
    match ms[s.got]? with
    | some m => (" || ".intercalate ([s!"ret=1 msg={showB m} guards=ok ; avail={showB m}"] ++ ask), some m)
    | none => (" || ".intercalate (["ret=0 guards=ok ; avail=none", "ret=MissingData guards=ok ; avail=none"] ++ ask), none)

/-- S for `dq peek n` with a destination: when no delivered message is waiting and the frame at the input
    position is complete and well-formed, the bytes handed out are a prefix of its reference decoding and the
    return value is their number (how far a preview gets is not prescribed), or the call reports an error and
    hands out nothing — never bytes that are not in the message.  Everything else is not judged here. -/
def peekAlts (s : St) (n : Nat) : String :=
  let cur : Option (List Byte) :=
    match fedFrames s with
    | some (_, ds) => (ds[s.got + s.skip]?).join
    | none => match specMsgs s with
      | some (_, ms) => ms[s.got]?
      | none => none
  let c := match s.avail with
    | some m => s!"avail={showB m}"
    | none => if s.dq.codec.isSome ∨ s.dq.command then "avail=none" else "*"
  match s.avail, cur with
  | none, some m =>
    if m.length > 48 then s!"* ; {c}" else
    let top := min n m.length
    let oks := (List.range (top + 1)).map fun k =>
      s!"ret={k} out={if k = 0 then "-" else showB (m.take k)} guards=ok ; {c}"
    let errs := ["BadArgument", "BadOperation", "MissingData", "MissingBuffer", "BadValue"].map fun e =>
      s!"ret={e} out=- guards=ok ; {c}"
    " || ".intercalate (oks ++ errs)
  | _, _ => s!"* ; {c}"

/-- S for `dq drain` on scripted bytes: the messages of the well-formed frames up to the first frame that is
    malformed or incomplete, then the reason for stopping -/
def drainAltsFed (s : St) (ds : List (Option (List Byte))) : String :=
  let rest := ds.drop (s.got + s.skip)
  let ms := (rest.takeWhile Option.isSome).filterMap id
  let txt := if ms.isEmpty then "-" else ",".intercalate (ms.map showB)
  let stops := match rest.drop ms.length with
    | [] => ["0", "MissingData"]
    | _ => ["BadValue", "MissingData"]
  let stops := stops ++ (match s.dq.codec with | some v => if v.isZpe then ["MissingBuffer"] else [] | none => ["MissingBuffer"])
  " || ".intercalate (stops.map fun e => s!"msgs={txt} n={ms.length} last={e} guards=ok ; avail=none")

/-- the reader's loop: receive until nothing more is complete; space is granted when asked for -/
def drain (q : DecodeQueue) : Nat → Nat → List String → Res (DecodeQueue × Int × List String)
  | 0, _, acc => .ok (q, 0, acc)
  | fuel + 1, grown, acc =>
    match queueRecv q with
    | .ok (q1, r) =>
      if r > 0 then
        if acc.length + 1 ≥ 4096 then .ok (q1, r, acc ++ [msgText q1])
        else drain q1 fuel 0 (acc ++ [msgText q1])
      else if r = Err.MissingBuffer.code ∧ grown < 4 then
        match queueGrow q1 (q1.ring.max + 64) with
        | .ok q2 => drain q2 fuel (grown + 1) acc
        | .err e => .err e | .null => .null | .oob => .oob | .fault => .fault
      else .ok (q1, r, acc)
    | .err e => .err e | .null => .null | .oob => .oob | .fault => .fault

/-- the loop of `mpt_stream_push` on a growable write queue: push, on `MissingBuffer` 256 more bytes -/
def streamPush (q : EncodeQueue) (data : Option (List Byte)) : Nat → Res (EncodeQueue × Bool)
  | 0 => .ok (q, false)
  | fuel + 1 =>
    match queuePush q data with
    | .ok o =>
      if o.ret ≥ 0 then
        match data with
        | none => .ok (o.q, true)
        | some bytes =>
          if o.ret.toNat ≥ bytes.length then .ok (o.q, true)
          else if o.ret = 0 then
            -- no progress requires more space
            match o.q.ring.prepare 256 with
            | .ok (r1, _) => streamPush { o.q with ring := r1 } data fuel
            | .err e => .err e | .null => .null | .oob => .oob | .fault => .fault
          else streamPush o.q (some (bytes.drop o.ret.toNat)) fuel
      else if o.ret = Err.MissingBuffer.code then
        match o.q.ring.prepare 256 with
        | .ok (r1, _) => streamPush { o.q with ring := r1 } data fuel
        | .err e => .err e | .null => .null | .oob => .oob | .fault => .fault
      else .ok (o.q, false)
    | .err e => .err e | .null => .null | .oob => .oob | .fault => .fault

/-- replies handed to waiting commands: the id byte selects the command (used once), else the fallback `0` -/
def waitLog : List Nat → List (List Byte) → Nat → List String → List Nat × Nat × List String × Bool
  | live, [], k, acc => (live, k, acc, false)
  | live, m :: ms, k, acc =>
    match m with
    | [] => (live, k, acc, true)
    | b :: rest =>
      if b.toNat < 128 then (live, k, acc, true) else
      let id := b.toNat - 128
      if live.contains id then waitLog (live.erase id) ms (k + 1) (acc ++ [s!"{id}:{showB rest}"])
      else if live.contains 0 then waitLog live ms (k + 1) (acc ++ [s!"0:{showB rest}"])
      else waitLog live ms (k + 1) acc

def stLine (r : String) : String := s!"R {r} | C - | I - | S {r} ; *"

/-- a C++ reader: advance while messages come; a refusal on a non-empty queue is answered with more storage -/
def xdrain (q : DecodeQueue) : Nat → Nat → List String → Res (DecodeQueue × Bool × List String)
  | 0, _, acc => .ok (q, true, acc)
  | fuel + 1, grown, acc =>
    match queueAdvance q with
    | .ok (q1, ok) =>
      if ok ∧ q1.st.msg.isSome then
        if acc.length + 1 ≥ 4096 then .ok (q1, ok, acc ++ [msgText q1])
        else xdrain q1 fuel 0 (acc ++ [msgText q1])
      else if !ok ∧ q1.ring.len ≠ 0 ∧ grown < 4 then
        match queueGrow q1 (q1.ring.max + 64) with
        | .ok q2 => xdrain q2 fuel (grown + 1) acc
        | .err e => .err e | .null => .null | .oob => .oob | .fault => .fault
      else .ok (q1, ok, acc)
    | .err e => .err e | .null => .null | .oob => .oob | .fault => .fault

def stNew (s : St) (name : String) (mode : Nat) : St × String :=
  match Variant.ofName name with
  | some v =>
    ({ s with txq := { codec := some (.cobs v) }, txWire := [], moved := 0, loaded := 0, stSent := [], stCur := [], stGot := 0, stReady := true, stMode := mode, stLive := List.range 9, stLogged := 0, stBlocked := false, stInMsg := false, stTorn := false, stEof := false },
     stLine "ok")
  | none => (s, "bad-op")

def step (s : St) (w : List String) : St × String :=
  match w with
  | ["eq", "trim", n] =>
    if !s.eqReady then (s, "bad-op") else
    match (if n = "all" then some s.eq.st.done else n.toNat?) with
    | some n =>
      let alts :=
        if s.variant.isNone ∧ !s.cmd then "* ; *"
        else if n ≤ s.fin.length then s!"ok out={showB (s.fin.take n)} ; fin={showB (s.fin.drop n)}"
        else s!"* ; fin=- || refused ; fin={showB s.fin}"
      match queueTrim s.eq n with
      | .ok (some (q, out)) =>
        let fd := s.fdone - n
        ({ s with eq := q, wire := s.wire ++ out, fin := s.fin.drop n, early := s.early + (n - s.fin.length), fdone := fd },
         s!"R ok out={showB out} | C fin={showB (eqFin q fd)} | I {eqI "true" q fd} | S {alts}")
      | .ok none => (s, eqLine "refused" s.eq s.fdone "false" alts)
      | x => (s, eqLine s!"model-{resName x}" s.eq s.fdone (resName x) alts)
    | none => (s, "bad-op")
  | ["dq", "advance"] =>
    if !s.dqReady then (s, "bad-op") else
    let (alts0, next) := recvAlts s
    -- the wrapper reports every refusal of `mpt_queue_recv` as `false`
    let alts := (alts0.replace "ret=MissingData" "ret=refused").replace "ret=MissingBuffer" "ret=refused"
    match queueAdvance s.dq with
    | .ok (q, ok) =>
      let have_ := ok ∧ q.st.msg.isSome
      let rs := if !ok then "refused" else if have_ then "1" else "0"
      let s' := { s with dq := q, got := if have_ then s.got + 1 else s.got, avail := if have_ then next else none }
      let msg := if have_ then s!" msg={msgText q}" else ""
      (s', s!"R ret={rs}{msg} guards=ok | C avail={msgText q} | I {dqI (if ok then "true" else "false") q} | S {alts}")
    | x => (s, dqLine s!"model-{resName x}" s.dq (resName x) alts)
  | ["dq", "xdrain"] =>
    if !s.dqReady then (s, "bad-op") else
    let alts := match specMsgs s with
      | none => "* ; *"
      | some (_, ms) =>
        let rest := ms.drop s.got
        let txt := if rest.isEmpty then "-" else ",".intercalate (rest.map showB)
        s!"msgs={txt} n={rest.length} last=0 guards=ok ; avail=none || msgs={txt} n={rest.length} last=refused guards=ok ; avail=none"
    match xdrain s.dq 100000 0 [] with
    | .ok (q, ok, msgs) =>
      let txt := if msgs.isEmpty then "-" else ",".intercalate msgs
      let s' := { s with dq := q, got := s.got + msgs.length, avail := none }
      (s', s!"R msgs={txt} n={msgs.length} last={if ok then "0" else "refused"} guards=ok | C avail={msgText q} | I {dqI (if ok then "true" else "false") q} | S {alts}")
    | x => (s, dqLine s!"model-{resName x}" s.dq (resName x) alts)
  | ["st", "new", name] => stNew s name 0
  | ["st", "new", name, "input"] => stNew s name 1
  | ["st", "new", name, "wait"] => stNew s name 2
  | ["st", "push", dat] =>
    if !s.stReady then (s, "bad-op") else
    match parseHex dat with
    | some bytes =>
      if bytes.isEmpty then (s, "bad-op") else
      match streamPush s.txq (some bytes) (2 * bytes.length + 8) with
      | .ok (q, true) => ({ s with txq := q, stCur := s.stCur ++ bytes, stInMsg := true }, stLine s!"ok n={bytes.length}")
      | .ok (q, false) => ({ s with txq := q }, s!"R model-short | C - | I - | S ok n={bytes.length} ; *")
      | x => (s, s!"R model-{resName x} | C - | I - | S ok n={bytes.length} ; *")
    | none => (s, "bad-op")
  | ["st", "term"] =>
    if !s.stReady then (s, "bad-op") else
    match streamPush s.txq none 8 with
    | .ok (q, true) => ({ s with txq := q, stSent := s.stSent ++ [s.stCur], stCur := [], stInMsg := false, stTorn := false }, stLine "ok")
    | .ok (q, false) => ({ s with txq := q }, "R model-refused | C - | I - | S ok ; *")
    | x => (s, s!"R model-{resName x} | C - | I - | S ok ; *")
  | ["st", "flush"] =>
    if !s.stReady then (s, "bad-op") else
    match queueTake s.txq s.txq.st.done with
    | .ok (q, out) => ({ s with txq := q, txWire := s.txWire ++ out, stTorn := s.stTorn || s.stInMsg }, stLine "ok")
    | x => (s, s!"R model-{resName x} | C - | I - | S ok ; *")
  | ["st", "flush1"] =>
    -- one flush call into a socket nobody reads: the bytes are accounted for at the next `st flush`
    if !s.stReady then (s, "bad-op") else ({ s with stTorn := s.stTorn || s.stInMsg }, stLine "ok")
  | ["st", "abort"] =>
    if !s.stReady then (s, "bad-op") else
    if !s.stInMsg ∨ s.stTorn then (s, stLine "skipped") else
    -- the message in progress is gone, the finished ones stay
    match queueDel s.txq 1 with
    | .ok o =>
      if o.ret < 0 then ({ s with txq := o.q }, "R model-refused | C - | I - | S ok ; *")
      else ({ s with txq := o.q, stCur := [], stInMsg := false }, stLine "ok")
    | x => (s, s!"R model-{resName x} | C - | I - | S ok ; *")
  | ["st", "deliver", n] =>
    if !s.stReady then (s, "bad-op") else
    match n.toNat? with
    | some n =>
      if n > 1048576 then (s, "bad-op") else
      let k := if s.stEof then 0 else min n (s.txWire.length - s.moved)
      ({ s with moved := s.moved + k }, stLine s!"ok n={k}")
    | none => (s, "bad-op")
  | ["st", "mem"] =>
    if !s.stReady then (s, "bad-op") else
    -- a receiver on a memory block with everything flushed so far: all messages with complete frames, from the start
    match s.txq.codec with
    | some (.cobs v) =>
      if v.isZpe then (s, stLine "skipped") else
      let ms := s.stSent.take (frameCount s.txWire)
      let txt := if ms.isEmpty then "-" else ",".intercalate (ms.map showB)
      (s, stLine s!"poll=-2 msgs={txt} n={ms.length}")
    | _ => (s, stLine "skipped")
  | ["st", "eof"] =>
    if !s.stReady then (s, "bad-op") else ({ s with stEof := true }, stLine "ok")
  | ["st", "poll"] =>
    if !s.stReady then (s, "bad-op") else ({ s with loaded := s.moved }, stLine "ok")
  | ["st", "dispatch"] =>
    if !s.stReady then (s, "bad-op") else
    -- every complete frame among the bytes moved so far has become a message, in order
    if s.stMode = 2 then
      -- the waiting side reads the descriptor itself
      let k := frameCount (s.txWire.take s.moved)
      let ms := if s.stBlocked then [] else (s.stSent.take k).drop s.stGot
      let (live, used, logs, blocked) := waitLog s.stLive ms 0 []
      let txt := if logs.isEmpty then "-" else ",".intercalate logs
      ({ s with loaded := s.moved, stGot := s.stGot + used, stLive := live, stLogged := s.stLogged + logs.length, stBlocked := s.stBlocked || blocked },
       stLine s!"msgs={txt} n={logs.length}")
    else
    let k := frameCount (s.txWire.take s.loaded)
    let ms := (s.stSent.take k).drop s.stGot
    let txt := if ms.isEmpty then "-" else ",".intercalate (ms.map showB)
    ({ s with stGot := s.stGot + ms.length, stLogged := s.stLogged + ms.length }, stLine s!"msgs={txt} n={ms.length}")
  | ["st", "skip"] =>
    if !s.stReady then (s, "bad-op") else
    -- dispatch without a handler drops the next complete message
    let k := frameCount (s.txWire.take s.loaded)
    ({ s with stGot := if s.stMode ≠ 2 ∧ s.stGot < min k s.stSent.length then s.stGot + 1 else s.stGot }, stLine "ok")
  | ["st", "sync"] =>
    if !s.stReady then (s, "bad-op") else
    (s, s!"R sent={s.stSent.length} got={s.stLogged} | C - | I - | S sent={s.stSent.length} got={s.stLogged} ; *")
  | ["eq", "new", name, mx, off] =>
    match codecOf name, keyNat mx "max", keyNat off "off" with
    | some cv, some m, some o =>
      if o > m then (s, "bad-op") else
      let q : EncodeQueue := { ring := { store := List.replicate m 0, len := 0, off := o },
                               codec := if name = "command" then some .command else cv.map .cobs }
      let s' : St := { s with variant := cv, cmd := name = "command", eq := q, eqReady := true, pending := [], wire := [], wirepos := 0, fin := [], cur := [], sent := 0, fdone := 0, early := 0, sentMsgs := [], scripted := false, rawOpen := [] }
      (s', eqLine "ok" q 0 "0" "ok ; fin=-")
    | _, _, _ => (s, "bad-op")
  | ["eq", "push", dat] =>
    if !s.eqReady then (s, "bad-op") else
    match parseHex dat with
    | some bytes => if bytes.isEmpty then (s, "bad-op") else doPush s bytes
    | none => (s, "bad-op")
  | ["eq", "more"] =>
    if !s.eqReady then (s, "bad-op") else
    if s.pending.isEmpty then (s, eqLine "idle" s.eq s.fdone "0" (keepAlts s)) else doPush s s.pending
  | ["eq", "term"] =>
    if !s.eqReady then (s, "bad-op") else
    let (alts, w) := termAlts s
    match queuePush s.eq none with
    | .ok o =>
      if o.ret < 0 then ({ s with eq := o.q }, eqLine "refused" o.q s.fdone (errName o.ret) alts)
      else ({ s with eq := o.q, pending := [], fin := w, cur := [], rawOpen := [], early := 0, sent := s.sent + 1, fdone := o.q.st.done,
                     sentMsgs := s.sentMsgs ++ [s.cur.map Prod.fst] },
            eqLine "ok" o.q o.q.st.done (errName o.ret) alts)
    | x => (s, eqLine s!"model-{resName x}" s.eq s.fdone (resName x) alts)
  | ["eq", "del", n] =>
    if !s.eqReady then (s, "bad-op") else
    match n.toNat? with
    | some k =>
      if k = 0 ∨ k > 64 then (s, "bad-op") else
      -- the message in progress counts as the first one; finished frames still in the queue can follow
      let frames := (splitFrames s.fin).1
      let need := if s.cur.isEmpty then k else k - 1
      let keep := (frames.take (frames.length - need)).flatten
      -- removing a message of which a part has left the queue already tears the stream: outside the property
      let torn := !(splitFrames s.wire).2.isEmpty
      let misuse := need ≤ frames.length ∧ ((need > 0 ∧ need = frames.length ∧ torn) ∨ (!s.cur.isEmpty ∧ s.early > 0))
      let spec := s.variant.isSome ∧ s.early = 0 ∧ !misuse
      let raw := s.eq.codec.isNone
      let alts :=
        if raw then
          -- without encoder only the open data can be dropped, one "message"
          if k = 1 ∧ !s.rawOpen.isEmpty then s!"ok ; fin={showB s.fin}" else s!"refused ; fin={showB s.fin}"
        else if !spec then "* ; *"
        else if need ≤ frames.length then s!"ok ; fin={showB keep}"
        else s!"refused ; fin={showB s.fin}"
      match queueDel s.eq k with
      | .ok o =>
        if o.ret < 0 then ({ s with eq := o.q }, eqLine "refused" o.q s.fdone (errName o.ret) alts)
        else
          let fd := min s.fdone o.q.st.done
          let gone := if s.eq.codec.isSome then ((s.eq.ring.content.take (min s.fdone s.eq.ring.len)).count 0) - ((o.q.ring.content.take (min fd o.q.ring.len)).count 0) else 0
          ({ s with eq := o.q, pending := [], cur := [], early := 0, fdone := fd, sent := s.sent - gone,
                    variant := if misuse then none else s.variant, rawOpen := [],
                    fin := if raw then s.fin else if spec then keep else s.fin.take fd, sentMsgs := s.sentMsgs.take (s.sentMsgs.length - gone) },
           eqLine "ok" o.q fd (errName o.ret) alts)
      | x => (s, eqLine s!"model-{resName x}" s.eq s.fdone (resName x) alts)
    | none => (s, "bad-op")
  | ["eq", "grow", n] =>
    if !s.eqReady then (s, "bad-op") else
    match n.toNat? with
    | some n =>
      if n > 1048576 then (s, "bad-op") else
      match s.eq.ring.prepare n with
      | .ok (r1, _) =>
        let q := { s.eq with ring := r1 }
        ({ s with eq := q }, eqLine "ok" q s.fdone "0" (keepAlts s))
      | x => (s, eqLine s!"model-{resName x}" s.eq s.fdone (resName x) (keepAlts s))
    | none => (s, "bad-op")
  | ["eq", "align", p] =>
    if !s.eqReady then (s, "bad-op") else
    match p.toNat? with
    | some p =>
      match s.eq.ring.align p with
      | .ok r1 =>
        let q := { s.eq with ring := r1 }
        ({ s with eq := q }, eqLine "ok" q s.fdone "0" (keepAlts s))
      | x => (s, eqLine s!"model-{resName x}" s.eq s.fdone (resName x) (keepAlts s))
    | none => (s, "bad-op")
  | ["eq", "take", n] =>
    if !s.eqReady then (s, "bad-op") else
    match n.toNat? with
    | some n =>
      let k := min n (min s.eq.st.done s.eq.ring.len)
      let alts :=
        if s.variant.isNone ∧ !s.cmd ∧ s.eq.codec.isSome then "* ; *"
        else if k ≤ s.fin.length then s!"ok out={showB (s.fin.take k)} ; fin={showB (s.fin.drop k)}" else "* ; fin=-"
      match s.eq.ring.crop 0 k, queueTake s.eq n with
      | cr, .ok (q, out) =>
        let ret := match cr with | .ok (_, c) => toString c | .err e => toString e.code | _ => "?"
        let fd := s.fdone - k
        ({ s with eq := q, wire := s.wire ++ out, fin := s.fin.drop k, early := s.early + (k - s.fin.length), fdone := fd },
         s!"R ok out={showB out} | C fin={showB (eqFin q fd)} | I {eqI ret q fd} | S {alts}")
      | _, x => (s, eqLine s!"model-{resName x}" s.eq s.fdone (resName x) alts)
    | none => (s, "bad-op")
  | ["dq", "new", name, mx, off, al] =>
    match codecOf name, keyNat mx "max", keyNat off "off", keyNat al "align" with
    | some cv, some m, some o, some a =>
      if o > m ∨ a > 15 then (s, "bad-op") else
      let q : DecodeQueue := { ring := { store := List.replicate m 0, len := 0, off := o }, codec := cv, base := a,
                               command := name = "command" }
      let s' : St := { s with dq := q, dqReady := true, fed := [], got := 0, skip := 0, avail := none }
      (s', dqLine "ok" q "0" "* ; *")
    | _, _, _, _ => (s, "bad-op")
  | ["dq", "feed", dat] =>
    if !s.dqReady then (s, "bad-op") else
    match parseHex dat with
    | some bytes =>
      match queueFeed s.dq bytes with
      | .ok (q, c) =>
        if c < 0 then ({ s with dq := q }, dqLine "refused n=0" q (errName c) (availAlts s))
        else ({ s with dq := q, fed := s.fed ++ bytes, scripted := true }, dqLine s!"ok n={bytes.length}" q (errName c) (availAlts s))
      | x => (s, dqLine s!"model-{resName x}" s.dq (resName x) (availAlts s))
    | none => (s, "bad-op")
  | ["dq", "wire", how] =>
    if !s.dqReady then (s, "bad-op") else
    let maxlen := match s.variant with | some v => v.maxlen | none => 255
    let left := s.wire.length - s.wirepos
    let want : Option Nat :=
      if how = "code" then some (codeCut maxlen s.wirepos s.wire 0 0)
      else if how = "frame" then some (frameCut s.wire s.wirepos)
      else if how = "all" then some left
      else how.toNat?
    match want with
    | some n =>
      -- "all": the storage grows as needed
      let q0 : Res DecodeQueue :=
        if how = "all" ∧ left > s.dq.ring.max - s.dq.ring.len then queueGrow s.dq (s.dq.ring.len + left) else .ok s.dq
      let n := min n left
      -- a full queue gets more storage before input is read
      let q1 : Res DecodeQueue := match q0 with
        | .ok q => if n ≠ 0 ∧ q.ring.len = q.ring.max then queueGrow q (q.ring.max * 2 + 64) else .ok q
        | x => x
      let dq1 := match q1 with | .ok q => q | _ => s.dq
      let n := min n (dq1.ring.max - dq1.ring.len)
      let bytes := (s.wire.drop s.wirepos).take n
      let fedr : Res (DecodeQueue × Int) := match q1 with
        | .ok q => if n = 0 then .ok (q, 0) else queueFeed q bytes
        | .err e => .err e | .null => .null | .oob => .oob | .fault => .fault
      match fedr with
      | .ok (q, c) =>
        let n := if c < 0 then 0 else n
        let wp := s.wirepos + n
        let atFrame := wp = 0 ∨ s.wire[wp - 1]? = some 0
        let s' := { s with dq := q, fed := s.fed ++ bytes.take n, wirepos := wp }
        (s', dqLine s!"ok n={n} end={if atFrame then "frame" else "mid"}" q (errName c) (availAlts s))
      | x => (s, dqLine s!"model-{resName x}" s.dq (resName x) (availAlts s))
    | none => (s, "bad-op")
  | ["dq", "grow", n] =>
    if !s.dqReady then (s, "bad-op") else
    match n.toNat? with
    | some n =>
      if n > 1048576 then (s, "bad-op") else
      match queueGrow s.dq n with
      | .ok q => ({ s with dq := q }, dqLine "ok" q "0" (availAlts s))
      | x => (s, dqLine s!"model-{resName x}" s.dq (resName x) (availAlts s))
    | none => (s, "bad-op")
  | ["dq", "recv"] =>
    if !s.dqReady then (s, "bad-op") else
    let (alts, next) := recvAlts s
    match queueRecv s.dq with
    | .ok (q, r) =>
      let rs := if r > 0 then "1" else errName r
      let s' := { s with dq := q, got := if r > 0 then s.got + 1 else s.got, avail := if r > 0 then next else none,
                         skip := if s.scripted ∧ r = Err.BadValue.code then s.skip + 1 else s.skip }
      let msg := if r > 0 then s!" msg={msgText q}" else ""
      (s', s!"R ret={rs}{msg} guards=ok | C avail={msgText q} | I {dqI rs q} | S {alts}")
    | x => (s, dqLine s!"model-{resName x}" s.dq (resName x) alts)
  | ["dq", "drain"] =>
    if !s.dqReady then (s, "bad-op") else
    let alts := match fedFrames s with
      | some (_, ds) => drainAltsFed s ds
      | none =>
      match specMsgs s with
      | none => "* ; *"
      | some (_, ms) =>
        let rest := ms.drop s.got
        let txt := if rest.isEmpty then "-" else ",".intercalate (rest.map showB)
        s!"msgs={txt} n={rest.length} last=0 guards=ok ; avail=none || msgs={txt} n={rest.length} last=MissingData guards=ok ; avail=none"
    match drain s.dq 100000 0 [] with
    | .ok (q, r, msgs) =>
      let rs := if r > 0 then "1" else errName r
      let txt := if msgs.isEmpty then "-" else ",".intercalate msgs
      let s' := { s with dq := q, got := s.got + msgs.length, avail := none,
                         skip := if s.scripted ∧ r = Err.BadValue.code then s.skip + 1 else s.skip }
      (s', s!"R msgs={txt} n={msgs.length} last={rs} guards=ok | C avail={msgText q} | I {dqI rs q} | S {alts}")
    | x => (s, dqLine s!"model-{resName x}" s.dq (resName x) alts)
  | ["dq", "shift"] =>
    if !s.dqReady then (s, "bad-op") else
    match queueShift s.dq with
    | .ok q => ({ s with dq := q }, dqLine "ok" q "0" (availAlts s))
    | x => (s, dqLine s!"model-{resName x}" s.dq (resName x) (availAlts s))
  | ["dq", "msg"] =>
    if !s.dqReady then (s, "bad-op") else
    let alts := match s.avail with
      | some m => s!"msg={showB m} guards=ok ; avail={showB m}"
      | none => if s.dq.codec.isSome ∨ s.dq.command then "msg=none guards=ok ; avail=none" else "* ; *"
    (s, s!"R msg={msgText s.dq} guards=ok | C avail={msgText s.dq} | I {dqI "0" s.dq} | S {alts}")
  | ["dq", "peek", n] =>
    if !s.dqReady then (s, "bad-op") else
    match n.toNat? with
    | some n =>
      if n > 1048576 then (s, "bad-op") else
      match queuePeek s.dq n true with
      | .ok (q, r, out) =>
        -- bytes of the target the call did not write keep the driver's fill byte
        let shown := if r > 0 then showB (out ++ List.replicate (min r.toNat n - out.length) 0xbe) else "-"
        ({ s with dq := q }, s!"R ret={errName r} out={shown} guards=ok | C avail={msgText q} | I {dqI (errName r) q} | S {peekAlts s n}")
      | x => (s, dqLine s!"model-{resName x}" s.dq (resName x) (peekAlts s n))
    | none => (s, "bad-op")
  | ["dq", "peek", n, "nodst"] =>
    if !s.dqReady then (s, "bad-op") else
    match n.toNat? with
    | some n =>
      if n > 1048576 then (s, "bad-op") else
      match queuePeek s.dq n false with
      | .ok (q, r, _) =>
        ({ s with dq := q }, s!"R ret={errName r} out=- guards=ok | C avail={msgText q} | I {dqI (errName r) q} | S {availAlts s}")
      | x => (s, dqLine s!"model-{resName x}" s.dq (resName x) (availAlts s))
    | none => (s, "bad-op")
  | ["dq", "get", a, b, how] =>
    if !s.dqReady then (s, "bad-op") else
    match a.toNat?, b.toNat? with
    | some off, some take =>
      if off > 1048576 ∨ take > 1048576 then (s, "bad-op") else
      -- the bytes of the range, exactly when the range lies inside the data (and a second part has its vector)
      let inside := off + take ≤ s.dq.ring.len
      -- a view that does not cross the end of the storage (first physical part = the bytes up to the storage end)
      -- must be handed out directly, with or without a continuation vector; one that crosses it needs the vector
      let low := min s.dq.ring.len (s.dq.ring.max - s.dq.ring.off)
      let contiguous := off ≥ low ∨ off + take ≤ low
      let view := showB ((s.dq.ring.content.drop off).take take)
      let alts := if !inside then s!"ret=-1 msg=- guards=ok ; * || ret=-2 msg=- guards=ok ; *"
        else if contiguous then s!"ret=0 msg={view} guards=ok ; *"
        else if how != "novec" then s!"ret=1 msg={view} guards=ok ; *"
        else s!"ret=-3 msg=- guards=ok ; *"
      match messageGet s.dq.ring off take (how != "novec") with
      | .ok (c, bytes) =>
        (s, s!"R ret={c} msg={if c < 0 then "-" else showB bytes} guards=ok | C avail={msgText s.dq} | I {dqI "0" s.dq} | S {alts}")
      | x => (s, dqLine s!"model-{resName x}" s.dq (resName x) alts)
    | _, _ => (s, "bad-op")
  | ["sync"] =>
    let alts := if s.variant.isNone ∧ !s.cmd then "* ; *" else s!"sent={s.sent} got={s.sent} left=0 ; *"
    (s, s!"R sent={s.sent} got={s.got} left={s.wire.length - s.wirepos} | C - | I - | S {alts}")
  | _ => (s, "bad-op")

def main (_args : List String) : IO Unit := do
  Driver.loop (← IO.getStdin) (← IO.getStdout) step ({} : St)

end Driver.Cqueue
