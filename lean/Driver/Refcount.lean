import MptModel.Impl.Refcount
import MptModel.Spec.Refs
import Driver.Util
namespace Driver.Refcount
open Mpt Mpt.Refcount

/-- part `g`: the library's unshareable metatypes over one harness buffer.  M side: the buffer's counter; S side:
    the references the harness holds, the total is derived from the living buffer metatypes that hold one -/
structure GSt where
  made : Bool := false
  bcount : Nat := 0
  balive : Bool := true
  bext : Nat := 0
  bdead : Bool := false
  metas : List (Bool × Bool × Bool) := []   -- (alive, buffer metatype, holds a reference to the buffer)
  deriving Inhabited

structure DSt where
  arr : List Nat := []  -- part r: the array of metatype references (object index per element); its elements
                        -- count as references held outside the three handles
  dspInit : Bool := false          -- part r: the dispatcher exists
  dsp : Option (Nat × Nat) := none -- part r: (object, references) the dispatcher's parameter handlers hold
  ksf : Bool := false   -- reply contexts: the send callback refuses
  g : GSt := {}
  m : St := {}
  s : Refs.SSt := {}
  cnt : Nat := 0
  named : Nat := 0      -- objects created by `r obj`; later ones are buffers handed out by detach
  ua : St := {}         -- C++ part: buffers behind the unique_array handles
  uas : Refs.SSt := {}
  wl : List Nat := []   -- notifier part: inputs reported by the last wait, not yet fetched
  rdy : List Nat := []  -- notifier part: descriptors with readable data

def fmtCount (v : Nat) : String :=
  if v = MAXV then "max" else if v + 1 = MAXV then "max-1" else toString v

def parseCount (w : String) : Option Nat :=
  if w == "max" then some MAXV else if w == "max-1" then some (MAXV - 1) else w.toNat?

def fmtHnd (named : Nat) (hnd : List (Option Nat)) : String :=
  " ".intercalate ((List.range hnd.length).map fun h =>
    match hnd.getD h none with
    | some o => if o < named then s!"h{h}={o}" else s!"h{h}=n{o - named}"
    | none => s!"h{h}=-")

def fmtEl (evs : List ElEv) : String :=
  if evs.isEmpty then "-" else ",".intercalate (evs.map fun e => match e with | .fini t => s!"f{t}" | .copy t => s!"c{t}")

def fmtObj (i : Nat) (kind : OKind) (alive : Bool) (count : Nat) (add unref : Nat) (destroyed dead : Bool) : String :=
  match kind with
  | .hmeta | .hbuf =>
    s!"o{i}={if alive then "A" else "D"}:{fmtCount count}:+{add}-{unref}{if destroyed then "D" else ""}{if dead then "!" else ""}"
  | .rbuf => s!"o{i}=rbuf"
  | .raw => s!"o{i}=raw"

/-- C section of the model state -/
def fmtM (named : Nat) (s : St) : String :=
  let os := (List.range named).map fun i =>
    let o := s.obj i; let e := s.evOf i
    fmtObj i o.kind o.alive o.count e.add e.unref e.destroyed e.dead
  " ".intercalate (os ++ [fmtHnd named s.hnd, "el=" ++ fmtEl s.elog])

/-- C section the spec expects for an alternative -/
def fmtS (named : Nat) (a : Refs.Alt) : String :=
  let s := a.st
  let os := (List.range named).map fun i =>
    let o := s.objs.getD i default
    let evs := a.evs.filter (·.obj == i)
    let add := (evs.map (·.add)).foldl (· + ·) 0
    let unref := (evs.map (·.unref)).foldl (· + ·) 0
    let destroyed := evs.any (·.destroyed)
    fmtObj i o.kind (!o.dead) (Refs.refs s i) add unref destroyed (evs.any (·.dead))
  let el : List ElEv := (a.evs.flatMap fun e => e.copied.map ElEv.copy) ++
    ((a.evs.filter (·.destroyed)).flatMap fun e => ((s.objs.getD e.obj default).elems).map ElEv.fini)
  " ".intercalate (os ++ [fmtHnd named s.hnd, "el=" ++ fmtEl el])

def fmtAlts (named : Nat) (alts : List Refs.Alt) (okR : String := "ok") : String :=
  " || ".intercalate (alts.map fun a => s!"{if a.ok then okR else "refused"} ; {fmtS named a}")

def fmtRet : RRet → String
  | .ok n => toString n | .err e => e.name

/-- keep the spec state in step with the model: the alternative the model's outcome matches -/
def pick (named : Nat) (alts : List Refs.Alt) (ok : Bool) (c : String) (dflt : Refs.SSt) : Refs.SSt :=
  match alts.find? (fun a => a.ok == ok && fmtS named a == c) with
  | some a => a.st
  | none => dflt

def line (r c i s : String) : String := s!"R {r} | C {c} | I ret={i} | S {s}"

def idx (w : String) (lim : Nat) : Option Nat :=
  match w.toNat? with
  | some n => if n < lim then some n else none
  | none => none

def handleEmpty (s : St) (h : Nat) : Bool := (s.hnd.getD h none).isNone

/-- run a model operation with events cleared first, emit the line, update both states -/
def fmtShared (s : St) : String :=
  String.join ((List.range s.hnd.length).map fun h =>
    match s.hnd.getD h none with
    | some o => if (s.obj o).kind == .rbuf then s!" sh{h}={if (s.obj o).count > 1 then 1 else 0}" else ""
    | none => "")

def finish (d : DSt) (m' : St) (ok : Bool) (iret : String) (alts : List Refs.Alt) : DSt × String :=
  let c := fmtM d.named m'
  ({ d with m := m', s := pick d.named alts ok c d.s },
   line (if ok then "ok" else "refused") c (iret ++ fmtShared m') (fmtAlts d.named alts))

/-- one operation of a history: M through `St.exec`, S through `Refs.alts` — the functions `C15.refines` is about -/
def runOp (d : DSt) (m : St) (op : Op) (iret : String) : DSt × String :=
  if !m.valid op then (d, "bad-op") else
  let (m', ok) := m.exec op
  finish d m' ok iret (Refs.alts d.s op)

/-- the elements `new` of an array of references take the place of the elements `old` in ONE assignment: every new
    element is retained, then every replaced one released (M: through the objects' vtable; S: `Refs.extAdd/extUnref`) -/
def arrAssign (d : DSt) (m : St) (old new : List Nat) : DSt × String :=
  let m1 := new.foldl (fun st o => (st.extAdd o).1) m
  let m2 := old.foldl (fun st o => st.extUnref o) m1
  let stepS := fun (acc : Refs.SSt × List Refs.SEv) (al : List Refs.Alt) =>
    match al with | a :: _ => (a.st, acc.2 ++ a.evs) | [] => acc
  let s1 := new.foldl (fun acc o => stepS acc (Refs.extAdd acc.1 o)) (d.s, [])
  let s2 := old.foldl (fun acc o => stepS acc (Refs.extUnref acc.1 o)) s1
  finish { d with arr := new } m2 true "0" [{ ok := true, st := s2.1, evs := s2.2 }]

/-- objects 0 and 1 are harness metatypes that can take `n` more references -/
def arrOk (m : St) (n : Nat) : Bool :=
  decide (2 ≤ m.objs.length) && (List.range 2).all fun i =>
    (m.obj i).kind == .hmeta && (m.obj i).alive && decide (1 ≤ (m.obj i).count) && decide ((m.obj i).count + n ≤ 1000)

def step (d : DSt) (w : List String) : DSt × String :=
  let m := d.m.clearEv
  match w with
  | ["r", "begin"] => ({}, "R ok | C - | I ret=0")
  | ["r", "dsp", "param", os] =>
    match idx os d.named with
    | some o =>
      if (m.obj o).kind != .hmeta ∨ !(m.obj o).alive ∨ d.dsp.isSome then (d, "bad-op") else
      let d := { d with dspInit := true }
      -- M: the caller's reference, then one more per further handler until one is refused
      let (m1, ok1) := m.extAdd o
      if !ok1 then finish d m1 false "0" (Refs.refusedAlts d.s o) else
      let (m2, ok2) := m1.extAdd o
      let (m3, ok3) := if ok2 then m2.extAdd o else (m2, false)
      let held := if ok3 then 3 else if ok2 then 2 else 1
      -- S: the dispatcher may hold 1..3 references, each one counted; an attempt beyond them may have reached addref
      let stepS := fun (acc : Refs.SSt × Nat) (_ : Nat) =>
        if Refs.canTake acc.1 o then
          (match Refs.extAdd acc.1 o with | a :: _ => (a.st, acc.2 + 1) | [] => acc) else acc
      let altsFor := fun (h : Nat) =>
        let r := (List.range h).foldl stepS (d.s, 0)
        if r.2 = h then
          [({ ok := true, st := r.1, evs := [{ obj := o, add := h }] } : Refs.Alt)] ++
            (if h < 3 ∧ !Refs.canTake r.1 o then [({ ok := true, st := r.1, evs := [{ obj := o, add := h + 1, dead := (r.1.objs.getD o default).dead }] } : Refs.Alt)] else [])
        else []
      finish { d with dsp := some (o, held) } m3 true (toString held) (altsFor 1 ++ altsFor 2 ++ altsFor 3 ++ Refs.refusedAlts d.s o)
    | none => (d, "bad-op")
  | ["r", "dsp", "fini"] =>
    if !d.dspInit then (d, "bad-op") else
    match d.dsp with
    | none => finish { d with dspInit := false } m true "0" [{ ok := true, st := d.s }]
    | some (o, held) =>
      -- every reference the handlers hold is given back, once each
      let rel := List.replicate held o
      let m2 := rel.foldl (fun st x => st.extUnref x) m
      let stepS := fun (acc : Refs.SSt × List Refs.SEv) (al : List Refs.Alt) =>
        match al with | a :: _ => (a.st, acc.2 ++ a.evs) | [] => acc
      let s2 := rel.foldl (fun acc x => stepS acc (Refs.extUnref acc.1 x)) (d.s, [])
      finish { d with dspInit := false, dsp := none } m2 true "0" [{ ok := true, st := s2.1, evs := s2.2 }]
  | ["r", "arr", "new", ns] =>
    match ns.toNat? with
    | some n =>
      if !d.arr.isEmpty ∨ n < 2 ∨ n > 64 ∨ !arrOk m n then (d, "bad-op") else
      arrAssign d m [] (List.replicate (n - 1) 0 ++ [1])
    | none => (d, "bad-op")
  | ["r", "arr", "rot", ks] =>
    match ks.toNat? with
    | some k =>
      if d.arr.isEmpty ∨ !arrOk m d.arr.length then (d, "bad-op") else
      arrAssign d m d.arr ((List.range d.arr.length).map fun j => d.arr.getD ((j + k) % d.arr.length) 0)
    | none => (d, "bad-op")
  | ["r", "arr", "self"] =>
    if d.arr.isEmpty ∨ !arrOk m d.arr.length then (d, "bad-op") else arrAssign d m d.arr d.arr
  | ["r", "arr", "raw", ns] =>
    -- the array handle is re-used as a raw buffer: every reference it held is released (then the buffer is dropped)
    match ns.toNat? with
    | some n => if d.arr.isEmpty ∨ n > 4096 then (d, "bad-op") else arrAssign d m d.arr []
    | none => (d, "bad-op")
  | ["r", "arr", "drop"] =>
    if d.arr.isEmpty then (d, "bad-op") else arrAssign d m d.arr []
  | ["r", "traits", which] =>
    -- both reference traits have the same counting behaviour
    if (which == "input" ∨ which == "meta") ∧ (List.range 3).all (fun h => match m.hnd.getD h none with
        | some o => !(m.isMetaObj o) | none => true)
    then (d, "R ok | C - | I ret=0") else (d, "bad-op")
  | ["r", "cnt", v] =>
    match parseCount v with
    | some n => ({ d with cnt := n }, s!"R ok | C cnt={fmtCount n} | I ret=0")
    | none => (d, "bad-op")
  | ["r", "raise"] =>
    let r := raise d.cnt
    -- S: fails (0, unchanged) at 0 and at the maximum, else the incremented value
    let sv := if d.cnt = 0 ∨ d.cnt = MAXV then (d.cnt, 0) else (d.cnt + 1, d.cnt + 1)
    ({ d with cnt := r.1 }, s!"R ret={fmtCount r.2} | C cnt={fmtCount r.1} | I ret=0 | S ret={fmtCount sv.2} ; cnt={fmtCount sv.1}")
  | ["r", "lower"] =>
    let r := lower d.cnt
    let sv := if d.cnt = 0 then (0, MAXV) else (d.cnt - 1, d.cnt - 1)
    ({ d with cnt := r.1 }, s!"R ret={fmtCount r.2} | C cnt={fmtCount r.1} | I ret=0 | S ret={fmtCount sv.2} ; cnt={fmtCount sv.1}")
  | ["r", "obj", kind, v] =>
    match parseCount v with
    | none => (d, "bad-op")
    | some n =>
      if m.objs.length ≥ 3 ∨ m.objs.length ≠ d.named then (d, "bad-op") else
      let i := m.objs.length
      let mk (k : OKind) (count : Nat) (elems : List Nat) : DSt × String :=
        let op : Op := .create k count elems
        if !m.valid op then (d, "bad-op") else
        let m' : St := (m.exec op).1
        let s' : Refs.SSt := match Refs.alts d.s op with | a :: _ => a.st | [] => d.s
        let r := s!"ok o={i}"
        ({ d with m := m', s := s', named := i + 1 },
         line r (fmtM (i + 1) m') ("0" ++ fmtShared m') (fmtAlts (i + 1) [{ ok := true, st := s' }] r))
      if kind == "meta" then mk .hmeta n []
      else if kind == "buf" then mk .hbuf n []
      else if kind == "rbuf" then
        if n > 32 then (d, "bad-op") else mk .rbuf 1 ((List.range n).map fun j => 10 * (i + 1) + j)
      else if kind == "raw" then (if n = 1 then mk .raw 1 [] else (d, "bad-op"))
      else (d, "bad-op")
  | ["r", "take", hs, os] =>
    match idx hs 3, idx os d.named with
    | some h, some o =>
      if !handleEmpty m h then (d, "bad-op") else
      runOp d m (.take h o) (fmtRet (m.take h o).2)
    | _, _ => (d, "bad-op")
  | ["r", "copy", hs, gs] =>
    match idx hs 3, idx gs 3 with
    | some h, some g =>
      if h = g ∨ !handleEmpty m h then (d, "bad-op") else
      runOp d m (.copy h g) (fmtRet (m.copy h g).2)
    | _, _ => (d, "bad-op")
  | ["r", "detach", hs, ls] =>
    match idx hs 3, ls.toNat? with
    | some h, some len =>
      match m.hnd.getD h none with
      | none => (d, "bad-op")
      | some o =>
        if len > 64 ∨ (m.obj o).kind != .rbuf then (d, "bad-op") else
        runOp d m (.detach h len) "0"
    | _, _ => (d, "bad-op")
  | ["r", "reserve", hs, ls] =>
    match idx hs 3, ls.toNat? with
    | some h, some len =>
      if len > 64 then (d, "bad-op") else
      match m.hnd.getD h none with
      | some o =>
        if (m.obj o).kind != .rbuf then (d, "bad-op") else
        runOp d m (.reserve h len) "0"
      | none => runOp d m (.reserve h len) "0"
    | _, _ => (d, "bad-op")
  | ["r", "lo", "new"] =>
    if m.hnd.length ≠ 3 then (d, "bad-op") else
    let m' := { m with hnd := m.hnd ++ [none] }
    let s' : Refs.SSt := { d.s with hnd := d.s.hnd ++ [none] }
    finish { d with s := s' } m' true "0" [{ ok := true, st := s' }]
  | ["r", "lo", "set", os] =>
    match idx os d.named with
    | some o =>
      if m.hnd.length ≠ 4 ∨ (m.obj o).kind != .hmeta then (d, "bad-op") else
      -- the held target is replaced: retain the new one, release the old one
      runOp d m (.assignMeta 3 (some o)) (match (m.assignMeta 3 (some o)).2 with | .ok _ => "0" | .err e => e.name)
    | none => (d, "bad-op")
  | ["r", "lo", "drop"] =>
    if m.hnd.length ≠ 4 then (d, "bad-op") else
    let m1 := m.drop 3
    let alts := (Refs.drop d.s 3).map fun a => { a with st := { a.st with hnd := a.st.hnd.take 3 } }
    finish d { m1 with hnd := m1.hnd.take 3 } true "0" alts
  | ["r", "drop", hs] =>
    match idx hs 3 with
    | some h => runOp d m (.drop h) "0"
    | none => (d, "bad-op")
  | ["r", op, hs, src] =>
    if op == "assign" ∨ op == "assigno" then
      match idx hs 3 with
      | none => (d, "bad-op")
      | some h =>
        -- source: (object or none, needs a metatype handle?)
        let srcv : Option (Option Nat × Option Bool) :=
          if op == "assigno" then
            if src == "null" then some (none, none)
            else match idx src d.named with
              | some o => some (some o, some (m.isMetaObj o))
              | none => none
          else match idx src 3 with
            | some g => match m.hnd.getD g none with
              | some o => some (some o, some (m.isMetaObj o))
              | none => some (none, none)
            | none => none
        match srcv with
        | none => (d, "bad-op")
        | some (so, smeta) =>
          let old := m.hnd.getD h none
          let hmeta : Option Bool := old.map m.isMetaObj
          -- an empty side takes the kind of the other one; both empty: the pointer form
          let useMeta : Option Bool :=
            match hmeta, smeta with
            | some a, some b => if a = b then some a else none
            | some a, none => some a
            | none, some b => some b
            | none, none => some true
          match useMeta with
          | none => (d, "bad-op")
          | some true => runOp d m (.assignMeta h so) (fmtRet (m.assignMeta h so).2)
          | some false => runOp d m (.assignArr h so) (fmtRet (m.assignArr h so).2)
    else if op == "ext" then
      match idx hs d.named with
      | none => (d, "bad-op")
      | some o =>
        let k := (m.obj o).kind
        if k != .hmeta ∧ k != .hbuf then (d, "bad-op")
        else if src == "addref" then runOp d m (.extAdd o) "0"
        else if src == "unref" then
          -- (the references of the array elements are not the harness's to give back)
          if (m.obj o).ext ≤ (d.arr.filter (· == o)).length + (match d.dsp with | some (x, h) => if x == o then h else 0 | none => 0)
          then (d, "bad-op") else runOp d m (.extUnref o) "0"
        else (d, "bad-op")
    else (d, "bad-op")
  | ["r", "end"] =>
    -- the dispatcher and the array of references go first
    let d := { d with arr := (match d.dsp with | some (x, h) => List.replicate h x | none => []) ++ d.arr, dsp := none, dspInit := false }
    let m := d.arr.foldl (fun st o => st.extUnref o) m
    let stepS0 := fun (acc : Refs.SSt × List Refs.SEv) (al : List Refs.Alt) =>
      match al with | a :: _ => (a.st, acc.2 ++ a.evs) | [] => acc
    let sa := d.arr.foldl (fun acc o => stepS0 acc (Refs.extUnref acc.1 o)) (d.s, [])
    let d := { d with arr := [], s := sa.1 }
    let m' := { m.endAll with hnd := m.endAll.hnd.take 3 }
    -- S: every handle dropped, external references of small counters given back, objects without a
    -- reference destroyed; computed with the spec operations
    let s1 := (List.range d.s.hnd.length).foldl (fun (acc : Refs.SSt × List Refs.SEv) h =>
        match Refs.drop acc.1 h with
        | a :: _ => (a.st, acc.2 ++ a.evs)
        | [] => acc) (d.s, sa.2)
    let s2 := (List.range d.s.objs.length).foldl (fun (acc : Refs.SSt × List Refs.SEv) o =>
        let ob := acc.1.objs.getD o default
        let n := match ob.kind with
          | .hmeta | .hbuf => if !ob.dead ∧ ob.ext < 16 then ob.ext else 0
          | _ => if ob.ext ≠ 0 then 1 else 0
        (List.range n).foldl (fun (acc2 : Refs.SSt × List Refs.SEv) _ =>
          if (acc2.1.objs.getD o default).dead then acc2 else
          match Refs.extUnref acc2.1 o with
          | a :: _ => (a.st, acc2.2 ++ a.evs)
          | [] => acc2) acc) s1
    finish d m' true "0" [{ ok := true, st := { s2.1 with hnd := s2.1.hnd.take 3 }, evs := s2.2 }]
  | _ => (d, "bad-op")

/-! ### C++ part: `mpt::reference<T>` with objects that own a handle (slots 3.. of the handle list) -/

def fmtX (objs : List (Bool × Nat × Nat × Nat × Bool × Bool)) (hnd : List (Option Nat)) : String :=
  let os := (List.range objs.length).map fun i =>
    match objs.getD i (false, 0, 0, 0, false, false) with
    | (alive, count, add, unref, destroyed, dead) => fmtObj i .hmeta alive count add unref destroyed dead
  let hs := (List.range 3).map fun h =>
    match hnd.getD h none with | some o => s!"h{h}={o}" | none => s!"h{h}=-"
  let ns := (List.range objs.length).map fun i =>
    match hnd.getD (3 + i) none with | some o => s!"n{i}={o}" | none => s!"n{i}=-"
  " ".intercalate (os ++ hs ++ ns)

def fmtXM (s : St) : String :=
  fmtX ((List.range s.objs.length).map fun i =>
    let o := s.obj i; let e := s.evOf i
    (o.alive, o.count, e.add, e.unref, e.destroyed, e.dead)) s.hnd

def fmtXS (a : Refs.Alt) : String :=
  let s := a.st
  fmtX ((List.range s.objs.length).map fun i =>
    let o := s.objs.getD i default
    let evs := a.evs.filter (·.obj == i)
    (!o.dead, Refs.refs s i, (evs.map (·.add)).foldl (· + ·) 0, (evs.map (·.unref)).foldl (· + ·) 0,
     evs.any (·.destroyed), evs.any (·.dead))) s.hnd

def finishX (d : DSt) (m' : St) (alts : List Refs.Alt) : DSt × String :=
  let c := fmtXM m'
  let s' := match alts.find? (fun a => fmtXS a == c) with | some a => a.st | none => d.s
  ({ d with m := m', s := s' },
   s!"R ok | C {c} | I ret=0 | S " ++ " || ".intercalate (alts.map fun a => s!"ok ; {fmtXS a}"))

/-- unique_array handles: `d` default buffer, else the first handle sharing the buffer and the length; live elements -/
def fmtUA (hnd : List (Option Nat)) (len : Nat → Nat) (alive : Nat → Bool) (nobj : Nat) : String :=
  let hs := (List.range 3).map fun a =>
    match hnd.getD a none with
    | none => s!"a{a}=d"
    | some b =>
      let g := ((List.range a).find? fun j => hnd.getD j none == some b).getD a
      s!"a{a}=g{g}:{len b}"
  let live := ((List.range nobj).map fun b => if alive b then len b else 0).foldl (· + ·) 0
  " ".intercalate (hs ++ [s!"live={live}"])

def fmtUAM (s : St) : String := fmtUA s.hnd (fun b => (s.obj b).elems.length) (fun b => (s.obj b).alive) s.objs.length
def fmtUAS (s : Refs.SSt) : String :=
  fmtUA s.hnd (fun b => (s.objs.getD b default).elems.length) (fun b => !(s.objs.getD b default).dead) s.objs.length

def finishUA (d : DSt) (m' : St) (ok : Bool) (alts : List Refs.Alt) : DSt × String :=
  let c := fmtUAM m'
  let s' := match alts.find? (fun a => a.ok == ok && fmtUAS a.st == c) with | some a => a.st | none => d.uas
  ({ d with ua := m', uas := s' },
   s!"R {if ok then "ok" else "refused"} | C {c} | I ret=0 | S " ++
     " || ".intercalate (alts.map fun a => s!"{if a.ok then "ok" else "refused"} ; {fmtUAS a.st}"))

def stepUA (d : DSt) (w : List String) : DSt × String :=
  let m := d.ua.clearEv
  match w with
  | ["x", "ua", "copy", as_, bs] =>
    match idx as_ 3, idx bs 3 with
    | some a, some b => finishUA d (m.assignRef a (m.hnd.getD b none)) true (Refs.xassign 99 d.uas a (d.uas.hnd.getD b none))
    | _, _ => (d, "bad-op")
  | ["x", "ua", "insert", as_] =>
    match idx as_ 3 with
    | some a => let (m', ok) := m.uaInsert a; finishUA d m' ok (Refs.uaGrow d.uas a (· + 1))
    | none => (d, "bad-op")
  | ["x", "ua", "resize", as_, ns] =>
    match idx as_ 3, ns.toNat? with
    | some a, some n =>
      if n > 64 then (d, "bad-op") else
      let (m', ok) := m.uaResize a n; finishUA d m' ok (Refs.uaGrow d.uas a (fun _ => n))
    | _, _ => (d, "bad-op")
  | ["x", "ua", "drop", as_] =>
    match idx as_ 3 with
    | some a => finishUA d (m.drop a) true (Refs.drop d.uas a)
    | none => (d, "bad-op")
  | _ => (d, "bad-op")

/-- settle the spec state after a plain spec operation -/
def settleAlts (alts : List Refs.Alt) : List Refs.Alt := alts.map (Refs.settled 3)

def stepX (d : DSt) (w : List String) : DSt × String :=
  let m := d.m.clearEv
  let fuel := m.objs.length + 1
  match w with
  | ["x", "begin"] =>
    ({ m := { hnd := List.replicate 6 none }, s := { hnd := List.replicate 6 none } }, "R ok | C - | I ret=0")
  | ["x", "new", hs, v] =>
    match idx hs 3, parseCount v with
    | some h, some n =>
      if m.objs.length ≥ 3 ∨ n = 0 then (d, "bad-op") else
      let i := m.objs.length
      -- the old referent of the handle is released, the new object arrives with its preset counter
      let m1 := (m.drop h).cascade 3 fuel
      let m2 : St := { m1 with objs := m1.objs ++ [{ kind := .hmeta, count := n, alive := true, ext := n - 1 }], ev := m1.ev ++ [{}],
                               hnd := m1.hnd.set h (some i) }
      let a1 := settleAlts (Refs.drop d.s h)
      let alts := a1.map fun a =>
        { a with st := { objs := a.st.objs ++ [{ kind := .hmeta, ext := n - 1 }], hnd := a.st.hnd.set h (some i) } }
      finishX d m2 alts
    | _, _ => (d, "bad-op")
  | ["x", "copy", hs, gs] =>
    match idx hs 3, idx gs 3 with
    | some h, some g =>
      if h = g then (d, "bad-op") else
      let m1 := (m.drop h).cascade 3 fuel
      let m2 := (m1.assignRef h (m1.hnd.getD g none)).cascade 3 fuel
      -- S: the handle is destroyed, then constructed as a copy
      let alts := (settleAlts (Refs.drop d.s h)).flatMap fun a =>
        (Refs.xassign 3 a.st h (a.st.hnd.getD g none)).map fun b => { b with evs := a.evs ++ b.evs }
      finishX d m2 alts
    | _, _ => (d, "bad-op")
  | ["x", "assign", hs, gs] =>
    match idx hs 3, idx gs 3 with
    | some h, some g =>
      finishX d ((m.assignRef h (m.hnd.getD g none)).cascade 3 fuel) (Refs.xassign 3 d.s h (d.s.hnd.getD g none))
    | _, _ => (d, "bad-op")
  | ["x", "move", hs, gs] =>
    match idx hs 3, idx gs 3 with
    | some h, some g => finishX d ((m.moveRef h g).cascade 3 fuel) (Refs.xmove 3 d.s h g)
    | _, _ => (d, "bad-op")
  | ["x", "next", hs] =>
    match idx hs 3 with
    | some h =>
      match m.hnd.getD h none with
      | none => (d, "bad-op")
      | some o =>
        finishX d ((m.assignRef h (m.hnd.getD (3 + o) none)).cascade 3 fuel) (Refs.xassign 3 d.s h (d.s.hnd.getD (3 + o) none))
    | none => (d, "bad-op")
  | ["x", "setnext", os, gs] =>
    match idx os m.objs.length, idx gs 3 with
    | some o, some g =>
      if !(m.obj o).alive then (d, "bad-op") else
      finishX d ((m.assignRef (3 + o) (m.hnd.getD g none)).cascade 3 fuel) (Refs.xassign 3 d.s (3 + o) (d.s.hnd.getD g none))
    | _, _ => (d, "bad-op")
  | ["x", "drop", hs] =>
    match idx hs 3 with
    | some h => finishX d ((m.drop h).cascade 3 fuel) (settleAlts (Refs.drop d.s h))
    | none => (d, "bad-op")
  | ["x", "detach", hs] =>
    match idx hs 3 with
    | some h => finishX d (m.detachRef h) (Refs.xdetach d.s h)
    | none => (d, "bad-op")
  | ["x", "ext", os, "unref"] =>
    match idx os m.objs.length with
    | some o =>
      if !(m.obj o).alive ∨ (m.obj o).ext = 0 then (d, "bad-op") else
      finishX d ((m.extUnref o).cascade 3 fuel) (settleAlts (Refs.extUnref d.s o))
    | none => (d, "bad-op")
  | ["x", "end"] =>
    let m1 := (List.range 3).foldl (fun st h => (st.drop h).cascade 3 fuel) m
    let m2 := (List.range m1.objs.length).foldl (fun st o =>
      (List.range 16).foldl (fun st2 _ =>
        let ob := st2.obj o
        if ob.alive ∧ ob.ext ≠ 0 ∧ ob.ext < 16 then (st2.extUnref o).cascade 3 fuel else st2) st) m1
    let step1 := fun (acc : Refs.SSt × List Refs.SEv) (al : List Refs.Alt) =>
      match al with
      | a :: _ => let b := Refs.settled 3 a; (b.st, acc.2 ++ b.evs)
      | [] => acc
    let s1 := (List.range 3).foldl (fun acc h => step1 acc (Refs.drop acc.1 h)) (d.s, [])
    let s2 := (List.range d.s.objs.length).foldl (fun acc o =>
      (List.range 16).foldl (fun acc2 _ =>
        let ob := acc2.1.objs.getD o default
        if !ob.dead ∧ ob.ext ≠ 0 ∧ ob.ext < 16 then step1 acc2 (Refs.extUnref acc2.1 o) else acc2) acc) s1
    finishX d m2 [{ ok := true, st := s2.1, evs := s2.2 }]
  | _ => (d, "bad-op")

/-! ### reply contexts: metatype handles are the external references, detached handles the handle slots -/

def fmtK (objs : List (Bool × Bool)) (hnd : List (Option Nat)) : String :=
  let os := (List.range objs.length).map fun i =>
    match objs.getD i (false, false) with
    | (alive, freed) => s!"o{i}={if alive then "A" else "D"}{if freed then ":freed" else ""}"
  let hs := (List.range 3).map fun h => match hnd.getD h none with | some o => s!"h{h}={o}" | none => s!"h{h}=-"
  " ".intercalate (os ++ hs)

def fmtKM (s : St) : String :=
  fmtK ((List.range s.objs.length).map fun i => ((s.obj i).alive, (s.evOf i).destroyed)) s.hnd

def fmtKS (a : Refs.Alt) : String :=
  fmtK ((List.range a.st.objs.length).map fun i =>
    (!(a.st.objs.getD i default).dead, (a.evs.filter (·.obj == i)).any (·.destroyed))) a.st.hnd

def fmtKI (s : St) : String :=
  String.join ((List.range s.objs.length).map fun i => s!" m{i}={(s.obj i).ext}")

def finishK (d : DSt) (m' : St) (ok : Bool) (alts : List Refs.Alt) : DSt × String :=
  let c := fmtKM m'
  let s' := match alts.find? (fun a => a.ok == ok && fmtKS a == c) with | some a => a.st | none => d.s
  ({ d with m := m', s := s' },
   s!"R {if ok then "ok" else "refused"} | C {c} | I{fmtKI m'} | S " ++
     " || ".intercalate (alts.map fun a => s!"{if a.ok then "ok" else "refused"} ; {fmtKS a}"))

/-- the request side of the context is kept in its `elems`: [reply data pending, send target set] -/
def isArmed (s : St) (o : Nat) : Bool := (s.obj o).elems.getD 0 0 != 0
def hasSend (s : St) (o : Nat) : Bool := (s.obj o).elems.getD 1 0 != 0
def setFlags (s : St) (o : Nat) (armed send : Bool) : St :=
  { s with objs := s.objs.set o { (s.obj o) with elems := [if armed then 1 else 0, if send then 1 else 0] } }
def setArmed (s : St) (o : Nat) (b : Bool) : St := setFlags s o b (hasSend s o)

def stepK (d : DSt) (w : List String) : DSt × String :=
  let m := d.m.clearEv
  match w with
  | ["k", "begin"] => ({}, "R ok | C - | I -")
  | ["k", "new"] =>
    if m.objs.length ≥ 2 then (d, "bad-op") else
    let m' : St := { m with objs := m.objs ++ [{ kind := .raw, count := 1, alive := true, ext := 1, elems := [0, 1] }], ev := m.ev ++ [{}] }
    let s' : Refs.SSt := { d.s with objs := d.s.objs ++ [{ kind := .raw, ext := 1 }] }
    finishK { d with s := s' } m' true [{ ok := true, st := s' }]
  | ["k", "arm", os] =>
    match idx os m.objs.length with
    | some o =>
      if !(m.obj o).alive then (d, "bad-op")
      -- reply data of a request that is still unanswered is not overwritten
      else if isArmed m o then finishK d m false [{ ok := false, st := d.s }]
      else finishK d (setArmed m o true) true [{ ok := true, st := d.s }]
    | none => (d, "bad-op")
  | "k" :: "defer" :: hs :: os :: rest =>
    match idx hs 3, idx os m.objs.length with
    | some h, some o =>
      if (rest ≠ [] ∧ rest ≠ ["nomem"]) ∨ !handleEmpty m h ∨ !(m.obj o).alive then (d, "bad-op") else
      -- S: a detached handle is one more reference, or the request is refused without any change
      let alts := Refs.take d.s h o ++ [{ ok := false, st := d.s }]
      if !isArmed m o ∨ rest = ["nomem"] then finishK d m false alts
      else
        let (m', r) := m.take h o
        match r with
        | .ok _ => finishK d (setArmed m' o false) true alts
        | .err _ => finishK d m' false alts
    | _, _ => (d, "bad-op")
  | ["k", "addref", os] =>
    match idx os m.objs.length with
    | some o =>
      if !(m.obj o).alive ∨ (m.obj o).ext = 0 then (d, "bad-op") else
      let (m', ok) := m.extAdd o
      finishK d m' ok (Refs.extAdd d.s o)
    | none => (d, "bad-op")
  | ["k", "unref", os] =>
    match idx os m.objs.length with
    | some o =>
      if !(m.obj o).alive ∨ (m.obj o).ext = 0 then (d, "bad-op") else
      -- a metatype release answers a pending request while the send target is set; any but the last clears the target
      -- (a refused send leaves the request pending)
      let m1 := setFlags m o (isArmed m o && (!hasSend m o || d.ksf)) (hasSend m o && (m.obj o).count ≤ 1)
      finishK d (m1.extUnref o) true (Refs.extUnref d.s o)
    | none => (d, "bad-op")
  | ["k", "sendfail", v] =>
    if v == "0" ∨ v == "1" then finishK { d with ksf := v == "1" } m true [{ ok := true, st := d.s }] else (d, "bad-op")
  | ["k", "release", hs] =>
    match idx hs 3 with
    | some h => if handleEmpty m h then (d, "bad-op") else finishK d (m.drop h) true (Refs.drop d.s h)
    | none => (d, "bad-op")
  | ["k", "end"] =>
    let m1 := (List.range 3).foldl (fun st h => st.drop h) m
    let m2 := (List.range m1.objs.length).foldl (fun st o =>
      (List.range 64).foldl (fun st2 _ => if (st2.obj o).ext ≠ 0 then ({ st2 with objs := st2.objs.set o { (st2.obj o) with elems := [] } } : St).extUnref o else st2) st) m1
    let step1 := fun (acc : Refs.SSt × List Refs.SEv) (al : List Refs.Alt) =>
      match al with | a :: _ => (a.st, acc.2 ++ a.evs) | [] => acc
    let s1 := (List.range 3).foldl (fun acc h => step1 acc (Refs.drop acc.1 h)) (d.s, [])
    let s2 := (List.range d.s.objs.length).foldl (fun acc o =>
      (List.range 64).foldl (fun acc2 _ =>
        if (acc2.1.objs.getD o default).ext ≠ 0 then step1 acc2 (Refs.extUnref acc2.1 o) else acc2) acc) s1
    finishK d m2 true [{ ok := true, st := s2.1, evs := s2.2 }]
  | _ => (d, "bad-op")

/-! ### stream inputs held by a notifier: the notifier's slots are the handles, an input's descriptor is kept in
     `cap` (slot + 1, 0 = none), its failing `next()` in `elems` -/

def inSlot (s : St) (i : Nat) : Option Nat := if (s.obj i).cap = 0 then none else some ((s.obj i).cap - 1)
def setInSlot (s : St) (i : Nat) (sl : Option Nat) : St :=
  { s with objs := s.objs.set i { (s.obj i) with cap := match sl with | some k => k + 1 | none => 0 } }

def fmtNObjs (objs : List (Bool × Nat × Nat × Nat × Bool × Bool)) (hnd : List (Option Nat)) : String :=
  let os := (List.range objs.length).map fun i =>
    match objs.getD i (false, 0, 0, 0, false, false) with
    | (alive, count, add, unref, destroyed, dead) => fmtObj i .hmeta alive count add unref destroyed dead
  let hs := (List.range 3).map fun h => match hnd.getD h none with | some o => s!"h{h}={o}" | none => s!"h{h}=-"
  " ".intercalate (os ++ hs)

def fmtNM (s : St) : String :=
  fmtNObjs ((List.range s.objs.length).map fun i =>
    let o := s.obj i; let e := s.evOf i
    (o.alive, o.count, e.add, e.unref, e.destroyed, e.dead)) s.hnd

def fmtNS (a : Refs.Alt) : String :=
  let s := a.st
  fmtNObjs ((List.range s.objs.length).map fun i =>
    let o := s.objs.getD i default
    let evs := a.evs.filter (·.obj == i)
    (!o.dead, Refs.refs s i, (evs.map (·.add)).foldl (· + ·) 0, (evs.map (·.unref)).foldl (· + ·) 0,
     evs.any (·.destroyed), evs.any (·.dead))) s.hnd

/-- alternatives carry the R text they belong to -/
def finishN (d : DSt) (m' : St) (r : String) (alts : List (String × Refs.Alt)) (wl : List Nat) (rdy : List Nat) : DSt × String :=
  let c := fmtNM m'
  let s' := match alts.find? (fun a => a.1 == r && fmtNS a.2 == c) with | some a => a.2.st | none => d.s
  ({ d with m := m', s := s', wl := wl, rdy := rdy },
   s!"R {r} | C {c} | I - | S " ++ " || ".intercalate (alts.map fun a => s!"{a.1} ; {fmtNS a.2}"))

def tag (r : String) (l : List Refs.Alt) : List (String × Refs.Alt) := l.map fun a => (r, a)

/-- a reference taken and given back at once (the caller's, when the notifier does not accept the input) -/
def bounced (s : Refs.SSt) (i : Nat) : List Refs.Alt :=
  [{ ok := false, st := s, evs := [{ obj := i, add := 1, unref := 1 }] }] ++ Refs.refusedAlts s i

/-- `file` (slot 3) is a descriptor the notifier cannot poll: it never holds an input -/
def parseSlot (w : String) : Option (Option Nat) :=
  if w == "none" then some none else if w == "file" then some (some 3) else (idx w 3).map some

def stepN (d : DSt) (w : List String) : DSt × String :=
  let m := d.m.clearEv
  match w with
  | ["n", "begin"] => ({}, "R ok | C - | I -")
  | ["n", "input", v, sl] =>
    match parseCount v, parseSlot sl with
    | some n, some slot =>
      if m.objs.length ≥ 3 then (d, "bad-op") else
      let m' : St := { m with objs := m.objs ++ [{ kind := .hmeta, count := n, alive := true, ext := n,
                                                   cap := match slot with | some k => k + 1 | none => 0 }], ev := m.ev ++ [{}] }
      let s' : Refs.SSt := { d.s with objs := d.s.objs ++ [{ kind := .hmeta, ext := n }] }
      finishN { d with s := s' } m' "ok" [("ok", { ok := true, st := s' })] d.wl d.rdy
    | _, _ => (d, "bad-op")
  | ["n", opn, is_] =>
    if opn != "add" ∧ opn != "config" then
      (match w with
       | ["n", "clear", sl] =>
         match (if sl == "file" then some 3 else idx sl 3) with
         | some k =>
           match m.hnd.getD k none with
           | none => finishN d m "ok" [("ok", { ok := true, st := d.s })] d.wl d.rdy
           | some i => finishN d (m.drop k) "ok" (tag "ok" (Refs.drop d.s k)) (d.wl.filter (· != i)) d.rdy
         | none => (d, "bad-op")
       | ["n", "ready", sl] =>
         match idx sl 3 with
         | some k => finishN d m "ok" [("ok", { ok := true, st := d.s })] d.wl (if d.rdy.contains k then d.rdy else d.rdy ++ [k])
         | none => (d, "bad-op")
       | _ => (d, "bad-op"))
    else
    -- `config`: the configured input is retained and handed to the notifier like `add`
    match idx is_ m.objs.length with
    | some i =>
      let sAlts : List (String × Refs.Alt) :=
        (match inSlot m i with
         | some sl => if (d.s.hnd.getD sl none).isNone then tag "ok" ((Refs.take d.s sl i).filter (·.ok)) else []
         | none => []) ++ tag "refused" (bounced d.s i)
      let (m1, r) := m.addref i
      if r = 0 then finishN d m1 "refused" sAlts d.wl d.rdy
      else match inSlot m i with
        | none => finishN d (m1.unref i) "refused" sAlts d.wl d.rdy
        | some sl =>
          if (m1.hnd.getD sl none).isSome ∨ sl ≥ 3 then finishN d (m1.unref i) "refused" sAlts d.wl d.rdy
          else finishN d { m1 with hnd := m1.hnd.set sl (some i) } "ok" sAlts d.wl d.rdy
    | none => (d, "bad-op")
  | ["n", "change", is_, sl] =>
    match idx is_ m.objs.length, parseSlot sl with
    | some i, some new =>
      if !(m.obj i).alive ∨ new == some 3 then (d, "bad-op") else
      let old := inSlot m i
      let registered : Bool := match old with | some k => m.hnd.getD k none == some i | none => false
      let m0 := setInSlot m i new
      -- S: the notifier's reference to the input is unchanged, moved/added to the new descriptor, or given up;
      -- no other input is touched
      let sOld : Refs.SSt := d.s
      let sWithout : Refs.SSt := match old with
        | some k => if registered then Refs.setHnd sOld k none else sOld
        | none => sOld
      let relAlts : List (String × Refs.Alt) :=
        if registered then
          let (s', dd) := Refs.released sWithout i
          [("refused", { ok := false, st := s', evs := [{ obj := i, unref := 1, destroyed := dd }] }),
           ("refused", { ok := false, st := s', evs := [{ obj := i, add := 1, unref := 2, destroyed := dd }] })]
        else []
      let movAlts : List (String × Refs.Alt) :=
        match new with
        | some k =>
          if (sWithout.hnd.getD k none).isNone ∧ (registered ∨ Refs.canTake sOld i) then
            [("ok", { ok := true, st := Refs.setHnd sWithout k (some i), evs := if registered then [] else [{ obj := i, add := 1 }] })] ++
            (if registered ∧ Refs.canTake sOld i then
              [("ok", { ok := true, st := Refs.setHnd sWithout k (some i), evs := [{ obj := i, add := 1, unref := 1 }] })] else [])
          else []
        | none => []
      let sAlts := [("ok", { ok := true, st := sOld }), ("refused", { ok := false, st := sOld })] ++
                   tag "refused" (bounced sOld i) ++ relAlts ++ movAlts
      if !registered then
        match new with
        | none => finishN d m0 "ok" sAlts d.wl d.rdy
        | some k =>
          let (m1, r) := m0.addref i
          if r = 0 then finishN d m1 "refused" sAlts d.wl d.rdy
          else if (m1.hnd.getD k none).isSome then finishN d (m1.unref i) "refused" sAlts d.wl d.rdy
          else finishN d { m1 with hnd := m1.hnd.set k (some i) } "ok" sAlts d.wl d.rdy
      else if new == old then finishN d m0 "ok" sAlts d.wl d.rdy
      else
        let k0 := old.getD 0
        -- a reference for the new position, then the old registration is cleared (also from the wait list)
        let (m1, r) := m0.addref i
        if r = 0 then finishN d m1 "refused" sAlts d.wl d.rdy else
        let m2 := m1.drop k0
        let wl' := d.wl.filter (· != i)
        match new with
        | none => finishN d (m2.unref i) "refused" sAlts wl' d.rdy
        | some k =>
          if (m2.hnd.getD k none).isSome then finishN d (m2.unref i) "refused" sAlts wl' d.rdy
          else finishN d { m2 with hnd := m2.hnd.set k (some i) } "ok" sAlts wl' d.rdy
    | _, _ => (d, "bad-op")
  | ["n", "nextfail", is_, v] =>
    match idx is_ m.objs.length, idx v 2 with
    | some i, some b =>
      finishN d { m with objs := m.objs.set i { (m.obj i) with elems := if b = 1 then [1] else [] } } "ok" [("ok", { ok := true, st := d.s })] d.wl d.rdy
    | _, _ => (d, "bad-op")
  | ["n", "wait"] =>
    -- occupants of readable descriptors are reported; an input whose next() fails is dropped by the notifier
    let step1 := fun (acc : St × Refs.SSt × List Refs.SEv × List Nat) (k : Nat) =>
      match acc.1.hnd.getD k none with
      | none => acc
      | some i =>
        if !(acc.1.obj i).elems.isEmpty then
          let sa := match Refs.drop acc.2.1 k with | a :: _ => (a.st, acc.2.2.1 ++ a.evs) | [] => (acc.2.1, acc.2.2.1)
          (acc.1.drop k, sa.1, sa.2, acc.2.2.2)
        else (acc.1, acc.2.1, acc.2.2.1, acc.2.2.2 ++ [i])
    let anyUsed := (List.range 3).any fun k => (m.hnd.getD k none).isSome
    if !anyUsed then finishN d m "ok" [("ok", { ok := true, st := d.s })] d.wl d.rdy else
    let r := d.rdy.foldl step1 (m, d.s, [], [])
    finishN d r.1 "ok" [("ok", { ok := true, st := r.2.1, evs := r.2.2.1 })] r.2.2.2 d.rdy
  | ["n", "next"] =>
    -- S: nothing, or an input the notifier still refers to
    let held := (List.range 3).filterMap fun k => d.s.hnd.getD k none
    let sAlts := ("ok in=-", ({ ok := true, st := d.s } : Refs.Alt)) :: held.map fun i => (s!"ok in={i}", ({ ok := true, st := d.s } : Refs.Alt))
    match d.wl with
    | [] => finishN d m "ok in=-" sAlts [] d.rdy
    | i :: rest => finishN d m s!"ok in={i}" sAlts rest d.rdy
  | ["n", "fini"] =>
    let m1 := (List.range 3).foldl (fun st k => st.drop k) m
    let s1 := (List.range 3).foldl (fun (acc : Refs.SSt × List Refs.SEv) k =>
      match Refs.drop acc.1 k with | a :: _ => (a.st, acc.2 ++ a.evs) | [] => acc) (d.s, [])
    finishN d m1 "ok" [("ok", { ok := true, st := s1.1, evs := s1.2 })] [] d.rdy
  | ["n", "end"] =>
    let m1 := m.endAll
    let s1 := (List.range 3).foldl (fun (acc : Refs.SSt × List Refs.SEv) k =>
      match Refs.drop acc.1 k with | a :: _ => (a.st, acc.2 ++ a.evs) | [] => acc) (d.s, [])
    let s2 := (List.range d.s.objs.length).foldl (fun (acc : Refs.SSt × List Refs.SEv) o =>
      let ob := acc.1.objs.getD o default
      let n := if !ob.dead ∧ ob.ext < 16 then ob.ext else 0
      (List.range n).foldl (fun (acc2 : Refs.SSt × List Refs.SEv) _ =>
        if (acc2.1.objs.getD o default).dead then acc2 else
        match Refs.extUnref acc2.1 o with | a :: _ => (a.st, acc2.2 ++ a.evs) | [] => acc2) acc) s1
    finishN d m1 "ok" [("ok", { ok := true, st := s2.1, evs := s2.2 })] [] d.rdy
  | _ => (d, "bad-op")

/-! ### part g: `mpt_meta_geninfo`, `mpt_meta_buffer` -/

def GSt.holders (g : GSt) : Nat := (g.metas.filter fun m => m.1 && m.2.2).length
def GSt.refs (g : GSt) : Nat := g.bext + g.holders
def GSt.canTake (g : GSt) : Bool := !g.bdead && 0 < g.refs && g.refs < MAXV

def fmtMetas (ms : List (Bool × Bool × Bool)) : String :=
  " ".intercalate ((List.range ms.length).map fun i =>
    match ms.getD i (false, false, false) with
    | (a, k, _) => s!"m{i}={if a then "A" else "D"}{if k then "mbuf" else "info"}")

def fmtG (made alive : Bool) (count add unref : Nat) (destroyed dead : Bool) (ms : List (Bool × Bool × Bool)) : String :=
  let b := if made then
      [s!"b={if alive then "A" else "D"}:{fmtCount count}:+{add}-{unref}{if destroyed then "D" else ""}{if dead then "!" else ""}"]
    else []
  " ".intercalate (b ++ (if ms.isEmpty then [] else [fmtMetas ms]) ++ ["h=-"])

/-- the buffer's addref in M: (state, returned value, the object was dead) -/
def GSt.addrefM (g : GSt) : GSt × Nat × Bool :=
  if !g.balive then (g, 0, true) else
  let r := raise g.bcount
  ({ g with bcount := r.1 }, r.2, false)

/-- the buffer's unref in M: (state, destroyed, the object was dead) -/
def GSt.unrefM (g : GSt) : GSt × Bool × Bool :=
  if !g.balive then (g, false, true) else
  let r := lower g.bcount
  if r.2 ≠ 0 then ({ g with bcount := r.1 }, false, false) else ({ g with bcount := r.1, balive := false }, true, false)

/-- S: the total went down; destroyed iff nothing is left -/
def GSt.releasedS (g : GSt) : GSt × Bool :=
  if g.refs = 0 ∧ !g.bdead then ({ g with bdead := true }, true) else (g, false)

def stepG (d : DSt) (w : List String) : DSt × String :=
  let g := d.g
  let lineG (r : String) (c : String) (alts : List (String × String)) : String :=
    s!"R {r} | C {c} | I ret=0 | S " ++ " || ".intercalate (alts.map fun a => s!"{a.1} ; {a.2}")
  let plain (g' : GSt) (r : String) (iret : String := "0") : DSt × String :=
    let c := fmtG g'.made g'.balive g'.bcount 0 0 false false g'.metas
    let cs := fmtG g'.made (!g'.bdead) g'.refs 0 0 false false g'.metas
    ({ d with g := g' }, s!"R {r} | C {c} | I ret={iret} | S {r} ; {cs}")
  -- a new buffer metatype tries to take a reference (`kind`: (alive, mbuf, holds) of the new object given "holds")
  let acquire (g0 : GSt) (r : String) : DSt × String :=
    let (g1, ret, dead) := g0.addrefM
    let holds : Bool := ret ≠ 0
    let gM : GSt := { g1 with metas := g1.metas ++ [(true, true, holds)] }
    let c := fmtG gM.made gM.balive gM.bcount 1 0 false dead gM.metas
    -- S: a reference is taken when one can be taken; otherwise the new object holds none (the attempt may or may
    -- not have reached the buffer's addref)
    let alts : List (String × String) :=
      if g0.canTake then
        let gS : GSt := { g0 with metas := g0.metas ++ [(true, true, true)] }
        [(r, fmtG gS.made (!gS.bdead) gS.refs 1 0 false false gS.metas)]
      else
        let gS : GSt := { g0 with metas := g0.metas ++ [(true, true, false)] }
        [(r, fmtG gS.made (!gS.bdead) gS.refs 1 0 false g0.bdead gS.metas),
         (r, fmtG gS.made (!gS.bdead) gS.refs 0 0 false false gS.metas)]
    ({ d with g := gM }, lineG r c alts)
  -- an owner gives up buffer metatype `i`
  let giveUp (g0 : GSt) (i : Nat) : GSt × String × String :=
    match g0.metas.getD i (false, false, false) with
    | (_, k, holds) =>
      let ms := g0.metas.set i (false, k, false)
      if holds then
        let (g1, destroyed, dead) := g0.unrefM
        let gM : GSt := { g1 with metas := ms }
        let (gS, dS) := ({ g0 with metas := ms } : GSt).releasedS
        let gM' : GSt := { gM with bdead := gS.bdead }
        (gM', fmtG gM.made gM.balive gM.bcount 0 1 destroyed dead ms, fmtG gS.made (!gS.bdead) gS.refs 0 1 dS false ms)
      else
        let gM : GSt := { g0 with metas := ms }
        (gM, fmtG gM.made gM.balive gM.bcount 0 0 false false ms, fmtG gM.made (!gM.bdead) gM.refs 0 0 false false ms)
  let living (i : Nat) : Bool := decide (i < g.metas.length) && (g.metas.getD i (false, false, false)).1
  match w with
  | ["g", "begin"] => ({ d with g := {} }, "R ok | C - | I ret=0")
  | ["g", "buf", v] =>
    match parseCount v with
    | some n => if g.made then (d, "bad-op") else plain { g with made := true, bcount := n, balive := true, bext := n, bdead := false } "ok"
    | none => (d, "bad-op")
  | ["g", "new", "info"] =>
    if g.metas.length ≥ 6 then (d, "bad-op") else plain { g with metas := g.metas ++ [(true, false, false)] } s!"ok m={g.metas.length}"
  | ["g", "new", "mbuf"] =>
    if g.metas.length ≥ 6 ∨ !g.made then (d, "bad-op") else acquire g s!"ok m={g.metas.length}"
  | ["g", "addref", ms] =>
    -- an unshareable object: the counter cannot be raised, failure is reported
    match ms.toNat? with
    | some i => if living i then plain g "ret=0" else (d, "bad-op")
    | none => (d, "bad-op")
  | ["g", "take", ms] =>
    match ms.toNat? with
    | some i => if living i then plain g "refused" "BadOperation" else (d, "bad-op")
    | none => (d, "bad-op")
  | ["g", "wrap", ms] =>
    match ms.toNat? with
    | some i => if living i then plain g "refused" "BadOperation" else (d, "bad-op")
    | none => (d, "bad-op")
  | ["g", "clone", ms] =>
    match ms.toNat? with
    | some i =>
      if !living i ∨ g.metas.length ≥ 6 then (d, "bad-op") else
      match g.metas.getD i (false, false, false) with
      | (_, false, _) => plain { g with metas := g.metas ++ [(true, false, false)] } s!"ok m={g.metas.length}"
      | (_, true, true) => acquire g s!"ok m={g.metas.length}"
      | (_, true, false) => plain { g with metas := g.metas ++ [(true, true, false)] } s!"ok m={g.metas.length}"
    | none => (d, "bad-op")
  | ["g", "unref", ms] =>
    match ms.toNat? with
    | some i =>
      if !living i then (d, "bad-op") else
      let (g', c, cs) := giveUp g i
      ({ d with g := g' }, lineG "ok" c [("ok", cs)])
    | none => (d, "bad-op")
  | ["g", "drop"] => plain g "ok"
  | ["g", "end"] =>
    -- every living object is given up, in creation order; the events add up
    let r := (List.range g.metas.length).foldl (fun (acc : GSt × Nat × Bool × Bool × Bool) i =>
        let (g0, un, des, desS, dead) := acc
        if !(g0.metas.getD i (false, false, false)).1 then acc else
        match g0.metas.getD i (false, false, false) with
        | (_, k, holds) =>
          let ms := g0.metas.set i (false, k, false)
          if holds then
            let (g1, destroyed, dd) := g0.unrefM
            let (gS, dS) := ({ g0 with metas := ms } : GSt).releasedS
            ({ g1 with metas := ms, bdead := gS.bdead }, un + 1, des || destroyed, desS || dS, dead || dd)
          else ({ g0 with metas := ms }, un, des, desS, dead)) (g, 0, false, false, false)
    let g' := r.1
    let c := fmtG g'.made g'.balive g'.bcount 0 r.2.1 r.2.2.1 r.2.2.2.2 []
    let cs := fmtG g'.made (!g'.bdead) g'.refs 0 r.2.1 r.2.2.2.1 false []
    ({ d with g := { g' with metas := [] } }, lineG "ok" c [("ok", cs)])
  | _ => (d, "bad-op")

/-- dispatch on the driver part -/
def stepAll (d : DSt) (w : List String) : DSt × String :=
  match w with
  | "x" :: "ua" :: _ => stepUA d w
  | "x" :: _ => stepX d w
  | "g" :: _ => stepG d w
  | "k" :: _ => stepK d w
  | "n" :: _ => stepN d w
  | _ => step d w

def main (_args : List String) : IO Unit := do
  Driver.loop (← IO.getStdin) (← IO.getStdout) stepAll ({} : DSt)

end Driver.Refcount
