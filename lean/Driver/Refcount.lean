import MptModel.Impl.Refcount
import MptModel.Spec.Refs
import Driver.Util
namespace Driver.Refcount
open Mpt Mpt.Refcount

structure DSt where
  m : St := {}
  s : Refs.SSt := {}
  cnt : Nat := 0
  named : Nat := 0      -- objects created by `r obj`; later ones are buffers handed out by detach

def fmtCount (v : Nat) : String :=
  if v = MAXV then "max" else if v + 1 = MAXV then "max-1" else toString v

def parseCount (w : String) : Option Nat :=
  if w == "max" then some MAXV else if w == "max-1" then some (MAXV - 1) else w.toNat?

def fmtHnd (named : Nat) (hnd : List (Option Nat)) : String :=
  " ".intercalate ((List.range hnd.length).map fun h =>
    match hnd.getD h none with
    | some o => if o < named then s!"h{h}={o}" else s!"h{h}=n{o - named}"
    | none => s!"h{h}=-")

def fmtEl (evs : List ElEv) : String :=
  if evs.isEmpty then "-" else ",".intercalate (evs.map fun e => match e with | .fini t => s!"f{t}" | .copy t => s!"c{t}")

def fmtObj (i : Nat) (kind : OKind) (alive : Bool) (count : Nat) (add unref : Nat) (destroyed dead : Bool) : String :=
  match kind with
  | .hmeta | .hbuf =>
    s!"o{i}={if alive then "A" else "D"}:{fmtCount count}:+{add}-{unref}{if destroyed then "D" else ""}{if dead then "!" else ""}"
  | .rbuf => s!"o{i}=rbuf"
  | .raw => s!"o{i}=raw"

/-- C section of the model state -/
def fmtM (named : Nat) (s : St) : String :=
  let os := (List.range named).map fun i =>
    let o := s.obj i; let e := s.evOf i
    fmtObj i o.kind o.alive o.count e.add e.unref e.destroyed e.dead
  " ".intercalate (os ++ [fmtHnd named s.hnd, "el=" ++ fmtEl s.elog])

/-- C section the spec expects for an alternative -/
def fmtS (named : Nat) (a : Refs.Alt) : String :=
  let s := a.st
  let os := (List.range named).map fun i =>
    let o := s.objs.getD i default
    let evs := a.evs.filter (·.obj == i)
    let add := (evs.map (·.add)).foldl (· + ·) 0
    let unref := (evs.map (·.unref)).foldl (· + ·) 0
    let destroyed := evs.any (·.destroyed)
    fmtObj i o.kind (!o.dead) (Refs.refs s i) add unref destroyed (evs.any (·.dead))
  let el : List ElEv := (a.evs.flatMap fun e => e.copied.map ElEv.copy) ++
    ((a.evs.filter (·.destroyed)).flatMap fun e => ((s.objs.getD e.obj default).elems).map ElEv.fini)
  " ".intercalate (os ++ [fmtHnd named s.hnd, "el=" ++ fmtEl el])

def fmtAlts (named : Nat) (alts : List Refs.Alt) (okR : String := "ok") : String :=
  " || ".intercalate (alts.map fun a => s!"{if a.ok then okR else "refused"} ; {fmtS named a}")

def fmtRet : RRet → String
  | .ok n => toString n | .err e => e.name

/-- keep the spec state in step with the model: the alternative the model's outcome matches -/
def pick (named : Nat) (alts : List Refs.Alt) (ok : Bool) (c : String) (dflt : Refs.SSt) : Refs.SSt :=
  match alts.find? (fun a => a.ok == ok && fmtS named a == c) with
  | some a => a.st
  | none => dflt

def line (r c i s : String) : String := s!"R {r} | C {c} | I ret={i} | S {s}"

def idx (w : String) (lim : Nat) : Option Nat :=
  match w.toNat? with
  | some n => if n < lim then some n else none
  | none => none

def handleEmpty (s : St) (h : Nat) : Bool := (s.hnd.getD h none).isNone

/-- run a model operation with events cleared first, emit the line, update both states -/
def fmtShared (s : St) : String :=
  String.join ((List.range s.hnd.length).map fun h =>
    match s.hnd.getD h none with
    | some o => if (s.obj o).kind == .rbuf then s!" sh{h}={if (s.obj o).count > 1 then 1 else 0}" else ""
    | none => "")

def finish (d : DSt) (m' : St) (ok : Bool) (iret : String) (alts : List Refs.Alt) : DSt × String :=
  let c := fmtM d.named m'
  ({ d with m := m', s := pick d.named alts ok c d.s },
   line (if ok then "ok" else "refused") c (iret ++ fmtShared m') (fmtAlts d.named alts))

def step (d : DSt) (w : List String) : DSt × String :=
  let m := d.m.clearEv
  match w with
  | ["r", "begin"] => ({}, "R ok | C - | I ret=0")
  | ["r", "cnt", v] =>
    match parseCount v with
    | some n => ({ d with cnt := n }, s!"R ok | C cnt={fmtCount n} | I ret=0")
    | none => (d, "bad-op")
  | ["r", "raise"] =>
    let r := raise d.cnt
    -- S: fails (0, unchanged) at 0 and at the maximum, else the incremented value
    let sv := if d.cnt = 0 ∨ d.cnt = MAXV then (d.cnt, 0) else (d.cnt + 1, d.cnt + 1)
    ({ d with cnt := r.1 }, s!"R ret={fmtCount r.2} | C cnt={fmtCount r.1} | I ret=0 | S ret={fmtCount sv.2} ; cnt={fmtCount sv.1}")
  | ["r", "lower"] =>
    let r := lower d.cnt
    let sv := if d.cnt = 0 then (0, MAXV) else (d.cnt - 1, d.cnt - 1)
    ({ d with cnt := r.1 }, s!"R ret={fmtCount r.2} | C cnt={fmtCount r.1} | I ret=0 | S ret={fmtCount sv.2} ; cnt={fmtCount sv.1}")
  | ["r", "obj", kind, v] =>
    match parseCount v with
    | none => (d, "bad-op")
    | some n =>
      if m.objs.length ≥ 3 ∨ m.objs.length ≠ d.named then (d, "bad-op") else
      let i := m.objs.length
      let mk (k : OKind) (count : Nat) (elems : List Nat) : DSt × String :=
        let m' : St := { m with objs := m.objs ++ [{ kind := k, count := count, alive := true, ext := count, elems := elems,
                                                     cap := capOf (elems.length * 8) }],
                                ev := m.ev ++ [{}] }
        let s' : Refs.SSt := { d.s with objs := d.s.objs ++ [{ kind := k, ext := count, elems := elems }] }
        let r := s!"ok o={i}"
        ({ d with m := m', s := s', named := i + 1 },
         line r (fmtM (i + 1) m') ("0" ++ fmtShared m') (fmtAlts (i + 1) [{ ok := true, st := s' }] r))
      if kind == "meta" then mk .hmeta n []
      else if kind == "buf" then mk .hbuf n []
      else if kind == "rbuf" then
        if n > 32 then (d, "bad-op") else mk .rbuf 1 ((List.range n).map fun j => 10 * (i + 1) + j)
      else if kind == "raw" then (if n = 1 then mk .raw 1 [] else (d, "bad-op"))
      else (d, "bad-op")
  | ["r", "take", hs, os] =>
    match idx hs 3, idx os m.objs.length with
    | some h, some o =>
      if !handleEmpty m h then (d, "bad-op") else
      let (m', r) := m.take h o
      finish d m' (match r with | .ok _ => true | _ => false) (fmtRet r) (Refs.take d.s h o)
    | _, _ => (d, "bad-op")
  | ["r", "copy", hs, gs] =>
    match idx hs 3, idx gs 3 with
    | some h, some g =>
      if h = g ∨ !handleEmpty m h then (d, "bad-op") else
      let (m', r) := m.copy h g
      finish d m' (match r with | .ok _ => true | _ => false) (fmtRet r) (Refs.copy d.s h g)
    | _, _ => (d, "bad-op")
  | ["r", "detach", hs, ls] =>
    match idx hs 3, ls.toNat? with
    | some h, some len =>
      match m.hnd.getD h none with
      | none => (d, "bad-op")
      | some o =>
        if len > 64 ∨ (m.obj o).kind != .rbuf then (d, "bad-op") else
        let (m', ok) := m.detach h len
        finish d m' ok "0" (Refs.detach d.s h)
    | _, _ => (d, "bad-op")
  | ["r", "drop", hs] =>
    match idx hs 3 with
    | some h => finish d (m.drop h) true "0" (Refs.drop d.s h)
    | none => (d, "bad-op")
  | ["r", op, hs, src] =>
    if op == "assign" ∨ op == "assigno" then
      match idx hs 3 with
      | none => (d, "bad-op")
      | some h =>
        -- source: (object or none, needs a metatype handle?)
        let srcv : Option (Option Nat × Option Bool) :=
          if op == "assigno" then
            if src == "null" then some (none, none)
            else match idx src m.objs.length with
              | some o => some (some o, some (m.isMetaObj o))
              | none => none
          else match idx src 3 with
            | some g => match m.hnd.getD g none with
              | some o => some (some o, some (m.isMetaObj o))
              | none => some (none, none)
            | none => none
        match srcv with
        | none => (d, "bad-op")
        | some (so, smeta) =>
          let old := m.hnd.getD h none
          let hmeta : Option Bool := old.map m.isMetaObj
          -- an empty side takes the kind of the other one; both empty: the pointer form
          let useMeta : Option Bool :=
            match hmeta, smeta with
            | some a, some b => if a = b then some a else none
            | some a, none => some a
            | none, some b => some b
            | none, none => some true
          match useMeta with
          | none => (d, "bad-op")
          | some true =>
            let (m', r) := m.assignMeta h so
            finish d m' (match r with | .ok _ => true | _ => false) (fmtRet r) (Refs.assign d.s h so false)
          | some false =>
            let (m', r) := m.assignArr h so
            let mismatch := so.isSome ∧ old.isSome ∧ traitsOf m so ≠ traitsOf m old
            finish d m' (match r with | .ok _ => true | _ => false) (fmtRet r) (Refs.assign d.s h so mismatch)
    else if op == "ext" then
      match idx hs m.objs.length with
      | none => (d, "bad-op")
      | some o =>
        let k := (m.obj o).kind
        if k != .hmeta ∧ k != .hbuf then (d, "bad-op")
        else if src == "addref" then
          let (m', ok) := m.extAdd o
          finish d m' ok "0" (Refs.extAdd d.s o)
        else if src == "unref" then
          if (m.obj o).ext = 0 then (d, "bad-op")
          else finish d (m.extUnref o) true "0" (Refs.extUnref d.s o)
        else (d, "bad-op")
    else (d, "bad-op")
  | ["r", "end"] =>
    let m' := m.endAll
    -- S: every handle dropped, external references of small counters given back, objects without a
    -- reference destroyed; computed with the spec operations
    let s1 := (List.range 3).foldl (fun (acc : Refs.SSt × List Refs.SEv) h =>
        match Refs.drop acc.1 h with
        | a :: _ => (a.st, acc.2 ++ a.evs)
        | [] => acc) (d.s, [])
    let s2 := (List.range d.s.objs.length).foldl (fun (acc : Refs.SSt × List Refs.SEv) o =>
        let ob := acc.1.objs.getD o default
        let n := match ob.kind with
          | .hmeta | .hbuf => if !ob.dead ∧ ob.ext < 16 then ob.ext else 0
          | _ => if ob.ext ≠ 0 then 1 else 0
        (List.range n).foldl (fun (acc2 : Refs.SSt × List Refs.SEv) _ =>
          if (acc2.1.objs.getD o default).dead then acc2 else
          match Refs.extUnref acc2.1 o with
          | a :: _ => (a.st, acc2.2 ++ a.evs)
          | [] => acc2) acc) s1
    finish d m' true "0" [{ ok := true, st := s2.1, evs := s2.2 }]
  | _ => (d, "bad-op")

def main (_args : List String) : IO Unit := do
  Driver.loop (← IO.getStdin) (← IO.getStdout) step ({} : DSt)

end Driver.Refcount
