-- Root of the `MptModel` library: specs (S), implementation models (M), property theorems.
import MptModel.Basic
import MptModel.Spec.Deque
import MptModel.Impl.Ring
import MptModel.Impl.RingOps
