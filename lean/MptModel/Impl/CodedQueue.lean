/-
  M: implementation model of the framed queues
       mptcore/queue/queue_push.c   (`mpt_queue_push`, struct encode_queue = ring + encode_state + encoder)
       mptcore/queue/queue_recv.c   (`mpt_queue_recv`, struct decode_queue = ring + decode_state + decoder)
       mptcore/queue/queue_shift.c  (`mpt_queue_shift`), mptcore/queue/queue_peek.c (`mpt_queue_peek`)
       mptcore/message/message_get.c (`mpt_message_get`)
  The ring is the C13 model (`Mpt.Ring`, Impl/Ring.lean), the codec step functions are the C01/C03 models
  (`Codec.encode`, `Codec.decodeV`; Impl/Encode.lean, Impl/Decode.lean): nothing is modelled twice.
  An encoder call gets a *window* `[a, a+n)` of the ring storage (the `struct iovec` the C code builds);
  a decoder call gets the one or two parts of the ring content as segments together with their addresses
  mod 16 (`base` = address of the storage start mod 16, an input: the decoder's target alignment step is
  address dependent).  A window or access outside the storage is `.oob`, `MPT_ABORT` is `.fault`.
-/
import MptModel.Impl.Ring
import MptModel.Impl.Encode
import MptModel.Impl.Decode

namespace Mpt.CQ
open Mpt Mpt.Cobs Mpt.Codec

/-! ### encode queue -/

structure EncodeQueue where
  ring : Ring := { store := [], len := 0, off := 0 }
  st : EncState := {}
  codec : Option Codec := none          -- `_enc`; `none` = no encoder (raw append)
  deriving Repr, DecidableEq, Inhabited

/-- state while `mpt_queue_push` runs: encoder state, ring, value of `push`, and the number of bytes each
    successful encoder call with data consumed (where the pieces end: needed by the zero pair framings) -/
structure Work where
  st : EncState
  ring : Ring
  push : Int
  cons : List Nat := []
  deriving Repr, DecidableEq

/-- one encoder call `qu->_enc(&state, &vec, from)` with `vec = store[a .. a+n)` -/
def encWin (c : Codec) (st : EncState) (r : Ring) (a n : Nat) (src : Option (List Byte)) (cons : List Nat) : Res Work :=
  if r.store.length < a + n then .oob
  else
    match encode c st ((r.store.drop a).take n) src with
    | .ok o =>
      .ok { st := o.st, ring := { r with store := r.store.take a ++ o.win ++ r.store.drop (a + n) },
            push := (o.ret : Nat), cons := if src.isSome then cons ++ [o.ret] else cons }
    | .err e => .ok { st := st, ring := r, push := e.code, cons := cons }
    | .oob => .oob
    | .unmodelled => .fault

/-- `vec = { base, max }` after `mpt_queue_align(&qu->data, 0)` -/
def encAligned (c : Codec) (st : EncState) (r : Ring) (src : Option (List Byte)) (cons : List Nat) : Res Work :=
  match r.align 0 with
  | .ok r1 => encWin c st r1 0 r1.max src cons
  | .err e => .err e | .null => .null | .oob => .oob | .fault => .fault

/-- "encode in upper part": all finished data of the lower part `[off, max)` is complete, the encoder
    works on `[0, off)` with offsets relative to the storage start -/
def encUpper (c : Codec) (st : EncState) (r : Ring) (src : Option (List Byte)) (cons : List Nat) : Res Work :=
  let low := r.max - r.off
  match encWin c { st with done := st.done - low } r 0 r.off src cons with
  | .ok w => .ok { w with st := { w.st with done := w.st.done + low } }
  | x => x

/-- `mpt_queue_set(&qu->data, pos, len, buf)` with the return value ignored -/
def setOr (r : Ring) (pos n : Nat) (bytes : List Byte) : Ring :=
  match r.set pos n (some bytes) with
  | .ok (r2, _) => r2
  | _ => r

/-- "try out-of-band wrapping": the open block crosses the storage end; it is copied to a 256 byte
    buffer, continued there and stored back with `mpt_queue_set` -/
def encOob (c : Codec) (st : EncState) (r : Ring) (src : Option (List Byte)) : Res Work :=
  let done := st.done
  let mx := min (r.max - done) 256
  match r.get done st.scratch true with
  | .ok (_, got) =>
    let buf := got ++ List.replicate (mx - got.length) 0
    match encode c { st with done := 0 } buf src with
    | .ok o =>
      let set := o.st.done + o.st.scratch
      if done + set > r.max then .fault     -- MPT_ABORT("invalid encoder state for queue")
      else
        let r2 : Ring := setOr { r with len := done + set } done set (o.win.take set)
        .ok { st := { o.st with done := done + o.st.done }, ring := r2, push := (o.ret : Nat),
              cons := if src.isSome then [o.ret] else [] }
    | .err e => .ok { st := st, ring := r, push := e.code }
    | .oob => .oob
    | .unmodelled => .fault
  | .err _ => .fault     -- the buffer content would be indeterminate
  | .null => .null | .oob => .oob | .fault => .fault

/-- "start encoding in lower part": first attempt -/
def encLowerFirst (c : Codec) (st : EncState) (r : Ring) (src : Option (List Byte)) : Res Work :=
  let low := r.max - r.off
  if low - st.done ≥ st.scratch then encWin c st r r.off low src []
  else if st.scratch ≥ 256 then .ok { st := st, ring := r, push := -1 }
  else encOob c st r src

/-- second push for the rest of the input: on aligned data, or "second push in upper part only"
    (the same window and offsets as `encUpper`: neither `off` nor `max` changed since they were read) -/
def encSecond (c : Codec) (w : Work) (low : Nat) (rest : List Byte) : Res Work :=
  if w.st.done < low then
    -- encode on aligned data
    encAligned c w.st { w.ring with len := w.st.done + w.st.scratch } (some rest) w.cons
  else encUpper c w.st w.ring (some rest) w.cons

/-- `if (push2 > 0) push += push2` -/
def addPush (w w2 : Work) : Work := { w2 with push := if w2.push > 0 then w.push + w2.push else w.push }

/-- the second attempt after the lower part: retry on aligned data, or continue with the rest of the input -/
def encLowerSecond (c : Codec) (w : Work) (low : Nat) (src : Option (List Byte)) : Res Work :=
  if w.push < 0 then
    -- bad encoding attempt
    encAligned c w.st w.ring src w.cons
  else
    match src with
    | none => .ok w
    | some bytes =>
      if w.push.toNat < bytes.length then
        -- incomplete append action
        match encSecond c w low (bytes.drop w.push.toNat) with
        | .ok w2 => .ok (addPush w w2)
        | x => x
      else .ok w

/-- result of `mpt_queue_push` -/
structure PushOut where
  q : EncodeQueue
  ret : Int
  cons : List Nat := []
  deriving Repr, DecidableEq

/-- direct data append (`!qu->_enc`) -/
def pushRaw (q : EncodeQueue) (data : Option (List Byte)) : Res PushOut :=
  match data with
  | none =>
    .ok { q := { q with st := { q.st with done := q.ring.len, scratch := 0 } }, ret := (q.ring.len : Nat) }
  | some bytes =>
    if q.st.done + q.st.scratch ≠ q.ring.len then .ok { q := q, ret := Err.BadEncoding.code }
    else
      let free := q.ring.max - q.ring.len
      if free = 0 then .ok { q := q, ret := Err.MissingBuffer.code }
      else
        let n := min free bytes.length
        match q.ring.qpush n (some (bytes.take n)) with
        | .ok (r1, _) => .ok { q := { q with ring := r1, st := { q.st with scratch := q.st.scratch + n } }, ret := (n : Nat) }
        | .err _ => .ok { q := { q with st := { q.st with scratch := q.st.scratch + n } }, ret := (n : Nat) }
        | .null => .null | .oob => .oob | .fault => .fault

/-- the three placement cases of the encoder -/
def pushWork (c : Codec) (q : EncodeQueue) (data : Option (List Byte)) : Res Work :=
  let r := q.ring
  if r.off = 0 then
    -- clean aligned data
    encWin c q.st r 0 r.max data []
  else if q.st.done ≥ r.max - r.off then
    encUpper c q.st r data []
  else
    match encLowerFirst c q.st r data with
    | .ok w => encLowerSecond c w (r.max - r.off) data
    | x => x

/-- `mpt_queue_push(qu, len, base)`; `data = none` is `len = 0` (terminate the message), otherwise the bytes
    (never empty) -/
def queuePush (q : EncodeQueue) (data : Option (List Byte)) : Res PushOut :=
  match q.codec with
  | none => pushRaw q data
  | some c =>
    match pushWork c q data with
    | .ok w =>
      -- correct queue range
      let len := w.st.done + w.st.scratch
      if len > w.ring.max then .fault      -- MPT_ABORT("invalid encoder state for queue")
      else .ok { q := { q with ring := { w.ring with len := len }, st := w.st }, ret := w.push, cons := w.cons }
    | .err e => .err e | .null => .null | .oob => .oob | .fault => .fault

/-- `mpt_queue_push(qu, k, NULL)`: remove `k` messages, the one in progress counts as the first.  The return
    value is the position of the finished data (not a consumed size); the data is made contiguous first so
    that the encoder sees all finished frames.  Without encoder only open data can be dropped. -/
def queueDel (q : EncodeQueue) (k : Nat) : Res PushOut :=
  match q.codec with
  | none =>
    if q.st.scratch = 0 ∨ k > 1 then .ok { q := q, ret := Err.BadOperation.code }
    else .ok { q := { q with ring := { q.ring with len := q.st.done }, st := { q.st with scratch := 0 } }, ret := 0 }
  | some c =>
    match (if q.ring.off ≠ 0 then q.ring.align 0 else .ok q.ring) with
    | .ok r1 =>
      match encodeDel c q.st r1.store k with
      | .ok o =>
        let len := o.st.done + o.st.scratch
        if len > r1.max then .fault
        else .ok { q := { q with ring := { r1 with len := len }, st := o.st }, ret := (o.ret : Nat) }
      | .err e =>
        let len := q.st.done + q.st.scratch
        if len > r1.max then .fault
        else .ok { q := { q with ring := { r1 with len := len } }, ret := e.code }
      | .oob => .oob
      | .unmodelled => .fault
    | .err e => .err e | .null => .null | .oob => .oob | .fault => .fault

/-- what `mpt_stream_flush` does with the first `n` finished bytes once they are written:
    `mpt_queue_crop(&data, 0, n); done -= n` (bytes handed out: the first `n` bytes of the content) -/
def queueTake (q : EncodeQueue) (n : Nat) : Res (EncodeQueue × List Byte) :=
  let n := min n (min q.st.done q.ring.len)
  let out := q.ring.content.take n
  match q.ring.crop 0 n with
  | .ok (r1, _) => .ok ({ q with ring := r1, st := { q.st with done := q.st.done - n } }, out)
  | .err _ => .ok ({ q with st := { q.st with done := q.st.done - n } }, out)
  | .null => .null | .oob => .oob | .fault => .fault

/-- C++ `encode_queue::trim(take)` (mpt++/queue.cpp): like the flush, but a request beyond the finished size is
    refused (`none`) -/
def queueTrim (q : EncodeQueue) (take : Nat) : Res (Option (EncodeQueue × List Byte)) :=
  if q.st.done > q.ring.len then .ok none
  else if take > q.st.done then .ok none
  else
    let out := q.ring.content.take take
    match q.ring.crop 0 take with
    | .ok (r1, _) => .ok (some ({ q with ring := r1, st := { q.st with done := q.st.done - take } }, out))
    | .err _ => .ok (some ({ q with st := { q.st with done := q.st.done - take } }, out))
    | .null => .null | .oob => .oob | .fault => .fault

/-! ### decode queue -/

structure DecodeQueue where
  ring : Ring := { store := [], len := 0, off := 0 }
  st : DecState := {}
  codec : Option Variant := none        -- `_dec`: one of the COBS decoders; `none` = no decoder, or (`command`) the command text decoder
  base : Nat := 0                       -- address of `data.base` mod 16
  command : Bool := false               -- `_dec = mpt_decode_command`
  deriving Repr, DecidableEq, Inhabited

/-- `vectorSet`: the one or two parts of the queue data with their addresses -/
def segsOf (r : Ring) (base : Nat) : List Seg :=
  if r.off + r.len > r.max then
    [(base + r.off, r.store.drop r.off), (base, r.store.take (r.len - (r.max - r.off)))]
  else [(base + r.off, (r.store.drop r.off).take r.len)]

/-- the storage after the decoder has worked in place on the parts: `bytes` = the parts, concatenated -/
def putContent (r : Ring) (bytes : List Byte) : List Byte :=
  let low := min (r.max - r.off) r.len
  Mem.write (Mem.write r.store r.off (bytes.take low)) 0 (bytes.drop low)

/-- `mpt_queue_shift`: remove unreferenced data at the queue start; the work area of an open block
    (`_ctx ≠ 0`) is referenced -/
def queueShift (q : DecodeQueue) : Res DecodeQueue :=
  let curr := q.st.curr
  if curr = 0 then .ok q
  else
    let pos := q.st.pos
    let cut : Nat × Nat :=       -- (bytes to remove, new data.pos)
      if pos ≠ 0 ∨ q.st.len ≠ 0 ∨ q.st.ctx ≠ 0 then
        if pos < curr then (pos, 0) else (curr, pos - curr)
      else (curr, pos)
    if cut.1 = 0 then .ok q
    else
      match q.ring.crop 0 cut.1 with
      | .ok (r1, _) => .ok { q with ring := r1, st := { q.st with curr := q.st.curr - cut.1, pos := cut.2 } }
      | .err _ => .ok q
      | .null => .null | .oob => .oob | .fault => .fault

/-- one decoder call on the queue data; the storage and the state are updated whatever the return value -/
def decCall (v : Variant) (q : DecodeQueue) : DecodeQueue × DecRet :=
  let o := decodeV v q.st (segsOf q.ring q.base) false
  ({ q with ring := { q.ring with store := putContent q.ring o.store }, st := o.st }, o.ret)

/-- after `mpt_qpre` the new space belongs to the work area: the decoded data stays at its offset (moved
    there in parts through a 256 byte buffer with `mpt_queue_get` / `mpt_queue_set`); the first argument
    bounds the number of parts (every part moves at least one byte) -/
def moveBackLoop (shift : Nat) : Nat → Ring → Nat → Nat → Res Ring
  | 0, r, _, _ => .ok r
  | fuel + 1, r, pos, left =>
    if left = 0 then .ok r
    else
      let part := min left 256
      match r.get (pos + shift) part true with
      | .ok (_, buf) =>
        match r.set pos part (some buf) with
        | .ok (r1, _) => moveBackLoop shift fuel r1 (pos + part) (left - part)
        | .err _ => .fault
        | .null => .null | .oob => .oob | .fault => .fault
      | .err _ => .fault
      | .null => .null | .oob => .oob | .fault => .fault

def moveBack (r : Ring) (shift pos left : Nat) : Res Ring := moveBackLoop shift left r pos left

/-- the end of a successful receive: `mpt_queue_shift`, then 1 if a message waits -/
def recvDone (q : DecodeQueue) : Res (DecodeQueue × Int) :=
  match queueShift q with
  | .ok q1 => .ok (q1, if q1.st.msg.isSome then 1 else 0)
  | .err e => .err e | .null => .null | .oob => .oob | .fault => .fault

/-- `MissingBuffer` recovery: all free space of the queue is prepended and becomes work area -/
def recvRetry (v : Variant) (q : DecodeQueue) : Res (DecodeQueue × Int) :=
  let add := q.ring.max - q.ring.len
  match q.ring.qpre add with
  | .ok (r1, _) =>
    match moveBack r1 add q.st.pos q.st.len with
    | .ok r2 =>
      let q1 : DecodeQueue := { q with ring := r2, st := { q.st with curr := q.st.curr + add } }
      match decCall v q1 with
      | (q2, .val _) => recvDone q2
      | (q2, .err e) => .ok (q2, e.code)
      | (_, .oob) => .oob
      | (_, .clobber) => .oob
    | .err e => .err e | .null => .null | .oob => .oob | .fault => .fault
  | .err _ => .ok (q, Err.MissingBuffer.code)
  | .null => .null | .oob => .oob | .fault => .fault

/-- no decoder: the available data is the message -/
def recvRaw (q : DecodeQueue) : Res (DecodeQueue × Int) :=
  let len := q.ring.len
  let done := q.st.pos + (match q.st.msg with | some m => m | none => q.st.len)
  if done > len then .ok (q, Err.BadEncoding.code)
  else
    match q.st.msg with
    | some _ =>
      match queueShift { q with st := { q.st with pos := done, msg := some q.st.len, len := len - done } } with
      | .ok q1 => .ok (q1, 1)
      | .err e => .err e | .null => .null | .oob => .oob | .fault => .fault
    | none =>
      match queueShift { q with st := { q.st with pos := done, len := len - done } } with
      | .ok q1 => .ok (q1, 0)
      | .err e => .err e | .null => .null | .oob => .oob | .fault => .fault

/-- the same decoder call, `MissingBuffer` recovery and end of the receive with `mpt_decode_command` -/
def decCallCmd (q : DecodeQueue) : DecodeQueue × DecRet :=
  let o := decodeCommand q.st (segsOf q.ring q.base) false
  ({ q with ring := { q.ring with store := putContent q.ring o.store }, st := o.st }, o.ret)

def recvRetryCmd (q : DecodeQueue) : Res (DecodeQueue × Int) :=
  let add := q.ring.max - q.ring.len
  match q.ring.qpre add with
  | .ok (r1, _) =>
    match moveBack r1 add q.st.pos q.st.len with
    | .ok r2 =>
      let q1 : DecodeQueue := { q with ring := r2, st := { q.st with curr := q.st.curr + add } }
      match decCallCmd q1 with
      | (q2, .val _) => recvDone q2
      | (q2, .err e) => .ok (q2, e.code)
      | (_, .oob) => .oob
      | (_, .clobber) => .oob
    | .err e => .err e | .null => .null | .oob => .oob | .fault => .fault
  | .err _ => .ok (q, Err.MissingBuffer.code)
  | .null => .null | .oob => .oob | .fault => .fault

def recvCmd (q : DecodeQueue) : Res (DecodeQueue × Int) :=
  match decCallCmd q with
  | (q1, .val _) => recvDone q1
  | (q1, .err e) =>
    if e ≠ .MissingBuffer then .ok (q1, e.code)
    else if q1.ring.len ≥ q1.ring.max then .ok (q1, e.code)
    else recvRetryCmd q1
  | (_, .oob) => .oob
  | (_, .clobber) => .oob

/-- `mpt_queue_recv(qu)`: the queue afterwards and the C return value -/
def queueRecv (q : DecodeQueue) : Res (DecodeQueue × Int) :=
  if q.ring.len = 0 then
    -- consume delivered empty message
    if (q.codec.isSome ∨ q.command) ∧ q.st.msg = some 0 then .ok ({ q with st := { q.st with msg := none } }, Err.MissingData.code)
    else .ok (q, Err.MissingData.code)
  else
    match q.codec with
    | none => if q.command then recvCmd q else recvRaw q
    | some v =>
      match decCall v q with
      | (q1, .val _) => recvDone q1
      | (q1, .err e) =>
        if e ≠ .MissingBuffer then .ok (q1, e.code)
        -- queue full
        else if q1.ring.len ≥ q1.ring.max then .ok (q1, e.code)
        else recvRetry v q1
      | (_, .oob) => .oob
      | (_, .clobber) => .oob

/-- C++ `decode_queue::advance()` (mpt++/queue.cpp): `mpt_queue_recv`, then `mpt_queue_shift` once more -/
def queueAdvance (q : DecodeQueue) : Res (DecodeQueue × Bool) :=
  match queueRecv q with
  | .ok (q1, r) =>
    if r < 0 then .ok (q1, false)
    else
      match queueShift q1 with
      | .ok q2 => .ok (q2, true)
      | .err e => .err e | .null => .null | .oob => .oob | .fault => .fault
  | .err e => .err e | .null => .null | .oob => .oob | .fault => .fault

/-- `mpt_message_get(qu, off, take, msg, vec)`: return code and the bytes the message denotes -/
def messageGet (r : Ring) (off take : Nat) (vec : Bool := true) : Res (Int × List Byte) :=
  let low0 := r.low
  let high0 := r.len - low0
  let at_ : Option (Nat × Nat × Nat) :=        -- (index of the first part, its length, length of the second part)
    if off < low0 then some (r.off + off, low0 - off, high0)
    else if off - low0 > high0 then none
    else some (off - low0, high0 - (off - low0), 0)
  match at_ with
  | none => .ok (-1, [])
  | some (b, low, high) =>
    if take > low + high then .ok (-2, [])
    else if take ≤ low then do
      let x ← Mem.rd r.store b take
      pure (0, x)
    else if !vec then .ok (-3, [])
    else do
      let x ← Mem.rd r.store b low
      let y ← Mem.rd r.store 0 (take - low)
      pure (1, x ++ y)

/-- the current message `mpt_message_get(&data, state.data.pos, state.data.msg, ..)` -/
def currentMessage (q : DecodeQueue) : Option (Res (Int × List Byte)) :=
  q.st.msg.map fun m => messageGet q.ring q.st.pos m

/-- position of `mpt_message_read(&msg, off, 0)` on the queue data: (index, bytes left in that part);
    `none` = fewer than `off` bytes -/
def skipTo (r : Ring) (off : Nat) : Option (Nat × Nat) :=
  let used1 := if r.len > r.max - r.off then r.max - r.off else r.len
  let cont := r.len - used1
  if off = 0 then some (r.off, used1)        -- `mpt_message_read` is not called at all
  else if off < used1 then some (r.off + off, used1 - off)
  else if off = used1 then (if cont ≠ 0 then some (0, cont) else some (r.off + used1, 0))
  else if off - used1 ≤ cont ∧ cont ≠ 0 then some (off - used1, cont - (off - used1))
  else none

/-- the decoder part of `mpt_queue_peek`: the decoder previews the first piece of the data behind the delivered
    bytes (offsets made relative to that piece); a refused preview copies nothing — with a destination the
    refusal is reported, without one the call is a length query -/
def peekDec (dec : DecState → List Seg → Bool → DecOut) (q : DecodeQueue) (mx : Nat) (dst : Bool) :
    Res (DecodeQueue × Int × List Byte) :=
  -- work area reduces offset
  let off := min q.st.pos q.st.curr
  match skipTo q.ring off with
  | none => .ok (q, Err.MissingData.code, [])
  | some (b, used) =>
    let o := dec { q.st with pos := q.st.pos - off, curr := q.st.curr - off }
      [(q.base + b, (q.ring.store.drop b).take used)] true
    let store := Mem.write q.ring.store b o.store
    let q1 : DecodeQueue := { q with ring := { q.ring with store := store },
                                     st := { o.st with pos := o.st.pos + off, curr := o.st.curr + off } }
    match o.ret with
    | .oob => .oob
    | .clobber => .oob
    | .err e => .ok (q1, if dst then e.code else ((o.st.len : Nat) : Int), [])
    | .val _ =>
      if !dst then .ok (q1, (o.st.len : Nat), [])
      else do
        -- get data start and length
        let out ← Mem.rd store (b + o.st.pos) (min o.st.len mx)
        pure (q1, ((min o.st.len mx : Nat) : Int), out)

/-- `mpt_queue_peek(qu, max, dst)`: the queue afterwards, the return value and the bytes copied to `dst` -/
def queuePeek (q : DecodeQueue) (mx : Nat) (dst : Bool) : Res (DecodeQueue × Int × List Byte) :=
  if q.ring.len = 0 then .ok (q, Err.MissingData.code, [])
  else
    match q.codec with
    | none =>
      if q.command then peekDec decodeCommand q mx dst
      else
        -- final data available
        let off := q.st.pos + q.st.msg.getD 0
        if !dst then
          .ok (q, if off ≤ q.ring.len then ((q.ring.len - off : Nat) : Int) else Err.MissingData.code, [])
        else if off > q.ring.len then .ok (q, Err.MissingData.code, [])
        else
          let n := min mx (q.ring.len - off)
          .ok (q, (n : Nat), (q.ring.content.drop off).take n)
    | some v => peekDec (decodeV v) q mx dst

/-- more input arrives: `mpt_qpush(&data, len, bytes)` (what `mpt_queue_load` does with the bytes read) -/
def queueFeed (q : DecodeQueue) (bytes : List Byte) : Res (DecodeQueue × Int) :=
  match q.ring.qpush bytes.length (some bytes) with
  | .ok (r1, c) => .ok ({ q with ring := r1 }, c)
  | .err e => .ok (q, e.code)
  | .null => .null | .oob => .oob | .fault => .fault

/-- enlarge the storage to `n` bytes the way `mpt_queue_resize` does (data made contiguous first when it
    is fragmented); the new bytes are zero -/
def queueGrow (q : DecodeQueue) (n : Nat) : Res DecodeQueue :=
  if n ≤ q.ring.max then .ok q
  else
    match q.ring.resize n with
    | .ok r1 => .ok { q with ring := r1 }
    | .err e => .err e | .null => .null | .oob => .oob | .fault => .fault

end Mpt.CQ
