/-
  M: implementation model of mptcore/message/message_id.c and of the deferrable reply context
  (mptcore/event/reply_deferrable.c, reply_set.c), after the fix: commits d4dec70, 5ba563d
  (message_id.c), 281bbde, ba98223 and the default-reply fix of contextUnref (reply_deferrable.c).

  `struct reply_context_defer { reply.send, reply.ptr, ref, data{_max,len,val} }` becomes `Ctx`;
  `data.len = 0` ("no request / already answered") is `cur = none`, otherwise `cur = some ⟨val, tag⟩`.
  `tag` is a ghost number (the how-many-th `arm` stored these bytes) used only to state the theorems;
  `arms` (ghost) remembers the bytes of every arm, `log` the calls of the transport's send function.
-/
import MptModel.Basic
import MptModel.Impl.Ring
import MptModel.Spec.Reply

namespace Mpt
open Mpt.ReplySpec (byteOf)

namespace MsgId

/-- `while (len--) { id /= 0x100; if (id) ++used; buf[len] = 0xff & id; }` — the buffer is filled from
    its end, `acc` is the part already written; result: (last `id`, `used`, buffer) -/
def id2bufLoop : Nat → Nat → Nat → List Byte → Nat × Nat × List Byte
  | 0, id, used, acc => (id, used, acc)
  | len + 1, id, used, acc =>
    id2bufLoop len (id / 256) (if id / 256 ≠ 0 then used + 1 else used) (byteOf (id / 256) :: acc)

/-- `mpt_message_id2buf(id, buf, w)`: buffer content and return value `used` -/
def id2buf (id w : Nat) : Res (List Byte × Nat) :=
  if w = 0 then (if id ≠ 0 then .err .MissingBuffer else .ok ([], 0))
  else
    let r := id2bufLoop (w - 1) id 1 [byteOf id]
    if r.1 / 256 ≠ 0 then .err .MissingBuffer
    else if (r.2.2.headD 0).toNat ≥ 128 then .err .BadValue
    else .ok (r.2.2, r.2.1)

/-- `while (--len) { val = *buf++; id *= 0x100; if ((val || used) && ++used > sizeof(id)) return BadValue; id |= val; }`
    (`id *= 0x100` can leave 64 bits only when `used = 8`, and then BadValue is returned before `id` is
    used again, so the product is modelled in `Nat`; `id |= val` adds into a zero low byte) -/
def buf2idLoop : List Byte → Nat → Nat → Res (Nat × Nat)
  | [], id, used => .ok (id, used)
  | v :: vs, id, used =>
    if (v ≠ 0 ∨ used ≠ 0) ∧ used + 1 > 8 then .err .BadValue
    else buf2idLoop vs (id * 256 + v.toNat) (if v ≠ 0 ∨ used ≠ 0 then used + 1 else used)

/-- `mpt_message_buf2id(buf, len, &id)`: decoded id and return value `used` -/
def buf2id : List Byte → Res (Nat × Nat)
  | [] => .ok (0, 0)
  | b :: rest => buf2idLoop rest b.toNat (if b ≠ 0 then 1 else 0)

end MsgId

namespace Reply
open Mpt.ReplySpec (mark)

/-- `rd->val[0] &= 0x7f` -/
def unmark : List Byte → List Byte
  | [] => []
  | b :: r => (b &&& 0x7f) :: r

/-- armed reply data (`len ≠ 0`): id bytes and the ghost tag -/
structure Req where
  val : List Byte
  tag : Nat
  deriving Repr, DecidableEq

/-- one call of the transport's send function -/
structure Sent where
  tag : Nat
  id : List Byte                 -- `rd->val[0..len)` as the callback sees it
  msg : Option (List Byte)       -- `none` = NULL message (default reply)
  ok : Bool                      -- the transport accepted (returned ≥ 0)
  deriving Repr, DecidableEq

structure Ctx where
  max : Nat                      -- data._max
  owner : Bool                   -- the creator still holds its reference
  refs : Nat                     -- ref._val
  send : Bool                    -- reply.send ≠ NULL
  ptr : Bool                     -- reply.ptr ≠ NULL
  cur : Option Req               -- data (len ≠ 0)
  handles : List (Option Req)    -- deferred handles in creation order, `none` = freed
  nextTag : Nat                  -- ghost
  arms : List (List Byte)        -- ghost: bytes given to arm number `tag`
  log : List Sent                -- transport calls so far
  lost : List Nat := []          -- ghost: tags of requests dropped without a transport call (transport detached)
  deriving Repr, DecidableEq

/-- `mpt_reply_deferrable(len, send, ptr)`; `none` = NULL (`len > UINT16_MAX`) -/
def create (len : Nat) (ptr : Bool) : Option Ctx :=
  if len > 65535 then none
  else some { max := len, owner := true, refs := 1, send := true, ptr := ptr, cur := none, handles := [],
              nextTag := 0, arms := [], log := [] }

/-- result of `contextSend`: return code, reply data afterwards, transport call made -/
structure SendRes where
  ret : Int
  rd : Option Req
  call : Option Sent
  dropped : Option Nat := none      -- ghost: tag of a request discarded because `reply.send == 0`
  deriving Repr, DecidableEq

/-- `contextSend(ctx, rd, msg)`; `ans` is what the transport's send function returns if it is called -/
def contextSend (send ptr : Bool) (rd : Option Req) (msg : Option (List Byte)) (ans : Int) : SendRes :=
  match rd with
  | none => ⟨Err.BadArgument.code, none, none, none⟩    -- "reply already sent"
  | some r =>
    if !send then ⟨0, none, none, some r.tag⟩            -- rd->len = 0
    else if !ptr then ⟨0, some r, none, none⟩            -- "no reply target available"
    else if ans ≥ 0 then ⟨ans, none, some ⟨r.tag, mark r.val, msg, true⟩, none⟩
    else ⟨ans, some { r with val := unmark (mark r.val) }, some ⟨r.tag, mark r.val, msg, false⟩, none⟩

def addCall (log : List Sent) : Option Sent → List Sent
  | none => log
  | some e => log ++ [e]
def addLost (lost : List Nat) : Option Nat → List Nat
  | none => lost
  | some t => lost ++ [t]

/-- `convert(TypeReplyDataPtr)` + `mpt_reply_set(rd, len, data)`: return code and context -/
def arm (c : Ctx) (bytes : List Byte) : Int × Ctx :=
  if c.cur.isSome then (Err.BadOperation.code, c)      -- fix affcd55: an unanswered request is not overwritten
  else if bytes.length > c.max then (Err.BadValue.code, c)
  else ((c.max - bytes.length : Nat),
        { c with cur := if bytes.length = 0 then none else some ⟨bytes, c.nextTag⟩,
                 nextTag := c.nextTag + 1, arms := c.arms ++ [bytes] })

/-- `contextSet` = `rc->reply(rc, msg)` -/
def reply (c : Ctx) (msg : Option (List Byte)) (ans : Int) : Int × Ctx :=
  let r := contextSend c.send c.ptr c.cur msg ans
  (r.ret, { c with cur := r.rd, log := addCall c.log r.call, lost := addLost c.lost r.dropped })

/-- `contextDefer` = `rc->defer(rc)`: index of the new handle, `none` = NULL -/
def defer (c : Ctx) : Option Nat × Ctx :=
  match c.cur with
  | none => (none, c)
  | some r =>
    if c.refs = 0 then (none, c)
    else (some c.handles.length, { c with refs := c.refs + 1, handles := c.handles ++ [some r], cur := none })

/-- `deferReply` = `handle->reply(handle, msg)`; the caller guarantees that handle `k` is live -/
def dreply (c : Ctx) (k : Nat) (msg : Option (List Byte)) (ans : Int) : Int × Ctx :=
  match c.handles.getD k none with
  | none => (Err.BadArgument.code, c)               -- not a live handle: the API forbids the call (driver: bad-op)
  | some rq =>
    let r := contextSend c.send c.ptr (some rq) msg ans
    if r.ret < 0 ∧ msg.isSome then
      (r.ret, { c with handles := c.handles.set k r.rd, log := addCall c.log r.call, lost := addLost c.lost r.dropped })
    else
      -- contextDetach(base); free(def)
      ((if r.ret < 0 then 0 else r.ret),
       { c with handles := c.handles.set k none, refs := c.refs - 1, log := addCall c.log r.call,
                lost := addLost c.lost r.dropped })

/-- `contextUnref` = the owner releases the context.  With other references left the transport is
    detached (`reply.send = 0`) after the pending request got its default reply; with the last
    reference the default reply is sent and the context freed. -/
def dropCtx (c : Ctx) (ans : Int) : Ctx :=
  let r := if c.send ∧ c.cur.isSome then contextSend c.send c.ptr c.cur none ans else ⟨0, c.cur, none, none⟩
  { c with owner := false, refs := c.refs - 1, send := if c.refs - 1 ≠ 0 then false else c.send,
           cur := r.rd, log := addCall c.log r.call, lost := addLost c.lost r.dropped }

/-- `contextRef` + `contextUnref` through a second metatype reference: the count is back where it was, but
    the release ran the "references remain" branch of `contextUnref` — default reply for the pending
    request, then `reply.send = 0` -/
def reref (c : Ctx) (ans : Int) : Ctx :=
  let r := if c.send ∧ c.cur.isSome then contextSend c.send c.ptr c.cur none ans else ⟨0, c.cur, none, none⟩
  { c with send := false, cur := r.rd, log := addCall c.log r.call, lost := addLost c.lost r.dropped }

/-- an operation on the context together with the transport's answer, should it be asked -/
inductive Op where
  | arm (bytes : List Byte)
  | reply (msg : Option (List Byte)) (ans : Int)
  | defer
  | dreply (k : Nat) (msg : Option (List Byte)) (ans : Int)
  | dropCtx (ans : Int)
  deriving Repr, DecidableEq

/-- is the operation one the API permits in this state?  (the owner may not touch the context after
    releasing it; a deferred handle may not be used after it was freed) -/
def Op.permitted (c : Ctx) : Op → Bool
  | .arm _ => c.owner
  | .reply _ _ => c.owner
  | .defer => c.owner
  | .dreply k _ _ => (c.handles.getD k none).isSome
  | .dropCtx _ => c.owner

def step (c : Ctx) : Op → Ctx
  | .arm b => (arm c b).2
  | .reply m a => (reply c m a).2
  | .defer => (defer c).2
  | .dreply k m a => (dreply c k m a).2
  | .dropCtx a => dropCtx c a

/-- run a history; operations the API does not permit are skipped -/
def run (c : Ctx) : List Op → Ctx
  | [] => c
  | op :: ops => run (if op.permitted c then step c op else c) ops

end Reply

/-
  Stream-input variant (mptio/stream/stream_input.c: streamMessage / streamReply, stream_reply.c),
  after the fix: commits 81aa601, f5fcb48, d3df38a, 7541cab.  The stream holds ONE reply_data
  (`rd._max = idlen`); a request arms it for the duration of the handler call; `defer` is not
  supported; what the handler leaves unanswered gets the default reply (answer header) at once.
-/
namespace StreamIn
open Mpt.ReplySpec (mark)

structure SIn where
  idlen : Nat
  rdlen : Nat            -- rd.len
  val : List Byte        -- rd.val[0..idlen)
  deriving Repr, DecidableEq

/-- what the scripted handler does with `ev->reply` -/
inductive Act where
  | reply (msg : List Byte)
  | replyNull
  | defer
  | ret (v : Int)
  | replyFail (msg : List Byte)     -- a reply attempt the stream cannot take (no buffer space): `mpt_stream_reply` < 0
  deriving Repr, DecidableEq

/-- `streamReply(rc, msg)`; `accept` = `mpt_stream_reply` succeeds (the stream takes the frame).
    Result: return code, state, frame handed to the stream (id bytes ++ message) -/
def sreply (s : SIn) (msg : Option (List Byte)) (accept : Bool) : Int × SIn × Option (List Byte) :=
  if s.rdlen = 0 then (Err.BadArgument.code, s, none)
  else if accept then (0, { s with rdlen := 0, val := mark s.val }, some ((mark s.val).take s.rdlen ++ msg.getD []))
  else (Err.BadArgument.code, { s with val := Reply.unmark (mark s.val) }, none)

structure HRes where
  s : SIn
  ret : Int := 0
  results : List String := []
  frames : List (List Byte) := []
  deriving Repr, DecidableEq

/-- the handler performs its acts in order -/
def runActs (ctx : Bool) : List Act → HRes → HRes
  | [], h => h
  | a :: as, h =>
    match a with
    | .ret v => runActs ctx as { h with ret := v, results := h.results ++ ["ret"] }
    | .defer => runActs ctx as { h with results := h.results ++ [if ctx then "nodefer" else "noctx"] }
    | .reply m =>
      if !ctx then runActs ctx as { h with results := h.results ++ ["noctx"] } else
      let r := sreply h.s (some m) true
      runActs ctx as { h with s := r.2.1, results := h.results ++ [if r.1 < 0 then "refused" else "ok"],
                              frames := h.frames ++ r.2.2.toList }
    | .replyNull =>
      if !ctx then runActs ctx as { h with results := h.results ++ ["noctx"] } else
      let r := sreply h.s none true
      runActs ctx as { h with s := r.2.1, results := h.results ++ [if r.1 < 0 then "refused" else "ok"],
                              frames := h.frames ++ r.2.2.toList }
    | .replyFail m =>
      if !ctx then runActs ctx as { h with results := h.results ++ ["noctx"] } else
      let r := sreply h.s (some m) false
      runActs ctx as { h with s := r.2.1, results := h.results ++ [if r.1 < 0 then "refused" else "ok"],
                              frames := h.frames ++ r.2.2.toList }

structure ReqRes where
  s : SIn
  called : Bool
  ctx : Bool
  evid : Nat
  results : List String
  frames : List (List Byte)
  ret : Int
  deriving Repr, DecidableEq

/-- `int8_t` view of the answer code -/
def codeByte (r : Int) : Byte := UInt8.ofNat ((if r < 0 then r + 256 else 0).toNat % 256)

/-- `streamMessage`: one incoming message `data` (id header ++ payload) -/
def request (s : SIn) (data : List Byte) (acts : List Act) : ReqRes :=
  if s.idlen = 0 then
    let h := runActs false acts { s := s }
    ⟨h.s, true, false, 0, h.results, h.frames, h.ret⟩
  else if data.length < s.idlen then ⟨s, false, false, 0, [], [], Err.BadValue.code⟩
  else
    let val := data.take s.idlen
    if (val.headD 0).toNat ≥ 128 then
      -- a reply to one of our own requests: the handler gets its id, no reply context
      let v := Reply.unmark val
      match MsgId.buf2id v with
      | .ok (rid, _) =>
        let h := runActs false acts { s := { s with val := v } }
        ⟨h.s, true, false, rid, h.results, h.frames, h.ret⟩
      | _ => ⟨{ s with val := v }, false, false, 0, [], [], Err.BadValue.code⟩
    else
      let ctx := val.any (· ≠ 0)
      let s1 : SIn := { s with val := val, rdlen := if ctx then s.idlen else s.rdlen }
      let h := runActs ctx acts { s := s1 }
      -- generic reply for what the handler left unanswered
      if ctx ∧ h.s.rdlen ≠ 0 then
        let r := sreply h.s (some [1, codeByte h.ret]) true
        ⟨r.2.1, true, ctx, 0, h.results, h.frames ++ r.2.2.toList, h.ret⟩
      else ⟨h.s, true, ctx, 0, h.results, h.frames, h.ret⟩

end StreamIn

/-
  Requester side, C++: mpt++/io_stream.cpp (io::stream::await / push / dispatch::process / sync) with
  mptcore/event/command_reserve.c (id assignment) and mptio/stream/stream_sync.c, after fix 6a46010
  (handlers are looked up by id).  `_wait` is the array of `struct command {id, cmd, arg}`:
  `tag = some t` = handler registered (calls are logged as `h<t>(payload)`), `none` = `cmd == 0`.
-/
namespace Requester
open Mpt.ReplySpec (byteOf beDigits)

structure Slot where
  id : Nat
  tag : Option Nat
  deriving Repr, DecidableEq

/-- a handler call: tag and message payload (`none` = NULL message) -/
structure Call where
  tag : Option Nat            -- `none` = the event handler for non-reply messages
  msg : Option (List Byte)
  deriving Repr, DecidableEq

structure St where
  idlen : Nat
  arr : Option (List Slot) := none      -- `_wait` buffer, entries below `_used`
  cid : Nat := 0
  inq : List (List Byte) := []          -- decoded messages not yet consumed
  deriving Repr, DecidableEq

/-- largest id for a header width (command_reserve.c) -/
def idMax (w : Nat) : Nat :=
  match w with
  | 0 => 0 | 1 => 127 | 2 => 32767 | 3 => 8388607 | 4 => 2147483647
  | 5 => 549755813887 | 6 => 140737488355327 | 7 => 36028797018963967
  | _ => 9223372036854775807

def active (es : List Slot) : List Slot := es.filter (·.tag.isSome)

/-- smallest id in `1..max` that no active entry uses -/
def freeId (act : List Slot) : Nat → Nat → Option Nat
  | 0, _ => none
  | fuel + 1, i => if act.any (·.id == i) then freeId act fuel (i + 1) else some i

/-- `mpt_command_reserve(arr, idlen)` followed by `cmd->cmd = handler`: new array and the id -/
def reserve (arr : Option (List Slot)) (idlen tag : Nat) : Option (List Slot × Nat) :=
  if idlen = 0 then none else
  match arr with
  | none => some (⟨1, some tag⟩ :: List.replicate 7 ⟨0, none⟩, 1)
  | some es =>
    let mid := es.foldl (fun m e => Nat.max m e.id) 0
    let act := active es
    let id : Option Nat := if mid ≥ idMax idlen then freeId act (act.length + 1) 1 else some (mid + 1)
    match id with
    | some i => if i > idMax idlen then none else some (act ++ [⟨i, some tag⟩], i)
    | none => none

/-- `io::stream::await(handler, tag)` (no message being composed) -/
def await (s : St) (tag : Nat) : Option (St × Nat) :=
  match reserve s.arr s.idlen tag with
  | some (a, i) => some ({ s with arr := some a, cid := i }, i)
  | none => none

/-- `push(data); push(0, 0)`: the frame put on the stream -/
def send (s : St) (data : List Byte) : St × List Byte :=
  ({ s with cid := 0 }, beDigits s.idlen s.cid ++ data)

/-- `mpt_command_get/find`: the active entry with this id -/
def findActive (es : List Slot) (id : Nat) : Option Nat := (es.find? fun e => e.tag.isSome && e.id == id).bind (·.tag)
def deactivate (es : List Slot) (id : Nat) : List Slot :=
  match es with
  | [] => []
  | e :: r => if e.tag.isSome && e.id == id then { e with tag := none } :: r else e :: deactivate r id

/-- `io::stream::dispatch::process(msg)` for one decoded message -/
def process (s : St) (m : List Byte) : St × Option Call :=
  if s.idlen = 0 then (s, some ⟨none, some m⟩) else
  let id := m.take s.idlen
  let payload := m.drop s.idlen
  if (id.headD 0).toNat ≥ 128 then
    match MsgId.buf2id (Reply.unmark id) with
    | .ok (rid, _) =>
      match findActive (s.arr.getD []) rid with
      | some t => ({ s with arr := s.arr.map (deactivate · rid) }, some ⟨some t, some payload⟩)
      | none => (s, none)                     -- "unknown reply id"
    | _ => (s, none)
  else (s, some ⟨none, some payload⟩)           -- no reply context on this stream: plain event

/-- dispatch until the input is drained -/
def drain : List (List Byte) → St → List Call → St × List Call
  | [], s, log => ({ s with inq := [] }, log)
  | m :: ms, s, log =>
    let r := process s m
    drain ms r.1 (log ++ r.2.toList)

/-- a reply command may register a follow-up request while it handles its reply (`await` called from inside the
    handler, `follow t` = tag of the new request): this happens after the command's own registration has been
    released (fixes in connection_dispatch.c / io_stream.cpp / stream_sync.c: release first, then call) -/
def followUp (follow : Nat → Option Nat) (s : St) (t : Nat) : St :=
  match follow t with
  | none => s
  | some t' =>
    match await s t' with
    | some (s', _) => s'
    | none => s

/-- no command registers a follow-up request -/
abbrev noFollow : Nat → Option Nat := fun _ => none

/-- `process` with commands that register follow-up requests -/
def processF (follow : Nat → Option Nat) (s : St) (m : List Byte) : St × Option Call :=
  let r := process s m
  match r.2 with
  | some ⟨some t, _⟩ => (followUp follow r.1 t, r.2)
  | _ => r

def drainF (follow : Nat → Option Nat) : List (List Byte) → St → List Call → St × List Call
  | [], s, log => ({ s with inq := [] }, log)
  | m :: ms, s, log =>
    let r := processF follow s m
    drainF follow ms r.1 (log ++ r.2.toList)

/-- message loop of `mpt_stream_sync`: runs while handlers wait; `fails t` = the command with tag `t` reports failure
    (returns < 0): its reply is consumed and the command released like any other, then the loop is left
    (`if (ret < 0) break`).  Result: state, calls, left the loop regularly? -/
def syncLoop (fails : Nat → Bool) (follow : Nat → Option Nat) :
    List (List Byte) → St → Nat → List Call → St × List Call × Bool
  | q, s, 0, log => ({ s with inq := q }, log, true)
  | [], s, _, log => ({ s with inq := [] }, log, false)           -- no further input: `return count`
  | m :: ms, s, count + 1, log =>
    if m.length < s.idlen ∨ ((m.take s.idlen).headD 0).toNat < 128 then ({ s with inq := m :: ms }, log, false)
    else
      match MsgId.buf2id (Reply.unmark (m.take s.idlen)) with
      | .ok (rid, _) =>
        match findActive (s.arr.getD []) rid with
        | some t =>
          -- released, called (the command may register a follow-up request), commands counted again
          let s1 := followUp follow { s with arr := s.arr.map (deactivate · rid) } t
          let log1 := log ++ [⟨some t, some (m.drop s.idlen)⟩]
          if fails t then ({ s1 with inq := ms }, log1, true)
          else syncLoop fails follow ms s1 (active (s1.arr.getD [])).length log1
        | none => syncLoop fails follow ms s (count + 1) log       -- no handler, no fallback: dropped
      | _ => ({ s with inq := m :: ms }, log, false)

/-- `io::stream::sync` → `mpt_stream_sync(_srm, _idlen, &_wait, 0)` -/
def sync (fails : Nat → Bool) (follow : Nat → Option Nat) (s : St) : St × List Call :=
  match s.arr with
  | none => (s, [])
  | some es =>
    if es.length = 0 ∨ s.idlen = 0 then (s, []) else
    let count := (active es).length
    let r := syncLoop fails follow s.inq s count []
    let s1 := r.1
    let es1 := s1.arr.getD []
    -- "compress waiting return commands" when at most half of the entries (of the array as it is now) still wait
    if r.2.2 ∧ (active es1).length ≤ es1.length / 2 then ({ s1 with arr := some (active es1) }, r.2.1)
    else (s1, r.2.1)

/-- `push(1, NULL)`: the request being composed is cancelled, its handler is told so -/
def abort (s : St) : Option Call :=
  if s.cid = 0 then none else (findActive (s.arr.getD []) s.cid).map fun t => ⟨some t, none⟩

/-- destruction: every handler still waiting is called with a NULL message (`~command`) -/
def close (s : St) : List Call := (active (s.arr.getD [])).map fun e => ⟨e.tag, none⟩

/-- operations of a requester history: what the application does and what the peer sends -/
inductive ROp where
  | await (tag : Nat)
  | send (data : List Byte)
  | answer (frames : List (List Byte))     -- peer frames arrive, then dispatch until drained
  | sync (frames : List (List Byte))       -- peer frames arrive, then `sync`
  deriving Repr, DecidableEq

def rstep (fails : Nat → Bool) (follow : Nat → Option Nat) (s : St) : ROp → St × List Call
  | .await tag => match await s tag with
    | some (s', _) => (s', [])
    | none => (s, [])
  | .send d => ((send s d).1, [])
  | .answer fs => drainF follow (s.inq ++ fs) s []
  | .sync fs => sync fails follow { s with inq := s.inq ++ fs }

def rrun (fails : Nat → Bool) (follow : Nat → Option Nat) : St → List ROp → St × List Call
  | s, [] => (s, [])
  | s, op :: ops =>
    let r := rstep fails follow s op
    let r2 := rrun fails follow r.1 ops
    (r2.1, r.2 ++ r2.2)

end Requester
end Mpt
