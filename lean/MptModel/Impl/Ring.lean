/-
  M: implementation model of mptcore/queue/*.c  (struct queue = base,len,max,off).
  Mirrors the C control flow branch by branch; pointer arithmetic is index arithmetic on
  `store` (the malloc'ed block `base[0..max)`).  Every memory access goes through a
  checked primitive (`rd`/`wr`/`mv`): an access leaving `[0,max)` yields `.oob`, so
  "no access leaves the storage area" is the theorem "no op on a well-formed ring is `.oob`".
-/
import MptModel.Basic

namespace Mpt

/-- result of a model call -/
inductive Res (α : Type) where
  | ok (v : α)
  | err (e : Err)   -- negative MPT_ERROR return
  | null            -- NULL pointer return (errno set)
  | oob             -- an index left the storage: memory-safety violation in the C code
  | fault           -- arithmetic fault (division by zero) or use of an indeterminate value
  deriving Repr, DecidableEq

namespace Res
@[inline] def bind {α β} (x : Res α) (f : α → Res β) : Res β :=
  match x with
  | .ok v => f v | .err e => .err e | .null => .null | .oob => .oob | .fault => .fault
instance : Monad Res where
  pure := .ok
  bind := bind
@[simp] theorem bind_ok {α β} (v : α) (f : α → Res β) : (Res.ok v >>= f) = f v := rfl
@[simp] theorem pure_eq {α} (v : α) : (pure v : Res α) = .ok v := rfl
end Res

/-- checked read of `n` bytes at `src` -/
def Mem.rd (store : List Byte) (src n : Nat) : Res (List Byte) :=
  if src + n ≤ store.length then .ok (Mem.read store src n) else .oob
/-- checked write -/
def Mem.wr (store : List Byte) (dst : Nat) (bytes : List Byte) : Res (List Byte) :=
  if dst + bytes.length ≤ store.length then .ok (Mem.write store dst bytes) else .oob
/-- checked memmove -/
def Mem.mv (store : List Byte) (dst src n : Nat) : Res (List Byte) :=
  if src + n ≤ store.length ∧ dst + n ≤ store.length then .ok (Mem.move store dst src n) else .oob

structure Ring where
  store : List Byte       -- base[0 .. max)
  len   : Nat
  off   : Nat
  deriving Repr, DecidableEq, Inhabited

namespace Ring

@[reducible] def max (r : Ring) : Nat := r.store.length

/-- `MPT_queue_frag` -/
def frag (r : Ring) : Bool := r.max - r.len < r.off

/-- length of the first data part (`*low` of `mpt_queue_data`) -/
def low (r : Ring) : Nat := min (r.max - r.off) r.len

/-- `mpt_queue_data`: (index of the first part, its length `low`) -/
def data (r : Ring) : Nat × Nat := (r.off, r.low)

/-- `mpt_queue_empty`: `none` = NULL (queue full), else (start index, low, high) -/
def empty (r : Ring) : Option (Nat × Nat × Nat) :=
  let space := r.max - r.len
  if space = 0 then none
  else if space ≤ r.off then some (r.len - (r.max - r.off), space, 0)
  else some (r.off + r.len, space - r.off, r.off)

/-- `mpt_queue_crop`, last step of the wrapped case: `post` bytes at `src` (second part) are pulled
    to `base` (room for `low` bytes up to the storage end), the rest moves to the storage start -/
def cropFill (s : List Byte) (base src post low : Nat) : Res (List Byte × Int) :=
  if post ≤ low then
    match Mem.mv s base src post with
    | .ok s1 => .ok (s1, 1)
    | _ => .oob
  else
    match Mem.mv s base src low with
    | .ok s1 =>
      match Mem.mv s1 0 (src + low) (post - low) with
      | .ok s2 => .ok (s2, 3)
      | _ => .oob
    | _ => .oob

/-- `mpt_queue_crop`, the `if (high)` block: data continues in the second part -/
def cropWrapped (s : List Byte) (base low high n : Nat) : Res (List Byte × Int) :=
  let post := low + high - n
  if n < low then
    -- keep the remaining data of the first part
    match Mem.mv s base (base + n) (low - n) with
    | .ok s1 => cropFill s1 (base + (low - n)) 0 (post - (low - n)) n
    | _ => .oob
  else cropFill s base (n - low) post low

/-- `mpt_queue_crop`, linear data move -/
def cropLinear (s : List Byte) (base low n : Nat) : Res (List Byte × Int) :=
  let post := low - n
  if post ≠ 0 then
    match Mem.mv s base (base + n) post with
    | .ok s1 => .ok (s1, 0)
    | _ => .oob
  else .ok (s, 0)

/-- `mpt_queue_crop` after positioning: remove `n` bytes at `base`; `low` bytes follow up to the end
    of the first part, `high` more in the second part -/
def cropTail (s : List Byte) (base low high n : Nat) : Res (List Byte × Int) :=
  if low + high < n then .err .BadArgument
  else if high ≠ 0 then cropWrapped s base low high n
  else cropLinear s base low n

/-- `mpt_queue_crop`: new ring and the C return code (0,1,2,3) -/
def crop (r : Ring) (pos len : Nat) : Res (Ring × Int) :=
  let low := r.low
  let high := r.len - low
  if pos = 0 then
    if len > low + high then .err .BadArgument
    else if len ≥ low then
      .ok ({ r with len := r.len - len, off := len - low }, if len - low ≠ 0 then 2 else 0)
    else .ok ({ r with len := r.len - len, off := r.off + len }, 0)
  else
    let t :=
      if pos < low then cropTail r.store (r.off + pos) (low - pos) high len
      else if pos - low > high then .err .BadArgument
      else cropTail r.store (pos - low) (high - (pos - low)) 0 len
    match t with
    | .ok (s, c) => .ok ({ r with store := s, len := r.len - len }, c)
    | .err e => .err e
    | .null => .null | .oob => .oob | .fault => .fault

/-- the temporary `tmp` view used by `mpt_queue_get/set`: position `pos`, length `len`.
    Returns (flag bit 1, index of the first part, its length, length of the second part) or the error -/
def view (r : Ring) (pos len : Nat) (tooLong : Err) : Res (Int × Nat × Nat × Nat) :=
  let bit1 : Int := if pos ≠ 0 ∧ pos > r.max - r.off then 1 else 0
  let tmp : Res Ring :=
    if pos ≠ 0 then
      match r.crop 0 pos with
      | .ok (t, _) => .ok t
      | _ => .err .BadArgument
    else .ok r
  match tmp with
  | .ok t =>
    if len > t.len then .err tooLong
    else .ok (bit1, t.off, min (t.max - t.off) len, len - min (t.max - t.off) len)
  | .err e => .err e
  | _ => .err .BadArgument

/-- copy out `low` bytes at `base` and `high` bytes at the storage start -/
def readParts (s : List Byte) (base low high : Nat) : Res (List Byte) :=
  match (if low ≠ 0 then Mem.rd s base low else .ok []) with
  | .ok a =>
    match (if high ≠ 0 then Mem.rd s 0 high else .ok []) with
    | .ok b => .ok (a ++ b)
    | _ => .oob
  | _ => .oob

/-- store `src` into `low` bytes at `base` and `high` bytes at the storage start -/
def writeParts (s : List Byte) (base low high : Nat) (src : List Byte) : Res (List Byte) :=
  match (if low ≠ 0 then Mem.wr s base (src.take low) else .ok s) with
  | .ok s1 => if high ≠ 0 then Mem.wr s1 0 ((src.drop low).take high) else .ok s1
  | _ => .oob

/-- `mpt_queue_get(queue, pos, len, data)`; `dst = false` models `data == NULL` -/
def get (r : Ring) (pos len : Nat) (dst : Bool) : Res (Int × List Byte) :=
  if len = 0 then .ok (0, []) else
  match r.view pos len .BadArgument with
  | .ok (bit1, base, low, high) =>
    if !dst then .ok (bit1 + (if high ≠ 0 then 2 else 0), [])
    else
      match readParts r.store base low high with
      | .ok out => .ok (bit1 + (if high ≠ 0 then 2 else 0), out)
      | _ => .oob
  | .err e => .err e
  | .null => .null | .oob => .oob | .fault => .fault

/-- the bytes `mpt_queue_set` stores: `data` or zeros -/
def setSrc (len : Nat) (bytes : Option (List Byte)) : List Byte :=
  match bytes with
  | some b => b.take len ++ List.replicate (len - b.length) 0
  | none => List.replicate len 0

/-- `mpt_queue_set(queue, pos, len, data)`; `bytes = none` models `data == NULL` (zero fill) -/
def set (r : Ring) (pos len : Nat) (bytes : Option (List Byte)) : Res (Ring × Int) :=
  if len = 0 then .ok (r, 0) else
  match r.view pos len .MissingBuffer with
  | .ok (bit1, base, low, high) =>
    match writeParts r.store base low high (setSrc len bytes) with
    | .ok s2 => .ok ({ r with store := s2 }, bit1 + (if high ≠ 0 then 2 else 0))
    | _ => .oob
  | .err e => .err e
  | .null => .null | .oob => .oob | .fault => .fault

/-- `mpt_qpost` -/
def qpost (r : Ring) (len : Nat) : Res (Ring × Nat) :=
  match r.empty with
  | none => .err .MissingBuffer
  | some (_, low, high) =>
    let total := low + high
    if len > total then .err .MissingBuffer
    else .ok ({ r with len := r.len + len }, if len = 0 then total else (total - len) / len)

/-- `mpt_qpre` -/
def qpre (r : Ring) (len : Nat) : Res (Ring × Nat) :=
  match r.empty with
  | none => .err .MissingBuffer
  | some (_, low, high) =>
    let total := low + high
    if len > total then .err .MissingBuffer
    else
      let off :=
        if high ≠ 0 ∧ high < len then r.max - (len - high)
        else if len < r.off then r.off - len else r.off + (r.max - len)
      .ok ({ r with len := r.len + len, off := off }, if len = 0 then total else (total - len) / len)

/-- `mpt_qpush(queue, len, data)` -/
def qpush (r : Ring) (len : Nat) (bytes : Option (List Byte)) : Res (Ring × Int) :=
  match r.qpost len with
  | .ok (r1, _) => r1.set (r1.len - len) len bytes
  | .err e => .err e
  | .null => .null | .oob => .oob | .fault => .fault

/-- `mpt_qunshift(queue, len, data)` -/
def qunshift (r : Ring) (len : Nat) (bytes : Option (List Byte)) : Res (Ring × Int) :=
  match r.qpre len with
  | .ok (r1, _) => r1.set 0 len bytes
  | .err e => .err e
  | .null => .null | .oob => .oob | .fault => .fault

/-- `mpt_qpop(queue, len, data)`: removed bytes (as seen through the returned pointer) -/
def qpop (r : Ring) (len : Nat) (dst : Bool) : Res (Ring × List Byte) :=
  let base := r.off
  let low := r.low
  let high := r.len - low
  if high = 0 then
    if len > low then .null
    else do
      let out ← Mem.rd r.store (base + (low - len)) len
      pure ({ r with len := r.len - len }, out)
  else if len > high then
    if !dst then .null
    else
      let first := len - high
      if first > low then .null
      else do
        let a ← Mem.rd r.store (r.max - first) first
        let b ← Mem.rd r.store 0 high
        pure ({ r with len := r.len - len }, a ++ b)
  else do
    let out ← Mem.rd r.store (high - len) len
    pure ({ r with len := r.len - len }, out)

/-- `mpt_qshift(queue, len, data)` -/
def qshift (r : Ring) (len : Nat) (dst : Bool) : Res (Ring × List Byte) :=
  let addr := r.off
  let low := r.low
  let outR : Res (List Byte) :=
    if len ≤ low then Mem.rd r.store addr len
    else if !dst then .null
    else if len > r.len then .null
    else do
      let a ← Mem.rd r.store addr low
      let b ← Mem.rd r.store 0 (len - low)
      pure (a ++ b)
  match outR with
  | .ok out =>
    match r.crop 0 len with
    | .ok (r1, _) => .ok (r1, out)
    | .err _ => .ok (r, out)      -- crop result is ignored by the C code
    | .null => .null | .oob => .oob | .fault => .fault
  | .err e => .err e
  | .null => .null | .oob => .oob | .fault => .fault

/-- `mpt_memswap(from, to, len)` for disjoint areas: exchange `[a,a+len)` and `[b,b+len)`.
    (The C code goes through a 1024-byte buffer block by block; for disjoint areas that is this exchange.) -/
def memswap (s : List Byte) (a b len : Nat) : Res (List Byte) :=
  match Mem.rd s a len, Mem.rd s b len with
  | .ok x, .ok y =>
    match Mem.wr s a y with
    | .ok s1 => Mem.wr s1 b x
    | _ => .oob
  | _, _ => .oob

/-- rotate `[pos, pos+pre+post)` left by `pre` through a temporary buffer (the `pre <= 1024` /
    `post <= 1024` exits of `mpt_memrev`) -/
def rotateTmp (s : List Byte) (pos pre post : Nat) : Res (List Byte) :=
  match Mem.rd s pos pre, Mem.rd s (pos + pre) post with
  | .ok x, .ok y => Mem.wr s pos (y ++ x)
  | _, _ => .oob

/-- the loop of `mpt_memrev`: exchange the part before the pivot with the part after it, using block
    swaps until one side fits the 1024-byte temporary -/
def memrevLoop (s : List Byte) (data pre post : Nat) : Res (List Byte) :=
  if pre = 0 ∨ post = 0 then .ok s
  else if pre ≤ 1024 then rotateTmp s data pre post
  else if post ≤ 1024 then rotateTmp s data pre post
  else if pre < post then
    match memswap s data (data + pre) pre with
    | .ok s1 => memrevLoop s1 (data + pre) pre (post - pre)
    | _ => .oob
  else
    match memswap s (data + (pre - post)) (data + pre) post with
    | .ok s1 => memrevLoop s1 data (pre - post) post
    | _ => .oob
termination_by pre + post
decreasing_by all_goals omega

/-- `mpt_memrev(base+pos, pre, len)`; `len < pre` is BadArgument (ignored by all callers) -/
def memrev (store : List Byte) (pos pre len : Nat) : Res (List Byte) :=
  if len < pre then .ok store
  else memrevLoop store pos pre (len - pre)

/-- `mpt_queue_align`, first half: fragmented data is made contiguous at the storage start -/
def alignFlat (r : Ring) : Res Ring :=
  let pv := r.max - r.len
  let moved : Res (List Byte × Nat) :=
    if pv ≠ 0 then
      match Mem.mv r.store (r.off - pv) r.off (r.max - r.off) with
      | .ok s => .ok (s, r.off - pv)
      | _ => .oob
    else .ok (r.store, r.off)
  match moved with
  | .ok (s1, off1) =>
    match memrev s1 0 off1 r.len with
    | .ok s2 => .ok { r with store := s2, off := 0 }
    | _ => .oob
  | _ => .oob

/-- `mpt_queue_align`, second half: contiguous data at `off` is moved to offset `pos` -/
def alignMove (r : Ring) (pos : Nat) : Res Ring :=
  if r.max - r.len ≥ pos then
    match Mem.mv r.store pos r.off r.len with
    | .ok s => .ok { r with store := s, off := pos }
    | _ => .oob
  else
    -- the target wraps: the first `pv` bytes end up at [pos,max), the rest at the storage start
    let pv := r.max - pos
    match memrev r.store r.off pv r.len with
    | .ok s1 =>
      let up : Res (List Byte) :=
        if pv ≠ 0 ∧ pos ≠ r.off + r.len - pv then Mem.mv s1 pos (r.off + r.len - pv) pv else .ok s1
      match up with
      | .ok s2 =>
        let lo : Res (List Byte) := if r.off ≠ 0 then Mem.mv s2 0 r.off (r.len - pv) else .ok s2
        match lo with
        | .ok s3 => .ok { r with store := s3, off := pos }
        | _ => .oob
      | _ => .oob
    | _ => .oob

/-- `mpt_queue_align(queue, pos)` -/
def align (r : Ring) (pos : Nat) : Res Ring :=
  if pos > r.max then .ok r
  else if r.len = 0 then .ok { r with off := 0 }
  else if r.frag then
    match r.alignFlat with
    | .ok r1 => if pos = 0 then .ok r1 else r1.alignMove pos
    | x => x
  else if pos = r.off then .ok r
  else r.alignMove pos

/-- `mpt_queue_resize`, shrinking: data that no longer fits is removed from the queue start -/
def dropFront (r : Ring) (n : Nat) : Ring :=
  if n < r.len then
    match r.crop 0 (r.len - n) with
    | .ok (t, _) => t
    | _ => r
  else r

/-- `mpt_queue_resize(queue, len)`: realloc keeps the first `min old new` bytes; new bytes are
    zero in the model (the driver clears them). `allocOk = false` models realloc failure. -/
def resize (r : Ring) (n : Nat) (allocOk : Bool := true) : Res Ring :=
  if n = 0 then .ok { store := [], len := 0, off := 0 }
  else if n < r.max then
    -- remove data from queue start
    match (r.dropFront n).align 0 with
    | .ok r2 => if !allocOk then .null else .ok { r2 with store := r2.store.take n }
    | x => x
  else if n > r.max then
    let r1 : Res Ring := if r.frag then r.align 0 else .ok r
    match r1 with
    | .ok r2 => if !allocOk then .null else .ok { r2 with store := r2.store ++ List.replicate (n - r2.max) 0 }
    | x => x
  else .ok r

/-- `MPT_align(x)` of core.h on LP64: round up to a multiple of `sizeof(void*)` -/
def alignSize (x : Nat) : Nat := (x + 7) / 8 * 8

/-- `mpt_queue_prepare(queue, len)`: returns the free space afterwards (0 = failure) -/
def prepare (r : Ring) (n : Nat) (allocOk : Bool := true) : Res (Ring × Nat) :=
  let left := r.max - r.len
  if n > left then
    let want := (n - left) + r.max
    match r.resize (alignSize want) allocOk with
    | .ok r1 => .ok (r1, r1.max - r1.len)
    | .null => .ok (r, 0)
    | .err e => .err e | .oob => .oob | .fault => .fault
  else .ok (r, left)

/-- scan `iter` elements of size `esz` starting at physical index `addr` -/
def findLoop (store needle : List Byte) (esz : Nat) : Nat → Nat → Res (Option Nat)
  | 0, _ => .ok none
  | iter + 1, addr =>
    match Mem.rd store addr esz with
    | .ok e => if e = needle then .ok (some addr) else findLoop store needle esz iter (addr + esz)
    | _ => .oob

/-- `mpt_queue_find(queue, esz, cmp, arg)` with `cmp` = "element equals needle";
    result: physical index of the match -/
def find (r : Ring) (needle : List Byte) : Res (Option Nat) :=
  let esz := needle.length
  if esz = 0 then .fault
  else if r.len < esz then .null
  else if !r.frag then findLoop r.store needle esz (r.len / esz) r.off
  else
    let up := r.max - r.off
    match findLoop r.store needle esz (up / esz) r.off with
    | .ok (some a) => .ok (some a)
    | .ok none =>
      if up % esz ≠ 0 then .null
      else findLoop r.store needle esz ((r.len - up) / esz) 0
    | x => x

/-- `mpt_queue_string(queue)`: ring afterwards and the bytes before the terminator -/
def string (r : Ring) : Res (Ring × List Byte) :=
  let rem := r.max - r.len
  if rem = 0 then .null
  else
    let r1 : Res Ring := if rem ≤ r.off then r.align 0 else .ok r
    match r1 with
    | .ok r1 =>
      match Mem.wr r1.store (r1.off + r1.len) [0] with
      | .ok s =>
        match Mem.rd s r1.off r1.len with
        | .ok out => .ok ({ r1 with store := s }, out)
        | _ => .oob
      | _ => .oob
    | .err e => .err e
    | .null => .null | .oob => .oob | .fault => .fault

/-- logical content as the C struct denotes it: `base[(off+i) % max]`, `i < len` -/
def content (r : Ring) : List Byte :=
  ((r.store.drop r.off) ++ (r.store.take r.off)).take r.len

/-- test set-up used by the drivers: storage of `max` zero bytes, offset `off`, content written
    physically with wrap-around -/
def make (max off : Nat) (fill : List Byte) : Ring :=
  let z := List.replicate max (0 : Byte)
  let up := Nat.min fill.length (max - off)
  let s1 := Mem.write z off (fill.take up)
  let s2 := Mem.write s1 0 (fill.drop up)
  { store := s2, len := fill.length, off := off }

/-- the two free parts `mpt_queue_load` hands to `readv`: (length at the free start, length at the storage start) -/
def loadParts (low high len : Nat) : Nat × Nat :=
  if len = 0 then (low, high)
  else if len < low then (len, 0)
  else if len - low < high then (low, len - low)
  else (low, high)

/-- `mpt_queue_load(queue, fd, len)` where the descriptor has exactly `bytes` ready (and then end of file):
    `readv` fills the first free part, then the part at the storage start; result = bytes taken.
    `.err .BadValue` stands for the literal `-2` of a full queue. -/
def load (r : Ring) (len : Nat) (bytes : List Byte) : Res (Ring × Nat) :=
  match r.empty with
  | none => .err .BadValue
  | some (start, low, high) =>
    let (lo, hi) := loadParts low high len
    let k := min bytes.length (lo + hi)
    let a := bytes.take (min k lo)
    let b := (bytes.drop (min k lo)).take (k - min k lo)
    match Mem.wr r.store start a with
    | .ok s1 =>
      match Mem.wr s1 0 b with
      | .ok s2 => .ok ({ r with store := s2, len := r.len + k }, k)
      | _ => .oob
    | _ => .oob

/-- `mpt_queue_save(queue, fd)` with a descriptor that accepts everything: all content is written
    (first part, then the wrapped part) and removed from the queue -/
def save (r : Ring) : Res (Ring × List Byte) :=
  if r.len = 0 then .ok (r, [])
  else
    let low := r.low
    match Mem.rd r.store r.off low, Mem.rd r.store 0 (r.len - low) with
    | .ok a, .ok b =>
      match r.crop 0 r.len with
      | .ok (r1, _) => .ok (r1, a ++ b)
      | _ => .ok (r, a ++ b)
    | _, _ => .oob

/-! ### C++ `io::queue` (mpt++/io_queue.cpp): thin wrappers that grow the storage on demand -/

/-- `io::queue::push(data, len)`: `mpt_queue_prepare` (result ignored) then `mpt_qpush >= 0` -/
def xpush (r : Ring) (bytes : List Byte) : Res (Ring × Bool) :=
  match r.prepare bytes.length with
  | .ok (r1, _) =>
    match r1.qpush bytes.length (some bytes) with
    | .ok (r2, _) => .ok (r2, true)
    | .err _ => .ok (r1, false)
    | .null => .null | .oob => .oob | .fault => .fault
  | .err e => .err e | .null => .null | .oob => .oob | .fault => .fault

/-- `io::queue::unshift(data, len)` -/
def xunshift (r : Ring) (bytes : List Byte) : Res (Ring × Bool) :=
  match r.prepare bytes.length with
  | .ok (r1, _) =>
    match r1.qunshift bytes.length (some bytes) with
    | .ok (r2, _) => .ok (r2, true)
    | .err _ => .ok (r1, false)
    | .null => .null | .oob => .oob | .fault => .fault
  | .err e => .err e | .null => .null | .oob => .oob | .fault => .fault

/-- `io::queue::pop(data, len)`: with a target `mpt_qpop`, without one `mpt_queue_crop(len_ - len, len)` -/
def xpop (r : Ring) (n : Nat) (dst : Bool) : Res (Ring × Bool × List Byte) :=
  if dst then
    match r.qpop n true with
    -- the wrapper converts the returned pointer to bool: a queue without storage yields NULL
    | .ok (r1, out) => .ok (r1, r.max ≠ 0, out)
    | .null => .ok (r, false, [])
    | .err _ => .ok (r, false, []) | .oob => .oob | .fault => .fault
  else if r.len < n then .ok (r, false, [])   -- size_t underflow of the position: refused by crop
  else
    match r.crop (r.len - n) n with
    | .ok (r1, _) => .ok (r1, true, [])
    | .err _ => .ok (r, false, [])
    | .null => .null | .oob => .oob | .fault => .fault

/-- `io::queue::shift(data, len)` -/
def xshift (r : Ring) (n : Nat) (dst : Bool) : Res (Ring × Bool × List Byte) :=
  if dst then
    match r.qshift n true with
    | .ok (r1, out) => .ok (r1, r.max ≠ 0, out)
    | .null => .ok (r, false, [])
    | .err _ => .ok (r, false, []) | .oob => .oob | .fault => .fault
  else
    match r.crop 0 n with
    | .ok (r1, _) => .ok (r1, true, [])
    | .err _ => .ok (r, false, [])
    | .null => .null | .oob => .oob | .fault => .fault

/-- the element loop of `io::queue::write`: push `part` bytes per element, stop at the first refusal -/
def xwriteLoop (r : Ring) (part : Nat) : List (List Byte) → Nat → Res (Ring × Nat)
  | [], done => .ok (r, done)
  | e :: es, done =>
    match r.qpush part (some e) with
    | .ok (r1, _) => xwriteLoop r1 part es (done + 1)
    | .err _ => .ok (r, done)
    | .null => .null | .oob => .oob | .fault => .fault

/-- `io::queue::write(len, data, part)` with `part ≠ 0`; `elems` are the `len` elements of `part` bytes -/
def xwrite (r : Ring) (part : Nat) (elems : List (List Byte)) : Res (Ring × Nat) :=
  -- prepare(part*len), on failure prepare(part): allocation never fails in the model
  match r.prepare (part * elems.length) with
  | .ok (r1, _) => xwriteLoop r1 part elems 0
  | .err e => .err e | .null => .null | .oob => .oob | .fault => .fault

/-- `io::queue::read(len, data, part)`: `len` times `mpt_qpop(part)` (last element first) -/
def xread (r : Ring) (part : Nat) : Nat → Res (Ring × List (List Byte))
  | 0 => .ok (r, [])
  | k + 1 =>
    match r.qpop part true with
    | .ok (r1, out) =>
      match xread r1 part k with
      | .ok (r2, outs) => .ok (r2, out :: outs)
      | x => x
    | .null => .ok (r, [])
    | .err _ => .ok (r, []) | .oob => .oob | .fault => .fault

/-- `io::queue::peek(len)`: ring afterwards (may be re-aligned) and the bytes of the returned span -/
def xpeek (r : Ring) (n : Nat) : Res (Ring × List Byte) :=
  let low := r.low
  let n := if n = 0 then r.len else n
  if n ≤ low then
    match Mem.rd r.store r.off low with
    | .ok out => .ok (r, out)
    | _ => .oob
  else if !r.frag then
    match Mem.rd r.store r.off r.len with
    | .ok out => .ok (r, out)
    | _ => .oob
  else
    match r.align 0 with
    | .ok r1 =>
      match Mem.rd r1.store 0 r1.len with
      | .ok out => .ok (r1, out)
      | _ => .oob
    | .err e => .err e | .null => .null | .oob => .oob | .fault => .fault

end Ring
end Mpt
