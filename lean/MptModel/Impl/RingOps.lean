/-
  One step of the queue model for every operation the drivers issue (`Deque.XOp`), with the observable
  outcome (`Deque.XOut`) and the return code as text (internal, `I` column).  This is the function the model
  driver executes and the subject of `C13.stepX_sound`.  Core Lean only.
-/
import MptModel.Impl.Ring
import MptModel.Spec.Deque
namespace Mpt
namespace Ring
open Deque (XOp XOut sizeMax)

/-- `mpt_queue_prepare` with its size_t overflow guard (queue_resize.c): the request is refused (return 0,
    EOVERFLOW) before anything is touched when used size + request + pointer size would exceed SIZE_MAX -/
def prepareC (r : Ring) (n : Nat) : Res (Ring × Nat) :=
  let left := r.max - r.len
  if n > left ∧ n - left > sizeMax - 8 - r.max then .ok (r, 0)
  else r.prepare n

/-- `mpt_queue_save(queue, fd)` with a descriptor that accepts at most `accept` bytes in this call: `writev` gets
    the two parts, the bytes it wrote are removed from the front -/
def saveN (r : Ring) (accept : Nat) : Res (Ring × List Byte) :=
  if r.len = 0 then .ok (r, [])
  else
    let low := r.low
    match Mem.rd r.store r.off low, Mem.rd r.store 0 (r.len - low) with
    | .ok a, .ok b =>
      let out := (a ++ b).take accept
      if out.length = 0 then .ok (r, [])
      else
        match r.crop 0 out.length with
        | .ok (r1, _) => .ok (r1, out)
        | _ => .ok (r, out)
    | _, _ => .oob

/-- `mpt_message_get(queue, off, take, msg, vec)` (message_get.c): the view of `take` bytes at logical position
    `off`, as (bytes of the first part, bytes of the continuation); `vec = false` models a null vector -/
def mget (r : Ring) (off take : Nat) (vec : Bool) : Res (List Byte × List Byte) :=
  let low0 := r.low
  let high0 := r.len - low0
  let sel : Res (Nat × Nat × Nat) :=
    if off < low0 then .ok (r.off + off, low0 - off, high0)
    else
      let len := off - low0
      if len > high0 then .err .BadArgument
      else .ok (len, high0 - len, 0)
  match sel with
  | .ok (base, low, high) =>
    if take > low + high then .err .BadValue
    else if take ≤ low then
      match Mem.rd r.store base take with
      | .ok a => .ok (a, [])
      | _ => .oob
    else if !vec then .err .BadType
    else
      match Mem.rd r.store base low, Mem.rd r.store 0 (take - low) with
      | .ok a, .ok b => .ok (a, b)
      | _, _ => .oob
  | .err e => .err e
  | .null => .null | .oob => .oob | .fault => .fault

/-- `io::queue::read(len, 0, part)`: without a target the elements are discarded for as long as `mpt_qpop`
    can hand out a pointer (an element stored in two pieces stops the loop); result = elements removed -/
def xreadNull (r : Ring) (part : Nat) : Nat → Res (Ring × Nat)
  | 0 => .ok (r, 0)
  | k + 1 =>
    match r.qpop part false with
    | .ok (r1, _) =>
      match xreadNull r1 part k with
      | .ok (r2, n) => .ok (r2, n + 1)
      | x => x
    | .null => .ok (r, 0)
    | .err _ => .ok (r, 0) | .oob => .oob | .fault => .fault

def resText {α} : Res α → String
  | .ok _ => "ok" | .err e => e.name | .null => "null" | .oob => "OOB" | .fault => "FAULT"

/-- refusal / model failure of a step: `.err`/`.null` = the call refused; the C functions return before
    any write on these paths, which the model expresses by returning no new ring at all -/
def failX {α} (r : Ring) (x : Res α) : Ring × XOut × String :=
  match x with
  | .err _ => (r, .refused, resText x)
  | .null => (r, .refused, resText x)
  | _ => (r, .bad, resText x)

/-- logical position of the physical index `a` -/
def logicalPos (r : Ring) (a : Nat) : Nat := if a ≥ r.off then a - r.off else a + r.max - r.off

def stepX (r : Ring) : XOp → Ring × XOut × String
  | .push n data => match r.qpush n data with
    | .ok (r', ret) => (r', .ok [], toString ret) | x => failX r x
  | .unshift n data => match r.qunshift n data with
    | .ok (r', ret) => (r', .ok [], toString ret) | x => failX r x
  | .pop n dst => match r.qpop n dst with
    | .ok (r', out) => (r', .ok out, "ptr") | x => failX r x
  | .shift n dst => match r.qshift n dst with
    | .ok (r', out) => (r', .ok out, "ptr") | x => failX r x
  | .crop pos n => match r.crop pos n with
    | .ok (r', ret) => (r', .ok [], toString ret) | x => failX r x
  | .set pos n data => match r.set pos n data with
    | .ok (r', ret) => (r', .ok [], toString ret) | x => failX r x
  | .get pos n dst => match r.get pos n dst with
    | .ok (ret, out) => (r, .ok out, toString ret) | x => failX r x
  | .align pos => match r.align pos with
    | .ok r' => (r', .ok [], "0") | x => failX r x
  | .resize n => match r.resize n with
    | .ok r' => (r', .ok [], "ptr") | x => failX r x
  | .prepare n => match r.prepareC n with
    | .ok (r', left) => if n ≤ left then (r', .ok [], toString left) else (r', .refused, toString left)
    | x => failX r x
  | .find needle => match r.find needle with
    | .ok (some a) => (r, .found (r.logicalPos a), toString a)
    | .ok none => (r, .notFound, "null")
    | x => failX r x
  | .string => match r.string with
    | .ok (r', out) => (r', .ok out, "ptr") | x => failX r x
  | .load len avail => match r.load len avail with
    | .ok (r', n) => (r', .okN n [], toString n) | x => failX r x
  | .save accept => match r.saveN accept with
    | .ok (r', out) => (r', .okN out.length out, toString out.length) | x => failX r x
  | .mget off take vec => match r.mget off take vec with
    | .ok (a, b) => (r, .ok (a ++ b), if b.isEmpty then "0" else "1") | x => failX r x

end Ring
end Mpt
