/-
  Vocabulary of the *generated* converter tables (`Generated/ConvInt.lean`, written by
  translate/cextract.py from mptcore/convert/data_convert_int.c and data_convert_float.c).
  Core Lean only.  The evaluator over these tables is `Impl/Convert.lean`.
-/
import MptModel.Basic
namespace Mpt.Conv

/-- C arithmetic types as they occur as source, comparison and store types (LP64, x86-64;
    plain `char` is `i8`) -/
inductive CTy where
  | i8 | u8 | i16 | u16 | i32 | u32 | i64 | u64 | f32 | f64 | f80
  deriving DecidableEq, Repr, Inhabited

inductive Cmp where
  | lt | le | gt | ge | eq | ne
  deriving DecidableEq, Repr

/-- one operand of a guard condition -/
inductive Atom where
  /-- `(cty) val <op> k` : `val` converted to the comparison type, `k` already of that type -/
  | cmp (op : Cmp) (cty : CTy) (k : Int)
  /-- `!isgraph(val)` : glibc table lookup with index `(idx) val` -/
  | notIsgraph (idx : CTy)
  deriving DecidableEq, Repr

/-- `if (c11 && c12 .. || c21 && .. || ..) return MPT_ERROR(err);` -/
structure Guard where
  conds : List (List Atom)
  err : Err
  deriving DecidableEq, Repr

/-- one `case` of the converter's switch, fall-through resolved:
    guards, then `*((store *) dest) = val;` — bare, or under `if (dest)`, where the `if (dest) { .. }` block
    may contain further guards (`destGuards`) in front of the store —, then `return ret;` -/
structure Case where
  code : Nat
  guards : List Guard
  destGuards : List Guard
  store : CTy
  guarded : Bool
  ret : Nat
  deriving DecidableEq, Repr

structure Fn where
  name : String
  src : CTy
  /-- `if (type == a) type = b;` in front of the switch -/
  alias : Option (Nat × Nat)
  dflt : Err
  /-- case labels in the vector range (bodies not translated) -/
  vectors : List Nat
  cases : List Case
  deriving Repr

end Mpt.Conv
