/-
  Vocabulary of the *generated* converter tables (`Generated/ConvInt.lean`, written by
  translate/cextract.py from mptcore/convert/data_convert_int.c and data_convert_float.c).
  Core Lean only.  The evaluator over these tables is `Impl/Convert.lean`.
-/
import MptModel.Basic
namespace Mpt.Conv

/-- C arithmetic types as they occur as source, comparison and store types (LP64, x86-64;
    plain `char` is `i8`) -/
inductive CTy where
  | i8 | u8 | i16 | u16 | i32 | u32 | i64 | u64 | f32 | f64 | f80
  deriving DecidableEq, Repr, Inhabited

inductive Cmp where
  | lt | le | gt | ge | eq | ne
  deriving DecidableEq, Repr

/-- one operand of a guard condition -/
inductive Atom where
  /-- `(cty) val <op> k` : `val` converted to the comparison type, `k` already of that type -/
  | cmp (op : Cmp) (cty : CTy) (k : Int)
  /-- `!isgraph(val)` : glibc table lookup with index `(idx) val` -/
  | notIsgraph (idx : CTy)
  deriving DecidableEq, Repr

/-- `if (c11 && c12 .. || c21 && .. || ..) return MPT_ERROR(err);` -/
structure Guard where
  conds : List (List Atom)
  err : Err
  deriving DecidableEq, Repr

/-- one `case` of the converter's switch, fall-through resolved:
    guards, then `*((store *) dest) = val;` — bare, or under `if (dest)`, where the `if (dest) { .. }` block
    may contain further guards (`destGuards`) in front of the store —, then `return ret;` -/
structure Case where
  code : Nat
  guards : List Guard
  destGuards : List Guard
  store : CTy
  guarded : Bool
  ret : Nat
  deriving DecidableEq, Repr

structure Fn where
  name : String
  src : CTy
  /-- `if (type == a) type = b;` in front of the switch -/
  alias : Option (Nat × Nat)
  dflt : Err
  /-- case labels in the vector range (bodies not translated) -/
  vectors : List Nat
  cases : List Case
  deriving Repr

/-! ### text parsers (`Generated/ConvText.lean`, from convert_int.c, cfloat.c, cdouble.c, cldouble.c, convert_number.c) -/

/-- operand of a test that follows the `strto*` call -/
inductive TextAtom where
  /-- `errno == ERANGE` -/
  | erange
  /-- the text has a minus sign: `sign = src; while (isspace(*sign)) ++sign; *sign == '-'` -/
  | minus
  /-- a test that involves the optional `range` argument (NULL in every call considered here) -/
  | rangeArg
  /-- a comparison of `tmp`, the value `strto*` returned -/
  | val (a : Atom)
  deriving DecidableEq, Repr

/-- `if (c11 && .. || c21 && ..) return MPT_ERROR(err);` in disjunctive normal form -/
structure TextGuard where
  conds : List (List TextAtom)
  err : Err
  deriving DecidableEq, Repr

/-- one `case sizeof(T):` of the `switch (vlen)`: range tests, then `[if (val)] *((store *) val) = tmp;` -/
structure WidthCase where
  size : Nat
  guards : List TextGuard
  store : CTy
  guarded : Bool
  deriving DecidableEq, Repr

/-- `_mpt_convert_int`, `_mpt_convert_uint`, `mpt_cfloat`, `mpt_cdouble`, `mpt_cldouble`:
    empty text -> 0; `[errno = 0;] tmp = strto(src, &end ..)`; nothing converted -> 0 for blank text, else BadType;
    `guards`; the width switch (a single entry for the floating parsers); `return end - src` -/
structure TextParser where
  name : String
  strto : String
  tmpTy : CTy
  errnoReset : Bool
  dflt : Err
  guards : List TextGuard
  widths : List WidthCase
  deriving Repr

end Mpt.Conv
