/-
  Exactly representable numbers of the line protocols (C18, C19): a rational is exchanged with the C
  drivers only when it is a dyadic fraction that fits an IEEE-754 binary64 normal number, printed as the
  hex of its bit pattern.  Anything else is reported as `inexact` by the model driver (the generators never
  produce such values on purpose; a script that does is outside the compared domain).
-/
import MptModel.Basic
namespace Mpt.Dyadic

/-- number of binary digits of `n` (0 for 0) -/
def bitLen (n : Nat) : Nat := if n = 0 then 0 else Nat.log2 n + 1

/-- exponent of the largest power of two dividing `n > 0` (fuel = bit length) -/
def twoAdic : Nat → Nat → Nat
  | 0, _ => 0
  | fuel + 1, n => if n ≠ 0 ∧ n % 2 = 0 then twoAdic fuel (n / 2) + 1 else 0

def isPow2 (n : Nat) : Bool := n ≠ 0 && n == 2 ^ (Nat.log2 n)

/-- IEEE-754 binary64 bit pattern of `q`, if `q` is exactly representable as a normal number or zero -/
def bits (q : Rat) : Option Nat :=
  if q = 0 then some 0
  else if !isPow2 q.den then none
  else
    let k := Nat.log2 q.den
    let a := q.num.natAbs
    let j := twoAdic (bitLen a) a
    let m := a / 2 ^ j                      -- odd
    let L := bitLen m
    if 53 < L then none
    else
      let e : Int := (L : Int) - 1 + (j : Int) - (k : Int)
      if e < -1022 ∨ 1023 < e then none
      else
        let frac := m * 2 ^ (53 - L) - 2 ^ 52
        let sign := if q.num < 0 then 2 ^ 63 else 0
        some (sign + (e + 1023).toNat * 2 ^ 52 + frac)

def hex16 (n : Nat) : String :=
  String.ofList ((List.range 16).map fun i => hexDigit ((n / 16 ^ (15 - i)) % 16))

/-- text form used in result lines -/
def text (q : Rat) : String :=
  match bits q with
  | some b => hex16 b
  | none => s!"inexact({q.num}/{q.den})"

/-- strict decimal digits (no sign, no separators), at most 18 of them -/
def parseNat (s : String) : Option Nat :=
  let cs := s.toList
  if cs.isEmpty ∨ 18 < cs.length ∨ !cs.all (fun c => '0' ≤ c ∧ c ≤ '9') then none
  else some (cs.foldl (fun acc c => acc * 10 + (c.toNat - 48)) 0)

def parseInt (s : String) : Option Int :=
  match s.toList with
  | '-' :: rest => (parseNat (String.ofList rest)).map fun n => -(n : Int)
  | _ => (parseNat s).map fun n => (n : Int)

/-- operand syntax `[-]digits[/digits]`, denominator a power of two ≤ 2^60, |numerator| < 2^53 -/
def parse (s : String) : Option Rat :=
  match s.splitOn "/" with
  | [n] =>
    match parseInt n with
    | some v => if v.natAbs < 2 ^ 53 then some (v : Rat) else none
    | none => none
  | [n, d] =>
    match parseInt n, parseNat d with
    | some v, some dd =>
      if v.natAbs < 2 ^ 53 ∧ isPow2 dd ∧ dd ≤ 2 ^ 60 then some ((v : Rat) / (dd : Rat)) else none
    | _, _ => none
  | _ => none

end Mpt.Dyadic
