/-
  M for C15: `mpt_refcount_raise/lower` (mptcore/misc/refcount.c) on naturals with the explicit 2^64 wrap
  of `uintptr_t`, and a generic reference-count machine: objects with a counter and an "alive" flag whose
  vtable is `addref = raise`, `unref = lower, destroy at 0` (the harness metatype/buffer, the library heap
  buffer `_mpt_buffer_alloc_ref/unref`, `mpt_rawdata_create`: `rd_ref/rd_unref`), handles that name an
  object, and the generic operations on handles:

    take/copy   `_meta_ref_init` (meta/meta_reference_traits.c), `_array_init` (array/array_traits.c)
    drop        `_meta_ref_fini`, `_array_fini`
    assign      `_mpt_metatype_wrap` (convert/data_converter.c, TypeMetaRef) for metatype handles,
                `mpt_array_clone` (array/array_clone.c) for buffer handles

  Core Lean only (linked into mm_refcount).
-/
import MptModel.Basic

namespace Mpt.Refcount

/-- `UINTPTR_MAX` on LP64 -/
def MAXV : Nat := 18446744073709551615

/-- `mpt_refcount_raise(ref)`: (new `_val`, returned value); `++` and `--` wrap modulo 2^64 -/
def raise (v : Nat) : Nat × Nat :=
  if v = 0 then (0, 0)
  else
    let w := (v + 1) % (MAXV + 1)
    if w ≠ 0 then (w, w) else ((w + MAXV) % (MAXV + 1), 0)

/-- `mpt_refcount_lower(ref)`: (new `_val`, returned value) -/
def lower (v : Nat) : Nat × Nat :=
  if v = 0 then (0, MAXV)
  else
    let w := (v + MAXV) % (MAXV + 1)     -- `--ref->_val`
    (w, w)

/-- object kinds of the driver -/
inductive OKind where
  | hmeta | hbuf | rbuf | raw
  deriving Repr, DecidableEq, Inhabited

/-- a reference-counted object: counter, alive flag, references held outside the handles -/
structure RObj where
  kind : OKind
  count : Nat
  alive : Bool
  ext : Nat
  elems : List Nat := []     -- element tokens of a library buffer (finalised when it is destroyed)
  cap : Nat := 0             -- capacity of a library buffer in bytes
  deriving Repr, DecidableEq, Inhabited

/-- element callback of a library buffer: finalised / copy-constructed token -/
inductive ElEv where
  | fini (t : Nat)
  | copy (t : Nat)
  deriving Repr, DecidableEq, Inhabited

/-- what happened to one object during an operation -/
structure Ev where
  add : Nat := 0
  unref : Nat := 0
  destroyed : Bool := false
  dead : Bool := false        -- addref/unref reached an object that was already destroyed
  deriving Repr, DecidableEq, Inhabited

structure St where
  objs : List RObj := []
  hnd : List (Option Nat) := [none, none, none]
  ev : List Ev := []
  elog : List ElEv := []      -- element callbacks of this operation, in order
  deriving Repr, DecidableEq, Inhabited

def St.obj (s : St) (o : Nat) : RObj := s.objs.getD o default
def St.evOf (s : St) (o : Nat) : Ev := s.ev.getD o {}

def St.clearEv (s : St) : St := { s with ev := s.objs.map (fun _ => {}), elog := [] }

/-- vtable `addref`: returns the new count, 0 = failure -/
def St.addref (s : St) (o : Nat) : St × Nat :=
  let ob := s.obj o
  let e := s.evOf o
  if !ob.alive then ({ s with ev := s.ev.set o { e with add := e.add + 1, dead := true } }, 0)
  else
    let r := raise ob.count
    ({ s with objs := s.objs.set o { ob with count := r.1 }, ev := s.ev.set o { e with add := e.add + 1 } }, r.2)

/-- vtable `unref`: destroys the object when the lowered count is 0 -/
def St.unref (s : St) (o : Nat) : St :=
  let ob := s.obj o
  let e := s.evOf o
  if !ob.alive then { s with ev := s.ev.set o { e with unref := e.unref + 1, dead := true } }
  else
    let r := lower ob.count
    if r.2 ≠ 0 then
      { s with objs := s.objs.set o { ob with count := r.1 }, ev := s.ev.set o { e with unref := e.unref + 1 } }
    else
      { s with objs := s.objs.set o { ob with count := r.1, alive := false },
               ev := s.ev.set o { e with unref := e.unref + 1, destroyed := true },
               elog := s.elog ++ ob.elems.map ElEv.fini }

/-- handles of metatype objects hold a pointer, handles of buffers an array -/
def OKind.isMeta : OKind → Bool
  | .hmeta => true | .raw => true | _ => false

/-- result of a generic operation -/
inductive RRet where
  | ok (n : Nat)
  | err (e : Err)
  deriving Repr, DecidableEq

/-- `traits->init(&h, &src)` with `src` naming object `o`: `_meta_ref_init` / `_array_init` -/
def St.take (s : St) (h o : Nat) : St × RRet :=
  if (s.addref o).2 = 0 then ((s.addref o).1, .err .BadOperation)
  else ({ (s.addref o).1 with hnd := (s.addref o).1.hnd.set h (some o) }, .ok 1)

/-- `traits->init(&h, &g)` -/
def St.copy (s : St) (h g : Nat) : St × RRet :=
  match s.hnd.getD g none with
  | none => (s, .ok 0)
  | some o => s.take h o

/-- `traits->fini(&h)` -/
def St.drop (s : St) (h : Nat) : St :=
  match s.hnd.getD h none with
  | none => s
  | some o => { (s.unref o) with hnd := (s.unref o).hnd.set h none }

/-- retain the new referent of an assignment: the state and whether it worked (`none`: nothing to retain) -/
def St.retain (s : St) (src : Option Nat) : St × Bool :=
  match src with
  | none => (s, true)
  | some n => ((s.addref n).1, (s.addref n).2 ≠ 0)

/-- release the replaced referent -/
def St.release (s : St) (old : Option Nat) : St :=
  match old with
  | none => s
  | some o => s.unref o

/-- `_mpt_metatype_wrap(&src, TypeMetaRef, &h)`: retain the new referent, release the replaced one -/
def St.assignMeta (s : St) (h : Nat) (src : Option Nat) : St × RRet :=
  if !(s.retain src).2 then ((s.retain src).1, .err .BadOperation)
  else
    ({ ((s.retain src).1.release (s.hnd.getD h none)) with
         hnd := ((s.retain src).1.release (s.hnd.getD h none)).hnd.set h src }, .ok 8)

/-- content traits of a buffer kind (harness buffers have none, library buffers the logged elements) -/
def traitsOf (s : St) (o : Option Nat) : Option OKind := o.map fun i => (s.obj i).kind

/-- `mpt_array_clone(&h, &src)` -/
def St.assignArr (s : St) (h : Nat) (src : Option Nat) : St × RRet :=
  if src = s.hnd.getD h none then (s, .ok 0)
  else if src.isSome ∧ (s.hnd.getD h none).isSome ∧ traitsOf s src ≠ traitsOf s (s.hnd.getD h none) then (s, .err .BadType)
  else if !(s.retain src).2 then ((s.retain src).1, .err .BadOperation)
  else
    (({ (s.retain src).1 with hnd := (s.retain src).1.hnd.set h src } : St).release (s.hnd.getD h none),
     .ok ((if (s.hnd.getD h none).isSome then 2 else 0) + (if src.isSome then 1 else 0)))

/-- `_mpt_buffer_alloc(len, ..)`: usable bytes of a heap buffer asked for `len` bytes (64 byte header, the
    allocation is a multiple of 128) -/
def capOf (len : Nat) : Nat := ((len + 63) / 128 + 1) * 128 - 64

/-- the private copy a detach hands out: object `o` gives up one reference (`clear`: its elements were moved,
    not copied), a new buffer with the elements `els` and one reference is appended and stored in handle `h` -/
def St.relocateWith (s : St) (h o : Nat) (newcap : Nat) (clear : Bool) (els : List Nat) : St :=
  let ob := s.obj o
  let s1 : St :=
    if clear then { s with objs := s.objs.set o { ob with elems := [] } }
    else { s with elog := s.elog ++ els.map ElEv.copy }
  let s2 := s1.unref o
  let nb : RObj := { kind := .rbuf, count := 1, alive := true, ext := 0, elems := els, cap := newcap }
  let s3 : St := { s2 with objs := s2.objs ++ [nb], ev := s2.ev ++ [{}] }
  { s3 with hnd := s3.hnd.set h (some s2.objs.length) }

def St.relocate (s : St) (h o : Nat) (newcap : Nat) (clear : Bool) : St :=
  s.relocateWith h o newcap clear (s.obj o).elems

/-- `buf->_vptr->detach(buf, len * 8)` on the library heap buffer behind handle `h` (elements of 8 bytes):
    the state and whether a buffer was returned -/
def St.detach (s : St) (h len : Nat) : St × Bool :=
  match s.hnd.getD h none with
  | none => (s, false)
  | some o =>
    let ob := s.obj o
    if ob.count < 2 then
      if len * 8 ≤ ob.cap then (s, true)                                   -- unique and large enough: kept
      else (s.relocate h o (capOf (len * 8)) true, true)                   -- unique: content moved
    else if ob.elems.length * 8 > capOf (len * 8) then (s, false)          -- copy does not fit: refused, still shared
    else (s.relocate h o (capOf (len * 8)) false, true)                    -- shared: content copied

/-! ### the C++ handle class `mpt::reference<T>` (mptcore/core.h)

  Objects may OWN a handle (`next`): handle slot `nroot + o` of the state is the handle owned by object `o`,
  slots below `nroot` are free-standing handles.  Destroying an object destroys its handle (`delete this` runs
  `~reference()`): modelled by `cascade`, which drops the slots of destroyed objects until none is left. -/

/-- `reference & operator= (reference const &ref)` on slot `h`, `src` = the referent of `ref`:
    nothing for the same referent; else retain the new one (a failed retain leaves the handle EMPTY), release
    the old one, store -/
def St.assignRef (s : St) (h : Nat) (src : Option Nat) : St :=
  if src = s.hnd.getD h none then s
  else
    { ((s.retain src).1.release (s.hnd.getD h none)) with
        hnd := ((s.retain src).1.release (s.hnd.getD h none)).hnd.set h (if (s.retain src).2 then src else none) }

/-- `reference & operator= (reference &&ref)`: `ref` (slot `g`) is emptied, `set_instance` releases the old
    referent of `h` and stores the moved one -/
def St.moveRef (s : St) (h g : Nat) : St :=
  if h = g then s
  else
    { (({ s with hnd := s.hnd.set g none } : St).release (s.hnd.getD h none)) with
        hnd := (({ s with hnd := s.hnd.set g none } : St).release (s.hnd.getD h none)).hnd.set h (s.hnd.getD g none) }

/-- `T *detach()`: the handle is emptied, its reference lives on outside -/
def St.detachRef (s : St) (h : Nat) : St :=
  match s.hnd.getD h none with
  | none => s
  | some o => { s with hnd := s.hnd.set h none, objs := s.objs.set o { (s.obj o) with ext := (s.obj o).ext + 1 } }

/-- a destroyed object whose owned handle still refers to something -/
def St.pendingOwner (s : St) (nroot : Nat) : Option Nat :=
  (List.range s.objs.length).find? fun o => !(s.obj o).alive && (s.hnd.getD (nroot + o) none).isSome

/-- destroy the handles owned by destroyed objects -/
def St.cascade (s : St) (nroot : Nat) : Nat → St
  | 0 => s
  | fuel + 1 =>
    match s.pendingOwner nroot with
    | none => s
    | some o => (s.drop (nroot + o)).cascade nroot fuel

/-- `mpt_array_reserve(&h, len * 8, element traits)` on an array handle that is empty or names a library heap
    buffer of the same element type: an empty handle gets a new buffer; a shared buffer is replaced by a new one
    holding copies of all its elements and is released; an unshared one is detached in place -/
def St.reserve (s : St) (h len : Nat) : St × Bool :=
  match s.hnd.getD h none with
  | none =>
    let nb : RObj := { kind := .rbuf, count := 1, alive := true, ext := 0, elems := [], cap := capOf (len * 8) }
    ({ s with objs := s.objs ++ [nb], ev := s.ev ++ [{}], hnd := s.hnd.set h (some s.objs.length) }, true)
  | some o =>
    if (s.obj o).count > 1 then
      (s.relocateWith h o (capOf (max (len * 8) ((s.obj o).elems.length * 8))) false (s.obj o).elems, true)
    else s.detach h len

/-! ### `mpt::unique_array<T>` (mptcore/array.h): handles of BufferNoCopy heap buffers; `none` = the static
     empty default buffer every fresh handle names -/

/-- `unique_array<T>::reserve()`: take the buffer out of the handle, ask it for a private copy, put the result —
    or, when the buffer refuses (shared and not empty: BufferNoCopy), the OLD buffer — back -/
def St.uaPrivate (s : St) (a : Nat) : St × Bool :=
  match s.hnd.getD a none with
  | none =>
    let nb : RObj := { kind := .rbuf, count := 1, alive := true, ext := 0, elems := [] }
    ({ s with objs := s.objs ++ [nb], ev := s.ev ++ [{}], hnd := s.hnd.set a (some s.objs.length) }, true)
  | some b =>
    if (s.obj b).count > 1 then
      if (s.obj b).elems.isEmpty then (s.relocateWith a b 0 false [], true) else (s, false)
    else (s, true)

/-- elements constructed / destroyed up to length `n` in the (private) buffer of handle `a` -/
def St.uaSetLen (s : St) (a n : Nat) : St :=
  match s.hnd.getD a none with
  | none => s
  | some b => { s with objs := s.objs.set b { (s.obj b) with elems := List.replicate n 0 } }

def St.uaLen (s : St) (a : Nat) : Nat :=
  match s.hnd.getD a none with | none => 0 | some b => (s.obj b).elems.length

/-- `insert(length())` -/
def St.uaInsert (s : St) (a : Nat) : St × Bool :=
  let n := s.uaLen a
  if (s.uaPrivate a).2 then ((s.uaPrivate a).1.uaSetLen a (n + 1), true) else ((s.uaPrivate a).1, false)

/-- `resize(n)` -/
def St.uaResize (s : St) (a n : Nat) : St × Bool :=
  if (s.uaPrivate a).2 then ((s.uaPrivate a).1.uaSetLen a n, true) else ((s.uaPrivate a).1, false)

/-- the kind of handle an object needs -/
def St.isMetaObj (s : St) (o : Nat) : Bool := (s.obj o).kind.isMeta

/-- external reference taken / given back through the vtable -/
def St.extAdd (s : St) (o : Nat) : St × Bool :=
  if (s.addref o).2 ≠ 0 then
    ({ (s.addref o).1 with objs := (s.addref o).1.objs.set o { ((s.addref o).1.obj o) with ext := ((s.addref o).1.obj o).ext + 1 } }, true)
  else ((s.addref o).1, false)

def St.extUnref (s : St) (o : Nat) : St :=
  { (s.unref o) with objs := (s.unref o).objs.set o { ((s.unref o).obj o) with ext := ((s.unref o).obj o).ext - 1 } }

/-! ### histories: the operations of a history and the machine step the driver part `r` executes -/

def RRet.isOk : RRet → Bool
  | .ok _ => true | .err _ => false

/-- operations of a history (any mix of pointer handles and array handles) -/
inductive Op where
  | create (kind : OKind) (n : Nat) (elems : List Nat)   -- a new object, its creator holds `n` (external) references
  | take (h o : Nat)                          -- empty handle := reference to object o
  | copy (h g : Nat)                          -- empty handle := copy of handle g
  | drop (h : Nat)
  | assignMeta (h : Nat) (src : Option Nat)   -- through `_mpt_metatype_wrap`
  | assignArr (h : Nat) (src : Option Nat)    -- through `mpt_array_clone`
  | extAdd (o : Nat)                          -- external reference taken
  | extUnref (o : Nat)                        -- external reference given back (only if one is held)
  | detach (h len : Nat)                      -- private copy of the heap buffer behind handle h (`buffer::detach`)
  | reserve (h len : Nat)                     -- `mpt_array_reserve`: private buffer for len elements
  deriving Repr

/-- requests the drivers accept (anything else is `bad-op` and leaves the state as it is) -/
def St.valid (s : St) : Op → Bool
  | .create _ n _ => decide (n ≤ MAXV)
  | .take h o => decide (h < s.hnd.length ∧ s.hnd.getD h none = none ∧ o < s.objs.length)
  | .copy h g => decide (h < s.hnd.length ∧ s.hnd.getD h none = none ∧ g < s.hnd.length)
  | .drop h => decide (h < s.hnd.length)
  | .assignMeta h src => decide (h < s.hnd.length ∧ ∀ n, src = some n → n < s.objs.length)
  | .assignArr h src => decide (h < s.hnd.length ∧ ∀ n, src = some n → n < s.objs.length)
  | .extAdd o => decide (o < s.objs.length)
  | .extUnref o => decide (1 ≤ (s.obj o).ext)
  | .detach h _ => decide (h < s.hnd.length)
  | .reserve h _ => decide (h < s.hnd.length)

/-- one operation: the state afterwards and whether it was accepted -/
def St.exec (s : St) (op : Op) : St × Bool :=
  if !s.valid op then (s, false) else
  match op with
  | .create k n els =>
    ({ s with objs := s.objs ++ [{ kind := k, count := n, alive := true, ext := n, elems := els, cap := capOf (els.length * 8) }],
              ev := s.ev ++ [{}] }, true)
  | .take h o => ((s.take h o).1, (s.take h o).2.isOk)
  | .copy h g => ((s.copy h g).1, (s.copy h g).2.isOk)
  | .drop h => (s.drop h, true)
  | .assignMeta h src => ((s.assignMeta h src).1, (s.assignMeta h src).2.isOk)
  | .assignArr h src => ((s.assignArr h src).1, (s.assignArr h src).2.isOk)
  | .extAdd o => s.extAdd o
  | .extUnref o => (s.extUnref o, true)
  | .detach h len => s.detach h len
  | .reserve h len => s.reserve h len

def step (s : St) (op : Op) : St := (s.exec op).1

def run (s : St) : List Op → St
  | [] => s
  | op :: ops => run (step s op) ops

/-- give back the external references of object `o` at the end of a script (`fuel` bounds the loop) -/
def St.endObj (s : St) (o : Nat) : Nat → St
  | 0 => s
  | fuel + 1 =>
    let ob := s.obj o
    match ob.kind with
    | .hmeta | .hbuf =>
      if ob.alive ∧ ob.ext ≠ 0 ∧ ob.ext < 16 then (s.extUnref o).endObj o fuel else s
    | _ => if ob.ext ≠ 0 then s.extUnref o else s

def St.endAll (s : St) : St :=
  let s1 := (List.range s.hnd.length).foldl (fun st h => st.drop h) s
  (List.range s1.objs.length).foldl (fun st o => st.endObj o 16) s1

end Mpt.Refcount
