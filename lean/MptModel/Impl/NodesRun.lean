/-
  Histories of node operations the way both drivers perform them: the specification state decides whether the
  precondition of a call holds (otherwise the call is skipped), the model executes the C function.
-/
import MptModel.Impl.Nodes
import MptModel.Spec.Forest
namespace Mpt.Nodes
open Mpt Mpt.Forest

/-- model store and specification state side by side -/
structure NSt where
  m : Store := {}
  sp : Forest.St := {}
  /-- what the last call returned as a number (moved nodes) -/
  ret : Nat := 0
  deriving Inhabited

inductive NOp where
  | new (n : Name) (v : Val)
  | after (p x : Nat)
  | before (p x : Nat)
  | add (first : Nat) (pos : Int) (x : Nat) (byName : Bool)
  | insert (parent : Nat) (pos : Int) (x : Nat) (byName : Bool)
  | unlink (x : Nat)
  | move (a b : Nat)
  | clone (x : Nat) (mode : Nat)
  | clear (x : Nat)
  | destroy (x : Nat)

/-- where the drivers keep the list reference they hand to `mpt_node_move`: the parent's child link when the node is
    a first child, a variable otherwise -/
def slotOf (m : Store) (a : Nat) : Res Store.Slot := do
  let an ← m.get a
  match an.parent with
  | none => pure Store.Slot.loc
  | some p => do
    let pn ← m.get p
    pure (if pn.children = some a then Store.Slot.kids p else Store.Slot.loc)

/-- the specification state with the next handle taken from the store's record count (handles are record numbers) -/
def NSt.spec (s : NSt) : Forest.St := { s.sp with next := s.m.nodes.length }

/-- one operation: skipped when the specification says the call's precondition does not hold -/
def runOp (s : NSt) (op : NOp) : Res NSt :=
  let sp := s.spec
  match op with
  | .new n v => .ok { m := (s.m.alloc n v).1, sp := sp.new n v }
  | .after p x =>
    match sp.after p x with
    | none => .ok s
    | some sp' => (s.m.gnodeAfter (some p) x).bind fun m' => .ok { m := m', sp := sp' }
  | .before p x =>
    match sp.before p x with
    | none => .ok s
    | some sp' => (s.m.gnodeBefore (some p) x).bind fun m' => .ok { m := m', sp := sp' }
  | .add f pos x byName =>
    match sp.add f pos x byName with
    | none => .ok s
    | some sp' => (s.m.add f pos x byName).bind fun m' => .ok { m := m', sp := sp' }
  | .insert p pos x byName =>
    match sp.insert p pos x byName with
    | none => .ok s
    | some sp' => (s.m.insert p pos x byName).bind fun m' => .ok { m := m', sp := sp' }
  | .unlink x =>
    match sp.unlink x with
    | none => .ok s
    | some sp' => (s.m.unlink x).bind fun r => .ok { m := r.1, sp := sp' }
  | .move a b =>
    match sp.move a b with
    | none => .ok s
    | some (sp', _) =>
      (slotOf s.m a).bind fun slot => (s.m.move s.m.fuel slot (some a) b).bind fun r => .ok { m := r.1, sp := sp', ret := r.2 }
  | .clone x mode =>
    match sp.clone x mode with
    | none => .ok s
    | some sp' =>
      (if mode = 0 then (s.m.nodeClone x).bind fun r => .ok r.1
       else if mode = 1 then (s.m.treeClone x).bind fun r => .ok r.1
       else (s.m.listClone s.m.fuel (some x)).bind fun r => .ok r.1).bind fun m' => .ok { m := m', sp := sp' }
  | .clear x =>
    match sp.clear x with
    | none => .ok s
    | some sp' => (s.m.clear s.m.fuel x).bind fun m' => .ok { m := m', sp := sp' }
  | .destroy x =>
    match sp.destroy x with
    | none => .ok s
    | some sp' => (s.m.destroy s.m.fuel x).bind fun r => .ok { m := r.1, sp := sp' }

/-- a history from the empty store -/
def runOps (s : NSt) : List NOp → Res NSt
  | [] => .ok s
  | op :: ops => (runOp s op).bind fun s' => runOps s' ops

end Mpt.Nodes
