/-
  M: implementation model of mptcore/misc/identifier.c (and the sizing of mpt_identifier_new / mpt_node_new).

  `struct identifier { uint16_t _len; uint8_t _charset; uint8_t _max; char _val[4]; char *_base; }` lives in a
  storage block of `size >= 16` bytes.  The three header fields are never overlaid and are kept as numbers; the
  memory from `_val` to the end of the storage is the cell list `area` (length `size - 4`), and the pointer field
  `_base` *is* `area[4..12)`: writing more than four inline bytes overwrites it.  A cell is a data byte, one byte
  of a stored pointer (`ptr tok k` = k-th byte of the pointer to heap block `tok`), or indeterminate.  Loading
  `_base` from cells that are not exactly the eight bytes of one pointer (or eight zero bytes = NULL) yields the
  wild pointer; freeing or reading through it is a fault.
  The heap is an allocation log: blocks are never reused, `free` marks a block dead and faults on a dead,
  unknown or foreign (owned by another identifier) block.
  Models the code after the repairs b8d38cd (copy), f87ab8f (traits init), 8396494 (set with zero name pointer).
  Not modelled: malloc failure, mpt++/identifier.cpp.
-/
import MptModel.Basic
namespace Mpt.Ident

inductive Cell where
  | byte (b : Byte)
  | ptr (tok : Nat) (k : Nat)
  | undef
  deriving DecidableEq, Repr, Inhabited

inductive Fault where
  | oob          -- access outside the storage / a block / the caller's buffer
  | indet        -- read of a non-data cell as data
  | wildFree     -- free of a pointer that is no block
  | doubleFree
  | foreignFree  -- free of a block another identifier owns
  | deadRead     -- read of a freed block
  | badRead      -- read through NULL or a wild pointer
  deriving DecidableEq, Repr, Inhabited

abbrev M := Except Fault

structure Block where
  data : List Byte
  live : Bool
  owner : Nat
  deriving DecidableEq, Repr, Inhabited

structure Heap where
  blocks : List Block
  deriving DecidableEq, Repr, Inhabited

/-- `malloc` + fill: token of the new block -/
def Heap.alloc (h : Heap) (data : List Byte) (owner : Nat) : Heap × Nat :=
  ({ blocks := h.blocks ++ [⟨data, true, owner⟩] }, h.blocks.length)

/-- `free(tok)` on behalf of identifier `who` -/
def Heap.free (h : Heap) (t : Nat) (who : Nat) : M Heap :=
  match h.blocks[t]? with
  | none => throw .wildFree
  | some b =>
    if !b.live then throw .doubleFree
    else if b.owner ≠ who then throw .foreignFree
    else pure { blocks := h.blocks.set t { b with live := false } }

inductive Ptr where
  | null
  | tok (t : Nat)
  | wild
  deriving DecidableEq, Repr, Inhabited

structure Ident where
  len : Nat          -- `_len`
  charset : Nat      -- `_charset`
  max : Nat          -- `_max`
  area : List Cell   -- `_val` .. end of storage; `_base` = area[4..12)
  deriving DecidableEq, Repr, Inhabited

def zeros (n : Nat) : List Cell := List.replicate n (.byte 0)
def bytesC (b : List Byte) : List Cell := b.map .byte
def ptrCells (t : Nat) : List Cell := (List.range 8).map (.ptr t ·)

/-- data bytes of cells; `none` if one of them is not a data byte -/
def cellBytes : List Cell → Option (List Byte)
  | [] => some []
  | .byte b :: r => (cellBytes r).map (b :: ·)
  | _ :: _ => none

/-- `memcpy/memset(_val + off, cells)` -/
def wr (area : List Cell) (off : Nat) (cells : List Cell) : M (List Cell) :=
  if off + cells.length ≤ area.length then pure (area.take off ++ cells ++ area.drop (off + cells.length))
  else throw .oob

/-- load `_base` -/
def getBase (area : List Cell) : M Ptr :=
  if area.length < 12 then throw .oob
  else
    let c := (area.drop 4).take 8
    if c = zeros 8 then pure .null
    else match c.head? with
      | some (.ptr t _) => if c = ptrCells t then pure (.tok t) else pure .wild
      | _ => pure .wild

/-- store `_base` -/
def setBase (area : List Cell) (p : Ptr) : M (List Cell) :=
  wr area 4 (match p with
    | .null => zeros 8
    | .tok t => ptrCells t
    | .wild => List.replicate 8 .undef)

/-- free the old allocation named by a loaded pointer (`NULL` = nothing to do) -/
def freePtr (h : Heap) (p : Ptr) (who : Nat) : M Heap :=
  match p with
  | .null => pure h
  | .tok t => h.free t who
  | .wild => throw .wildFree

/-- read `n` bytes through `mpt_identifier_data(id)` -/
def readData (id : Ident) (h : Heap) (n : Nat) : M (List Byte) :=
  if id.len > id.max then do
    match ← getBase id.area with
    | .tok t =>
      match h.blocks[t]? with
      | some b =>
        if !b.live then throw .deadRead
        else if n ≤ b.data.length then pure (b.data.take n) else throw .oob
      | none => throw .badRead
    | _ => throw .badRead
  else if n ≤ id.area.length then
    match cellBytes (id.area.take n) with
    | some b => pure b
    | none => throw .indet
  else throw .oob

/-- `MPT_IDENT_MAX` -/
def identMax : Nat := 252

/-- `mpt_identifier_init(id, len)` on storage whose value area is `id.area` -/
def init (id : Ident) (len : Nat) : M Ident :=
  if len < 4 then pure id
  else do
    let n := min (len - 4) identMax
    let area ← wr id.area 0 (zeros n)
    pure { len := 0, charset := 0, max := n, area := area }

/-- `strlen` of a buffer the caller terminated -/
def strlen (b : List Byte) : Nat := (b.takeWhile (· != 0)).length

/-- `(id->_len > id->_max) ? id->_base : 0`: the allocation the identifier holds -/
def oldAlloc (id : Ident) : M Ptr :=
  if id.len > id.max then getBase id.area else pure .null

/-- `mpt_identifier_set`, "length exceeds reserved size": `data` (the name and its terminator, or zeros) goes to a
    new block, the old allocation is freed, the value area is cleared and `_base` set -/
def setExt (id : Ident) (h : Heap) (who : Nat) (data : List Byte) (charset : Nat) : M (Ident × Heap × Bool) := do
  let (h1, t) := h.alloc data who
  -- clear old allocation
  let old ← oldAlloc id
  let h2 ← freePtr h1 old who
  -- set new name content address
  let a1 ← wr id.area 0 (zeros id.max)
  let a2 ← setBase a1 (.tok t)
  pure ({ id with len := data.length, charset := charset, area := a2 }, h2, true)

/-- `mpt_identifier_set`, "local data sufficient" (the value area part is `inlArea`): `src` = the `len` cells copied to `_val` (name bytes or zeros),
    the rest of the value area up to `_max` is cleared, then the old allocation is freed -/
def inlArea (area : List Cell) (mx : Nat) (src : List Cell) : M (List Cell) :=
  if src.length ≠ 0 then do
    -- `memcpy(_val, name, len)` (or `memset`), then `if (post) memset(_val + len, 0, post)`
    let a ← wr area 0 src
    if mx - src.length ≠ 0 then wr a src.length (zeros (mx - src.length)) else pure a
  else wr area 0 (zeros mx)

def setInl (id : Ident) (h : Heap) (who : Nat) (src : List Cell) (nlen charset : Nat) : M (Ident × Heap × Bool) := do
  let addr ← oldAlloc id
  let a1 ← inlArea id.area id.max src
  -- clear potential old allocation
  let h1 ← freePtr h addr who
  pure ({ id with len := nlen, charset := charset, area := a1 }, h1, true)

/-- `mpt_identifier_set(id, name, len)`; `name = none` is the zero pointer; the flag is "result not NULL".
    The caller's buffer holds `name` followed by a terminating zero. -/
def set (id : Ident) (h : Heap) (who : Nat) (name : Option (List Byte)) (len : Int) : M (Ident × Heap × Bool) :=
  let len : Int := match name with
    | some b => if len < 0 then (strlen b : Int) else len
    | none => len
  let nlen : Int := if name.isSome then len + 1 else len
  let charset : Nat := if name.isSome then 1 else 0
  -- max length exceeded
  if len < 0 ∨ nlen > 65535 then pure (id, h, false)
  else
    let len := len.toNat
    let nlen := nlen.toNat
    if nlen > id.max then
      -- length exceeds reserved size: copy name content
      match name with
      | some b => if len ≤ b.length then setExt id h who (b.take len ++ [0]) charset else throw .oob
      | none => setExt id h who (List.replicate nlen 0) charset
    else
      match name with
      | some b => if len ≤ b.length then setInl id h who (bytesC (b.take len)) nlen charset else throw .oob
      | none => setInl id h who (zeros len) nlen charset

/-- `mpt_identifier_set` while `malloc` fails: a request that passes the length checks and needs an allocation
    (`nlen > _max`) returns 0 before anything is written; every other request does not allocate and runs as usual -/
def setNoMem (id : Ident) (h : Heap) (who : Nat) (name : Option (List Byte)) (len : Int) : M (Ident × Heap × Bool) :=
  let len' : Int := match name with
    | some b => if len < 0 then (strlen b : Int) else len
    | none => len
  let nlen : Int := if name.isSome then len' + 1 else len'
  if ¬ (len' < 0 ∨ nlen > 65535) ∧ nlen.toNat > id.max then pure (id, h, false)
  else set id h who name len

/-- `mpt_identifier_copy`, content fits the value area: the old allocation is saved, the bytes are copied over
    `_val` (and over `_base` beyond four of them), then the old allocation is freed -/
def copyInl (id : Ident) (h : Heap) (who : Nat) (base : List Byte) (charset : Nat) : M (Ident × Heap × Bool) := do
  let old ← oldAlloc id
  let a ← wr id.area 0 (bytesC base)
  let h1 ← freePtr h old who
  pure ({ id with len := base.length, charset := charset, area := a }, h1, true)

/-- `mpt_identifier_copy`, content needs a block -/
def copyExt (id : Ident) (h : Heap) (who : Nat) (base : List Byte) (charset : Nat) : M (Ident × Heap × Bool) := do
  let (h1, t) := h.alloc base who
  let old ← oldAlloc id
  let h2 ← freePtr h1 old who
  let a1 ← wr id.area 0 (zeros 4)
  let a2 ← setBase a1 (.tok t)
  pure ({ id with len := base.length, charset := charset, area := a2 }, h2, true)

/-- `mpt_identifier_copy(id, from)`; `from = none` is the zero pointer, `same` says `id == from` -/
def copy (id : Ident) (src : Option Ident) (same : Bool) (h : Heap) (who : Nat) : M (Ident × Heap × Bool) :=
  match src with
  | none => set id h who none 0
  | some from_ =>
    if same then do
      let p ← oldAlloc id
      pure (id, h, if id.len > id.max then p != .null else true)
    else do
      let base ← readData from_ h from_.len
      if from_.len ≤ id.max then copyInl id h who base from_.charset
      else copyExt id h who base from_.charset

/-- the comparison loops: first index `i` with `i < n` (counted from `i0`) where the two byte lists differ -/
def firstDiffGo : List Byte → List Byte → Nat → Nat → Option Nat
  | _, _, _, 0 => none
  | a, b, i, n + 1 => if a.head? != b.head? then some i else firstDiffGo a.tail b.tail (i + 1) n
def firstDiff (a b : List Byte) (n : Nat) : Option Nat := firstDiffGo a b 0 n

/-- `mpt_identifier_compare(id, name, nlen)` -/
def compare (id : Ident) (h : Heap) (name : Option (List Byte)) (nlen : Int) : M Int :=
  if name.isSome ∧ id.charset ≠ 1 then pure Err.BadType.code
  else if nlen < 0 ∧ name.isNone then pure Err.BadArgument.code
  else
    let nlen : Nat := match name with
      | some b => if nlen < 0 then strlen b else nlen.toNat
      | none => nlen.toNat
    if nlen = 0 ∧ id.len = 0 then pure 0
    else if nlen + 1 ≠ id.len then pure Err.MissingData.code
    else do
      let base ← readData id h id.len
      match name with
      | none =>
        match firstDiff base (List.replicate (nlen + 1) 0) (nlen + 1) with
        | some i => pure (i + 1)
        | none => pure 0
      | some b =>
        if nlen > b.length then throw .oob
        else match firstDiff base b nlen with
          | some i => pure (i + 1)
          | none => if base[nlen]? != some 0 then pure nlen else pure 0

/-- `mpt_identifier_inequal(id, cmp)`: zero on equality -/
def inequal (a b : Ident) (h : Heap) : M Int :=
  if a.charset ≠ b.charset then pure ((a.charset : Int) - b.charset)
  else if a.len ≠ b.len then pure ((a.len : Int) - b.len)
  else do
    let x ← readData a h a.len
    let y ← readData b h a.len
    match firstDiff x y a.len with
    | some i => pure ((x[i]?.getD 0).toNat - (y[i]?.getD 0).toNat : Int)
    | none => pure 0

/-- `_identifier_fini` of the type traits -/
def fini (id : Ident) (h : Heap) (who : Nat) : M (Ident × Heap) :=
  if id.len > id.max then do
    let p ← oldAlloc id
    let h1 ← freePtr h p who
    let a ← wr id.area 0 (zeros id.max)
    pure ({ id with area := a }, h1)
  else pure (id, h)

/-- storage of `size` bytes before anything was written to it -/
def rawStorage (size : Nat) : Ident := ⟨0xa5a5, 0xa5, 0xa5, List.replicate (size - 4) .undef⟩

/-- `_identifier_init(ptr, src)` of the type traits on raw storage of `sizeof(struct identifier)` = 16 bytes:
    the new identifier, the heap, and the returned code -/
def traitsInit (src : Option Ident) (h : Heap) (who : Nat) : M (Ident × Heap × Int) := do
  let c ← init (rawStorage 16) 16
  match src with
  | none => pure (c, h, 1)
  | some s =>
    let (c1, h1, ok) ← copy c (some s) false h who
    if !ok then pure (c1, h1, Err.BadOperation.code) else pure (c1, h1, 1)

/-- `while (size < len) size *= 2` -/
def growSize (size len : Nat) : Nat → Nat
  | 0 => size
  | fuel + 1 => if size < len then growSize (size * 2) len fuel else size

/-- storage size chosen by `mpt_identifier_new(len)`; `none` = refused -/
def newSize (len : Nat) : Option Nat :=
  if len > 65535 then none
  else
    let l := len + 4
    some (if l > 32 ∧ l ≤ 256 then growSize 32 l 8 else 32)

/-- size of the identifier part of `mpt_node_new(len)` (the node header before it takes 40 bytes) -/
def nodeIdentSize (len : Nat) : Nat :=
  let l := len + 40
  (if l > 64 ∧ l ≤ 256 then growSize 64 l 8 else 64) - 40

/-- a new identifier in storage of `size` bytes (`malloc` + `mpt_identifier_init`) -/
def create (size : Nat) : M Ident := init (rawStorage size) size

/-- `(charset, length, stored bytes)` as read through `mpt_identifier_data` and the length field -/
def view (id : Ident) (h : Heap) : M (Nat × List Byte) := do
  let d ← readData id h id.len
  pure (id.charset, d)


/- ---------- node/node_locate.c, node_next.c: searching a node list by name ---------- -/

/-- the name test of `mpt_node_locate` for the default identifier type (`charset < 0`: UTF8 text, `idlen = len + 1`):
    `idlen == clen && !cid[len] && (!len || !memcmp(ident, cid, len))` -/
def locateMatch (id : Ident) (h : Heap) (ident : List Byte) : M Bool :=
  if id.charset ≠ 1 then pure false
  else if ident.length + 1 ≠ id.len then pure false
  else do
    let cid ← readData id h id.len
    pure (cid[ident.length]? == some 0 && (ident.length == 0 || cid.take ident.length == ident))

/-- walk a list of identifiers (`i` = index of its head): index of the `pos`-th one that matches (`pos >= 1`) -/
def locateWalk (h : Heap) (ident : List Byte) (step : Int) : List Ident → Nat → Int → M (Option Int)
  | [], _, _ => pure none
  | id :: rest, pos, i => do
    if ← locateMatch id h ident then
      if pos ≤ 1 then pure (some i) else locateWalk h ident step rest (pos - 1) (i + step)
    else locateWalk h ident step rest pos (i + step)

/-- `mpt_node_locate(nodes[start], pos, ident, len, -1)` on the list `nodes`: index of the node found -/
def locate (nodes : List Ident) (h : Heap) (start : Nat) (pos : Int) (ident : List Byte) : M (Option Int) :=
  if start ≥ nodes.length then pure none
  else if pos > 0 then
    -- positive offset, start with current
    locateWalk h ident 1 (nodes.drop start) pos.toNat start
  else if pos = 0 then do
    -- simple end search, check final for match; else the previous one
    let last := nodes.length - 1
    match nodes[last]? with
    | none => pure none
    | some id =>
      if ← locateMatch id h ident then pure (some (last : Int))
      else locateWalk h ident (-1) (nodes.take last).reverse 1 ((last : Int) - 1)
  else
    -- negative offset, start with previous
    locateWalk h ident (-1) (nodes.take start).reverse (-pos).toNat ((start : Int) - 1)

/-- the name test of `mpt_node_next`: `idlen == clen && charset == UTF8 && (!idlen || !memcmp(ident, cid, idlen - 1))`;
    `ident` is the caller's C string buffer (terminated) or the zero pointer -/
def nextMatch (id : Ident) (h : Heap) (ident : Option (List Byte)) : M Bool :=
  let idlen := match ident with
    | some b => strlen b + 1
    | none => 0
  if idlen ≠ id.len ∨ id.charset ≠ 1 then pure false
  else if idlen = 0 then pure true
  else do
    let cid ← readData id h id.len
    pure (cid.take (idlen - 1) == (ident.getD []).take (idlen - 1))

/-- `mpt_node_next(nodes[start], ident)`: first node from `start` on whose name matches -/
def nodeNext (h : Heap) (ident : Option (List Byte)) : List Ident → Nat → M (Option Nat)
  | [], _ => pure none
  | id :: rest, i => do
    if ← nextMatch id h ident then pure (some i) else nodeNext h ident rest (i + 1)

/- ---------- a system of identifiers sharing one heap (what the driver and the histories run on) ---------- -/

/-- slots of identifiers (dead slots are `none`; slot number = owner tag of its allocations) and the heap -/
structure Sys where
  ids : List (Option Ident)
  heap : Heap
  deriving Repr, Inhabited

def Sys.empty : Sys := ⟨[], ⟨[]⟩⟩

def Sys.get (s : Sys) (k : Nat) : Option Ident := (s.ids[k]?).getD none

/-- live blocks owned by slot `k` -/
def Sys.owned (s : Sys) (k : Nat) : Nat := (s.heap.blocks.filter fun b => b.live && b.owner == k).length

inductive Op where
  | new (size : Nat)                                    -- storage of `size` bytes + mpt_identifier_init
  | set (k : Nat) (name : Option (List Byte)) (len : Int)   -- the caller's buffer is `name` followed by a zero byte
  | copy (k : Nat) (j : Option Nat)
  | free (k : Nat)                                      -- mpt_identifier_set(id, 0, 0), then the storage is released
  | tinit (j : Option Nat)                              -- traits init into raw 16-byte storage (new slot)
  | tfini (k : Nat)                                     -- traits fini, then the storage is released
  deriving Repr, Inhabited

/-- result of an operation: the pointer/code verdict, or the number of blocks left behind at end of life -/
inductive OpRes where
  | done (ok : Bool)
  | ended (leaked : Nat)
  | invalid                                             -- operand names no live identifier: nothing happens
  deriving DecidableEq, Repr, Inhabited

def Sys.step (s : Sys) (op : Op) : M (Sys × OpRes) :=
  match op with
  | .new size => do
    let id ← create size
    pure ({ s with ids := s.ids ++ [some id] }, .done true)
  | .set k name len =>
    match s.get k with
    | none => pure (s, .invalid)
    | some id => do
      let (id', h', ok) ← set id s.heap k (name.map (· ++ [0])) len
      pure ({ ids := s.ids.set k (some id'), heap := h' }, .done ok)
  | .copy k j =>
    match s.get k, j with
    | none, _ => pure (s, .invalid)
    | some id, none => do
      let (id', h', ok) ← copy id none false s.heap k
      pure ({ ids := s.ids.set k (some id'), heap := h' }, .done ok)
    | some id, some j =>
      match s.get j with
      | none => pure (s, .invalid)
      | some src => do
        let (id', h', ok) ← copy id (some src) (j == k) s.heap k
        pure ({ ids := s.ids.set k (some id'), heap := h' }, .done ok)
  | .free k =>
    match s.get k with
    | none => pure (s, .invalid)
    | some id => do
      let (_, h', _) ← set id s.heap k none 0
      let s' : Sys := { ids := s.ids.set k none, heap := h' }
      pure (s', .ended (s'.owned k))
  | .tinit j =>
    let src : Option (Option Ident) := match j with
      | none => some none
      | some j => (s.get j).map some
    match src with
    | none => pure (s, .invalid)
    | some src => do
      let (id', h', r) ← traitsInit src s.heap s.ids.length
      pure ({ ids := s.ids ++ [some id'], heap := h' }, .done (decide (0 ≤ r)))
  | .tfini k =>
    match s.get k with
    | none => pure (s, .invalid)
    | some id => do
      let (_, h') ← fini id s.heap k
      let s' : Sys := { ids := s.ids.set k none, heap := h' }
      pure (s', .ended (s'.owned k))

/-- run a history; a fault ends it -/
def Sys.run (s : Sys) : List Op → M Sys
  | [] => pure s
  | op :: rest => do
    let (s', _) ← s.step op
    Sys.run s' rest

end Mpt.Ident
