/-
  M for C07.
  (1) Evaluator of the *generated* converter tables (`Generated/ConvInt.lean`): what
      `mpt_data_convert_<src>(&v, tgt, dest)` does, for integer and floating sources.
      - guards are evaluated in program order with C's short-circuit rules;
      - `isgraph(val)` indexes glibc's table with `(int) val`: outside 0..255 that is undefined
        behaviour and evaluates to `.fault`;
      - the store converts `val` to the *store type* (integers wrap, floats round to nearest);
        a store that is not under `if (dest)` with `dest = NULL` is `.fault`;
      - the caller reads the destination object at the *target* type: a store wider than the target
        object is `.oob`, a narrower one leaves indeterminate bytes (`.fault`).
  (2) Hand model of text -> integer: `strtoimax/strtoumax` (glibc grammar, saturation + ERANGE),
      `_mpt_convert_int/_uint`, `mpt_convert_number`, `mpt_convert_string`.
  Core Lean only.
-/
import MptModel.Impl.Ring
import MptModel.Impl.ConvTable
import MptModel.Generated.ConvInt
import MptModel.Generated.ConvText
import MptModel.Spec.Scalar
import MptModel.Spec.Float

namespace Mpt.Conv
open Mpt.Scalar Mpt.Flt

namespace CTy

def isFloat : CTy → Bool
  | .f32 | .f64 | .f80 => true
  | _ => false

/-- storage size of the C type in bytes -/
def size : CTy → Nat
  | .i8 | .u8 => 1
  | .i16 | .u16 => 2
  | .i32 | .u32 | .f32 => 4
  | .i64 | .u64 | .f64 => 8
  | .f80 => 16

/-- number of values of an integer type (1 for floating types) -/
def modulus : CTy → Int
  | .i8 | .u8 => 256
  | .i16 | .u16 => 65536
  | .i32 | .u32 => 4294967296
  | .i64 | .u64 => 18446744073709551616
  | _ => 1

def fmt : CTy → Fmt
  | .f32 => binary32
  | .f80 => x87ext
  | _ => binary64

end CTy

/-- C conversion of an integer value to an integer type (two's complement wrap) -/
def wrap (t : CTy) (v : Int) : Int :=
  match t with
  | .u8 => v % 256
  | .i8 => (v + 128) % 256 - 128
  | .u16 => v % 65536
  | .i16 => (v + 32768) % 65536 - 32768
  | .u32 => v % 4294967296
  | .i32 => (v + 2147483648) % 4294967296 - 2147483648
  | .u64 => v % 18446744073709551616
  | .i64 => (v + 9223372036854775808) % 18446744073709551616 - 9223372036854775808
  | _ => v

def Cmp.holds (op : Cmp) (a b : Int) : Bool :=
  match op with
  | .lt => decide (a < b) | .le => decide (a ≤ b) | .gt => decide (a > b)
  | .ge => decide (a ≥ b) | .eq => decide (a = b) | .ne => decide (a ≠ b)

/-- `isgraph` of the C locale on its domain -/
def isgraphC (i : Int) : Bool := decide (33 ≤ i ∧ i ≤ 126)

/-- a source value: an integer (of the source type) or a floating datum -/
inductive Src where
  | int (v : Int)
  | flt (x : FVal)
  deriving Repr, DecidableEq

/-- one guard operand on an integer source value -/
def Atom.evalI (a : Atom) (v : Int) : Res Bool :=
  match a with
  | .cmp op cty k => if cty.isFloat then .fault else .ok (op.holds (wrap cty v) k)
  | .notIsgraph idx =>
    let i := wrap idx v
    if 0 ≤ i ∧ i ≤ 255 then .ok (!isgraphC i) else .fault

/-- compare a floating datum with an integer constant (comparisons with NaN are false, `!=` true) -/
def cmpF (op : Cmp) (x : FVal) (k : Int) : Bool :=
  match op with
  | .lt => x.ltInt k
  | .gt => x.gtInt k
  | .le => !x.gtInt k && x != .nan
  | .ge => !x.ltInt k && x != .nan
  | .eq => !x.ltInt k && !x.gtInt k && x != .nan
  | .ne => x.ltInt k || x.gtInt k || x == .nan

/-- one guard operand on a floating source value (widening conversions to the comparison type are exact) -/
def Atom.evalF (a : Atom) (src : CTy) (x : FVal) : Res Bool :=
  match a with
  | .cmp op cty k =>
    if cty.isFloat ∧ src.size ≤ cty.size then .ok (cmpF op x k) else .fault
  | .notIsgraph _ => .fault

def Atom.eval (a : Atom) (src : CTy) : Src → Res Bool
  | .int v => a.evalI v
  | .flt x => a.evalF src x

/-- `a1 && a2 && ..` -/
def evalConj (src : CTy) (s : Src) : List Atom → Res Bool
  | [] => .ok true
  | a :: as =>
    match a.eval src s with
    | .ok true => evalConj src s as
    | r => r

/-- `c1 || c2 || ..` -/
def evalDisj (src : CTy) (s : Src) : List (List Atom) → Res Bool
  | [] => .ok false
  | c :: cs =>
    match evalConj src s c with
    | .ok false => evalDisj src s cs
    | r => r

/-- the guard statements in order: `.err e` = `return MPT_ERROR(e)` -/
def evalGuards (src : CTy) (s : Src) : List Guard → Res Unit
  | [] => .ok ()
  | g :: gs =>
    match evalDisj src s g.conds with
    | .ok false => evalGuards src s gs
    | .ok true => .err g.err
    | .err e => .err e
    | .null => .null | .oob => .oob | .fault => .fault

/-- content of the destination object after the store -/
inductive Stored where
  | int (ty : CTy) (bits : Nat)     -- little-endian value of the stored bytes
  | flt (ty : CTy) (x : FVal)
  deriving Repr, DecidableEq

/-- `*((store *) dest) = val` -/
def doStore (store : CTy) : Src → Stored
  | .int v => if store.isFloat then .flt store (round store.fmt (ofInt v)) else .int store ((v % store.modulus).toNat)
  | .flt x =>
    if store.isFloat then .flt store (round store.fmt x)
    else .int store 0   -- float -> integer stores do not occur in the tables; see `Case.supported`

/-- float to integer conversions are outside the model -/
def Case.supported (c : Case) (src : CTy) : Bool := !(src.isFloat && !c.store.isFloat)

def runCase (src : CTy) (c : Case) (s : Src) (dest : Bool) : Res (Option Stored × Nat) :=
  if !c.supported src then .fault else
  match evalGuards src s c.guards with
  | .ok () =>
    if dest then
      match evalGuards src s c.destGuards with       -- guards inside `if (dest) { .. }`
      | .ok () => .ok (some (doStore c.store s), c.ret)
      | .err e => .err e
      | .null => .null | .oob => .oob | .fault => .fault
    else if c.guarded then .ok (none, c.ret)
    else .fault                                   -- store through NULL
  | .err e => .err e
  | .null => .null | .oob => .oob | .fault => .fault

def Fn.resolve (f : Fn) (tgt : Nat) : Nat :=
  match f.alias with
  | some (a, b) => if tgt = a then b else tgt
  | none => tgt

def Fn.lookup (f : Fn) (tgt : Nat) : Option Case := f.cases.find? (·.code = f.resolve tgt)

/-- `f(&val, tgt, dest)` for a scalar target code -/
def Fn.run (f : Fn) (tgt : Nat) (s : Src) (dest : Bool) : Res (Option Stored × Nat) :=
  match f.lookup tgt with
  | some c => runCase f.src c s dest
  | none => if f.resolve tgt ∈ f.vectors then .null else .err f.dflt   -- vector targets are not modelled

/-- the C type of the object a scalar target code stands for -/
def tgtCTy : Ty → CTy
  | .c | .b => .i8 | .y => .u8 | .n => .i16 | .q => .u16 | .i => .i32 | .u => .u32
  | .x => .i64 | .t => .u64 | .f => .f32 | .d => .f64 | .e => .f80

/-- what the caller finds in the target object -/
inductive Out where
  | int (bits : Nat)
  | flt (x : FVal)
  deriving Repr, DecidableEq

def readBack (tgt : Ty) (s : Stored) : Res Out :=
  let want := tgtCTy tgt
  match s with
  | .int ty bits =>
    if ty.size > want.size then .oob
    else if ty.size < want.size then .fault
    else if want.isFloat then .ok (.flt (decode want.fmt bits))
    else .ok (.int bits)
  | .flt ty x =>
    if ty.size > want.size then .oob
    else if ty.size < want.size then .fault
    else if want.isFloat then .ok (.flt x)
    else .ok (.int (encode ty.fmt x))

/-- `mpt_data_converter(src)` of the generated dispatch table -/
def fnOf (src : Ty) : Option Fn := (Generated.dispatch.find? (·.1 = src.code)).map (·.2)

/-- convert a value of scalar type `src` to scalar type `tgt`:
    `mpt_data_converter(src)(&val, tgt, dest)` followed by the caller's read of the target object.
    Result: (target object content if `dest`, returned size) -/
def conv (src tgt : Ty) (s : Src) (dest : Bool) : Res (Option Out × Nat) :=
  match fnOf src with
  | none => .err .BadType
  | some f =>
    match f.run tgt.code s dest with
    | .ok (some st, n) =>
      match readBack tgt st with
      | .ok o => .ok (some o, n)
      | .err e => .err e | .null => .null | .oob => .oob | .fault => .fault
    | .ok (none, n) => .ok (none, n)
    | .err e => .err e
    | .null => .null | .oob => .oob | .fault => .fault

/-- the target code `'l'` (`long`, 108): `mpt_data_converter(src)(&val, 'l', dest)` followed by the caller's read of a
    `long` object -/
def convLong (src : Ty) (s : Src) (dest : Bool) : Res (Option Out × Nat) :=
  match fnOf src with
  | none => .err .BadType
  | some f =>
    match f.run 108 s dest with
    | .ok (some st, n) =>
      match readBack .x st with
      | .ok o => .ok (some o, n)
      | .err e => .err e | .null => .null | .oob => .oob | .fault => .fault
    | .ok (none, n) => .ok (none, n)
    | .err e => .err e
    | .null => .null | .oob => .oob | .fault => .fault

/-- `f(NULL, tgt, dest)`: every converter starts with `val = 0; if (from) val = *from;` -/
def convNull (src tgt : Ty) (dest : Bool) : Res (Option Out × Nat) :=
  conv src tgt (if src.isFloat then .flt (.fin false 0 0) else .int 0) dest

/-- `mpt_value_argv(buf, 16, code, va)` as used by the vararg iterator (`mpt_process_vararg`): the caller passed a
    value of type `src` after the default argument promotions; it is fetched with `va_arg(va, A)`, stored as `S`,
    and the iterator hands the buffer out as a value of type `src`.  A code without its own case is fetched as
    the integer type of the same size (`mpt_type_int(traits->size)`), if there is one. -/
def argvRow (src : Ty) : Option (CTy × CTy × Nat) :=
  match Generated.argvTable.find? (·.1 = src.code) with
  | some (_, st, va, n) => some (st, va, n)
  | none =>
    match Generated.typeInt.find? (·.1 = (tgtCTy src).size) with
    | some (_, code) => (Generated.argvTable.find? (·.1 = code)).map fun r => (r.2.1, r.2.2.1, r.2.2.2)
    | none => none

def argvPass (src : Ty) (s : Src) : Res Src :=
  match argvRow src with
  | none => .err .BadType
  | some (st, va, _) =>
    if st.size ≠ (tgtCTy src).size then .fault else
    match s with
    | .int v => if st.isFloat ∨ va.isFloat then .fault else .ok (.int (wrap (tgtCTy src) (wrap st (wrap va v))))
    | .flt x => if st.isFloat ∧ va.isFloat then .ok (.flt (round st.fmt (round va.fmt x))) else .fault

/-- content of a source object of scalar type `src` as the caller of a raw copy finds it in a target of the same type -/
def srcOut (src : Ty) : Src → Out
  | .int v => .int (v % src.card).toNat
  | .flt x => .flt x

/-- `mpt_value_convert({&val, src}, tgt, dest)` restricted to scalar source and target types: the converter
    (return 0 for the same type, 3 otherwise); if it refuses, the raw copy of an identical type (the scalar traits have
    neither init nor fini); else BadType -/
def valueConvert (src tgt : Ty) (s : Src) (dest : Bool) : Res (Option Out × Nat) :=
  match conv src tgt s dest with
  | .ok (o, _) => .ok (o, if src = tgt then 0 else 3)
  | .err _ =>
    if src = tgt then .ok (if dest then some (srcOut src s) else none, 0)
    else .err .BadType
  | r => r

/-- `mpt_value_convert` of a value without data (`_addr = NULL`): the converter sees a missing source (the number 0); if
    it refuses, there is nothing a raw copy could be taken from -/
def valueConvertNull (src tgt : Ty) (dest : Bool) : Res (Option Out × Nat) :=
  match convNull src tgt dest with
  | .ok (o, _) => .ok (o, if src = tgt then 0 else 3)
  | .err _ => if src = tgt then .err .MissingData else .err .BadType
  | r => r

/-- `mpt_iterator_consume(it, tgt, dest)` on an iterator whose current value has type `src`: `mpt_value_convert` into a
    temporary, copy of the target's size; returns the source type code -/
def consume (src tgt : Ty) (s : Src) (dest : Bool) : Res (Option Out × Nat) :=
  match valueConvert src tgt s dest with
  | .ok (o, _) => .ok (o, src.code)
  | r => r

/-- a value of type `src` passed through `...` to `mpt_process_vararg` and read with `mpt_iterator_consume` -/
def argvConsume (src tgt : Ty) (s : Src) (dest : Bool) : Res (Option Out × Nat) :=
  match argvPass src s with
  | .ok s' => consume src tgt s' dest
  | .err e => .err e
  | .null => .null | .oob => .oob | .fault => .fault

/-- `mpt_value_convert(val, 'l', dest)`: `'l'` is no value type, so there is no raw copy -/
def valueConvertLong (src : Ty) (s : Src) (dest : Bool) : Res (Option Out × Nat) :=
  match convLong src s dest with
  | .ok (o, _) => .ok (o, 3)
  | .err _ => .err .BadType
  | r => r

def consumeLong (src : Ty) (s : Src) (dest : Bool) : Res (Option Out × Nat) :=
  match valueConvertLong src s dest with
  | .ok (o, _) => .ok (o, src.code)
  | r => r

def argvConsumeLong (src : Ty) (s : Src) (dest : Bool) : Res (Option Out × Nat) :=
  match argvPass src s with
  | .ok s' => consumeLong src s' dest
  | .err e => .err e
  | .null => .null | .oob => .oob | .fault => .fault

/-- coordinate `k` of `mpt_fpoint_set`: consumed with the k-th generated target code; anything but a direct 'f' store is
    followed by a plain C assignment to the float member (rounds, may overflow to infinity) -/
def fpointCoord (k : Nat) (src : Ty) (s : Src) : Res FVal :=
  match Generated.fpointConsume[k]? with
  | some (code, direct) =>
    match Ty.ofCode code with
    | some via =>
      match consume src via s true with
      | .ok (some (.flt y), _) => if via = .f ∧ direct then .ok y else .ok (round binary32 y)
      | .ok _ => .fault
      | .err e => .err e
      | .null => .null | .oob => .oob | .fault => .fault
    | none => .err .BadType
  | none => .fault

/-- `mpt_fpoint_set(&pt, src, NULL)` from an iterator over one or two values of type `src`: (x, y) -/
def fpointSet (src : Ty) (vals : List Src) : Res (FVal × FVal) :=
  match vals with
  | [a] => match fpointCoord 0 src a with
    | .ok x => .ok (x, x)
    | .err e => .err e | .null => .null | .oob => .oob | .fault => .fault
  | [a, b] => match fpointCoord 0 src a with
    | .ok x => match fpointCoord 1 src b with
      | .ok y => .ok (x, y)
      | .err e => .err e | .null => .null | .oob => .oob | .fault => .fault
    | .err e => .err e | .null => .null | .oob => .oob | .fault => .fault
  | _ => .err .BadArgument

/-- accept / refuse / undefined behaviour -/
inductive Verdict where
  | accepted | refused | broken
  deriving DecidableEq, Repr

def verdict {α} : Res α → Verdict
  | .ok _ => .accepted
  | .err _ => .refused
  | _ => .broken

/-! ### text to integer -/

/-- result of `strtoimax/strtoumax`: value, `end - nptr`, whether `errno = ERANGE` was set -/
structure StrTo where
  value : Int
  consumed : Nat
  erange : Bool
  deriving Repr, DecidableEq

/-- value of a digit run, most significant digit first (the accumulation loop of `strto*`) -/
def digitRunValue (base : Nat) (ds : List Nat) : Nat :=
  ds.foldl (fun acc c => acc * base + (digitVal c).getD 0) 0

/-- the digit loop: the maximal run of base-`base` digits: (exact magnitude, number of digit characters) -/
def scanDigits (base : Nat) (s : List Nat) : Nat × Nat :=
  let ds := s.takeWhile (isDigitOf base)
  (digitRunValue base ds, ds.length)

/-- base prefix and digits: (magnitude, characters consumed); consumed = 0 when there is no digit.
    `base` is 0, 8, 10 or 16. -/
def scanBody (s : List Nat) (base : Nat) : Nat × Nat :=
  let plain : Nat × Nat :=
    scanDigits (if base = 0 then (if s.head? = some 48 then 8 else 10) else base) s
  match s with
  | a :: b :: rest =>
    if (base = 0 ∨ base = 16) ∧ a = 48 ∧ (b = 120 ∨ b = 88) then
      let r := scanDigits 16 rest
      -- "0x" without a hex digit: the "0" alone is converted
      if r.2 = 0 then (0, 1) else (r.1, r.2 + 2)
    else plain
  | _ => plain

/-- optional sign, then the body: (negative, magnitude, consumed) -/
def scanSigned (s : List Nat) (base : Nat) : Bool × Nat × Nat :=
  match s with
  | c :: rest =>
    if c = 45 then
      let r := scanBody rest base
      (true, r.1, if r.2 = 0 then 0 else r.2 + 1)
    else if c = 43 then
      let r := scanBody rest base
      (false, r.1, if r.2 = 0 then 0 else r.2 + 1)
    else
      let r := scanBody s base
      (false, r.1, r.2)
  | [] => (false, 0, 0)

/-- white space, sign, base prefix, digits.  Result: (negative, magnitude, consumed) with consumed = 0 when
    no conversion is performed. -/
def scanNumber (s : List Nat) (base : Nat) : Bool × Nat × Nat :=
  let r := scanSigned (s.dropWhile isSpace) base
  (r.1, r.2.1, if r.2.2 = 0 then 0 else (s.takeWhile isSpace).length + r.2.2)

def strtoimax (s : List Nat) (base : Nat) : StrTo :=
  let r := scanNumber s base
  if r.2.2 = 0 then { value := 0, consumed := 0, erange := false }
  else if r.1 then
    if r.2.1 > 9223372036854775808 then { value := -9223372036854775808, consumed := r.2.2, erange := true }
    else { value := -(r.2.1 : Int), consumed := r.2.2, erange := false }
  else
    if r.2.1 > 9223372036854775807 then { value := 9223372036854775807, consumed := r.2.2, erange := true }
    else { value := (r.2.1 : Int), consumed := r.2.2, erange := false }

def strtoumax (s : List Nat) (base : Nat) : StrTo :=
  let r := scanNumber s base
  if r.2.2 = 0 then { value := 0, consumed := 0, erange := false }
  else if r.2.1 > 18446744073709551615 then { value := 18446744073709551615, consumed := r.2.2, erange := true }
  else if r.1 then { value := (18446744073709551616 - (r.2.1 : Int)) % 18446744073709551616, consumed := r.2.2, erange := false }
  else { value := (r.2.1 : Int), consumed := r.2.2, erange := false }

/-- the C string: bytes up to the first NUL -/
def cstr (s : List Nat) : List Nat := s.takeWhile (· ≠ 0)

/-- result of a text conversion: `.ok (stored bits if a value was stored, consumed)`; blank text is accepted
    as "no value" (nothing stored) -/
abbrev TextRes := Res (Option Nat × Nat)

/-- the shared tail of `_mpt_convert_int/_uint` when `strto*` converted nothing -/
def noConversion (s : List Nat) : TextRes :=
  if s.all isSpace then .ok (none, 0) else .err .BadType

/-- what the tests after the `strto*` call see -/
structure TextCtx where
  tmp : Src          -- the value returned
  ty : CTy           -- its C type
  erange : Bool      -- `errno == ERANGE`
  minus : Bool       -- the text has a minus sign

def TextAtom.eval (c : TextCtx) : TextAtom → Res Bool
  | .erange => .ok c.erange
  | .minus => .ok c.minus
  | .rangeArg => .ok false
  | .val a => a.eval c.ty c.tmp

def evalTConj (c : TextCtx) : List TextAtom → Res Bool
  | [] => .ok true
  | a :: as =>
    match a.eval c with
    | .ok true => evalTConj c as
    | r => r

def evalTDisj (c : TextCtx) : List (List TextAtom) → Res Bool
  | [] => .ok false
  | x :: xs =>
    match evalTConj c x with
    | .ok false => evalTDisj c xs
    | r => r

def evalTGuards (c : TextCtx) : List TextGuard → Res Unit
  | [] => .ok ()
  | g :: gs =>
    match evalTDisj c g.conds with
    | .ok false => evalTGuards c gs
    | .ok true => .err g.err
    | .err e => .err e
    | .null => .null | .oob => .oob | .fault => .fault

/-- context of the tests after an integer `strto*` call.  `errno` of the caller is arbitrary: without the reset
    the ERANGE test may see a stale value (modelled as set). -/
def intCtx (p : TextParser) (r : StrTo) (minus : Bool) : TextCtx :=
  { tmp := .int r.value, ty := p.tmpTy, erange := r.erange || !p.errnoReset, minus := minus }

/-- the `strto*` call of an integer parser -/
def strtoResult (p : TextParser) (s : List Nat) (base : Nat) : Option StrTo :=
  if p.strto = "strtoimax" then some (strtoimax s base)
  else if p.strto = "strtoumax" then some (strtoumax s base)
  else none

/-- `_mpt_convert_int/_uint(val, vlen, src, base)` over the generated description `p`.
    `errno` of the caller is arbitrary: without the reset the ERANGE test may see a stale value (modelled as set). -/
def runParser (p : TextParser) (vlen : Nat) (s : List Nat) (base : Nat) (dest : Bool) : TextRes :=
  if s = [] then .ok (none, 0) else
  match strtoResult p s base with
  | none => .null
  | some r =>
    if r.consumed = 0 then noConversion s else
    let ctx := intCtx p r (scanNumber s base).1
    match evalTGuards ctx p.guards with
    | .ok () =>
      match p.widths.find? (·.size = vlen) with
      | none => .err p.dflt
      | some w =>
        match evalTGuards ctx w.guards with
        | .ok () =>
          if dest then .ok (some (r.value % w.store.modulus).toNat, r.consumed)
          else if w.guarded then .ok (none, r.consumed)
          else .fault
        | .err e => .err e
        | .null => .null | .oob => .oob | .fault => .fault
    | .err e => .err e
    | .null => .null | .oob => .oob | .fault => .fault

/-- `mpt_c[u]intN`: the wrapper passes `sizeof(type)` to its parser and hands the result on -/
def wrapperTarget (name : String) : Option (TextParser × Nat) :=
  match Generated.Text.wrappers.find? (·.1 = name) with
  | none => none
  | some (_, pn, size) => (Generated.Text.parsers.find? (·.name = pn)).map fun p => (p, size)

/-- `mpt_c[u]intN(val, src, base, NULL)` -/
def runWrapper (name : String) (s : List Nat) (base : Nat) (dest : Bool) : TextRes :=
  match wrapperTarget name with
  | none => .null
  | some (p, size) => runParser p size s base dest

/-- `mpt_convert_number(src, fmt, dest)` with `fmt = 'c'`: the first non-blank character, if it is printable.
    (`isspace`/`isgraph` receive a plain `char`; bytes above 0x7f are negative arguments, which glibc's tables
    cover: neither blank nor printable.) -/
def convertChar (s : List Nat) (dest : Bool) : TextRes :=
  let ws := (s.takeWhile isSpace).length
  match s.dropWhile isSpace with
  | [] => .ok (none, 0)
  | c :: _ => if 33 ≤ c ∧ c ≤ 126 then .ok (if dest then some c else none, ws + 1) else .err .BadType

/-- the `switch (fmt)` of `mpt_convert_number` for an integer target: (parser, width, base) -/
def numberTarget (tgt : Ty) : Res (TextParser × Nat × Nat) :=
  let code := match Generated.Text.numberAlias with
    | some (a, b) => if tgt.code = a then b else tgt.code
    | none => tgt.code
  match Generated.Text.numberDispatch.find? (·.1 = code) with
  | none => .err .BadType
  | some (_, callee, base) =>
    match wrapperTarget callee with
    | some (p, size) => .ok (p, size, base)
    | none => .null

/-- `mpt_convert_number(src, fmt, dest)` for the character and integer target codes (the floating codes go through
    `runFloatParser`) -/
def convertNumber (tgt : Ty) (s : List Nat) (dest : Bool) : TextRes :=
  if tgt = .c then convertChar s dest else
  match numberTarget tgt with
  | .ok (p, size, base) => runParser p size s base dest
  | .err e => .err e
  | _ => .null

/-- result of `strtof/strtod/strtold` (not modelled: an oracle supplies it) -/
structure StrToF where
  value : FVal
  consumed : Nat
  erange : Bool
  /-- the consumed numeral denotes a finite number whose correctly rounded value is not finite -/
  overflow : Bool
  deriving Repr

def floatCtx (p : TextParser) (val : FVal) (erange : Bool) : TextCtx :=
  { tmp := .flt val, ty := p.tmpTy, erange := erange || !p.errnoReset, minus := false }

/-- `mpt_cfloat/mpt_cdouble/mpt_cldouble(val, src, NULL)` over the generated description `p` and the oracle `r` -/
def runFloatParser (p : TextParser) (r : StrToF) (s : List Nat) (dest : Bool) : Res (Option FVal × Nat) :=
  if s = [] then .ok (none, 0) else
  if r.consumed = 0 then (if s.all isSpace then .ok (none, 0) else .err .BadType) else
  let ctx := floatCtx p r.value r.erange
  match evalTGuards ctx p.guards with
  | .ok () =>
    match p.widths with
    | [w] =>
      if dest then .ok (some r.value, r.consumed)
      else if w.guarded then .ok (none, r.consumed)
      else .fault
    | _ => .null
  | .err e => .err e
  | .null => .null | .oob => .oob | .fault => .fault

/-! ### `strtof/strtod/strtold` on decimal numerals

The scanner takes the longest prefix of the form `ws* [+-]? (D+[.D*] | .D+) ([eE][+-]?D+)?` and returns its parts;
the value is the correctly rounded value of the number the parts denote.  Hexadecimal numerals, `inf` and `nan` are
not modelled (`decimalOnly` tells whether a text could start one of them). -/

/-- optional sign -/
def splitSign (s : List Nat) : List Nat × List Nat :=
  match s with
  | c :: r => if c = 43 ∨ c = 45 then ([c], r) else ([], s)
  | [] => ([], s)

/-- exponent part: `(emark, esign, digits, rest)`; all empty when there is no complete exponent -/
def splitExp (s : List Nat) : List Nat × List Nat × List Nat × List Nat :=
  match s with
  | c :: r =>
    if c = 101 ∨ c = 69 then
      let (sg, r1) := splitSign r
      let ds := r1.takeWhile isDigit
      if ds = [] then ([], [], [], s) else ([c], sg, ds, r1.dropWhile isDigit)
    else ([], [], [], s)
  | [] => ([], [], [], s)

/-- fraction part: `(dot, digits, rest)` -/
def splitFrac (s : List Nat) : List Nat × List Nat × List Nat :=
  match s with
  | c :: r => if c = 46 then ([46], r.takeWhile isDigit, r.dropWhile isDigit) else ([], [], s)
  | [] => ([], [], s)

def scanDec (s : List Nat) : Option (DecParts × List Nat) :=
  let sg := splitSign (s.dropWhile isSpace)
  let ip := sg.2.takeWhile isDigit
  let fr := splitFrac (sg.2.dropWhile isDigit)
  let ex := splitExp fr.2.2
  if ip = [] ∧ fr.2.1 = [] then none else
  some ({ ws := s.takeWhile isSpace, sign := sg.1, ip := ip, dot := fr.1, fp := fr.2.1,
          emark := ex.1, esign := ex.2.1, ed := ex.2.2.1 }, ex.2.2.2)

/-- the text (after white space and sign) could start a hexadecimal numeral, an infinity or a NaN -/
def decimalOnly (s : List Nat) : Bool :=
  let s2 := (splitSign (s.dropWhile isSpace)).2
  match s2 with
  | a :: b :: _ => !(a = 48 && (b = 120 || b = 88)) && !(a = 105 || a = 73 || a = 110 || a = 78)
  | [a] => !(a = 105 || a = 73 || a = 110 || a = 78)
  | [] => true

def isZeroOrInf : FVal → Bool
  | .fin _ m _ => m = 0
  | .inf _ => true
  | .nan => false

def strtoDec (fmt : Fmt) (s : List Nat) : StrToF :=
  match scanDec s with
  | none => { value := .fin false 0 0, consumed := 0, erange := false, overflow := false }
  | some (p, _) =>
    let v := roundDec fmt p.neg p.mant p.exp10
    { value := v, consumed := p.text.length,
      erange := (match v with | .inf _ => true | _ => false) || (p.mant != 0 && isZeroOrInf v),
      overflow := match v with | .inf _ => true | _ => false }

/-- the `mpt_convert_number` dispatch for the floating-point target codes -/
def numberFloatTarget (tgt : Ty) : Option TextParser :=
  match Generated.Text.numberDispatch.find? (·.1 = tgt.code) with
  | some (_, fn, _) => Generated.Text.parsers.find? (·.name = fn)
  | none => none

/-- `mpt_convert_number(from, type, dest)` for `'f'`, `'d'`, `'e'` with `strto` standing for the libc scanner -/
def convertNumberF (tgt : Ty) (strto : List Nat → StrToF) (s : List Nat) (dest : Bool) : Res (Option FVal × Nat) :=
  match numberFloatTarget tgt with
  | some p => runFloatParser p (strto s) s dest
  | none => .err .BadType

/-- `mpt_convert_string(from, type, dest)` for the floating-point target codes -/
def convertStringF (tgt : Ty) (strto : List Nat → StrToF) (s : List Nat) (dest : Bool) : Res (Option FVal × Nat) :=
  if s = [] then .ok (none, 0) else
  match convertNumberF tgt strto (s.dropWhile isSpace) dest with
  | .ok (o, n) => if n = 0 then .ok (none, 0) else .ok (o, (s.takeWhile isSpace).length + n)
  | r => r

/-- One token of a text file read through the file iterator (`mpt_iterator_file`, mptplot/values/iterator_file.c) with
    `mpt_iterator_consume(it, tgt, dest)`: the element converts the token with `mpt_convert_number` (target codes
    d f t x u i q n y b) into its value buffer; what is handed out is that value.  Result: (stored object, returned code = the type of the
    iterator's value, `TypeConvertablePtr` = 128). -/
def fileToken (tgt : Ty) (strto : List Nat → StrToF) (s : List Nat) (dest : Bool) : Res (Option Out × Nat) :=
  if tgt = .c ∨ tgt = .e then .err .BadType
  else if tgt.isFloat then
    match convertNumberF tgt strto s true with          -- the token is always converted into the element's buffer
    | .ok (some v, _) => .ok (if dest then some (.flt v) else none, 128)
    | .ok (none, _) => .err .MissingData
    | .err .BadValue => .err .BadType        -- `mpt_value_convert` reports a refusing converter as BadType
    | .err _ => .err .MissingData            -- no number: the element has no value
    | .null => .null | .oob => .oob | .fault => .fault
  else
    match convertNumber tgt s true with
    | .ok (some bits, _) => .ok (if dest then some (.int bits) else none, 128)
    | .ok (none, _) => .err .MissingData
    | .err .BadValue => .err .BadType        -- `mpt_value_convert` reports a refusing converter as BadType
    | .err _ => .err .MissingData            -- no number: the element has no value
    | .null => .null | .oob => .oob | .fault => .fault

/-- `mpt_convert_string(from, type, dest)` for the integer target codes -/
def convertString (tgt : Ty) (s : List Nat) (dest : Bool) : TextRes :=
  if s = [] then .ok (none, 0) else
  match convertNumber tgt (s.dropWhile isSpace) dest with
  | .ok (o, n) =>
    -- blank text: nothing consumed, nothing stored
    if n = 0 then .ok (none, 0) else .ok (o, (s.takeWhile isSpace).length + n)
  | r => r

end Mpt.Conv
