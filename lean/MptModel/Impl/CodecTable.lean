/-
  M: the coding -> function pairing of mptcore/convert/encoder.c, decoder.c and the name table of encoding.c.
  The tables themselves are regenerated from the sources on every run (Generated/Codec.lean, translator in
  vlib/props/c01.py); this file gives them the meaning of the C control flow around them.
-/
import MptModel.Generated.Codec
import MptModel.Impl.Encode
namespace Mpt.Codec
open Mpt.Cobs Mpt.Generated.Codec

/-- the framing a library function implements -/
def framingOfFn : String → Option Codec
  | "mpt_encode_string" => some .command
  | "mpt_decode_command" => some .command
  | "mpt_encode_cobs" => some (.cobs .cobs)
  | "mpt_decode_cobs" => some (.cobs .cobs)
  | "mpt_encode_cobs_r" => some (.cobs .cobsR)
  | "mpt_decode_cobs_r" => some (.cobs .cobsR)
  | "mpt_encode_cobs_zpe" => some (.cobs .zpe)
  | "mpt_decode_cobs_zpe" => some (.cobs .zpe)
  | "mpt_encode_cobs_zpe_r" => some (.cobs .zpeR)
  | "mpt_decode_cobs_zpe_r" => some (.cobs .zpeR)
  | _ => none

/-- `switch (code & (mask - 1))` (`mask = 0`: no masking): the function returned for `code` (none = NULL) -/
def switchLookup (table : List (Nat × String)) (mask code : Nat) : Option String :=
  match table.find? (fun r => r.1 == (if mask = 0 then code else code % mask)) with
  | some r => if r.2 = "0" then none else some r.2
  | none => none

/-- `mpt_message_encoder(code)` as a framing -/
def encoderOf (code : Nat) : Option Codec := (switchLookup encoderTable encoderMask code).bind framingOfFn
/-- `mpt_message_decoder(code)` as a framing -/
def decoderOf (code : Nat) : Option Codec := (switchLookup decoderTable decoderMask code).bind framingOfFn

/-- `tolower` on ASCII character codes -/
def lowerCode (c : Nat) : Nat := if 65 ≤ c ∧ c ≤ 90 then c + 32 else c

/-- `mpt_encoding_value(name, -1)` (names as character codes): first entry of the same length that matches
    without regard to case -/
def encodingValue (name : List Nat) : Int :=
  match nameTable.find? (fun r => r.1.length == name.length && r.1.map lowerCode == name.map lowerCode) with
  | some r => r.2
  | none => -2

/-- `mpt_encoding_type(type)`: first name with that id -/
def encodingType (t : Nat) : Option (List Nat) := (nameTable.find? (fun r => r.2 == t)).map (·.1)

/-- character codes of an ASCII text -/
def codes (s : String) : List Nat := s.toList.map Char.toNat

end Mpt.Codec
