/-
  C16: the value-level operation (Spec/Ident.lean `VOp`) each operation of the implementation model stands for.
  Used by the refinement theorems (Lemmas/IdentRefine.lean) and by the driver for its spec column.
-/
import MptModel.Impl.Ident
import MptModel.Spec.Ident
namespace Mpt.Ident

/-- the value-level operation an operation of the model stands for -/
def Op.abs : Op → VOp
  | .new _ => .new
  | .set k name len => .set k (nameOf name len)
  | .copy k j => .copy k j
  | .free k => .end_ k
  | .tinit j => .clone j
  | .tfini k => .end_ k

end Mpt.Ident
