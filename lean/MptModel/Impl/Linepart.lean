/-
  M: implementation model of mptplot/values/linepart_linear.c, linepart_code.c, linepart_join.c.
  Values are exact rationals (core `Rat`); `double` rounding, infinities and NaN are outside the model.
  The four `uint16_t` fields are natural numbers; `fields_fit` (Lemmas/Linepart.lean) shows they never
  exceed 65535, so the C increments never wrap.
  The C++ consumer `linepart::array::apply` (mpt++/linepart.cpp) is NOT modelled, only its first loop
  (repeated calls advancing by `raw`, see `parts`).
-/
import MptModel.Spec.Visible
namespace Mpt.Linepart
open Mpt.Visible

/-- `UINT16_MAX` -/
def u16max : Nat := 65535

/-- `mpt_linepart_code(val)`: `-2` outside `[0,1]`; a non-zero value below 1/65536 gives 1 (code 0 means
    "nothing cut" to the consumers); else `val·65536` clamped to 65535 and truncated by the conversion to `int` -/
def code (val : Rat) : Int :=
  if val < 0 ∨ 1 < val then -2
  else
    let small := val * 65536
    if val ≠ 0 ∧ small < 1 then 1
    else if 65535 < small then 65535 else small.floor

/-- `mpt_linepart_real(val)` -/
def real (c : Int) : Rat := (c : Rat) / 65536

/-- assignment of an `int` to a `uint16_t` field -/
def u16 (c : Int) : Nat := (c % 65536).toNat

/-- `*from < min` / `*from > max` of the counting loops -/
def out (r : Range) (x : Rat) : Bool := decide (x < r.min) || decide (r.max < x)

/-- the "partial first" block applies: first value outside, a second value exists and is inside -/
def headCut (r : Range) : List Rat → Bool
  | x0 :: x1 :: _ => out r x0 && r.has x1
  | _ => false

/-- argument of `mpt_linepart_code` in the "partial first" block -/
def cutFrac (r : Range) (x0 x1 : Rat) : Rat :=
  if x0 < r.min then (r.min - x0) / (x1 - x0) else (x0 - r.max) / (x0 - x1)

/-- value stored in `_cut` by the "partial first" block -/
def cutCode (r : Range) : List Rat → Nat
  | x0 :: x1 :: _ => u16 (code (cutFrac r x0 x1))
  | _ => 0

/-- argument of `mpt_linepart_code` when the visible run ends at the invisible value `x` after `prev` -/
def trimFrac (r : Range) (prev x : Rat) : Rat :=
  if x < r.min then (r.min - x) / (prev - x) else (x - r.max) / (x - prev)

/-- "count visible points": number of leading values that are neither `< min` nor `> max` -/
def visLen (r : Range) : List Rat → Nat
  | [] => 0
  | x :: xs => if out r x then 0 else visLen r xs + 1

/-- "trailing invisible": number of leading values that are `< min` or `> max` -/
def outLen (r : Range) : List Rat → Nat
  | [] => 0
  | x :: xs => if out r x then outLen r xs + 1 else 0

/-- body of `mpt_linepart_linear` for a range and `len ≤ UINT16_MAX` values -/
def linearCore (r : Range) (ys : List Rat) : Part :=
  let k := if headCut r ys then 2 else 0                       -- partial first: raw = usr = 2
  let cut := if headCut r ys then cutCode r ys else 0
  let b := k + visLen r (ys.drop k)                            -- raw = usr = b after the counting loop
  if b = ys.length then { raw := b, usr := b, cut := cut, trim := 0 }   -- `if (!len) return`
  else
    -- the loop left at the invisible value `ys[b]`
    let usr := if b ≠ 0 then b + 1 else 0
    let trim := if b ≠ 0 then u16 (code (trimFrac r (ys.getD (b - 1) 0) (ys.getD b 0))) else 0
    let t := outLen r (ys.drop (b + 1))
    { raw := b + t + (if b + 1 + t = ys.length then 1 else 0), usr := usr, cut := cut, trim := trim }

/-- `mpt_linepart_linear(part, from, len, range)`; `range = none` models the NULL pointer -/
def linepartLinear (xs : List Rat) (range : Option Range) : Part :=
  let ys := xs.take u16max                                     -- `if (len > UINT16_MAX) len = UINT16_MAX`
  match range with
  | none => { raw := ys.length, usr := ys.length, cut := 0, trim := 0 }
  | some r => linearCore r ys

/-- `mpt_linepart_join(to, post)`: `none` models the NULL return (nothing changed).
    The joined part keeps the cut of the first and takes the trim of the second part
    (fix in /repo: the trim of `post` used to be dropped). -/
def linepartJoin (to post : Part) : Option Part :=
  if u16max - to.raw < post.raw then none
  else if u16max - to.usr < post.usr then none
  else if to.trim ≠ 0 ∨ post.cut ≠ 0 ∨ to.usr ≠ to.raw then none
  else some { raw := to.raw + post.raw, usr := to.usr + post.usr, cut := to.cut, trim := post.trim }

/-- the caller's loop (`linepart::array::apply`, first branch): repeated calls advancing by `raw`.
    A part that consumes nothing would repeat forever; the model stops there (`progress` shows that
    this never happens). `fuel` bounds the number of calls. -/
def partsAux (range : Option Range) : Nat → List Rat → List Part
  | 0, _ => []
  | fuel + 1, xs =>
    if xs.length = 0 then []
    else
      let p := linepartLinear xs range
      if p.raw = 0 then [p]
      else p :: partsAux range fuel (xs.drop p.raw)

def parts (xs : List Rat) (range : Option Range) : List Part := partsAux range xs.length xs

end Mpt.Linepart
