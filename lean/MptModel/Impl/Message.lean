/-
  M: implementation model of the fragment handling in mptcore/message/*.c and array/array_message.c.

  `struct message { used, base, cont, clen }` is a cursor: `base[0..used)` are the readable bytes of
  the fragment the cursor stands in, `cont[0..clen)` the fragments that follow.  In the model
  `base : List Byte` holds exactly those `used` bytes (`used = base.length`) and
  `cont : List Frag` the continuation (`clen = cont.length`).  An iovec array is a `List Frag`.

  Each function mirrors the C control flow: the loops over fragments, the switch to the next
  fragment, and the conversion "offset inside fragment i + lengths of the fragments before i" are
  modelled; what happens to a single character is shared with the contiguous definition
  (Spec/Flat.lean), because a single fragment *is* contiguous memory (libc `memchr`, the inner loops).
  The model follows the code after the `fix:` commits 4f20369 (message_append), bded5e4 (message_argv
  whitespace skip), 76755a6 (memtok comment skip) and the message_argv quote scanner fix (nextSpace).
-/
import MptModel.Basic
import MptModel.Impl.Ring
import MptModel.Spec.Flat

namespace Mpt
open Mpt.Flat

abbrev Frag := List Byte

/-- `Σ data[k].iov_len` -/
def sumLen (frags : List Frag) : Nat := frags.foldl (fun acc f => acc + f.length) 0

namespace Iov

/-- forward search, `mpt_memchr` / `mpt_memfcn`:
    `i` counts the fragments already searched, a hit at `pos` in fragment `i` is reported as
    `pos + Σ_{k<i} len k` (the `while (i--) ndat += data[i].iov_len` loop) -/
def fGo (frags : List Frag) (p : Byte → Bool) : List Frag → Nat → Option Nat
  | [], _ => none
  | f :: fs, i =>
    match f.findIdx? p with
    | some pos => some (pos + sumLen (frags.take i))
    | none => fGo frags p fs (i + 1)

/-- backward search, `mpt_memrchr` / `mpt_memrfcn`: fragments from the last to the first, inside a
    fragment from its end -/
def rGo (frags : List Frag) (p : Byte → Bool) : Nat → Option Nat
  | 0 => none
  | i + 1 =>
    match Flat.rfind p (frags.getD i []) with
    | some pos => some (pos + sumLen (frags.take i))
    | none => rGo frags p i

def memchr (frags : List Frag) (b : Byte) : Option Nat := fGo frags (· == b) frags 0
def memrchr (frags : List Frag) (b : Byte) : Option Nat := rGo frags (· == b) frags.length
def memfcn (frags : List Frag) (p : Byte → Bool) : Option Nat := fGo frags p frags 0
def memrfcn (frags : List Frag) (p : Byte → Bool) : Option Nat := rGo frags p frags.length

/-- `mpt_memstr`: `mlen = 0` returns 0, else `mpt_memfcn` with "byte is in the set" -/
def memstr (frags : List Frag) (set : List Byte) : Option Nat :=
  if set.isEmpty then some 0 else memfcn frags (fun c => set.contains c)
def memrstr (frags : List Frag) (set : List Byte) : Option Nat :=
  if set.isEmpty then some 0 else memrfcn frags (fun c => set.contains c)

/-- outcome of the byte loop of `mpt_memtok` inside one data part -/
inductive TokOut where
  | found (pos : Nat)                             -- `break`: position inside the part
  | more (q : Option Byte) (prev : Byte)          -- part exhausted in the main loop (`match`, `prev` carried on)
  | comment (q : Option Byte) (prev : Byte)       -- part exhausted inside the comment skip
  deriving Repr, DecidableEq

def TokOut.shift : TokOut → TokOut
  | .found p => .found (p + 1)
  | x => x

/-- the bytes of ONE part (memtok.c, body of `while (1)`): `q` = `match` (open quote), `prev`, and
    `inC` = inside `while (++pos < len && *(++curr) != '\n')` of the comment skip (entered only with `tok == NULL`).
    After the line end the code falls through to the "visible character" test: `'\n'` is white space, `prev = '\n'`. -/
def tokBytes (a : TokArgs) : Option Byte → Byte → Bool → List Byte → TokOut
  | q, prev, inC, [] => if inC then .comment q prev else .more q prev
  | q, prev, inC, c :: cs =>
    if inC then
      if c == 10 then (tokBytes a q c false cs).shift else (tokBytes a q prev true cs).shift
    else if !a.esc.isEmpty && q.isSome then
      (tokBytes a (if q == some c && prev != 92 then none else q) c false cs).shift
    else if !a.esc.isEmpty && a.esc.contains c then (tokBytes a (some c) prev false cs).shift
    else if a.com.contains c && isSpace prev then
      match a.tok with
      | some _ => .found 0
      | none => (tokBytes a q prev true cs).shift
    else
      match a.tok with
      | some t => if t.contains c then .found 0 else (tokBytes a q c false cs).shift
      | none => if !isSpace c then .found 0 else (tokBytes a q c false cs).shift

/-- `mpt_memtok` over the parts.  There are TWO places where the code moves on to the next part:
    * `inC = false`: the top of the main loop (`if (++pos >= len) { … curr = data[i].iov_base; if (!(len = …)) continue; }`);
    * `inC = true`: inside the comment skip (`do { curr = data[i].iov_base; len = data[i++].iov_len; } while (!len);
      pos = 0; if (*curr == '\n') break;` — the first byte of the new part is tested on its own, the inner while goes
      on behind it).
    A hit at `pos` in part `i` is reported as `pos + Σ_{k<i} len k`. -/
def tokGo (frags : List Frag) (a : TokArgs) : Bool → Option Byte → Byte → List Frag → Nat → Option Nat
  | _, _, _, [], _ => none
  | false, q, prev, f :: fs, i =>
    match tokBytes a q prev false f with
    | .found pos => some (pos + sumLen (frags.take i))
    | .more q' p' => tokGo frags a false q' p' fs (i + 1)
    | .comment q' p' => tokGo frags a true q' p' fs (i + 1)
  | true, q, prev, [] :: fs, i => tokGo frags a true q prev fs (i + 1)
  | true, q, prev, (c :: cs) :: fs, i =>
    match (if c == 10 then tokBytes a q c false cs else tokBytes a q prev true cs) with
    | .found pos => some (pos + 1 + sumLen (frags.take i))
    | .more q' p' => tokGo frags a false q' p' fs (i + 1)
    | .comment q' p' => tokGo frags a true q' p' fs (i + 1)

def memtok (frags : List Frag) (a : TokArgs) : Option Nat := tokGo frags a false none 32 frags 0

/-- `nextSpace` of message_argv.c (fix 3186d50), bytes of one part: white space outside quotes; its own loop,
    not `mpt_memtok` -/
def nsBytes : Option Byte → Byte → List Byte → TokOut
  | q, prev, [] => .more q prev
  | q, prev, c :: cs =>
    match q with
    | some m => (nsBytes (if some m == some c && prev != 92 then none else some m) c cs).shift    -- c == match && prev != '\\'
    | none =>
      if [39, 34].contains c then (nsBytes (some c) prev cs).shift                   -- c == '\'' || c == '"'
      else if [9, 32, 10, 13, 11].contains c then .found 0           -- memchr("\t \n\r\v", c, 5)
      else (nsBytes none c cs).shift

/-- `nextSpace(curr, cont, clen)`: `pos` grows by the length of every part left behind (`pos += len; curr = cont++`) -/
def nsGo : Option Byte → Byte → Frag → List Frag → Nat → Option Nat
  | q, prev, curr, cont, pos =>
    match nsBytes q prev curr with
    | .found i => some (pos + i)
    | .more q' p' =>
      match cont with
      | [] => none
      | f :: fs => nsGo q' p' f fs (pos + curr.length)
    | .comment _ _ => none
def nextSpace (curr : Frag) (cont : List Frag) : Option Nat := nsGo none 32 curr cont 0

/-- result of `mpt_memcpy`: return value and the target fragments afterwards -/
structure CpyRes where
  ret : Int
  dst : List Frag
  deriving Repr, DecidableEq

/-- state of the copy loop: `left` = unread rest of the current source fragment, `srcs` the source
    fragments after it; `done` = target fragments already left behind, `tw` = bytes written to the
    current target fragment, `space` = its bytes not yet overwritten, `ds` the targets after it -/
def cpyLoop : Nat → Int → Frag → List Frag → List Frag → Frag → Frag → List Frag → Nat → CpyRes
  | 0, _, _, _, done, tw, space, ds, _ => ⟨-99, done ++ [tw ++ space] ++ ds⟩   -- out of fuel (excluded by `cpy_flat`)
  | fuel + 1, len, left, srcs, done, tw, space, ds, total =>
    if len = 0 then ⟨total, done ++ [tw ++ space] ++ ds⟩
    else if left.length = 0 then
      match srcs with
      | [] => ⟨total, done ++ [tw ++ space] ++ ds⟩
      | s :: ss => cpyLoop fuel len s ss done tw space ds total
    else if space.length = 0 then
      match ds with
      | [] => ⟨total, done ++ [tw ++ space] ++ ds⟩
      | d :: dd => cpyLoop fuel len left srcs (done ++ [tw ++ space]) [] d dd total
    else
      -- `copy = len` as size_t: a negative length is larger than any fragment
      let copy := if len < 0 then min left.length space.length else min len.toNat (min left.length space.length)
      cpyLoop fuel (len - copy) (left.drop copy) srcs done (tw ++ left.take copy) (space.drop copy) ds (total + copy)

def memcpy (len : Int) (src dst : List Frag) : CpyRes :=
  match src, dst with
  | [], _ => ⟨0, dst⟩
  | _, [] => ⟨0, dst⟩
  | s :: ss, d :: dd =>
    if len > 0 ∧ len > (sumLen (s :: ss) : Int) then ⟨-1, dst⟩
    else if len > 0 ∧ len > (sumLen (d :: dd) : Int) then ⟨-2, dst⟩
    else cpyLoop (src.length + dst.length + sumLen src + 1) len s ss [] [] d dd 0

end Iov

/-- `struct message` -/
structure Msg where
  base : Frag
  cont : List Frag
  deriving Repr, DecidableEq, Inhabited

namespace Msg

def used (m : Msg) : Nat := m.base.length
def clen (m : Msg) : Nat := m.cont.length

/-- the byte string a cursor denotes -/
def flat (m : Msg) : List Byte := m.base ++ m.cont.flatten

/-- the cursor as an iovec list: `{base, used}` followed by `cont[0..clen)` -/
def iov (m : Msg) : List Frag := m.base :: m.cont

/-- `while (!msg->used && msg->clen) { take the next fragment }` -/
def skipEmpty : Frag → List Frag → Msg
  | [], f :: fs => skipEmpty f fs
  | b, c => ⟨b, c⟩

structure ReadRes where
  msg : Msg
  total : Nat          -- return value
  out : List Byte      -- bytes stored through `dest`
  deriving Repr, DecidableEq

/-- `mpt_message_read`: first loop (`while (len > (part = msg->used))`), then the partial copy and the
    skip over empty fragments -/
def readLoop : Frag → List Frag → Nat → Nat → List Byte → ReadRes
  | base, [], len, total, out =>
    if len > base.length then ⟨⟨[], []⟩, total + base.length, out ++ base⟩
    else ⟨skipEmpty (base.drop len) [], total + len, out ++ base.take len⟩
  | base, f :: fs, len, total, out =>
    if len > base.length then readLoop f fs (len - base.length) (total + base.length) (out ++ base)
    else ⟨skipEmpty (base.drop len) (f :: fs), total + len, out ++ base.take len⟩

def read (m : Msg) (len : Nat) : ReadRes := readLoop m.base m.cont len 0 []

/-- `mpt_message_length`: `len = used; while (left--) len += (vec++)->iov_len` -/
def length (m : Msg) : Nat := m.cont.foldl (fun acc f => acc + f.length) m.base.length

/-- `nextChar` of message_argv.c -/
def nextChar (curr : Frag) (cont : List Frag) (c : Byte) : Nat :=
  match Iov.memchr [curr] c with
  | some p => p
  | none =>
    match (if cont.length ≠ 0 then Iov.memchr cont c else none) with
    | some p => curr.length + p
    | none => cont.foldl (fun acc f => acc + f.length) curr.length

/-- `while (part >= cont->iov_len) { part -= cont->iov_len; --clen; ++cont; }` and the selection of the
    rest of that fragment as new base; `none` = ran off the fragment list -/
def locate : List Frag → Nat → Option Msg
  | [], _ => none
  | f :: fs, part => if part ≥ f.length then locate fs (part - f.length) else some ⟨f.drop part, fs⟩

/-- leading white space removal of `mpt_message_argv` -/
def trim (m : Msg) : Res Msg :=
  match Iov.memfcn [m.base] notSpace with
  | some part => .ok ⟨m.base.drop part, m.cont⟩
  | none =>
    match Iov.memfcn m.cont notSpace with
    | some part =>
      match locate m.cont part with
      | some m' => .ok m'
      | none => .oob
    | none => .ok m

/-- the search for white space outside quotes in `mpt_message_argv` -/
def spaceEnd (m : Msg) : Option Nat := Iov.nextSpace m.base m.cont

/-- `mpt_message_argv(msg, sep)`: the cursor afterwards and the return value -/
def argv (m : Msg) (sep : Byte) : Msg × Res Nat :=
  let m0 := skipEmpty m.base m.cont
  if m0.base.length = 0 then (m0, .err .MissingData)
  else if sep == 0 then (m0, .ok (nextChar m0.base m0.cont 0))
  else
    match trim m0 with
    | .ok m1 =>
      if !isGraph sep then
        match spaceEnd m1 with
        | some p => (m1, .ok p)
        | none => (m1, .ok (nextChar m1.base m1.cont 0))
      else (m1, .ok (nextChar m1.base m1.cont sep))
    | .err e => (m0, .err e)
    | .null => (m0, .null)
    | .oob => (m0, .oob)
    | .fault => (m0, .fault)

/-- loop of `mpt_array_message`; the array is a byte list (`mpt_array_append` = append,
    data pointer 0 = zero bytes) -/
def argsLoop (sep : Byte) : Nat → Msg → List Byte → Nat → Res (Nat × List Byte)
  | 0, _, _, _ => .fault
  | fuel + 1, m, acc, n =>
    match m.argv sep with
    | (m1, .ok len) =>
      if len = 0 ∧ sep ≠ 0 then .ok (n, acc)
      else
        -- `mpt_array_append(&a, len, 0)` then `mpt_message_read(&msg, len, base)`
        let r := if len = 0 then (⟨m1, 0, []⟩ : ReadRes) else m1.read len
        -- `mpt_array_append(&a, 1, 0)` then `mpt_message_read(&msg, 1, 0)`
        let r2 := r.msg.read 1
        argsLoop sep fuel r2.msg (acc ++ r.out ++ List.replicate (len - r.out.length) 0 ++ [0]) (n + 1)
    | (_, .err _) => .ok (n, acc)
    | (_, .null) => .null
    | (_, .oob) => .oob
    | (_, .fault) => .fault

/-- `mpt_array_message(arr, msg, sep)`: number of arguments and the new array content -/
def arrayMessage (m : Msg) (sep : Byte) (allocOk : Bool := true) : Res (Nat × List Byte) :=
  if m.length = 0 then .ok (0, [])
  else if !allocOk then .err .BadOperation       -- mpt_array_slice(&a, 0, len+1) failed
  else argsLoop sep (m.length + 1) m [] 0

/-- `mpt_message_append(arr, msg)` (after fix 4f20369): base part unless empty, then every
    non-empty continuation fragment -/
def append (arr : List Byte) (m : Msg) : List Byte :=
  m.cont.foldl (fun a f => if f.length = 0 then a else a ++ f) (if m.base.length ≠ 0 then arr ++ m.base else arr)

/-- capacity of a buffer allocated for `n` bytes (array/buffer_alloc.c: 64-byte header, 128-byte granules) -/
def bufCap (n : Nat) : Nat := (n + 64 + 127) / 128 * 128 - 64

/-- does `mpt_array_append(arr, len, …)` have to allocate? (no buffer yet, or `len > size − used`) -/
def needAlloc (cap : Option Nat) (used len : Nat) : Bool :=
  match cap with
  | none => true
  | some c => len > c - used

/-- `mpt_message_append` with allocation failures: every non-empty fragment goes through
    `mpt_array_append`, which allocates a new buffer when the array has none (`cap = none`) or the
    fragment does not fit; the `failAt`-th allocation fails (`0` = none does).
    Result: (all appended?, current buffer content, allocations attempted) -/
def appendLoop (failAt : Nat) : List Frag → Option Nat → List Byte → Nat → Bool × List Byte × Nat
  | [], _, cur, n => (true, cur, n)
  | f :: fs, cap, cur, n =>
    if f.length = 0 then appendLoop failAt fs cap cur n
    else
      if needAlloc cap cur.length f.length then
        if n + 1 = failAt then (false, cur, n + 1)
        else appendLoop failAt fs (some (bufCap (cur.length + f.length))) (cur ++ f) (n + 1)
      else appendLoop failAt fs cap (cur ++ f) n

structure AppRes where
  ret : Int
  out : List Byte
  allocs : Nat
  deriving Repr, DecidableEq

/-- `mpt_message_append(arr, msg)`: on a refused fragment the used length of the array's CURRENT
    buffer is set back to the length at entry (`if ((buf = arr->_buf)) buf->_used = olen`) -/
def appendSched (arr : List Byte) (m : Msg) (failAt : Nat) : AppRes :=
  let cap0 := if arr.length = 0 then none else some (bufCap arr.length)
  let r := appendLoop failAt (m.base :: m.cont) cap0 arr 0
  if r.1 then ⟨0, r.2.1, r.2.2⟩ else ⟨Err.MissingBuffer.code, r.2.1.take arr.length, r.2.2⟩

/-- `mpt_message_get(queue, off, take, msg, vec)`: the message over the (possibly wrapped) queue data.
    `.err BadArgument` = −1 (offset outside), `.err BadValue` = −2 (not enough data) -/
def get (r : Ring) (off take : Nat) : Res Msg :=
  -- `mpt_queue_data`: first part starts at `off`, `low0 = min (max − off) len` bytes
  let low0 := min (r.store.length - r.off) r.len
  let high0 := r.len - low0
  let sel : Option (Nat × Nat × Nat) :=
    if off < low0 then some (r.off + off, low0 - off, high0)
    else if off - low0 > high0 then none
    else some (off - low0, high0 - (off - low0), 0)
  match sel with
  | none => .err .BadArgument
  | some (base, low, high) =>
    if take > low + high then .err .BadValue
    else if take ≤ low then do
      let a ← Mem.rd r.store base take
      pure ⟨a, []⟩
    else do
      let a ← Mem.rd r.store base low
      let c ← Mem.rd r.store 0 (take - low)
      pure ⟨a, [c]⟩

/-- `mpt_dispatch_hash(disp, ev)` up to the handler lookup (after fix 8c79496): header read, command word
    via `mpt_message_argv`, hashed in place when it lies in the current fragment (`msg.used >= len`),
    else copied out with `mpt_message_read` (no length limit any more) -/
def dhash (m : Msg) : Res (Option UInt64) :=
  let h := m.read 2
  if h.total < 2 then .ok none else
  let ty := h.out.headD 0
  let arg := (h.out.drop 1).headD 0
  let sep : Byte := if ty == 4 then arg else 0
  match h.msg.argv sep with
  | (m1, .ok len) =>
    if len = 0 then .ok none
    else
      let word := if m1.base.length ≥ len then m1.base.take len else (m1.read len).out
      .ok (some (Flat.hash (if sep == 0 && word.getLast? == some 0 then word.dropLast else word)))
  | (_, .err _) => .ok none
  | (_, .null) => .null
  | (_, .oob) => .oob
  | (_, .fault) => .fault

/-- one part through `mpt_stream_push` / `mpt_array_push`: the push may take only the first `step n` bytes (1..n) of
    the `n` offered (write queue full, encoder buffer extended in passes); the caller goes on behind the bytes
    taken (`base += curr; used -= curr; continue`) until the part is used up -/
def pushPart (step : Nat → Nat) : Nat → Frag → List Byte → Nat → List Byte × Nat
  | 0, _, cur, total => (cur, total)
  | fuel + 1, f, cur, total =>
    if f.length = 0 then (cur, total) else
    let k := Nat.max 1 (Nat.min (step f.length) f.length)
    pushPart step fuel (f.drop k) (cur ++ f.take k) (total + k)

/-- `mpt_stream_append(stream, msg)` (mptio/stream/stream_append.c after fix 7541cab) and the closing
    `mpt_stream_push(stream, 0, 0)`, likewise `mpt::encode_array::push(const message &)` (mpt++/array.cpp): every
    non-empty part is pushed, in as many steps as the push function needs; a push of length 0 would end the
    message.  `cur` = bytes of the message under construction, `done` = messages finished so far -/
def sappendLoop (step : Nat → Nat) : List Frag → List Byte → List (List Byte) → Nat → Nat × List Byte × List (List Byte)
  | [], cur, done, total => (total, cur, done)
  | f :: fs, cur, done, total =>
    if f.length ≠ 0 then
      let r := pushPart step f.length f cur total
      sappendLoop step fs r.1 done r.2
    else sappendLoop step fs cur done total
def sappend (m : Msg) (step : Nat → Nat := id) : Nat × List (List Byte) :=
  let r := sappendLoop step (m.base :: m.cont) [] [] 0
  (r.1, r.2.2 ++ [r.2.1])

/-- `mpt_message_get` with `vec = NULL`: a stretch that needs a second fragment is refused (−3) -/
def getNoVec (r : Ring) (off take : Nat) : Res Msg :=
  match get r off take with
  | .ok m => if m.cont.length = 0 then .ok m else .err .BadType
  | x => x

end Msg
end Mpt
