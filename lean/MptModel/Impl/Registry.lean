/-
  M for C06: the type registry of mptcore/types/type_traits.c.

  State = the four process-global tables: interface slots (`interface_types[0 .. interface_pos)`), dynamic
  basic types (`dynamic_types[0 .. dynamic_pos)`), metatype entries and generic traits (the chunk lists,
  flattened: chunks of `metaChunk`/`genericChunk` entries are filled strictly in order, so entry k lives in
  chunk k / 30 at index k % 30 — the walk `pos -= 30; ext = ext->next` of the C code is `list[k]?` here).
  All constants, the built-in tables and the range tests of `mpt_type_traits` come from
  `Generated/TypeTables.lean` / `Generated/TypeIds.lean` (translate/cextract.py, regenerated every run).
  Lazy initialisation (`_interfaces_init`, `_meta_init`) is modelled as already done: every entry point
  initialises before it looks, and the initial state does not depend on when.
  Names are byte strings (`List Nat`).  Core Lean only.
-/
import MptModel.Impl.Ring
import MptModel.Generated.TypeIds
import MptModel.Generated.TypeTables
import MptModel.Spec.Registry
namespace Mpt.Registry
open Mpt.Generated Mpt.RegSpec

/-- a traits record as seen by a caller: known content, or bytes that were never written -/
inductive TraitsVal where
  | known (d : Desc)
  | indeterminate
  deriving DecidableEq, Repr

/-- `struct named_traits` + the traits record allocated behind it -/
structure Named where
  name : Option Name
  id : Nat
  traits : TraitsVal
  deriving DecidableEq, Repr

structure Reg where
  ifaces : List (Option Named)     -- interface_types[0 .. interface_pos)
  dyn : List Nat                   -- dynamic_types[0 .. dynamic_pos): sizes
  metas : List Named               -- meta_types chunks, flattened
  generics : List Desc             -- generic_types chunks, flattened (the registered traits records)
  deriving Repr


/-- the copy of `pointer_traits` made by constructor `fn`: complete only if the whole record is copied -/
def pointerCopy (fn : String) : TraitsVal :=
  match TypeTab.copies.find? (·.1 = fn) with
  | some (_, n) => if n ≥ TypeTab.traitsRecord then .known { size := TypeTab.pointerSize, init := false, fini := false } else .indeterminate
  | none => .indeterminate

/-- state after `_interfaces_init` and `_meta_init` -/
def init : Reg :=
  let builtin : List (Option Named) := TypeTab.coreInterfaces.map fun (n, i) =>
    some { name := some n, id := i, traits := pointerCopy "_interfaces_init" }
  { ifaces := builtin ++ List.replicate (TypeTab.interfaceStart - builtin.length) none,
    dyn := [],
    metas := [{ name := some TypeTab.metaBuiltin.1, id := TypeTab.metaBuiltin.2, traits := pointerCopy "_meta_init" }],
    generics := [] }

/-- `mpt_type_basic_add(size)` -/
def basicAdd (r : Reg) (size : Nat) : Reg × Res Nat :=
  let sz := if size = 0 then TypeTab.pointerSize else size
  if r.dyn.length < TypeTab.dynamicCap then
    ({ r with dyn := r.dyn ++ [sz] }, .ok (TypeTab.dynamicBase + r.dyn.length))
  else (r, .err .MissingBuffer)

/-- the `pos > limit` tests of a chunk walk over a table with `len` entries in chunks of `chunk`: the test inside
    the loop sees `base + chunk * k` for the full chunks it steps over, the test after the loop sees the new id -/
def rangeRefused (base chunk len : Nat) (loopMax finalMax : Option Nat) : Bool :=
  (match loopMax with
    | some m => decide (1 ≤ len / chunk ∧ base + chunk * (len / chunk) > m)
    | none => false) ||
  (match finalMax with
    | some m => decide (base + len > m)
    | none => false)

/-- `mpt_type_add(traits)` -/
def genericAdd (r : Reg) (t : Desc) : Reg × Res Nat :=
  if t.size = 0 then (r, .err .BadArgument)
  else if rangeRefused TypeTab.genericBase TypeTab.genericChunk r.generics.length TypeTab.genericLoopMax TypeTab.genericFinalMax then
    (r, .err .BadType)
  else ({ r with generics := r.generics ++ [t] }, .ok (TypeTab.genericBase + r.generics.length))

def isSpaceC (c : Nat) : Bool := c = 32 || (9 ≤ c && c ≤ 13)

/-- the "resolve shortnames" chain of `mpt_named_traits`: log, iter, out, meta -/
def resolveShort (n : Name) : Name :=
  if n = [108, 111, 103] then [108, 111, 103, 103, 101, 114]
  else if n = [105, 116, 101, 114] then [105, 116, 101, 114, 97, 116, 111, 114]
  else if n = [111, 117, 116] then [111, 117, 116, 112, 117, 116]
  else if n = [109, 101, 116, 97] then [109, 101, 116, 97, 116, 121, 112, 101]
  else n

/-- the named entries in the order `mpt_named_traits` visits them: metatype chunks, then interface slots -/
def allNamed (r : Reg) : List Named := r.metas ++ r.ifaces.filterMap id

/-- first entry whose name is `key` -/
def lookupKey (r : Reg) (key : Name) : Option Named := (allNamed r).find? (·.name = some key)

/-- the match test of the length-limited branch: `[len == strlen(elem->name) &&] !strncmp(name, elem->name, len)` -/
def matchLen (exact : Bool) (key : Name) (n : Option Name) : Bool :=
  match n with
  | some e => (if exact then e.length == key.length else true) && decide (key.length ≤ e.length) && e.take key.length == key
  | none => false

/-- first entry that matches the first `key.length` characters -/
def lookupLen (r : Reg) (key : Name) : Option Named :=
  match r.metas.find? (fun e => matchLen TypeTab.lenExactMeta key e.name) with
  | some e => some e
  | none => (r.ifaces.filterMap id).find? (fun e => matchLen TypeTab.lenExactIface key e.name)

/-- `mpt_named_traits(name, len)`: metatypes first, then interfaces -/
def namedTraits (r : Reg) (name : Name) (len : Int) : Option Named :=
  if name = [] ∨ len = 0 then none
  else if len ≥ 0 then
    if name.length < len.toNat then none else lookupLen r (name.take len.toNat)
  else lookupKey r (resolveShort name)

/-- the cross-table duplicate test `mpt_named_traits(name, len)` of the add functions, by its length argument -/
def dupFound (mode : String) (r : Reg) (n : Name) : Bool :=
  if mode = "full" then (namedTraits r n (-1)).isSome
  else if mode = "nlen" then (namedTraits r n (n.length + 1 : Nat)).isSome
  else false

/-- the name tests of the add functions: too short, already in the own table, or found by the cross-table test -/
def nameRefused (minLen : Nat) (mode : String) (own : Name → Bool) (r : Reg) (name : Option Name) : Bool :=
  match name with
  | some n => n.length < minLen || own n || dupFound mode r n
  | none => false

def ownIface (r : Reg) (n : Name) : Bool := (r.ifaces.filterMap id).any (·.name = some n)
def ownMeta (r : Reg) (n : Name) : Bool := r.metas.any (·.name = some n)

/-- `mpt_type_interface_add(name)` -/
def ifaceAdd (r : Reg) (name : Option Name) : Reg × Option Named :=
  if r.ifaces.length ≥ TypeTab.interfaceCap then (r, none)
  else if nameRefused TypeTab.minNameLenIface TypeTab.dupLookupIface (ownIface r) r name then (r, none)
  else
    let e : Named := { name := name, id := TypeTab.interfaceBase + r.ifaces.length, traits := pointerCopy "mpt_type_interface_add" }
    ({ r with ifaces := r.ifaces ++ [some e] }, some e)

/-- `mpt_type_metatype_add(name)` -/
def metaAdd (r : Reg) (name : Option Name) : Reg × Option Named :=
  if nameRefused TypeTab.minNameLenMeta TypeTab.dupLookupMeta (ownMeta r) r name then (r, none)
  else if rangeRefused TypeTab.metaBase TypeTab.metaChunk r.metas.length TypeTab.metaLoopMax TypeTab.metaFinalMax then (r, none)
  else
    let e : Named := { name := name, id := TypeTab.metaBase + r.metas.length, traits := pointerCopy "mpt_type_metatype_add" }
    ({ r with metas := r.metas ++ [e] }, some e)

/-- `mpt_interface_traits(type)` -/
def interfaceTraits (r : Reg) (id : Nat) : Option Named :=
  if id > TypeTab.interfaceLookup.2 ∨ id < TypeTab.interfaceLookup.1 then none
  else (r.ifaces[id - TypeTab.interfaceBase]?).join

/-- `mpt_metatype_traits(type)` -/
def metatypeTraits (r : Reg) (id : Nat) : Option Named :=
  if id > TypeTab.metaLookup.2 ∨ id < TypeTab.metaLookup.1 then none
  else r.metas[id - TypeTab.metaBase]?

/-- `sizeof(T)` for a C type named in the generated tables: the number clang computed (Generated `sizeofC`) -/
def cSize (ct : String) : Option Nat := (TypeTab.sizeofC.find? (·.1 = ct)).map (·.2)

/-- size stored by `_core_init/_scalar_init`: `sizeof(T)` narrowed to the table's size field -/
def tableSize (tab : List (Nat × String × Nat)) (id : Nat) : Option Nat :=
  match tab.find? (·.1 = id) with
  | some (_, ct, width) => (cSize ct).map fun s => s % 2 ^ width
  | none => none

/-- the traits functions of the static managed types (`mpt_identifier_traits()` ..., defined outside type_traits.c):
    the record `{ init, fini, sizeof(T) }` the translator read from the function `mpt_type_traits` returns for the id -/
def staticDesc (id : Nat) : Option Desc :=
  match TypeTab.staticTraits.find? (·.1 = id) with
  | some (_, _, ct, i, f) => (cSize ct).map fun s => { size := s, init := i, fini := f }
  | none => none

def plain (size : Nat) : TraitsVal := .known { size := size, init := false, fini := false }

/-- the ordered range tests of `mpt_type_traits` -/
def traitsWalk (r : Reg) (id : Nat) : List (String × Nat × Nat) → Option TraitsVal
  | [] =>
    -- `type -= _TypeValueAdd` (unsigned), then the generic chunk walk
    if id < TypeTab.dispatchGenericBase then none else (r.generics[id - TypeTab.dispatchGenericBase]?).map .known
  | (kind, lo, hi) :: rest =>
    if lo ≤ id ∧ id ≤ hi then
      if kind = "null" then none
      else if kind = "core" then
        match tableSize TypeTab.coreSizes id with
        | some s => if s = 0 then none else some (plain s)
        | none => none
      else if kind = "scalar" then
        match tableSize TypeTab.scalarSizes id with
        | some s => if s = 0 then none else some (plain s)
        | none => none
      else if kind = "vector" then
        -- `_iovec_init`: single entries, and a vector of `sizeof(vectorCType)` for every scalar of the table
        match TypeTab.vectorExtra.find? (·.1 = id - TypeId._TypeVectorBase) with
        | some (_, ct) => (cSize ct).map plain
        | none =>
          match tableSize TypeTab.scalarSizes (id - TypeId._TypeVectorBase + TypeId._TypeScalarBase) with
          | some _ => (cSize TypeTab.vectorCType).map plain
          | none => none
      else if kind = "interface" then (interfaceTraits r id).map (·.traits)
      else if kind = "dynamic" then (r.dyn[id - TypeTab.dynamicBase]?).map plain
      else if kind = "static" then
        if id ∈ TypeTab.statics then (staticDesc id).map .known else traitsWalk r id rest
      else if kind = "meta" then (metatypeTraits r id).map (·.traits)
      else none
    else traitsWalk r id rest

/-- `mpt_type_traits(type)` -/
def traits (r : Reg) (id : Nat) : Option TraitsVal := traitsWalk r id TypeTab.dispatch

/-- the name part of a description `name [ws] : [ws] symbol`: the text in front of the first `:` without its trailing
    white space -/
def aliasKey (desc : Name) (k : Nat) : Name := ((desc.take k).reverse.dropWhile isSpaceC).reverse

/-- `mpt_alias_typeid(desc, &end)`: (type id, offset of `end`).  Without a separator the whole text is looked up
    (short names allowed); with one, the first `len` characters, `len` = length of the name part. -/
def aliasTypeid (r : Reg) (desc : Name) : Res (Nat × Nat) :=
  match desc.findIdx? (· = 58) with
  | none =>
    match namedTraits r desc (-1) with
    | none => .err .BadValue
    | some e => .ok (e.id, desc.length)
  | some k =>
    let key := aliasKey desc k
    if key = [] then .err .BadValue else
    match namedTraits r desc key.length with
    | none => .err .BadValue
    | some e => .ok (e.id, k + 1 + ((desc.drop (k + 1)).takeWhile isSpaceC).length)

/-- `mpt_type_int` / `mpt_type_uint` -/
def typeInt (size : Nat) : Nat := ((TypeTab.typeInt.find? (·.1 = size)).map (·.2)).getD 0
def typeUint (size : Nat) : Nat := ((TypeTab.typeUint.find? (·.1 = size)).map (·.2)).getD 0

/-! ### message/msgvalfmt.c: wire format codes of the scalar types -/

/-- `mpt_msgvalfmt_size(fmt)`, `fmt` a byte -/
def msgSize (fmt : Nat) : Nat :=
  let f := if fmt % 256 ≥ TypeTab.MesgValByteOrderLittle then fmt % 256 - TypeTab.MesgValByteOrderLittle else fmt % 256
  -- `fmt & Normal` (0x60) non-zero: size = (fmt & 0x1f) + 1, else big numbers in atoms of `BigAtom` bytes
  if (f / 32) % 4 ≠ 0 then f % 32 + 1 else (f % 32 + 1) * TypeTab.MesgValBigAtom

/-- `mpt_msgvalfmt_typeid(fmt)` -/
def msgTypeid (fmt : Nat) : Res Nat :=
  let b := fmt % 256
  let order := if b ≥ TypeTab.MesgValByteOrderLittle then TypeTab.MesgValByteOrderLittle else 0
  if order ≠ TypeTab.MesgValByteOrderNative then .err .BadValue
  else
    let size := msgSize b
    let kind := ((b % 128) / 32) * 32          -- fmt & Normal
    if kind = 0 then .err .BadType
    else if kind = TypeTab.MesgValInteger then
      let t := typeInt size
      if t = 0 then .err .BadType else .ok t
    else if kind = TypeTab.MesgValFloat then
      if size = 4 then .ok 102 else if size = 8 then .ok 100 else if size = 16 then .ok 101 else .err .BadType
    else
      let t := typeUint size
      if t = 0 then .err .BadType else .ok t

/-- `mpt_msgvalfmt_code(type)`: `none` = -1 -/
def msgCode (type : Nat) : Option Nat := (TypeTab.msgCodes.find? (·.1 = type)).map (·.2)

end Mpt.Registry
