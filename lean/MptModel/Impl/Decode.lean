/-
  M: implementation model of the in-place decoders
     mptcore/convert/decode_cobs.c (`mpt_decode_cobs`, `_r`; re-included by decode_cobs_zpe.c with other
     macros for `mpt_decode_cobs_zpe`, `_zpe_r`) and mptcore/convert/decode_command.c.
  The iovec array is the list of segments `(base address mod 16, bytes)`; offsets of `decode_state`
  count bytes from the start of the array, so the storage is the concatenation `store` of the segments
  and both cursors of the C code (`dst`, `src`) are indices `w`, `r` into it.  The segment structure
  only matters for the address dependent alignment step (`cursorAt`) and for peek mode (first segment only).
  Every load is checked (`.oob` when the index is outside the storage) and every store is checked to lie
  strictly behind the read index (`.clobber` otherwise), so memory safety of the model is the theorem
  "no call returns `.oob`/`.clobber`".  The loop is structurally recursive on the number of unread bytes.
-/
import MptModel.Spec.Cobs
namespace Mpt.Codec
open Mpt.Cobs

structure DecState where
  ctx : Nat := 0          -- `_ctx` = code + 256 * pos
  curr : Nat := 0
  pos : Nat := 0          -- data.pos
  len : Nat := 0          -- data.len
  msg : Option Nat := none  -- data.msg (none = -1)
  deriving Repr, DecidableEq, Inhabited

/-- return value of a decoder call -/
inductive DecRet where
  | val (n : Nat)      -- 0 = need more data, 1 = message complete, or the size answer
  | err (e : Err)
  | oob                -- a load outside the storage
  | clobber            -- a store at or behind the read index / outside the storage
  deriving Repr, DecidableEq, Inhabited

structure DecOut where
  ret : DecRet
  st : DecState
  store : List Byte
  reads : List Nat := []            -- indices loaded, in order
  writes : List (Nat × Nat) := []   -- (index stored, read index at that time)
  deriving Repr, DecidableEq, Inhabited

abbrev Seg := Nat × List Byte

def flat (segs : List Seg) : List Byte := segs.flatMap (·.2)

/-- cursor of `mpt_message_read` at array offset `g`: (address mod 16, bytes left in the current
    segment); the cursor skips to the next non-empty segment when it reaches the end of one -/
def cursorAt : List Seg → Nat → Nat × Nat
  | [], _ => (0, 0)
  | (a, bs) :: rest, g =>
    if g < bs.length then ((a + g) % 16, bs.length - g)
    else cursorAt rest (g - bs.length)

/-- the `while (align > 1)` loop: offset added to the message start -/
def alignPost (addr used proc : Nat) : Nat :=
  if ¬ (used < 8 ∨ proc < addr % 16) then addr % 16
  else if ¬ (used < 4 ∨ proc < addr % 8) then addr % 8
  else if ¬ (used < 2 ∨ proc < addr % 4) then addr % 4
  else if ¬ (used < 1 ∨ proc < addr % 2) then addr % 2
  else 0

/-- `MPT_cobs_len_data` -/
def lenData (v : Variant) (c : Nat) : Nat :=
  if v.isZpe then (if c ≤ v.maxlen then c - 1 else c - 0xe0) else c - 1
/-- `MPT_cobs_len_zero` -/
def lenZero (v : Variant) (c n : Nat) : Nat :=
  if v.isZpe ∧ c ≥ 0xe0 then 2 else if c < v.maxlen ∧ n ≠ 0 then 1 else 0

/-- local variables of `_decode` inside the block loop -/
structure Loc where
  store : List Byte
  done : Nat
  mlen : Nat
  proc : Nat
  code : Nat
  pos : Nat
  reads : List Nat := []
  writes : List (Nat × Nat) := []
  deriving Repr, DecidableEq, Inhabited

/-- read index `src` -/
def Loc.r (l : Loc) : Nat := l.done + l.mlen + l.proc
/-- write index `dst` -/
def Loc.w (l : Loc) : Nat := l.done + l.mlen

/-- the common "save state and return" exits -/
def Loc.save (l : Loc) (st : DecState) (ret : DecRet) : DecOut :=
  { ret := ret, st := { st with ctx := l.pos * 256 + l.code, curr := l.r, len := l.mlen },
    store := l.store, reads := l.reads, writes := l.writes }

/-- `*dst++ = b; ++mlen` (checked: strictly behind the read index `r`, inside the storage) -/
def Loc.put (l : Loc) (r : Nat) (b : Byte) : Option Loc :=
  if l.w < r ∧ r ≤ l.store.length then
    some { l with store := l.store.set l.w b, mlen := l.mlen + 1, writes := l.writes ++ [(l.w, r)] }
  else none

/-- the zero loop `for (; pos < curr; ++pos)` after a block: `k` zeros still to write.
    `none` = target space exhausted (MissingBuffer), state as at that point -/
def putZeros : Nat → Loc → Nat → Loc × Bool
  | 0, l, _ => (l, true)
  | k + 1, l, r =>
    if l.proc = 0 then (l, false)
    else
      match l.put r 0 with
      | some l' => putZeros k { l' with proc := l'.proc - 1, pos := l'.pos + 1 } r
      | none => (l, false)    -- unreachable: proc > 0 means w < r (see Lemmas/Decode.lean)

/-- block loop of `_decode`, one input byte per step; `n` = number of unread bytes (`total - r`) -/
def decLoop (v : Variant) (st : DecState) (peek : Bool) : Nat → Loc → DecOut
  | 0, l => l.save st (.val 0)                         -- no more input (or peek after the first block)
  | n + 1, l =>
    if l.pos < lenData v l.code then
      -- data byte of the open block
      match l.store[l.r]? with
      | none => { l.save st .oob with ret := .oob }
      | some val =>
        let r1 := l.r + 1
        let l := { l with reads := l.reads ++ [l.r] }
        if val = 0 then l.save st (.err .MissingData)       -- inline zero byte
        else if l.proc = 0 then l.save st (.val 0)          -- no remaining target space
        else
          match l.put r1 val with
          | some l' => decLoop v st peek n { l' with pos := l'.pos + 1 }
          | none => { l.save st .clobber with ret := .clobber }
    else if peek then l.save st (.val 0)                    -- only process first block
    else
      -- read next element
      match l.store[l.r]? with
      | none => { l.save st .oob with ret := .oob }
      | some next =>
        let r1 := l.r + 1
        let l := { l with reads := l.reads ++ [l.r] }
        let k := lenData v l.code + lenZero v l.code next.toNat - l.pos
        match putZeros k l r1 with
        | (l', false) => l'.save st (.err .MissingBuffer)
        | (l', true) =>
          -- save next part code
          let l' := { l' with proc := l'.proc + 1, code := next.toNat, pos := 0 }
          if next = 0 then
            -- message finished
            { ret := .val 1,
              st := { st with ctx := 0, pos := l'.done, len := l'.mlen, msg := some l'.mlen, curr := l'.r },
              store := l'.store, reads := l'.reads, writes := l'.writes }
          else decLoop v st peek n l'

/-- "consume previous message": state afterwards, `done`, `mlen` -/
def decPrev (st : DecState) : DecState × Nat × Nat :=
  match st.msg with
  | some m => ({ st with len := st.len - m, msg := none }, st.pos + m, st.len - m)
  | none => (st, st.pos, st.len)

/-- "encoded data start": the slack must lie inside the supplied data -/
def decEnter (st : DecState) (store : List Byte) (done mlen proc : Nat) : (Err × DecState) ⊕ (DecState × Loc) :=
  if store.length < done + mlen + proc then .inl (.BadArgument, st)
  else .inr (st, { store := store, done := done, mlen := mlen, proc := proc, code := st.ctx % 256, pos := (st.ctx / 256) % 256 })

/-- the part of `_decode` in front of the block loop: consistency check, previous message, alignment of a
    new message.  Either an error exit (with the state as left behind) or the state and loop variables. -/
def decPrep (st : DecState) (segs : List Seg) (store : List Byte) (peek : Bool) : (Err × DecState) ⊕ (DecState × Loc) :=
  let dlen := st.pos + st.len
  -- consume processed data
  if dlen > st.curr ∨ store.length < dlen then .inl (.BadArgument, st)
  -- consume previous message
  else if st.msg.isSome ∧ peek = true then .inl (.BadOperation, st)
  else if (decPrev st).2.2 = 0 then
    -- align offset for target data
    if peek = true then .inl (.BadOperation, (decPrev st).1)
    else
      -- target base alignment for a new message only: an open block keeps its work area
      let post := if st.ctx % 256 = 0 then alignPost (cursorAt segs dlen).1 (cursorAt segs dlen).2 (st.curr - dlen) else 0
      decEnter { (decPrev st).1 with pos := dlen + post } store (dlen + post) 0 (st.curr - dlen - post)
  else decEnter (decPrev st).1 store (decPrev st).2.1 (decPrev st).2.2 (st.curr - dlen)

/-- "finished with complete block/message": read the first code byte of a block sequence, then loop -/
def decStart (v : Variant) (st : DecState) (peek : Bool) (l : Loc) : DecOut :=
  if l.code = 0 then
    match l.store[l.r]? with
    | none => { ret := .val 0, st := st, store := l.store }
    | some c =>
      if c = 0 then
        -- double/leading zero
        { ret := .err .BadValue, st := { st with curr := l.r + 1 }, store := l.store, reads := [l.r] }
      else decLoop v st peek (l.store.length - (l.r + 1)) { l with proc := l.proc + 1, code := c.toNat, reads := [l.r] }
  else decLoop v st peek (l.store.length - l.r) l

/-- `mpt_decode_cobs` / `_decode` of decode_cobs_zpe.c with `source != NULL`.
    `peek` = `sourcelen == 0` (single segment, no new message). -/
def decodeCobs (v : Variant) (st : DecState) (segs : List Seg) (peek : Bool) : DecOut :=
  let segs := if peek then segs.take 1 else segs
  match decPrep st segs (flat segs) peek with
  | .inl (e, st) => { ret := .err e, st := st, store := flat segs }
  | .inr (st, l) => decStart v st peek l

/-- `_decode_r`: tail inline fix-up on top of the regular decoder -/
def decodeCobsR (v : Variant) (st : DecState) (segs : List Seg) (peek : Bool) : DecOut :=
  let o := decodeCobs v st segs peek
  if o.ret = .err .MissingData ∧ o.st.ctx ≠ 0 then
    let at_ := o.st.pos + o.st.len
    -- `tmp.clen = sourcelen`: nothing is visible in peek mode
    if peek ∨ o.store.length ≤ at_ then { o with ret := .err .MissingBuffer }
    else if at_ < o.st.curr + 1 then
      -- add inlined end byte
      { ret := .val 1,
        st := { o.st with ctx := 0, len := o.st.len + 1, msg := some (o.st.len + 1), curr := o.st.curr + 1 },
        store := o.store.set at_ (UInt8.ofNat (o.st.ctx % 256)),
        reads := o.reads, writes := o.writes ++ [(at_, o.st.curr + 1)] }
    else { o with ret := .clobber }
  else o

/-- the four COBS decoders by variant -/
def decodeV (v : Variant) (st : DecState) (segs : List Seg) (peek : Bool) : DecOut :=
  if v.tail then decodeCobsR v st segs peek else decodeCobs v st segs peek

/-- model of a receiver: the stream arrives in `pieces` appended to one segment (base address offset `a`),
    the decoder is called after every arrival; result of the first call that does not return 0 -/
def arrive (v : Variant) (a : Nat) : DecState → List Byte → List (List Byte) → Option DecOut
  | _, _, [] => none
  | st, store, p :: ps =>
    if (decodeV v st [(a, store ++ p)] false).ret = .val 0 then
      arrive v a (decodeV v st [(a, store ++ p)] false).st (decodeV v st [(a, store ++ p)] false).store ps
    else some (decodeV v st [(a, store ++ p)] false)

/-- the storage (decoded in place) put back into the segment structure -/
def reseg : List Seg → List Byte → List Seg
  | [], _ => []
  | (a, bs) :: rest, store => (a, store.take bs.length) :: reseg rest (store.drop bs.length)

/-- more input: appended to the last segment, or as a further segment with its own base alignment -/
structure Arrival where
  newSeg : Bool
  align : Nat
  bytes : List Byte
  deriving Repr, DecidableEq

def addArrival (segs : List Seg) (x : Arrival) : List Seg :=
  match segs.getLast?, x.newSeg with
  | some last, false => segs.dropLast ++ [(last.1, last.2 ++ x.bytes)]
  | _, _ => segs ++ [(x.align, x.bytes)]

/-- model of a receiver with an iovec array: every arrival extends the last segment or adds a segment
    (possibly empty), the decoder is called on the whole array after every arrival; result of the first
    call that does not return 0 -/
def arriveSegs (v : Variant) : DecState → List Seg → List Arrival → Option DecOut
  | _, _, [] => none
  | st, segs, x :: xs =>
    if (decodeV v st (addArrival segs x) false).ret = .val 0 then
      arriveSegs v (decodeV v st (addArrival segs x) false).st
        (reseg (addArrival segs x) (decodeV v st (addArrival segs x) false).store) xs
    else some (decodeV v st (addArrival segs x) false)

/-- `source == NULL`: reset (`sourcelen == 0`: the open block and the message in progress are dropped, a
    delivered message that is still waiting stays) or size query -/
def decodeQuery (v : Variant) (st : DecState) (n : Nat) : DecRet × DecState :=
  if n = 0 then (.val 0, { st with ctx := 0, len := if st.msg.isSome then st.len else 0 })
  else (.val ((if v.isZpe then n * 2 else n - n / v.maxlen) + st.len), st)

/-! ### `mpt_decode_command` -/

/-- first zero byte at or after index `i` (at most `n` bytes looked at) -/
def findZero (store : List Byte) : Nat → Nat → Option Nat
  | 0, _ => none
  | n + 1, i => if store[i]? = some 0 then some i else findZero store n (i + 1)

def decodeCommand (st : DecState) (segs : List Seg) (peek : Bool) : DecOut :=
  let segs := if peek then segs.take 1 else segs
  let store := flat segs
  let fail (e : Err) : DecOut := { ret := .err e, st := st, store := store }
  let pos := st.curr
  if st.msg.isSome ∧ peek then fail .BadOperation else
  let len := st.len - st.msg.getD 0
  if len = 0 then
    -- start new message
    if peek then fail .BadOperation
    else if pos < 2 then fail .MissingBuffer
    else if store.length < pos - 2 then fail .MissingData
    else if store.length < pos - 1 then fail .MissingBuffer
    else if store.length < pos then { ret := .err .MissingBuffer, st := st, store := store.set (pos - 2) 0x04, writes := [(pos - 2, pos)] }
    else
      let store := (store.set (pos - 2) 0x04).set (pos - 1) 0x20
      let st := { st with pos := pos - 2, len := 2, msg := none }
      match findZero store (store.length - pos) pos with
      | some z =>
        { ret := .val 1, st := { st with len := 2 + (z - pos), msg := some (2 + (z - pos)), curr := z + 1 },
          store := store, reads := (List.range (z + 1 - pos)).map (· + pos), writes := [(pos - 2, pos), (pos - 1, pos)] }
      | none =>
        { ret := .val 0, st := { st with len := 2 + (store.length - pos), curr := store.length },
          store := store, reads := (List.range (store.length - pos)).map (· + pos), writes := [(pos - 2, pos), (pos - 1, pos)] }
  else if pos ≠ st.pos + len then fail .BadArgument
  else if store.length < pos then fail .MissingData
  else
    match findZero store (store.length - pos) pos with
    | some z =>
      let len := len + (z - pos)
      if peek ∨ st.msg.isSome then
        { ret := .val 1, st := { st with len := len, curr := st.pos + len }, store := store,
          reads := (List.range (z + 1 - pos)).map (· + pos) }
      else
        { ret := .val 1, st := { st with len := len, msg := some len, curr := st.pos + len + 1 }, store := store,
          reads := (List.range (z + 1 - pos)).map (· + pos) }
    | none =>
      let len := len + (store.length - pos)
      { ret := .val 0, st := { st with len := len, curr := st.pos + len }, store := store,
        reads := (List.range (store.length - pos)).map (· + pos) }

/-- model of a receiver of command text: the stream arrives in pieces appended to one segment, the
    decoder is called after every arrival; result of the first call that does not return 0 -/
def arriveCmd (a : Nat) : DecState → List Byte → List (List Byte) → Option DecOut
  | _, _, [] => none
  | st, store, p :: ps =>
    if (decodeCommand st [(a, store ++ p)] false).ret = .val 0 then
      arriveCmd a (decodeCommand st [(a, store ++ p)] false).st (decodeCommand st [(a, store ++ p)] false).store ps
    else some (decodeCommand st [(a, store ++ p)] false)

/-- model of a receiver that keeps calling the decoder on the same storage (one segment at base alignment
    `a`) from the state the previous call left behind: the messages delivered by the first calls that return
    1 (at most `n` calls) -/
def decodeAll (v : Variant) (a : Nat) : Nat → DecState → List Byte → List (List Byte)
  | 0, _, _ => []
  | n + 1, st, store =>
    if (decodeV v st [(a, store)] false).ret = .val 1 then
      ((decodeV v st [(a, store)] false).store.drop (decodeV v st [(a, store)] false).st.pos).take
          (decodeV v st [(a, store)] false).st.len ::
        decodeAll v a n (decodeV v st [(a, store)] false).st (decodeV v st [(a, store)] false).store
    else []

end Mpt.Codec
