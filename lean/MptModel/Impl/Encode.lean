/-
  M: implementation model of the encoders
     mptcore/convert/encode_cobs.c (+ encode_cobs_zpe.c which re-includes it with other macros),
     mptcore/convert/encode_cobs_r.c, mptcore/convert/encode_string.c (zero delimiter, no separator
     pattern) and the retry loop of mptcore/array/array_push.c.
  The caller-granted window `cobs->iov_base[0 .. iov_len)` is the list `win`; pointer arithmetic is
  index arithmetic on it; every store goes through the checked `wr` (an index outside the window is
  `.oob`).  `struct encode_state` = `EncState`.
-/
import MptModel.Spec.Cobs
namespace Mpt.Codec
open Mpt.Cobs

/-- result of a model call -/
inductive CRes (α : Type) where
  | ok (v : α)
  | err (e : Err)   -- negative MPT_ERROR return, nothing stored
  | oob             -- an index left the window: memory-safety violation in the C code
  | unmodelled      -- a state the model does not cover (never produced by the generators)
  deriving Repr, DecidableEq

namespace CRes
@[inline] def bind {α β} (x : CRes α) (f : α → CRes β) : CRes β :=
  match x with
  | .ok v => f v | .err e => .err e | .oob => .oob | .unmodelled => .unmodelled
instance : Monad CRes where
  pure := .ok
  bind := bind
def toOption {α} : CRes α → Option α
  | .ok v => some v
  | _ => none
@[simp] theorem bind_ok {α β} (v : α) (f : α → CRes β) : (CRes.ok v >>= f) = f v := rfl
@[simp] theorem pure_eq {α} (v : α) : (pure v : CRes α) = .ok v := rfl
end CRes

/-- checked single byte store `win[i] = b` -/
def wr (win : List Byte) (i : Nat) (b : Byte) : CRes (List Byte) :=
  if i < win.length then .ok (win.set i b) else .oob

/-- checked single byte load -/
def rd (win : List Byte) (i : Nat) : CRes Byte :=
  match win[i]? with
  | some b => .ok b
  | none => .oob

structure EncState where
  ctx : Nat := 0
  done : Nat := 0
  scratch : Nat := 0
  deriving Repr, DecidableEq, Inhabited

/-- what one encoder call returns: new state, window content, return value (consumed bytes) -/
structure EncOut where
  st : EncState
  win : List Byte
  ret : Nat
  deriving Repr, DecidableEq

/-- state of the data loop when it stops: window, `dst` (index of the next free byte), open code,
    number of source bytes not consumed -/
structure LoopOut where
  win : List Byte
  dst : Nat
  code : Nat
  rem : Nat
  deriving Repr, DecidableEq

/-- the `while (1)` loop of `mpt_encode_cobs`.  `left` of the C code is `win.length - dst`.
    `skip` = the byte at the head was consumed by the zero-pair look-ahead of `MPT_cobs_zero`. -/
def encLoop (v : Variant) : List Byte → Nat → Nat → Bool → List Byte → CRes LoopOut
  | win, dst, code, _, [] => do
    -- save COBS state
    let w ← wr win (dst - code) (UInt8.ofNat code)
    pure ⟨w, dst, code, 0⟩
  | win, dst, code, true, _ :: rest => encLoop v win dst code false rest
  | win, dst, code, false, b :: rest =>
    if b = 0 then do
      -- end of code block: MPT_cobs_zero(code, dst, left, src, len)
      let pair : Bool := v.isZpe && decide (1 < code) && decide (code < 32) && (rest.head? == some 0)
      let w ← wr win (dst - code) (UInt8.ofNat (if pair then code + v.maxlen else code))
      -- ++d, --r, code = 1
      if dst + 1 = win.length then do
        -- save current state
        let w ← wr w dst 1
        pure ⟨w, dst + 1, 1, if pair then rest.length - 1 else rest.length⟩
      else encLoop v w (dst + 1) 1 pair rest
    else do
      let w ← wr win dst b
      -- reached maximum length
      if code + 1 = v.maxlen then
        if dst + 1 = win.length then do
          -- unable to save continuation state: take the byte back
          let w ← wr w (dst - code) (UInt8.ofNat code)
          pure ⟨w, dst, code, rest.length + 1⟩
        else do
          -- end of code block
          let w ← wr w (dst - code) (UInt8.ofNat (code + 1))
          if dst + 2 = win.length then do
            let w ← wr w (dst + 1) 1
            pure ⟨w, dst + 2, 1, rest.length⟩
          else encLoop v w (dst + 2) 1 false rest
      else if dst + 1 = win.length then do
        let w ← wr w (dst - code) (UInt8.ofNat (code + 1))
        pure ⟨w, dst + 1, code + 1, rest.length⟩
      else encLoop v w (dst + 1) (code + 1) false rest

/-- `mpt_encode_cobs` / `mpt_encode_cobs_zpe`; `src = none` is `base == NULL` (terminate).
    `cobs == NULL` (reset) is `EncState` default; message deletion (`base->iov_base == NULL`) is
    `encodeCobsDel` below. -/
def encodeCobs (v : Variant) (st : EncState) (win : List Byte) (src : Option (List Byte)) : CRes EncOut :=
  let code := st.scratch % 256
  let len := st.done
  -- bad encoder state
  if len > win.length then .err .BadArgument else
  let left := win.length - len
  if code > left then .err .BadArgument else
  match src with
  | none =>
    -- message termination: need enough data to save end
    if code ≥ left then .err .MissingBuffer
    else if code = 0 then
      -- special case: empty message
      if left < 2 then .err .MissingBuffer
      else do
        let w ← wr win len 1
        let w ← wr w (len + 1) 0
        pure ⟨{ ctx := 0, done := len + 2, scratch := 0 }, w, 0⟩
    else do
      let w ← wr win len (UInt8.ofNat code)
      let w ← wr w (len + code) 0
      pure ⟨{ ctx := 0, done := len + code + 1, scratch := 0 }, w, 0⟩
  | some bytes =>
    if bytes.length = 0 then .err .BadValue
    -- remaining data in cobs
    else if code ≠ 0 ∧ left - code = 0 then .err .MissingBuffer
    else if code = 0 ∧ left ≤ 1 then .err .MissingBuffer
    else do
      let code := if code ≠ 0 then code else 1
      let o ← encLoop v win (len + code) code false bytes
      -- update processed data
      pure ⟨{ ctx := st.ctx + (o.dst - st.done - st.scratch), done := o.dst - o.code, scratch := o.code },
            o.win, bytes.length - o.rem⟩

/-- `MPT_cobs_check_inline(code, end, dst)` of encode_cobs_r.c / encode_cobs_zpe.c -/
def checkInline (v : Variant) (code : Nat) (e : Byte) : Bool :=
  if v.isZpe then decide (code ≤ v.maxlen) && decide (code < e.toNat) && decide (e.toNat ≤ v.maxlen)
  else decide (code < e.toNat)

/-- `mpt_encode_cobs_r` / `mpt_encode_cobs_zpe_r` -/
def encodeCobsR (v : Variant) (st : EncState) (win : List Byte) (src : Option (List Byte)) : CRes EncOut :=
  if src.isSome ∨ st.scratch = 0 then encodeCobs v st win src
  else
    let code := st.scratch
    let off := st.done
    if off > win.length then .err .BadArgument
    else do
      let inl : Option Byte ←
        if code > 1 then do
          let e ← rd win (off + code - 1)
          pure (if checkInline v code e then some e else none)
        else pure none
      match inl with
      | some e => do
        -- tail inline condition
        let w ← wr win off e
        let w ← wr w (off + code - 1) 0
        pure ⟨{ ctx := 0, done := off + code, scratch := 0 }, w, 0⟩
      | none =>
        -- need enough data to save end
        if win.length - off ≤ code then .err .MissingBuffer
        else do
          let w ← wr win off (UInt8.ofNat code)
          let w ← wr w (off + code) 0
          pure ⟨{ ctx := 0, done := off + code + 1, scratch := 0 }, w, 0⟩

/-- `mpt_encode_string` with `_ctx = 0` (zero delimiter) and no separator pattern (`scratch = 0`) -/
def encodeString (st : EncState) (win : List Byte) (src : Option (List Byte)) : CRes EncOut :=
  if st.scratch ≠ 0 ∨ st.ctx ≠ 0 then .unmodelled else
  let off := st.done
  if off > win.length then .err .BadArgument else
  let max := win.length - off
  match src with
  | none =>
    if max = 0 then .err .MissingBuffer
    else do
      let w ← wr win off 0
      pure ⟨{ st with done := off + 1 }, w, 0⟩
  | some bytes =>
    if bytes.length = 0 then .err .BadArgument
    else if max = 0 then .err .MissingBuffer
    else
      let take := min bytes.length max
      if (0 : Byte) ∈ bytes.take take then .err .BadEncoding
      else if off + take ≤ win.length then
        .ok ⟨{ st with done := off + take }, win.take off ++ bytes.take take ++ win.drop (off + take), take⟩
      else .oob

/-! ### message deletion (`base->iov_base == NULL`, `base->iov_len` = number of messages) -/

/-- index behind the last delimiter `d` in `win[0 .. pos)`; 0 if there is none -/
def backToDelim (win : List Byte) (d : Byte) : Nat → Nat
  | 0 => 0
  | p + 1 => if win[p]? = some d then p + 1 else backToDelim win d p

/-- remove `k` finished messages in front of `pos` (0 or an index behind a delimiter) -/
def dropFrames (win : List Byte) (d : Byte) : Nat → Nat → Option Nat
  | 0, pos => some pos
  | k + 1, pos => if pos = 0 then none else dropFrames win d k (backToDelim win d (pos - 1))

/-- message deletion of `mpt_encode_cobs` (all four COBS encoders end up here): a message in progress
    (`_ctx != 0`) counts as the first one and is cut back to the end of the last finished frame -/
def encodeCobsDel (st : EncState) (win : List Byte) (k : Nat) : CRes EncOut :=
  let code := st.scratch % 256
  if st.done > win.length then .err .BadArgument else
  if code > win.length - st.done then .err .BadArgument else
  if k = 0 then .err .BadValue else
  let pos0 := if st.ctx ≠ 0 then backToDelim win 0 st.done else st.done
  match dropFrames win 0 (if st.ctx ≠ 0 then k - 1 else k) pos0 with
  | none => .err .BadValue
  | some pos => .ok ⟨{ ctx := 0, done := pos, scratch := 0 }, win, pos⟩

/-- one deletion step of `mpt_encode_string`: strip the end byte of a finished message, then go back
    behind the previous delimiter -/
def stringDelStep (win : List Byte) (d : Byte) (off : Nat) : Nat :=
  backToDelim win d (if win[off - 1]? = some d then off - 1 else off)

def stringDel (win : List Byte) (d : Byte) : Nat → Nat → Option Nat
  | 0, off => some off
  | k + 1, off => if off = 0 then none else stringDel win d k (stringDelStep win d off)

/-- message deletion of `mpt_encode_string` (zero delimiter, no separator pattern) -/
def encodeStringDel (st : EncState) (win : List Byte) (k : Nat) : CRes EncOut :=
  if st.scratch ≠ 0 ∨ st.ctx ≠ 0 then .unmodelled else
  if st.done > win.length then .err .BadArgument else
  if k = 0 then .err .BadArgument else
  match stringDel win 0 k st.done with
  | none => .err .MissingData
  | some off => .ok ⟨{ st with done := off }, win, off⟩

/-- the five framings -/
inductive Codec where
  | cobs (v : Variant)
  | command
  deriving DecidableEq, Repr, Inhabited

def Codec.ofName (s : String) : Option Codec :=
  if s = "command" then some .command else (Variant.ofName s).map .cobs

def Codec.name : Codec → String
  | .cobs v => v.name
  | .command => "command"

/-- `mpt_message_encoder(code)` -/
def encode (c : Codec) (st : EncState) (win : List Byte) (src : Option (List Byte)) : CRes EncOut :=
  match c with
  | .cobs v => if v.tail then encodeCobsR v st win src else encodeCobs v st win src
  | .command => encodeString st win src

/-- A caller of the encoder (the shape of every retry loop in the library: `mpt_array_push`,
    `mpt_queue_push`): hands the pieces over one after the other, re-pushes what was not taken, and
    enlarges the window by the next entry of `caps` whenever the encoder took less than offered or
    asked for space; finally terminates the message.  `caps` is an arbitrary growth schedule, `fuel`
    bounds the number of encoder calls. -/
def encodeSched (c : Codec) (fill : Byte) : Nat → EncState → List Byte → List (List Byte) → List Nat → CRes EncOut
  | 0, _, _, _, _ => .err .MissingBuffer
  | f + 1, st, win, [], caps =>
    match encode c st win none with
    | .ok o => .ok o
    | .err e =>
      if e = .MissingBuffer then
        match caps with
        | [] => .err .MissingBuffer
        | k :: caps => encodeSched c fill f st (win ++ List.replicate k fill) [] caps
      else .err e
    | .oob => .oob
    | .unmodelled => .unmodelled
  | f + 1, st, win, ch :: rest, caps =>
    match encode c st win (some ch) with
    | .ok o =>
      if o.ret = ch.length then encodeSched c fill f o.st o.win rest caps
      else
        match caps with
        | [] => .err .MissingBuffer
        | k :: caps => encodeSched c fill f o.st (o.win ++ List.replicate k fill) (ch.drop o.ret :: rest) caps
    | .err e =>
      if e = .MissingBuffer then
        match caps with
        | [] => .err .MissingBuffer
        | k :: caps => encodeSched c fill f st (win ++ List.replicate k fill) (ch :: rest) caps
      else .err e
    | .oob => .oob
    | .unmodelled => .unmodelled

/-! ### `mpt_array_push` -/

/-- deletion through the encoder selected for the framing -/
def encodeDel (c : Codec) (st : EncState) (win : List Byte) (k : Nat) : CRes EncOut :=
  match c with
  | .cobs _ => encodeCobsDel st win k
  | .command => encodeStringDel st win k

/-- `cobs->iov_base == NULL` with `iov_len == 0` (uninitialized target): nothing is stored -/
def encodeNull (c : Codec) (st : EncState) (src : Option (List Byte)) : CRes EncOut :=
  match c with
  | .cobs _ => if st.scratch % 256 ≠ 0 ∨ st.done ≠ 0 then .err .BadArgument else .err .MissingBuffer
  | .command =>
    if st.scratch ≠ 0 ∨ st.ctx ≠ 0 then .unmodelled
    else if st.done > 0 then .err .BadArgument
    else match src with
      | none => .err .MissingBuffer
      | some bytes => if bytes.length = 0 then .err .BadArgument else .err .MissingBuffer

/-- `_mpt_buffer_alloc`: usable size for a request of `n` bytes (128-byte parts, 64-byte header) -/
def allocSize (n : Nat) : Nat := ((n + 64 - 1) / 128 + 1) * 128 - 64

/-- `detach(b, n)` of an unshared heap buffer: same buffer if it is large enough, else a new one with
    the old content (new bytes are whatever malloc returns: the model keeps `fill`) -/
def detach (buf : List Byte) (used n : Nat) (fill : Byte) : List Byte :=
  if n ≤ buf.length then buf
  else buf.take (min used (allocSize n)) ++ List.replicate (allocSize n - min used (allocSize n)) fill

structure EncArray where
  st : EncState := {}
  buf : Option (List Byte) := none      -- `_d._buf`: storage `b+1 .. b+1+_size`
  used : Nat := 0                        -- `b->_used`
  deriving Repr, DecidableEq, Inhabited

/-- the `while (1)` retry loop; `fuel` bounds the number of encoder calls (each call either consumes
    input or is followed by a buffer growth, so `2 * len + 8` calls always suffice).  Result: state,
    storage, `_used`, C return value, and the number of bytes each successful encoder call consumed. -/
def pushLoop (c : Codec) (fill : Byte) : Nat → EncState → List Byte → Nat → Option (List Byte) → Nat → List Nat →
    CRes (EncState × List Byte × Nat × Int × List Nat)
  | 0, _, _, _, _, _, _ => .unmodelled
  | fuel + 1, st, buf, used, data, max, cons =>
    if used < st.done + st.scratch then .ok (st, buf, used, Err.BadArgument.code, cons)
    else
      let off := used - (st.done + st.scratch)
      match encode c st (buf.drop off) data with
      | .ok o =>
        let buf' := buf.take off ++ o.win
        let used' := off + o.st.done + o.st.scratch
        match data with
        | none => .ok (o.st, buf', used', (max + o.ret : Nat), cons)
        | some bytes =>
          if bytes.length = o.ret then .ok (o.st, buf', used', (max + o.ret : Nat), cons ++ [o.ret])
          else if o.ret = 0 then
            -- the encoder could not take any of the data: require larger buffer
            pushLoop c fill fuel o.st (detach buf' used' (buf'.length + 64) fill) used' data max cons
          else pushLoop c fill fuel o.st buf' used' (some (bytes.drop o.ret)) (max + o.ret) (cons ++ [o.ret])
      | .err .MissingBuffer =>
        -- require larger buffer
        pushLoop c fill fuel st (detach buf used (buf.length + 64) fill) used data max cons
      | .err e => .ok (st, buf, used, if max ≠ 0 then (max : Int) else e.code, cons)
      | .oob => .oob
      | .unmodelled => .unmodelled

/-- "current buffer data": the buffer (allocated or enlarged to hold `add` more bytes) the retry loop starts with -/
def arrayStart (fill : Byte) (a : EncArray) (add : Nat) : CRes (List Byte × Nat) :=
  match a.buf with
  | none => if a.st.done + a.st.scratch ≠ 0 then .err .BadArgument else .ok (List.replicate (allocSize add) fill, 0)
  | some b => .ok (detach b a.used (a.st.done + a.st.scratch + add) fill, a.used)

/-- `mpt_array_push(arr, len, data)` with an encoder set; `data = none` is `len = 0` (terminate).
    Returns the array afterwards, the C return value and the per-call consumption. -/
def arrayPush (c : Codec) (fill : Byte) (a : EncArray) (data : Option (List Byte)) : CRes (EncArray × Int × List Nat) :=
  let len := (data.map List.length).getD 0
  let max := a.st.done + a.st.scratch
  let add := if len > 64 then len else 64
  match arrayStart fill a add with
  | .ok (buf, used) =>
    match pushLoop c fill (2 * len + 8) a.st buf used (if len = 0 then none else data) 0 [] with
    | .ok (st, buf, used, ret, cons) => .ok ({ st := st, buf := some buf, used := used }, ret, cons)
    | .err e => .err e
    | .oob => .oob
    | .unmodelled => .unmodelled
  | .err e => .err e
  | .oob => .oob
  | .unmodelled => .unmodelled

/-- `mpt_array_push(arr, k, NULL)`: delete `k` messages (the message in progress counts as the first) -/
def arrayDel (c : Codec) (fill : Byte) (a : EncArray) (k : Nat) : CRes (EncArray × Int) :=
  match arrayStart fill a (if k > 64 then k else 64) with
  | .ok (buf, used) =>
    if used < a.st.done + a.st.scratch then .ok ({ a with buf := some buf, used := used }, Err.BadArgument.code)
    else
      let off := used - (a.st.done + a.st.scratch)
      match encodeDel c a.st (buf.drop off) k with
      | .ok o => .ok ({ st := o.st, buf := some buf, used := off + o.st.done + o.st.scratch }, (o.ret : Int))
      | .err e => .ok ({ a with buf := some buf, used := used }, e.code)
      | .oob => .oob
      | .unmodelled => .unmodelled
  | .err e => .err e
  | .oob => .oob
  | .unmodelled => .unmodelled

/-! ### `mpt_array_push` with a refused allocation -/

/-- `detach` with allocation bookkeeping: `allocs` allocations were made in this call so far, the
    `failAt`-th one is refused (0 = none).  `none` = NULL (the old buffer stays valid) -/
def detachF (buf : List Byte) (used n : Nat) (fill : Byte) (allocs failAt : Nat) : Option (List Byte) × Nat :=
  if n ≤ buf.length then (some buf, allocs)
  else if allocs + 1 = failAt then (none, allocs + 1)
  else (some (detach buf used n fill), allocs + 1)

/-- the retry loop of `mpt_array_push` when the `failAt`-th allocation of the call is refused: the call
    returns what it has consumed so far (or MissingBuffer), array and encoder state stay consistent -/
def pushLoopF (c : Codec) (fill : Byte) (failAt : Nat) : Nat → Nat → EncState → List Byte → Nat → Option (List Byte) → Nat → List Nat →
    CRes (EncState × List Byte × Nat × Int × List Nat)
  | 0, _, _, _, _, _, _, _ => .unmodelled
  | fuel + 1, allocs, st, buf, used, data, max, cons =>
    if used < st.done + st.scratch then .ok (st, buf, used, Err.BadArgument.code, cons)
    else
      let off := used - (st.done + st.scratch)
      let giveUp (st : EncState) (buf : List Byte) (used : Nat) : CRes (EncState × List Byte × Nat × Int × List Nat) :=
        .ok (st, buf, used, if max ≠ 0 then (max : Int) else Err.MissingBuffer.code, cons)
      match encode c st (buf.drop off) data with
      | .ok o =>
        let buf' := buf.take off ++ o.win
        let used' := off + o.st.done + o.st.scratch
        match data with
        | none => .ok (o.st, buf', used', (max + o.ret : Nat), cons)
        | some bytes =>
          if bytes.length = o.ret then .ok (o.st, buf', used', (max + o.ret : Nat), cons ++ [o.ret])
          else if o.ret = 0 then
            match detachF buf' used' (buf'.length + 64) fill allocs failAt with
            | (some b, n) => pushLoopF c fill failAt fuel n o.st b used' data max cons
            | (none, _) => giveUp o.st buf' used'
          else pushLoopF c fill failAt fuel allocs o.st buf' used' (some (bytes.drop o.ret)) (max + o.ret) (cons ++ [o.ret])
      | .err .MissingBuffer =>
        match detachF buf used (buf.length + 64) fill allocs failAt with
        | (some b, n) => pushLoopF c fill failAt fuel n st b used data max cons
        | (none, _) => giveUp st buf used
      | .err e => .ok (st, buf, used, if max ≠ 0 then (max : Int) else e.code, cons)
      | .oob => .oob
      | .unmodelled => .unmodelled

/-- `mpt_array_push` with the `failAt`-th allocation of the call refused (0 = none) -/
def arrayPushF (c : Codec) (fill : Byte) (failAt : Nat) (a : EncArray) (data : Option (List Byte)) :
    CRes (EncArray × Int × List Nat) :=
  let len := (data.map List.length).getD 0
  let max := a.st.done + a.st.scratch
  let add := if len > 64 then len else 64
  let start : Option (List Byte × Nat × Nat) ⊕ Err :=
    match a.buf with
    | none =>
      if max ≠ 0 then .inr .BadArgument
      else if failAt = 1 then .inl none
      else .inl (some (List.replicate (allocSize add) fill, 0, 1))
    | some b =>
      match detachF b a.used (max + add) fill 0 failAt with
      | (some b', n) => .inl (some (b', a.used, n))
      | (none, _) => .inl none
  match start with
  | .inr e => .err e
  | .inl none => .ok (a, Err.BadOperation.code, [])
  | .inl (some (buf, used, allocs)) =>
    match pushLoopF c fill failAt (2 * len + 8) allocs a.st buf used (if len = 0 then none else data) 0 [] with
    | .ok (st, buf, used, ret, cons) => .ok ({ st := st, buf := some buf, used := used }, ret, cons)
    | .err e => .err e
    | .oob => .oob
    | .unmodelled => .unmodelled

/-! ### the C++ wrapper `mpt::encode_array` (mpt++/array.cpp) -/

/-- `encode_array::data()`: the finished data in front of the unfinished (scratch) area at the end of the array -/
def xaData (a : EncArray) : List Byte :=
  match a.buf with
  | none => []
  | some b => (b.drop (a.used - a.st.done - a.st.scratch)).take a.st.done

/-- `encode_array::shift(len)` (as repaired): `len > 0` consumes finished data, `len = 0` moves the finished and
    unfinished data to the front of the array; `none` = `false` -/
def xaShift (a : EncArray) (n : Nat) : Option EncArray :=
  if n = 0 then
    match a.buf with
    | none => none
    | some b =>
      let len := a.st.done + a.st.scratch
      if a.used ≤ len then none
      else some { a with buf := some ((b.drop (a.used - len)).take len ++ b.drop len), used := len }
  else if n > a.st.done then none
  else some { a with st := { a.st with done := a.st.done - n } }

/-- `encode_array::push(const message &)` (as repaired): the fragments are pushed one after the other -/
def xaPushMsg (c : Codec) (fill : Byte) : EncArray → List (List Byte) → List Nat → CRes (EncArray × Bool × List Nat)
  | a, [], cons => .ok (a, true, cons)
  | a, f :: rest, cons =>
    if f.isEmpty then xaPushMsg c fill a rest cons
    else match arrayPush c fill a (some f) with
      | .ok (a', ret, cs) =>
        if ret < 0 then .ok (a', false, cons ++ cs)
        else if ret = (f.length : Int) then xaPushMsg c fill a' rest (cons ++ cs)
        else .unmodelled
      | .err e => .err e
      | .oob => .oob
      | .unmodelled => .unmodelled

/-- a message handed to `mpt_array_push` piece by piece, then terminated -/
def arrayMessage (c : Codec) (fill : Byte) : EncArray → List (List Byte) → CRes EncArray
  | a, [] =>
    match arrayPush c fill a none with
    | .ok (a', _, _) => .ok a'
    | .err e => .err e
    | .oob => .oob
    | .unmodelled => .unmodelled
  | a, ch :: rest =>
    match arrayPush c fill a (some ch) with
    | .ok (a', ret, _) => if ret = (ch.length : Int) then arrayMessage c fill a' rest else .err .MissingBuffer
    | .err e => .err e
    | .oob => .oob
    | .unmodelled => .unmodelled

end Mpt.Codec
