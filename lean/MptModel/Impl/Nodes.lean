/-
  M: implementation model of mptcore/node/*.c (struct node = next, prev, parent, children, ident, _meta).
  Pointers are indices into `Store.nodes` (`none` = NULL); `malloc` appends a record, `free` clears
  `alive` and is recorded in `Store.freed`.  Every dereference goes through `get`/`modify`, which
  yield `.fault` for a pointer that is not a live node (use after free, wild pointer), so
  "released exactly once" and memory safety are statements about `.fault` and the `freed` log.
  Loops of the C code that follow links are given fuel (4 * number of records + 4); running out of
  fuel (possible only on cyclic links, where the C code would not terminate) is `.fault`.

  Identifier comparison (`mpt_node_locate`) is modelled as equality of `Name`:
  unnamed (`_len = 0`, charset 0) matches unnamed, a UTF-8 name matches the same text.
-/
import MptModel.Impl.Ring
import MptModel.Spec.Forest

namespace Mpt.Nodes
open Mpt
open Mpt.Forest (Name Val)

structure Node where
  next : Option Nat := none
  prev : Option Nat := none
  parent : Option Nat := none
  children : Option Nat := none
  name : Name := none
  value : Val := none
  alive : Bool := true
  deriving Repr, DecidableEq, Inhabited

structure Store where
  nodes : List Node := []
  freed : List Nat := []
  deriving Repr, Inhabited

namespace Store

/-- dereference -/
def get (s : Store) (i : Nat) : Res Node :=
  match s.nodes[i]? with
  | some n => if n.alive then .ok n else .fault
  | none => .fault

/-- store through a pointer -/
def modify (s : Store) (i : Nat) (f : Node → Node) : Res Store :=
  match s.nodes[i]? with
  | some n => if n.alive then .ok { s with nodes := s.nodes.set i (f n) } else .fault
  | none => .fault

/-- `mpt_node_new` + `mpt_identifier_set` + `mpt_meta_new`: the new pointer is the old record count -/
def alloc (s : Store) (name : Name) (value : Val) : Store × Nat :=
  ({ s with nodes := s.nodes ++ [{ name := name, value := value }] }, s.nodes.length)

/-- `free(node)` (after the identifier and the metatype reference were released) -/
def free (s : Store) (i : Nat) : Res Store :=
  match s.nodes[i]? with
  | some n =>
    if n.alive then .ok { nodes := s.nodes.set i { n with alive := false }, freed := s.freed ++ [i] }
    else .fault
  | none => .fault

def fuel (s : Store) : Nat := 4 * s.nodes.length + 4

/-! ### gnode_after.c / gnode_before.c -/

/-- `mpt_gnode_after(position, insert)`; the returned pointer is `insert` -/
def gnodeAfter (s : Store) (position : Option Nat) (insert : Nat) : Res Store :=
  match position with
  | none => .ok s
  | some p =>
    if insert = p then .ok s else do
    let pn ← s.get p
    let s1 ← s.modify insert fun n => { n with prev := some p, next := pn.next }
    let s2 ← s1.modify p fun n => { n with next := some insert }
    let pn2 ← s2.get p
    let s3 ← s2.modify insert fun n => { n with parent := pn2.parent }
    let ins ← s3.get insert
    match ins.next with
    | some q => s3.modify q fun n => { n with prev := some insert }
    | none => pure s3

/-- `mpt_gnode_before(position, insert)` -/
def gnodeBefore (s : Store) (position : Option Nat) (insert : Nat) : Res Store :=
  match position with
  | none => .ok s
  | some p =>
    if insert = p then .ok s else do
    let pn ← s.get p
    let s1 ← s.modify insert fun n => { n with prev := pn.prev, next := some p }
    let s2 ← s1.modify p fun n => { n with prev := some insert }
    let pn2 ← s2.get p
    let s3 ← s2.modify insert fun n => { n with parent := pn2.parent }
    let ins ← s3.get insert
    match ins.prev with
    | some q => s3.modify q fun n => { n with next := some insert }
    | none =>
      match ins.parent with
      | some q => s3.modify q fun n => { n with children := some insert }
      | none => pure s3

/-! ### gnode_pos.c -/

/-- `while (k-- && node) node = node->prev` -/
def stepPrev (s : Store) : Nat → Option Nat → Res (Option Nat)
  | 0, n => .ok n
  | _ + 1, none => .ok none
  | k + 1, some i => do
    let nd ← s.get i
    stepPrev s k nd.prev

def stepNext (s : Store) : Nat → Option Nat → Res (Option Nat)
  | 0, n => .ok n
  | _ + 1, none => .ok none
  | k + 1, some i => do
    let nd ← s.get i
    stepNext s k nd.next

/-- `while (node->next) node = node->next` -/
def lastOf (s : Store) : Nat → Nat → Res Nat
  | 0, _ => .fault
  | f + 1, i => do
    let nd ← s.get i
    match nd.next with
    | none => pure i
    | some j => lastOf s f j

/-- `mpt_gnode_pos(node, pos)` -/
def gnodePos (s : Store) (node : Option Nat) (pos : Int) : Res (Option Nat) :=
  match node with
  | none => .ok none
  | some i =>
    if pos < 0 then stepPrev s (-pos).toNat (some i)
    else if pos > 0 then stepNext s (pos.toNat - 1) (some i)
    else do
      let l ← lastOf s s.fuel i
      pure (some l)

/-! ### node_locate.c -/

/-- backward search: `while ((curr = curr->prev)) { if (match && !++pos) break; }`, `k` = matches still to see -/
def locBack (s : Store) (key : Name) : Nat → Nat → Nat → Res (Option Nat)
  | 0, _, _ => .fault
  | f + 1, k, i => do
    let nd ← s.get i
    match nd.prev with
    | none => pure none
    | some j => do
      let pj ← s.get j
      if pj.name = key then
        if k ≤ 1 then pure (some j) else locBack s key f (k - 1) j
      else locBack s key f k j

/-- forward search: `do { if (match && !--pos) break; } while ((curr = curr->next))` -/
def locFwd (s : Store) (key : Name) : Nat → Nat → Nat → Res (Option Nat)
  | 0, _, _ => .fault
  | f + 1, k, i => do
    let nd ← s.get i
    if nd.name = key ∧ k ≤ 1 then pure (some i)
    else
      match nd.next with
      | none => pure none
      | some j => locFwd s key f (if nd.name = key then k - 1 else k) j

/-- `mpt_node_locate(curr, pos, ident, len, charset)` with the identifier comparison abstracted to `Name` equality -/
def locate (s : Store) (curr : Option Nat) (pos : Int) (key : Name) : Res (Option Nat) :=
  match curr with
  | none => .ok none
  | some i =>
    if pos = 0 then do
      let l ← lastOf s s.fuel i
      let ln ← s.get l
      if ln.name = key then pure (some l) else locBack s key s.fuel 1 l
    else if pos < 0 then locBack s key s.fuel (-pos).toNat i
    else locFwd s key s.fuel pos.toNat i

/-! ### node_insert.c -/

/-- the `getnode` callback: `mpt_gnode_pos` or `node_locate` (by the identifier of `node`) -/
def getnode (s : Store) (byName : Bool) (node : Nat) (first : Option Nat) (pos : Int) : Res (Option Nat) :=
  if byName then do
    let nd ← s.get node
    locate s first pos nd.name
  else gnodePos s first pos

/-- static `node_insert(first, pos, node, getnode)` -/
def nodeInsert (s : Store) (first : Nat) (pos : Int) (node : Nat) (byName : Bool) : Res Store := do
  let start ← getnode s byName node (some first) (if pos > 0 then 1 else 0)
  let tmp ← if start = none ∨ pos = 0 ∨ pos = 1 then pure start else getnode s byName node start pos
  match tmp with
  | some t => if pos < 1 then gnodeAfter s (some t) node else gnodeBefore s (some t) node
  | none =>
    match start with
    | some _ => do
      let t ← getnode s byName node (some first) (if pos < 0 then 1 else 0)
      if -pos < 1 then gnodeAfter s t node else gnodeBefore s t node
    | none => do
      let t ← gnodePos s (some first) 0
      gnodeAfter s t node

/-- `mpt_gnode_add` / `mpt_node_add` (both pointers non-NULL) -/
def add (s : Store) (first : Nat) (pos : Int) (node : Nat) (byName : Bool) : Res Store :=
  nodeInsert s first pos node byName

/-- `mpt_gnode_insert` / `mpt_node_insert` -/
def insert (s : Store) (parent : Nat) (pos : Int) (node : Nat) (byName : Bool) : Res Store := do
  let pn ← s.get parent
  match pn.children with
  | none => do
    let s1 ← s.modify parent fun n => { n with children := some node }
    s1.modify node fun n => { n with parent := some parent }
  | some c => nodeInsert s c pos node byName

/-! ### node_unlink.c -/

/-- `if ((next = curr->next)) next->prev = curr->prev;` -/
def unlinkNext (s : Store) (cn : Node) : Res Store :=
  match cn.next with
  | some n => s.modify n fun x => { x with prev := cn.prev }
  | none => .ok s

/-- `if (curr->prev) curr->prev->next = next; else if (curr->parent) curr->parent->children = next;` -/
def unlinkPrev (s : Store) (cn : Node) (next : Option Nat) : Res Store :=
  match cn.prev with
  | some p => s.modify p fun x => { x with next := next }
  | none =>
    match cn.parent with
    | some p => s.modify p fun x => { x with children := next }
    | none => .ok s

/-- `mpt_node_unlink(curr)`: store and returned `next` pointer -/
def unlink (s : Store) (curr : Nat) : Res (Store × Option Nat) := do
  let cn ← s.get curr
  let s1 ← unlinkNext s cn
  let cn1 ← s1.get curr
  let s2 ← unlinkPrev s1 cn1 cn.next
  let s3 ← s2.modify curr fun x => { x with parent := none, next := none, prev := none }
  pure (s3, cn.next)

/-! ### node_clear.c / node_destroy.c -/

mutual
/-- `mpt_node_destroy(node)`: `false` = refused (still linked) -/
def destroy (s : Store) : Nat → Nat → Res (Store × Bool)
  | 0, _ => .fault
  | f + 1, node => do
    let nd ← s.get node
    if nd.parent.isSome ∨ nd.next.isSome ∨ nd.prev.isSome then pure (s, false)
    else do
      let s1 ← clear s f node
      let s2 ← s1.free node
      pure (s2, true)
/-- `mpt_node_clear(node)` -/
def clear (s : Store) : Nat → Nat → Res Store
  | 0, _ => .fault
  | f + 1, node => do
    let nd ← s.get node
    let s1 ← clearLoop s f nd.children
    s1.modify node fun x => { x with children := none }
/-- the loop of `mpt_node_clear`: isolate and destroy one child after the other -/
def clearLoop (s : Store) : Nat → Option Nat → Res Store
  | _, none => .ok s
  | 0, some _ => .fault
  | f + 1, some t => do
    let tn ← s.get t
    let s1 ← s.modify t fun x => { x with next := none, prev := none, parent := none }
    let r ← destroy s1 f t
    clearLoop r.1 f tn.next
end

/-! ### node_clone.c / tree_clone.c -/

/-- `mpt_node_clone(node)` (allocation never fails in the model) -/
def nodeClone (s : Store) (node : Nat) : Res (Store × Nat) := do
  let nd ← s.get node
  pure (s.alloc nd.name nd.value)

/-- `for (c = list; c; c = c->next) c->parent = parent` -/
def setParents (s : Store) (parent : Nat) : Nat → Option Nat → Res Store
  | _, none => .ok s
  | 0, some _ => .fault
  | f + 1, some c => do
    let cn ← s.get c
    let s1 ← s.modify c fun x => { x with parent := some parent }
    setParents s1 parent f cn.next

/-! ### gnode_swap.c / gnode_relink.c -/

/-- `mpt_gnode_swap(pri, sec)`: the two nodes exchange their children -/
def swap (s : Store) (fuel pri sec : Nat) : Res Store := do
  let pn ← s.get pri
  let sn ← s.get sec
  let s1 ← s.modify sec fun x => { x with children := pn.children }
  let s2 ← s1.modify pri fun x => { x with children := sn.children }
  let s3 ← s2.setParents sec fuel pn.children
  s3.setParents pri fuel sn.children

/-- the neighbours of a re-placed node name it: predecessor's successor (or the parent's first child), successor's
    predecessor -/
def fixNbr (s : Store) (n : Nat) : Res Store := do
  let nn ← s.get n
  let s1 ← (match nn.prev with
    | some p => s.modify p fun y => { y with next := some n }
    | none =>
      match nn.parent with
      | some q => s.modify q fun y => { y with children := some n }
      | none => .ok s)
  match nn.next with
  | some x => s1.modify x fun y => { y with prev := some n }
  | none => .ok s1

/-- `mpt_gnode_switch(pri, sec)`: the two nodes exchange their places (also when they are neighbours) -/
def switch (s : Store) (pri sec : Nat) : Res Store :=
  if pri = sec then .ok s else do
  let pn ← s.get pri
  let sn ← s.get sec
  let s1 ← s.modify pri fun y => { y with
    prev := if sn.prev = some pri then some sec else sn.prev,
    next := if sn.next = some pri then some sec else sn.next,
    parent := sn.parent }
  let s2 ← s1.modify sec fun y => { y with
    prev := if pn.prev = some sec then some pri else pn.prev,
    next := if pn.next = some sec then some pri else pn.next,
    parent := pn.parent }
  let s3 ← fixNbr s2 pri
  fixNbr s3 sec

/-- `node->next->parent = node->parent; node->next->prev = node;` (when there is a successor) -/
def relinkNext (s : Store) (node : Nat) : Res Store := do
  let nn ← s.get node
  match nn.next with
  | none => .ok s
  | some x => s.modify x fun y => { y with parent := nn.parent, prev := some node }

/-- `while (node != start && !node->next) node = node->parent;`: the node whose successor is visited next,
    `none` when the walk is back at `start` -/
def relinkUp (s : Store) (start : Nat) : Nat → Nat → Res (Option Nat)
  | 0, _ => .fault
  | f + 1, node =>
    if node = start then .ok none else do
    let nn ← s.get node
    match nn.next with
    | some x => .ok (some x)
    | none =>
      match nn.parent with
      | none => .fault
      | some p => relinkUp s start f p

/-- the loop of `mpt_gnode_relink`: pre-order walk below `start` -/
def relinkLoop (s : Store) (start : Nat) : Nat → Option Nat → Res Store
  | _, none => .ok s
  | 0, some _ => .fault
  | f + 1, some node =>
    if node = start then .ok s else do
    let s1 ← relinkNext s node
    let nn ← s1.get node
    match nn.children with
    | some c => do
      let s2 ← s1.modify c fun y => { y with parent := some node, prev := none }
      relinkLoop s2 start f (some c)
    | none => do
      let r ← relinkUp s1 start s1.fuel node
      relinkLoop s1 start f r

/-- `mpt_gnode_relink(node)`: parent and predecessor links below `node` are rewritten from the child/successor links -/
def relink (s : Store) (fuel node : Nat) : Res Store := do
  let sn ← s.get node
  let s1 ← (match sn.children with
    | some c => s.modify c fun y => { y with parent := some node, prev := none }
    | none => .ok s)
  relinkLoop s1 node fuel sn.children

/-- `if (!last) last = first = cpy; else last = mpt_gnode_after(last, cpy);` -/
def linkLast (s : Store) (last : Option Nat) (cpy : Nat) : Res Store :=
  match last with
  | none => .ok s
  | some l => gnodeAfter s (some l) cpy

/-- `cpy->children = kids; for (c = kids; c; c = c->next) c->parent = cpy;` (nothing to do without kids) -/
def attachKids (s : Store) (cpy : Nat) (kids : Option Nat) : Res Store :=
  match kids with
  | none => .ok s
  | some c => do
    let s' ← s.modify cpy fun x => { x with children := some c }
    setParents s' cpy s'.fuel (some c)

/-- the loop of `mpt_list_clone(src)`; loop state: `first`, `last`.  The recursive call for the children of a
    source node without children returns NULL at once (as the C code skips it). -/
def listLoop (s : Store) : Nat → Option Nat → Option Nat → Option Nat → Res (Store × Option Nat)
  | _, none, first, _ => .ok (s, first)
  | 0, some _, _, _ => .fault
  | f + 1, some src, first, last => do
    let sn ← s.get src
    let r ← nodeClone s src
    let s1 ← linkLast r.1 last r.2
    let k ← listLoop s1 f sn.children none none
    let s2 ← attachKids k.1 r.2 k.2
    listLoop s2 f sn.next (if last.isNone then some r.2 else first) (some r.2)

/-- `mpt_list_clone(src)`: returns the first copy -/
def listClone (s : Store) (f : Nat) (src : Option Nat) : Res (Store × Option Nat) :=
  listLoop s f src none none

/-- `mpt_tree_clone(src)` -/
def treeClone (s : Store) (src : Nat) : Res (Store × Nat) := do
  let sn ← s.get src
  let r ← nodeClone s src
  let k ← listClone r.1 r.1.fuel sn.children
  let s2 ← attachKids k.1 r.2 k.2
  pure (s2, r.2)

/-! ### node_move.c -/

/-- where `*from` lives: the child link of a node, or a variable of the caller -/
inductive Slot where
  | kids (p : Nat)
  | loc
  deriving Repr, DecidableEq

/-- re-parent loop: `while (tmp) { tmp->parent = curr; tmp = tmp->next; ++move; }` -/
def reparent (s : Store) (curr : Nat) : Nat → Option Nat → Nat → Res (Store × Nat)
  | _, none, m => .ok (s, m)
  | 0, some _, _ => .fault
  | f + 1, some t, m => do
    let tn ← s.get t
    let s1 ← s.modify t fun x => { x with parent := some curr }
    reparent s1 curr f tn.next (m + 1)

/-- `if (*from == curr) *from = src;` where `*from` is the child link of `p` (a caller's variable is not part of
    the store): `moved` is the node just moved, `next` its old successor -/
def slotFix (s : Store) (slot : Slot) (moved : Nat) (next : Option Nat) : Res Store :=
  match slot with
  | .kids p => do
    let pn ← s.get p
    if pn.children = some moved then s.modify p fun x => { x with children := next } else pure s
  | .loc => .ok s

/-- the children of `src` are handed over to the childless namesake `curr`:
    `curr->children = tmp; while (tmp) { tmp->parent = curr; … ++move; } src->children = 0;` -/
def handOver (s : Store) (f : Nat) (src curr sc : Nat) : Res (Store × Nat) := do
  let s1 ← s.modify curr fun x => { x with children := some sc }
  let r ← reparent s1 curr f (some sc) 0
  let s2 ← r.1.modify src fun x => { x with children := none }
  pure (s2, r.2)

/-- the loop of `mpt_node_move`; loop state: `src`, `last`, `move`; `cur` tracks `*from` when it is a variable -/
def moveLoop (s : Store) : Nat → Slot → Option Nat → Option Nat → Nat → Nat → Nat → Res (Store × Nat)
  | _, _, _, none, _, _, m => .ok (s, m)
  | 0, _, _, some _, _, _, _ => .fault
  | f + 1, slot, cur, some src, dst, last, m => do
    let sn ← s.get src
    let found ← locate s (some dst) 1 sn.name
    match found with
    | none => do
      -- move the complete node
      let u ← unlink s src
      let s1 ← nodeInsert u.1 last 0 src false
      let s2 ← slotFix s1 slot src sn.next
      moveLoop s2 f slot (if cur = some src then sn.next else cur) sn.next dst src (m + 1)
    | some curr =>
      match sn.children with
      | none => moveLoop s f slot cur sn.next dst last m
      | some sc => do
        let cn ← s.get curr
        match cn.children with
        | some cc => do
          -- merge children
          let r ← moveLoop s f (.kids src) (some sc) (some sc) cc cc 0
          let sn' ← r.1.get src
          moveLoop r.1 f slot cur sn'.next dst last (m + r.2)
        | none => do
          -- reparent children to target
          let r ← handOver s f src curr sc
          let sn' ← r.1.get src
          moveLoop r.1 f slot cur sn'.next dst last (m + r.2)

/-- `mpt_node_move(from, dst)`; `head` is the value of `*from` on entry (`slot` says where it is stored).
    Result: store, number of moved nodes. -/
def move (s : Store) (f : Nat) (slot : Slot) (head : Option Nat) (dst : Nat) : Res (Store × Nat) :=
  moveLoop s f slot head head dst dst 0

/-! ### the structure as an observer sees it (same walk as harness/drv_node.c) -/

open Mpt.Forest (Tree Forest) in
/-- walk one sibling list from `head`, checking `prev`/`parent` of every element and that nothing is
    reached twice; `seen` = nodes reached so far -/
def walkList (s : Store) : Nat → Option Nat → Option Nat → Option Nat → List Nat → Except String (Forest × List Nat)
  | _, none, _, _, seen => .ok ([], seen)
  | 0, some _, _, _, _ => .error "too-deep"
  | f + 1, some i, parent, prev, seen =>
    match s.nodes[i]? with
    | none => .error s!"unknown-pointer@{i}"
    | some n =>
      if !n.alive then .error s!"dangling-pointer@{i}"
      else if seen.contains i then .error s!"reached-twice@{i}"
      else if n.prev ≠ prev then .error s!"prev-mismatch@{i}"
      else if n.parent ≠ parent then .error s!"parent-mismatch@{i}"
      else
        match walkList s f n.children (some i) none (i :: seen) with
        | .error e => .error e
        | .ok cs =>
          match walkList s f n.next parent (some i) cs.2 with
          | .error e => .error e
          | .ok ts => .ok (.node i n.name n.value cs.1 :: ts.1, ts.2)

/-- list heads: live nodes without parent and without predecessor, in creation order -/
def heads (s : Store) : List Nat :=
  (List.range s.nodes.length).filter fun i =>
    match s.nodes[i]? with
    | some n => n.alive && n.parent.isNone && n.prev.isNone
    | none => false

def liveIds (s : Store) : List Nat :=
  (List.range s.nodes.length).filter fun i =>
    match s.nodes[i]? with
    | some n => n.alive
    | none => false

open Mpt.Forest (Forest) in
def walkHeads (s : Store) : List Nat → List Nat → Except String (List Forest × List Nat)
  | [], seen => .ok ([], seen)
  | h :: hs, seen =>
    match walkList s s.fuel (some h) none none seen with
    | .error e => .error e
    | .ok l =>
      match walkHeads s hs l.2 with
      | .error e => .error e
      | .ok r => .ok (l.1 :: r.1, r.2)

open Mpt.Forest (Forest) in
/-- the abstraction: all top-level lists, or the reason why the links are not a forest -/
def walk (s : Store) : Except String (List Forest) :=
  match walkHeads s s.heads [] with
  | .error e => .error e
  | .ok r =>
    match s.liveIds.find? (fun i => !r.2.contains i) with
    | some i => .error s!"unreachable@{i}"
    | none => .ok r.1

end Store
end Mpt.Nodes
