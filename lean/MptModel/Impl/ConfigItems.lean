/-
  M: implementation model of the private C++ configuration `mpt::config::root` (mpt++/config.cpp:
  assign / remove / query) on its item arrays (mptcore/config/config_item_query.c, config_item_reserve.c).

  An item array is a list of slots; a slot without name (`identifier._len = 0`) is unused.  `remove`
  of the code as it is empties the element (children, value) but keeps its name, so unused slots do not
  arise through the public interface; the re-use branch of `mpt_config_item_reserve` is modelled as written
  (value dropped, the first N children cut where N is the item count of the slot's own level).
-/
import MptModel.Impl.Config
namespace Mpt.Config
open Mpt

inductive Item where
  | mk (name : Option (List Byte)) (value : Option (List Byte)) (elems : List Item)
  deriving Repr, Inhabited

namespace Item
def name : Item → Option (List Byte) | .mk n _ _ => n
def value : Item → Option (List Byte) | .mk _ v _ => v
def elems : Item → List Item | .mk _ _ k => k
end Item

/-- index of the first used slot called `nm` (`mpt_identifier_compare` on every slot with a name) -/
def ilocate : List Item → List Byte → Option Nat
  | [], _ => none
  | c :: cs, nm => if c.name = some nm then some 0 else (ilocate cs nm).map (· + 1)

/-- index of the first unused slot -/
def iunused : List Item → Option Nat
  | [] => none
  | c :: cs => if c.name = none then some 0 else (iunused cs).map (· + 1)

/-- `mpt_config_item_query`: the item at exactly this path -/
def itemFind : List Item → List (List Byte) → Option Item
  | _, [] => none
  | l, e :: es =>
    match ilocate l e with
    | none => none
    | some i =>
      match l[i]? with
      | none => none
      | some c => if es.isEmpty then some c else itemFind c.elems es

/-- `mpt_config_item_reserve` followed by `set_instance(value)` of `config::root::assign` -/
def itemAssign : List Item → List (List Byte) → List Byte → Option (List Item)
  | _, [], _ => none
  | l, e :: es, v =>
    match ilocate l e with
    | some i =>
      match l[i]? with
      | none => none
      | some c =>
        if es.isEmpty then some (l.set i (.mk c.name (some v) c.elems))
        else
          match itemAssign c.elems es v with
          | some k' => some (l.set i (.mk c.name c.value k'))
          | none => none
    | none =>
      match iunused l with
      | some u =>
        match l[u]? with
        | none => none
        | some c =>
          -- re-used slot: value released, `mpt_buffer_cut(sub, 0, <bytes of THIS level>)`
          let kept := if l.length ≤ c.elems.length then c.elems.drop l.length else c.elems
          if es.isEmpty then some (l.set u (.mk (some e) (some v) kept))
          else
            match itemAssign kept es v with
            | some k' => some (l.set u (.mk (some e) none k'))
            | none => none
      | none =>
        if es.isEmpty then some (l ++ [.mk (some e) (some v) []])
        else
          match itemAssign [] es v with
          | some k' => some (l ++ [.mk (some e) none k'])
          | none => none

/-- `config::root::assign` of a text value with the check of the element lengths `mpt_config_item_reserve` makes
    before it reserves anything: list afterwards, success -/
def itemAssignE (l : List Item) (k : List (List Byte)) (v : List Byte) : List Item × Bool :=
  if !k.all elemFits then (l, false)
  else match itemAssign l k v with
    | some l' => (l', true)
    | none => (l, false)

/-- `config::root::remove`: children and value of the element go, the slot keeps its name -/
def itemWipe : List Item → List (List Byte) → Option (List Item)
  | _, [] => none
  | l, e :: es =>
    match ilocate l e with
    | none => none
    | some i =>
      match l[i]? with
      | none => none
      | some c =>
        if es.isEmpty then some (l.set i (.mk c.name none []))
        else
          match itemWipe c.elems es with
          | some k' => some (l.set i (.mk c.name c.value k'))
          | none => none

/-- `config::root::query` with a value handler -/
def rootQuery (l : List Item) (k : List (List Byte)) : Res (List Byte) :=
  match itemFind l k with
  | none => .err .MissingData
  | some c =>
    match c.value with
    | none => .err .MissingData
    | some v => .ok v

/-- all (path, value) pairs an observer reaches through used slots -/
def ipairs : List Item → List (List (List Byte) × List Byte)
  | [] => []
  | (.mk n v ks) :: ts =>
    (match n with
     | none => []
     | some nm =>
       (match v with | some x => [([nm], x)] | none => []) ++ (ipairs ks).map (fun e => (nm :: e.1, e.2))) ++ ipairs ts

/-- `mpt::path::add(n)` after the fix: passes its argument on -/
def cxxPathAdd (p : Path) (n : Nat) : Res Path := pathAdd p n

end Mpt.Config
