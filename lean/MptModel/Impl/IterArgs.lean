/-
  M: the buffer argument iterator (mptcore/array/meta_buffer.c over a `char` array: `mpt_meta_buffer`,
  `mpt_meta_arguments`, with `mpt_slice_next`), `mpt_iterator_consume` (mptcore/types/iterator_consume.c),
  `mpt_range_set` (mptplot/values/range_set.c) and the iterator-argument forms of `_mpt_iterator_linear`,
  `_mpt_iterator_range`, `_mpt_iterator_factor`.
-/
import MptModel.Impl.IterString
namespace Mpt.Iter

/-! ### buffer iterator over a `char` array: NUL-terminated segments -/

structure BufIt where
  data : List Char       -- used bytes of the array (NUL = `Char.ofNat 0`)
  hasBuf : Bool          -- the array has a buffer at all
  off : Nat              -- `s._off`
  len : Nat              -- `s._len` (0: no current element)
  str : Option Nat       -- `m->str` as offset (some: the current element is a terminated string)
  args : Bool            -- created by `mpt_meta_arguments`: reset skips the first element
  deriving Repr, DecidableEq

def nul : Char := Char.ofNat 0

/-- position of the first NUL in a list -/
def findNul : List Char → Option Nat
  | [] => none
  | c :: cs => if c = nul then some 0 else (findNul cs).map (· + 1)

namespace BufIt

/-- `mpt_slice_next` for `char` content: (new off, new len, result) -/
def sliceNext (b : BufIt) : BufIt × AdvRes × Bool :=
  -- third component: the new element is a terminated string
  if !b.hasBuf ∨ b.data.length < b.off then (b, .err .MissingData, false)
  else
    let rem := b.data.length - b.off
    if b.len ≠ 0 ∧ rem - b.len = 0 then ({ b with off := b.off + b.len, len := 0 }, .last, false)
    else
      let rest := rem - b.len
      if rest < 1 then (b, .err .MissingData, false)
      else
        let base := b.off + b.len
        match findNul ((b.data.drop base).take rest) with
        | some i => ({ b with off := base, len := i + 1 }, .more, true)
        | none => ({ b with off := base, len := rest }, .more, false)

/-- `bufferAdvance` -/
def advance (b : BufIt) : BufIt × AdvRes :=
  if !b.hasBuf then ({ b with str := none }, .err .MissingData)
  else
    match ({ b with str := none } : BufIt).sliceNext with
    | (b1, .more, true) => ({ b1 with str := some b1.off }, .more)
    | (b1, r, _) => (b1, r)

/-- `bufferReset` -/
def resetPlain (b : BufIt) : BufIt × Int :=
  let r := ({ b with off := 0, len := 0 } : BufIt).advance
  -- the type of the first element: 's' (115) or a `char` vector (67)
  (r.1, match r.2 with | .more => (if r.1.str.isSome then 115 else 67) | _ => 0)

/-- `bufferReset` / `bufferResetArgs` -/
def reset (b : BufIt) : BufIt × Int :=
  if b.args then
    let r := b.resetPlain
    if r.2 ≤ 0 then r
    else
      let a := r.1.advance
      (a.1, match a.2 with | .more => (if a.1.str.isSome then 115 else 67) | .last => 0 | .err e => e.code)
  else b.resetPlain

/-- `mpt_meta_buffer(a)` / `mpt_meta_arguments(a)` -/
def create (data : Option (List Char)) (args : Bool) : BufIt :=
  let b : BufIt := { data := data.getD [], hasBuf := data.isSome, off := 0, len := 0, str := none, args := args }
  b.reset.1

/-- `bufferGet`: NULL, a terminated string (bytes without the NUL), or a byte vector -/
inductive BufVal where
  | null
  | str (s : List Char)
  | vec (bytes : List Char)
  deriving Repr, DecidableEq

def cstr : List Char → List Char
  | [] => []
  | c :: cs => if c = nul then [] else c :: cstr cs

def value (b : BufIt) : BufVal :=
  if !b.hasBuf ∨ b.len = 0 then .null
  else match b.str with
    | some p => .str (cstr (b.data.drop p))
    | none => .vec ((b.data.drop b.off).take b.len)

/-- `bufferClone`: the array reference, offset and length are copied; the string pointer of the copy is set
    from the copied position when the original has one (fix in /repo: it used to point into the original) -/
def clone (b : BufIt) : BufIt :=
  { b with str := if b.str.isSome ∧ b.hasBuf then some b.off else none }

end BufIt

/-! ### `mpt_iterator_consume` over the three kinds of sources -/

inductive Src where
  | gen (g : Gen)
  | str (s : StrIt)
  | buf (b : BufIt)
  deriving Repr

namespace Src

/-- `mpt_iterator_consume(it, 'd', &v)`: the value sources yield `double`; text elements are scanned;
    buffer elements are strings without a numeric conversion (BadType).  Every conversion error of a text
    element arrives as BadType (`mpt_value_convert`).  The error of a failed advance is returned. -/
def consumeD : Src → Src × ConvRes Rat
  | .gen g =>
    match g.value with
    | (g1, none) => (.gen g1, .err .MissingData)
    | (g1, some v) =>
      match g1.advance with
      | (g2, .err e) => (.gen g2, .err e)
      | (g2, _) => (.gen g2, .ok v)
  | .str s =>
    if !s.hasValue then (.str s, .err .MissingData)
    else match s.conv with
      | (s1, .err _) => (.str s1, .err .BadType)
      | (s1, .ok v) =>
        match s1.advance with
        | (s2, .err e) => (.str s2, .err e)
        | (s2, _) => (.str s2, .ok v)
  | .buf b =>
    match b.value with
    | .null => (.buf b, .err .MissingData)
    | _ => (.buf b, .err .BadType)

/-- `mpt_iterator_consume(it, 'u', &v)`: no conversion from `double` to an integer type -/
def consumeU : Src → Src × ConvRes Nat
  | .gen g =>
    match g.value with
    | (g1, none) => (.gen g1, .err .MissingData)
    | (g1, some _) => (.gen g1, .err .BadType)
  | .str s =>
    if !s.hasValue then (.str s, .err .MissingData)
    else match s.convWith cuint32 with
      | (s1, .err _) => (.str s1, .err .BadType)
      | (s1, .ok v) =>
        match s1.advance with
        | (s2, .err e) => (.str s2, .err e)
        | (s2, _) => (.str s2, .ok v)
  | .buf b =>
    match b.value with
    | .null => (.buf b, .err .MissingData)
    | _ => (.buf b, .err .BadType)

/-- `mpt_iterator_consume(it, 0, 0)`: skip the current element -/
def skip : Src → Src × Option Err
  | .gen g =>
    match g.value.1.advance with
    | (g2, .err e) => (.gen g2, some e)
    | (g2, _) => (.gen g2, none)
  | .str s =>
    match s.advance with
    | (s2, .err e) => (.str s2, some e)
    | (s2, _) => (.str s2, none)
  | .buf b =>
    match b.advance with
    | (b2, .err e) => (.buf b2, some e)
    | (b2, _) => (.buf b2, none)

end Src

/-! ### iterator-argument forms of the creators -/

/-- `mpt_range_set(&r, val)` with an iterator: two numbers are required -/
def rangeSet (src : Src) : Src × Option (Rat × Rat) :=
  match src.consumeD with
  | (s1, .err _) => (s1, none)
  | (s1, .ok mn) =>
    match s1.consumeD with
    | (s2, .err _) => (s2, none)
    | (s2, .ok mx) => (s2, some (mn, mx))

/-- `_mpt_iterator_linear(val)`, `val` an iterator: count, then two bounds -/
def linFromIter (src : Src) : Src × Option Gen :=
  match src.consumeU with
  | (s1, .err _) => (s1, none)
  | (s1, .ok iv) =>
    match rangeSet s1 with
    | (s2, none) => (s2, none)
    | (s2, some (mn, mx)) => (s2, mkLinear (wrap32 (iv + 1)) mn mx)

/-- `_mpt_iterator_range(val)`, `val` an iterator: two bounds and (mandatory here) the step -/
def rangeFromIter (src : Src) : Src × Option Gen :=
  match rangeSet src with
  | (s1, none) => (s1, none)
  | (s1, some (mn, mx)) =>
    match s1.consumeD with
    | (s2, .err _) => (s2, none)
    | (s2, .ok step) =>
      (s2, if ¬ (0 < step) ∨ (mx - mn) * (1 + rangeTol) < step ∨ step < (mx - mn) * (1 / 1000000) then none
           else some (.linear mn step (wrap32 (rangeSteps mn mx step + 1)) 0))

/-- `_mpt_iterator_factor(val)`, `val` an iterator: count, then optional base, factor, start value; a missing
    factor defaults to the base (fix in /repo: with count and base given the factor used to stay 10) -/
def facFromIter (src : Src) : Src × Option Gen :=
  match src.consumeU with
  | (s1, .err _) => (s1, none)
  | (s1, .ok iter) =>
    if iter = 4294967295 then (s1, none) else     -- count + 1 must fit 32 bits (fix in /repo)
    match s1.consumeD with
    | (s2, .err _) =>
      -- only the count: base 10, factor = base
      (s2, some (.factor 10 10 0 (wrap32 (iter + 1)) 0 0))
    | (s2, .ok base) =>
      match s2.consumeD with
      | (s3, .err _) =>
        (s3, if base < dblMin then none else some (.factor base base 0 (wrap32 (iter + 1)) 0 0))
      | (s3, .ok fact) =>
        -- a supplied factor must be positive as in the text form (fix in /repo)
        match s3.consumeD with
        | (s4, .err _) => (s4, if fact < dblMin then none else some (.factor base fact 0 (wrap32 (iter + 1)) 0 0))
        | (s4, .ok init) => (s4, if fact < dblMin then none else some (.factor base fact init (wrap32 (iter + 1)) 0 init))

end Mpt.Iter
