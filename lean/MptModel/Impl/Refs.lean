/-
  M for the third part of C05: typed buffers whose elements are references.

  The byte-level behaviour of the buffer functions is modelled in `Impl/Heap.lean` (token elements).  Here the
  element types are the library's own: arrays as elements (`mpt_array_traits`, array_traits.c: copy = take a reference
  on the buffer, destroy = release it — recursively the last reference destroys the child's elements) and metatype
  references (`mpt_meta_reference_traits`, meta_reference_traits.c: copy = `addref()`, which single-owner instances
  refuse — the copy then falls back to an empty element —, destroy = `unref()`), plus leaf arrays of harness tokens.
  Sizes and addresses do not matter for these; a buffer is its reference count, its element type and the list of its
  elements.  The functions mirror `mpt_array_clone`, the detach of a shared buffer (element-wise copy),
  `mpt_array_insert` at the end, `mpt_buffer_cut` of one element and `mpt_array_set` with source elements.
-/
namespace Mpt.Refs

inductive Kind where
  | tok | arr | mref | uref | vst | dbl
  deriving DecidableEq, Repr, Inhabited

inductive Elem where
  | tok (t : Nat)
  | arr (b : Option Nat)
  | mref (o : Option Nat)
  | num (k : Nat)
  deriving DecidableEq, Repr, Inhabited

structure Buf where
  ref : Nat
  kind : Kind
  elems : List Elem
  deriving DecidableEq, Repr, Inhabited

structure Obj where
  refs : Nat
  sharable : Bool
  dead : Bool := false
  deriving DecidableEq, Repr, Inhabited

inductive Ev where
  | init (t : Nat)
  | copy (t src : Nat)
  | fini (t : Nat)
  | mnew (o : Nat)
  | addref (o : Nat)
  | refuse (o : Nat)
  | unref (o : Nat)
  | dead (o : Nat)
  | unrefDead (o : Nat)
  deriving DecidableEq, Repr, Inhabited

structure State where
  bufs : List (Option Buf) := []
  hs : List (Option Nat) := []
  objs : List Obj := []
  next : Nat := 1
  log : List Ev := []
  deriving Repr, Inhabited

namespace State

def buf? (s : State) (b : Nat) : Option Buf :=
  match s.bufs[b]? with
  | some (some x) => some x
  | _ => none

def handle (s : State) (h : Nat) : Option Nat :=
  match s.hs[h]? with
  | some (some b) => some b
  | _ => none

def setBuf (s : State) (b : Nat) (x : Buf) : State := { s with bufs := s.bufs.set b (some x) }
def freeBuf (s : State) (b : Nat) : State := { s with bufs := s.bufs.set b none }
def setHandle (s : State) (h : Nat) (v : Option Nat) : State := { s with hs := s.hs.set h v }
def newBuf (s : State) (x : Buf) : State := { s with bufs := s.bufs ++ [some x] }
def emit (s : State) (e : Ev) : State := { s with log := s.log ++ [e] }

end State

/-- `metatype::unref()` of a harness instance (ids start at 1) -/
def unrefObj (s : State) (o : Nat) : State :=
  match s.objs[o - 1]? with
  | none => s
  | some x =>
    if x.dead ∨ x.refs = 0 then s.emit (.unrefDead o)
    else if x.refs > 1 then { s with objs := s.objs.set (o - 1) { x with refs := x.refs - 1 } }.emit (.unref o)
    else { s with objs := s.objs.set (o - 1) { x with refs := 0, dead := true } }.emit (.dead o)

/-- `buffer::unref()`: the last reference destroys the elements in order (a child array releases its buffer, which
    may in turn be the last reference) and frees the buffer.  `fuel` bounds the nesting depth. -/
def unrefBuf : Nat → State → Nat → State
  | 0, s, _ => s
  | fuel + 1, s, b =>
    match s.buf? b with
    | none => s
    | some x =>
      if x.ref > 1 then s.setBuf b { x with ref := x.ref - 1 }
      else
        let s1 := x.elems.foldl (fun st e =>
          match e with
          | .tok t => st.emit (.fini t)
          | .arr (some c) => unrefBuf fuel st c
          | .arr none => st
          | .mref (some o) => unrefObj st o
          | .mref none => st
          | .num _ => st) (s.setBuf b { x with ref := 0 })
        s1.freeBuf b

def fuelOf (s : State) : Nat := s.bufs.length + 1

def addrefBuf (s : State) (b : Nat) : State :=
  match s.buf? b with
  | some x => s.setBuf b { x with ref := x.ref + 1 }
  | none => s

/-- destroy one element -/
def finiElem (s : State) : Elem → State
  | .tok t => s.emit (.fini t)
  | .arr (some c) => unrefBuf (fuelOf s) s c
  | .arr none => s
  | .mref (some o) => unrefObj s o
  | .mref none => s
  | .num _ => s

/-- copy-construct one element as `mpt_buffer_set` does: a refused copy constructor falls back to default
    construction (an empty element) -/
def copyElem (s : State) : Elem → State × Elem
  | .tok t => ({ s with next := s.next + 1 }.emit (.copy s.next t), .tok s.next)
  | .arr none => (s, .arr none)
  | .arr (some c) => (addrefBuf s c, .arr (some c))
  | .mref none => (s, .mref none)
  | .num k => (s, .num k)
  | .mref (some o) =>
    match s.objs[o - 1]? with
    | none => (s, .mref none)
    | some x =>
      if x.sharable ∧ ¬ x.dead then
        ({ s with objs := s.objs.set (o - 1) { x with refs := x.refs + 1 } }.emit (.addref o), .mref (some o))
      else (s.emit (.refuse o), .mref none)

def copyElems (s : State) (es : List Elem) : State × List Elem :=
  es.foldl (fun (acc : State × List Elem) e =>
    let (s1, e1) := copyElem acc.1 e
    (s1, acc.2 ++ [e1])) (s, [])

/-- `mpt_array_clone(&H[h], from)`: `set` = the buffer of `from` (`fromNull`: the NULL pointer); the result code -/
def arrayClone (s : State) (h : Nat) (set : Option Nat) (fromNull : Bool) : State × Int :=
  let buf := s.handle h
  if ¬ fromNull ∧ set = buf then (s, 0)
  else
    let mismatch : Bool := match set, buf with
      | some a, some b =>
        (match s.buf? a, s.buf? b with
         | some x, some y => decide (x.kind ≠ y.kind)
         | _, _ => false)
      | _, _ => false
    if ¬ fromNull ∧ mismatch then (s, -3)
    else
      let s1 := match set with
        | some a => addrefBuf s a
        | none => s
      let s2 := s1.setHandle h set
      match buf with
      | some b => (unrefBuf (fuelOf s2) s2 b, if set.isSome then 3 else 2)
      | none => (s2, if set.isSome then 1 else 0)

/-- `buf->detach(buf, used)` for the buffer of handle `h`: a shared buffer is copied element-wise; the handle then
    holds a private buffer.  Elements without copy constructor (`uref`: the references of `reference_array<T>`) can
    not be copied: a shared, non-empty buffer of them is refused. -/
def detach (s : State) (h : Nat) : State × Option Nat :=
  match s.handle h with
  | none => (s, none)
  | some b =>
    match s.buf? b with
    | none => (s, none)
    | some x =>
      if x.ref < 2 then (s, some b)
      else if x.kind = .uref ∧ ¬ x.elems.isEmpty then (s, none)
      else
        let s1 := s.setBuf b { x with ref := x.ref - 1 }
        let (s2, es) := copyElems s1 x.elems
        let nb := s2.bufs.length
        ((s2.newBuf { ref := 1, kind := x.kind, elems := es }).setHandle h (some nb), some nb)

/-- buffers reachable from buffer `b` (first-visit order, `b` first); `fuel` bounds the walk -/
def reach : Nat → State → List Nat → Nat → List Nat
  | 0, _, seen, _ => seen
  | fuel + 1, s, seen, b =>
    if seen.contains b then seen
    else
      match s.buf? b with
      | none => seen
      | some x =>
        x.elems.foldl (fun acc e =>
          match e with
          | .arr (some c) => reach fuel s acc c
          | _ => acc) (seen ++ [b])

def reachable (s : State) (src dst : Nat) : Bool := (reach (fuelOf s) s [] src).contains dst

/-! ### raw data stages (mptplot/values: an array of `value_store` elements, each holding an array of doubles) -/

/-- `mpt_values_prepare(&elem->_d, 1)` and the store of `k` for element `i` of the (private) buffer `b`: the array
    inside the element gets a private buffer when it is shared, then the value is appended -/
def elemAppend (s : State) (b i k : Nat) : State :=
  match s.buf? b with
  | none => s
  | some x =>
    match x.elems.getD i (.arr none) with
    | .arr none =>
      let nb := s.bufs.length
      let s1 := s.newBuf { ref := 1, kind := .dbl, elems := [.num k] }
      s1.setBuf b { x with elems := x.elems.set i (.arr (some nb)) }
    | .arr (some c) =>
      (match s.buf? c with
       | none => s
       | some y =>
         if y.ref < 2 then s.setBuf c { y with elems := y.elems ++ [.num k] }
         else
           let nb := s.bufs.length
           let s1 := (s.setBuf c { y with ref := y.ref - 1 }).newBuf { ref := 1, kind := .dbl, elems := y.elems ++ [.num k] }
           s1.setBuf b { x with elems := x.elems.set i (.arr (some nb)) })
    | _ => s

/-- `mpt_stage_data(stage of handle h, dim)` followed by one more value `k` in that dimension; `false` = refused
    (the array of the handle does not hold value stores) -/
def stagePut (s : State) (h dim k : Nat) : State × Bool :=
  match s.handle h with
  | none =>
    let nb := s.bufs.length
    let s1 := (s.newBuf { ref := 1, kind := .vst, elems := List.replicate (dim + 1) (.arr none) }).setHandle h (some nb)
    (elemAppend s1 nb dim k, true)
  | some b =>
    match s.buf? b with
    | none => (s, false)
    | some x =>
      if x.kind ≠ .vst then (s, false)
      else
        let (s1, r) := detach s h
        match r with
        | none => (s1, false)
        | some nb =>
          (match s1.buf? nb with
           | none => (s1, false)
           | some y =>
             let s2 := if dim < y.elems.length then s1
               else s1.setBuf nb { y with elems := y.elems ++ List.replicate (dim + 1 - y.elems.length) (.arr none) }
             (elemAppend s2 nb dim k, true))

end Mpt.Refs
