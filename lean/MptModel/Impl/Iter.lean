/-
  M: implementation model of the value generators of mptplot/values (iterator_create.c, iterator_linear.c,
  iterator_factor.c, iterator_boundary.c, iterator_poly.c, iterator_values.c, iterator_profile.c,
  values_linear.c, values_bound.c) and the text scanners they use (mptcore/convert/cdouble.c,
  convert_int.c:mpt_cuint32, misc/string_nextvis.c).

  Numbers are exact rationals (core `Rat`): decimal literals denote their exact value; rounding to
  `double`, overflow, `inf`, `nan` and hexadecimal literals are outside the model (the drivers refuse to
  compare such descriptions).  Text is a list of characters (bytes); a C string position is the remaining
  suffix.  Counters are `uint32_t` in C: `wrap32`.
-/
import MptModel.Basic
namespace Mpt.Iter

/-! ### character classes of the "C" locale -/
def isSpace (c : Char) : Bool := c.toNat = 32 || (9 ≤ c.toNat && c.toNat ≤ 13)
def isGraph (c : Char) : Bool := 33 ≤ c.toNat && c.toNat ≤ 126
def isDigit (c : Char) : Bool := 48 ≤ c.toNat && c.toNat ≤ 57
def isOct (c : Char) : Bool := 48 ≤ c.toNat && c.toNat ≤ 55
def isAlpha (c : Char) : Bool := (65 ≤ c.toNat && c.toNat ≤ 90) || (97 ≤ c.toNat && c.toNat ≤ 122)
def lower (c : Char) : Char := if 65 ≤ c.toNat ∧ c.toNat ≤ 90 then Char.ofNat (c.toNat + 32) else c

def wrap32 (n : Nat) : Nat := n % 4294967296

/-- value of a digit string in base `b` -/
def digitsVal (b : Nat) (ds : List Char) : Nat := ds.foldl (fun acc c => acc * b + (c.toNat - 48)) 0

/-- leading run of characters with property `p` and the rest -/
def spanP (p : Char → Bool) : List Char → List Char × List Char
  | [] => ([], [])
  | c :: cs => if p c then ((spanP p cs).1.cons c, (spanP p cs).2) else ([], c :: cs)

def dropSpace : List Char → List Char
  | [] => []
  | c :: cs => if isSpace c then dropSpace cs else c :: cs

/-- `10^e` as a rational for an integer exponent -/
def pow10 (e : Int) : Rat := if 0 ≤ e then ((10 ^ e.toNat : Nat) : Rat) else 1 / ((10 ^ (-e).toNat : Nat) : Rat)

/-- position after an optional sign -/
def signRest (s : List Char) : List Char :=
  if s.head? = some '-' ∨ s.head? = some '+' then s.tail else s

/-- digits of an exponent part `[eE][+-]?digits` at `s` (empty: no exponent is taken) -/
def expDigits (s : List Char) : List Char :=
  match s with
  | e :: t => if e = 'e' ∨ e = 'E' then (spanP isDigit (signRest t)).1 else []
  | [] => []

/-- position after the optional exponent part (only taken with at least one digit) -/
def expRest (s : List Char) : List Char :=
  if (expDigits s).isEmpty then s else (spanP isDigit (signRest s.tail)).2

/-- value of the optional exponent part -/
def expVal (s : List Char) : Int :=
  if (expDigits s).isEmpty then 0
  else if s.tail.head? = some '-' then -(digitsVal 10 (expDigits s) : Int) else (digitsVal 10 (expDigits s) : Int)

/-- digits behind a decimal point at `s` -/
def fracDigits (s : List Char) : List Char :=
  if s.head? = some '.' then (spanP isDigit s.tail).1 else []

/-- position after the optional fraction part -/
def fracRest (s : List Char) : List Char :=
  if s.head? = some '.' then (spanP isDigit s.tail).2 else s

/-- position of the first digit (after white space and sign) -/
def numStart (s : List Char) : List Char := signRest (dropSpace s)

/-- a number can be converted: at least one digit in front of or behind the decimal point -/
def scanOk (s : List Char) : Bool :=
  !((spanP isDigit (numStart s)).1.isEmpty && (fracDigits (spanP isDigit (numStart s)).2).isEmpty)

/-- position after the number -/
def scanRest (s : List Char) : List Char := expRest (fracRest (spanP isDigit (numStart s)).2)

/-- exact value of the number -/
def scanVal (s : List Char) : Rat :=
  let ip := (spanP isDigit (numStart s)).1
  let fp := fracDigits (spanP isDigit (numStart s)).2
  let v := ((digitsVal 10 (ip ++ fp) : Nat) : Rat) *
    pow10 (expVal (fracRest (spanP isDigit (numStart s)).2) - fp.length)
  if (dropSpace s).head? = some '-' then -v else v

/-- decimal subset of `strtod`: value and rest, `none` = no conversion -/
def scanDouble (s : List Char) : Option (Rat × List Char) :=
  if scanOk s then some (scanVal s, scanRest s) else none

/-- result of a text scanner: nothing there (return 0), error, or value and rest -/
inductive Scan (α : Type) where
  | zero
  | err (e : Err)
  | ok (v : α) (rest : List Char)
  deriving Repr

/-- stand-in for an infinite value (larger than every `double`): value lists may contain `inf` -/
def infVal : Rat := ((2 ^ 2000 : Nat) : Rat)

/-- `inf` / `infinity` (any case) at the start: the text behind it -/
def infWord (s : List Char) : Option (List Char) :=
  if (s.take 8).map lower = "infinity".toList then some (s.drop 8)
  else if (s.take 3).map lower = "inf".toList then some (s.drop 3)
  else none

/-- `strtod` on an infinity literal: optional white space and sign in front -/
def infScan (s : List Char) : Option (Rat × List Char) :=
  match infWord (numStart s) with
  | some rest => some (if (dropSpace s).head? = some '-' then -infVal else infVal, rest)
  | none => none

/-- `mpt_cdouble(&val, src, 0)` -/
def cdouble (s : List Char) : Scan Rat :=
  if s.isEmpty then .zero
  else match infScan s with
  | some (v, rest) => .ok v rest
  | none =>
  match scanDouble s with
    | some (v, rest) => .ok v rest
    | none => if s.all isSpace then .zero else .err .BadType

/-- digits taken by `strtoumax(src, &end, 0)`: octal after a leading `0`, decimal otherwise
    (hexadecimal is outside the model) -/
def uintDigits (s : List Char) : List Char :=
  if (numStart s).head? = some '0' then (spanP isOct (numStart s)).1 else (spanP isDigit (numStart s)).1

/-- position after the digits -/
def uintRest (s : List Char) : List Char :=
  if (numStart s).head? = some '0' then (spanP isOct (numStart s)).2 else (spanP isDigit (numStart s)).2

/-- value of the digits -/
def uintVal (s : List Char) : Nat :=
  digitsVal (if (numStart s).head? = some '0' then 8 else 10) (uintDigits s)

/-- `mpt_cuint32(&val, src, 0, 0)`: `strtoumax` with base 0, minus sign refused, range 0..2^32-1 -/
def cuint32 (s : List Char) : Scan Nat :=
  if s.isEmpty then .zero
  else if (uintDigits s).isEmpty then (if s.all isSpace then .zero else .err .BadType)
  else if (dropSpace s).head? = some '-' ∨ 4294967295 < uintVal s then .err .BadValue
  else .ok (uintVal s) (uintRest s)

/-- `mpt_string_nextvis(&str)`: the visible character and the position at it; skips one white-space
    character only (a second one is reported as BadValue); the position is unchanged on error -/
def nextvis (s : List Char) : Except Err (Char × List Char) :=
  match s with
  | [] => .error .MissingData
  | c :: t =>
    if !isSpace c then .ok (c, s)
    else match t with
      | [] => .error .MissingData
      | c2 :: _ => if !isGraph c2 then .error .BadValue else .ok (c2, t)

/-- `nextvis(&str) == ch` -/
def nextIs (s : List Char) (ch : Char) : Bool :=
  match nextvis s with
  | .ok (c, _) => c = ch
  | .error _ => false

/-- the position after a successful `nextvis` (unchanged otherwise) -/
def nextPos (s : List Char) : List Char :=
  match nextvis s with
  | .ok (_, t) => t
  | .error _ => s

/-- the description ends here: the closing parenthesis is the next visible character and nothing but white
    space follows it (fix in /repo: text behind the parenthesis used to be ignored) -/
def closeOk (s : List Char) : Bool := nextIs s ')' && (nextPos s).tail.all isSpace

/-! ### generator states -/

/-- `DBL_MIN` -/
def dblMin : Rat := 1 / ((2 ^ 1022 : Nat) : Rat)

inductive Gen where
  /-- iterator_linear.c (linear and range): `base + pos·step`, `elem` values -/
  | linear (base step : Rat) (elem pos : Nat)
  /-- iterator_factor.c -/
  | factor (base fact init : Rat) (elem pos : Nat) (curr : Rat)
  /-- iterator_boundary.c -/
  | boundary (left inter right : Rat) (elem pos : Nat)
  /-- iterator_poly.c: grid values, (shift, mult) per coefficient, position, cached value -/
  | poly (grid : List Rat) (coeff : List (Rat × Rat)) (pos : Nat) (cache : Option Rat)
  /-- iterator_poly.c without grid data (empty array): the polynomial at the element index 0, 1, 2, …
      (`UINT_MAX` elements) -/
  | polyN (coeff : List (Rat × Rat)) (pos : Nat) (cache : Option Rat)
  /-- iterator_values.c: the text, the position behind the current value (`none` = NULL), current value -/
  | values (text : List Char) (next : Option (List Char)) (curr : Rat)
  deriving Repr

/-- return classes of `advance()`: `'d'` (a further element), `0`, negative error -/
inductive AdvRes where
  | more | last | err (e : Err)
  deriving Repr, DecidableEq

/-- `iterPolyValue`: `Σ_j mult_j·(x + shift_j)^(nc−1−j)` evaluated as the C loops do -/
def polyProd (mult tmp : Rat) : Nat → Rat
  | 0 => mult
  | k + 1 => polyProd mult tmp k * tmp

def polySumAux (coeff : List (Rat × Rat)) (x : Rat) : List (Rat × Rat) → Rat → Rat
  | [], sum => sum
  | c :: rest, sum => polySumAux coeff x rest (sum + polyProd c.2 (x + c.1) rest.length)

def polyEval (coeff : List (Rat × Rat)) (x : Rat) : Rat :=
  if coeff.isEmpty then x else polySumAux coeff x coeff 0

namespace Gen

/-- `value()`: `none` = NULL; the poly generator caches the computed value -/
def value : Gen → Gen × Option Rat
  | g@(.linear base step elem pos) => (g, if pos ≥ elem then none else some (base + (pos : Rat) * step))
  | g@(.factor _ _ _ elem pos curr) => (g, if pos ≥ elem then none else some curr)
  | g@(.boundary left inter right elem pos) =>
    (g, if pos ≥ elem then none
        else some (if pos = 0 then left else if pos < elem - 1 then inter else right))
  | g@(.poly grid coeff pos cache) =>
    if pos ≥ grid.length then (g, none)
    else match cache with
      | some v => (g, some v)
      | none =>
        let v := polyEval coeff (grid.getD pos 0)
        (.poly grid coeff pos (some v), some v)
  | g@(.polyN coeff pos cache) =>
    if pos ≥ 4294967295 then (g, none)
    else match cache with
      | some v => (g, some v)
      | none =>
        let v := polyEval coeff (pos : Rat)
        (.polyN coeff pos (some v), some v)
  | g@(.values _ next curr) => (g, if next.isSome then some curr else none)

/-- `advance()` -/
def advance : Gen → Gen × AdvRes
  | g@(.linear base step elem pos) =>
    if pos ≥ elem then (g, .err .MissingData)
    else (.linear base step elem (pos + 1), if pos + 1 = elem then .last else .more)
  | g@(.factor base fact init elem pos curr) =>
    if pos ≥ elem then (g, .err .MissingData)
    else
      let curr' := if pos = 0 then base else curr * fact
      (.factor base fact init elem (pos + 1) curr', if pos + 1 = elem then .last else .more)
  | g@(.boundary left inter right elem pos) =>
    if pos ≥ elem then (g, .err .MissingData)
    else (.boundary left inter right elem (pos + 1), if pos + 1 = elem then .last else .more)
  | g@(.poly grid coeff pos _) =>
    if pos ≥ grid.length then (g, .err .BadOperation)
    else (.poly grid coeff (pos + 1) none, if pos + 1 = grid.length then .last else .more)
  | g@(.polyN coeff pos _) =>
    if pos ≥ 4294967295 then (g, .err .MissingData)
    else (.polyN coeff (pos + 1) none, if pos + 1 = 4294967295 then .last else .more)
  | g@(.values text next curr) =>
    match next with
    | none => (g, .err .MissingData)
    | some s =>
      if s.isEmpty then (.values text none curr, .last)
      else match cdouble s with
        | .zero => (.values text none curr, .last)
        | .err _ => (g, .err .BadValue)
        | .ok v rest => (.values text (some rest) v, .more)

/-- `reset()`: new state and the return value (element count, at most `INT_MAX`; 0; or a negative error code) -/
def reset : Gen → Gen × Int
  | .linear base step elem _ => (.linear base step elem 0, (min elem 2147483647 : Nat))
  | .factor base fact init elem _ _ => (.factor base fact init elem 0 init, (min elem 2147483647 : Nat))
  | .boundary left inter right elem _ => (.boundary left inter right elem 0, (min elem 2147483647 : Nat))
  | .poly grid coeff _ _ => (.poly grid coeff 0 none, grid.length)
  | .polyN coeff _ _ => (.polyN coeff 0 none, 0)
  | g@(.values text next _) =>
    match cdouble text with
    | .zero => (.values text next 0, Err.MissingData.code)
    | .err _ => (g, Err.BadValue.code)
    | .ok v rest => (.values text (some rest) v, 0)

end Gen

/-! ### creation from text -/

/-- `mpt_iterator_linear(len, start, end)` -/
def mkLinear (len : Nat) (a b : Rat) : Option Gen :=
  if len < 2 then none else some (.linear a ((b - a) / ((len - 1 : Nat) : Rat)) len 0)

/-- `mpt_iterator_boundary(len, left, inter, right)` -/
def mkBoundary (len : Nat) (l i r : Rat) : Option Gen :=
  if len < 2 then none else some (.boundary l i r len 0)

/-- `parseRange(from, &r)`: two numbers; `(min, max, rest)`; an absent number keeps the default -/
def parseRange (s : List Char) (dmin dmax : Rat) : Option (Rat × Rat × List Char) :=
  match cdouble s with
  | .err _ => none
  | .zero =>
    -- r1 = 0: the second call reads the same position
    (match cdouble s with
     | .err _ => none
     | .zero => some (dmin, dmax, s)      -- `r->min = tmp` is an uninitialised read in C; unobservable: see `linArgs`
     | .ok v rest => some (dmin, v, rest))
  | .ok v1 rest1 =>
    match cdouble rest1 with
    | .err _ => none
    | .zero => some (v1, dmax, rest1)
    | .ok v2 rest2 => some (v1, v2, rest2)

/-- optional `: a b` group of the linear description: bounds and position -/
def linRange (s1 : List Char) : Option (Rat × Rat × List Char) :=
  if nextIs s1 ':' then parseRange (nextPos s1).tail 0 1 else some (0, 1, s1)

/-- `_mpt_iterator_linear` with a text argument: `( n [: a b] )` -/
def linArgs (s : List Char) : Option Gen :=
  match nextvis s with
  | .error _ => none
  | .ok (c, s0) =>
    if c ≠ '(' then none else
    match cuint32 s0.tail with
    | .zero => none
    | .err _ => none
    | .ok iv s1 =>
      match linRange s1 with
      | none => none
      | some (mn, mx, s2) =>
        if !closeOk s2 then none
        else mkLinear (wrap32 (iv + 1)) mn mx

/-- the default generator `_mpt_iterator_range(0)`: 0, 0.1, …, 1 -/
def defaultRange : Gen := .linear 0 (1 / 10) 11 0

/-- tolerance of the step count of a range: `8·DBL_EPSILON` -/
def rangeTol : Rat := 1 / ((2 ^ 49 : Nat) : Rat)

/-- number of whole steps of a range: `(max − min)/step` truncated; a quotient that falls short of the next
    whole number by no more than the tolerance counts as that number (fix in /repo: the quotient of rounded
    operands, e.g. 0.3/0.1, used to lose the last element) -/
def rangeSteps (mn mx step : Rat) : Nat :=
  let k := ((mx - mn) / step).floor.toNat
  if ((k + 1 : Nat) : Rat) - (mx - mn) / step ≤ ((k + 1 : Nat) : Rat) * rangeTol then k + 1 else k

/-- optional `: step` group of the range description -/
def rangeStep (s1 : List Char) (dflt : Rat) : Option (Rat × List Char) :=
  if nextIs s1 ':' then
    match cdouble (nextPos s1).tail with
    | .err _ => none
    | .zero => some (dflt, (nextPos s1).tail)
    | .ok v rest => some (v, rest)
  else some (dflt, s1)

/-- `_mpt_iterator_range` with a text argument: `( a b [: step] )`.
    A step that is not positive is refused (fix in /repo: a range of width 0 used to divide 0 by 0); a step
    that exceeds the width by no more than the tolerance is a single step (fix in /repo). -/
def rangeArgs (s : List Char) : Option Gen :=
  match nextvis s with
  | .error _ => none
  | .ok (c, s0) =>
    if c ≠ '(' then none else
    match parseRange s0.tail 0 1 with
    | none => none
    | some (mn, mx, s1) =>
      match rangeStep s1 ((mx - mn) / 10) with
      | none => none
      | some (step, s2) =>
        if !closeOk s2 then none
        else if ¬ (0 < step) ∨ (mx - mn) * (1 + rangeTol) < step ∨ step < (mx - mn) * (1 / 1000000) then none
        else some (.linear mn step (wrap32 (rangeSteps mn mx step + 1)) 0)

/-- the optional `: number` group used three times by the factor description: value (default kept when
    the number is absent) and position; `none` = conversion error -/
def optNumber (s : List Char) (dflt : Rat) : Option (Rat × List Char) :=
  match cdouble (nextPos s).tail with
  | .err _ => none
  | .zero => some (dflt, (nextPos s).tail)
  | .ok v rest => some (v, rest)

/-- count of the factor description; `mpt_cuint32(...) < 0` only: a missing count continues
    (and is refused later: nothing but white space follows) -/
def facCount (s : List Char) : Option (Nat × List Char) :=
  match cuint32 s with
  | .err _ => none
  | .zero => some (0, s)
  | .ok v rest => if v = 4294967295 then none else some (v, rest)   -- count + 1 must fit 32 bits (fix in /repo)

/-- base value group -/
def facBase (s1 : List Char) : Option (Rat × List Char) :=
  if nextIs s1 ':' then optNumber s1 10 else some (10, s1)

/-- the factor itself after the second ':' (at `p`, the position of that ':') -/
def facFact (base : Rat) (p : List Char) : Option (Rat × List Char) :=
  if p.tail.head? = some ':' then (if base < dblMin then none else some (base, p.tail))
  else match cdouble p.tail with
    | .err _ => none
    | .zero => if (10 : Rat) < dblMin then none else some (10, p.tail)
    | .ok v rest => if v < dblMin then none else some (v, rest)

/-- factor and initial value groups: (factor, init, position) -/
def facTail (base : Rat) (s2 : List Char) : Option (Rat × Rat × List Char) :=
  if nextIs s2 ':' then
    match facFact base (nextPos s2) with
    | none => none
    | some (fact, s3) =>
      if nextIs s3 ':' then
        match optNumber s3 0 with
        | none => none
        | some (init, s4) => some (fact, init, s4)
      else some (fact, 0, s3)
  else if base < dblMin then none else some (base, 0, s2)

/-- `_mpt_iterator_factor` with a text argument: `( n [: base [: fact [: init]]] )` -/
def facArgs (s : List Char) : Option Gen :=
  match nextvis s with
  | .error _ => none
  | .ok (c, s0) =>
    if c ≠ '(' then none else
    match facCount s0.tail with
    | none => none
    | some (iter, s1) =>
      match facBase s1 with
      | none => none
      | some (base, s2) =>
        match facTail base s2 with
        | none => none
        | some (fact, init, s5) =>
          if !closeOk s5 then none
          else some (.factor base fact init (wrap32 (iter + 1)) 0 init)

/-- `mpt_iterator_values(text)` -/
def mkValues (s : List Char) : Option Gen :=
  match cdouble s with
  | .ok v rest => some (.values s (some rest) v)
  | _ => none

/-- `clone()`: `none` = NULL (the polynomial generator has no clone).  The linear and factor generators copy
    their parameter block into a new default object; the boundary generator and the value list make a new
    object through their public creator and transfer the position (and current value) afterwards. -/
def Gen.clone : Gen → Option Gen
  | g@(.linear ..) => some g
  | g@(.factor ..) => some g
  | .boundary l i r elem pos =>
    match mkBoundary elem l i r with
    | some (.boundary l' i' r' e' _) => some (.boundary l' i' r' e' pos)
    | _ => none
  | .poly .. => none
  | .polyN .. => none
  | .values text next curr =>
    match mkValues text with
    | some (.values t' _ _) => some (.values t' next curr)
    | _ => none

def lowerAll (s : List Char) : List Char := s.map lower

/-- `mpt_iterator_create(conf)`; `none` = NULL (refused) -/
def create (conf : List Char) : Option Gen :=
  let s := dropSpace conf
  if s.isEmpty then some defaultRange
  else
    let name := (spanP isAlpha s).1
    let rest := (spanP isAlpha s).2
    if 32 ≤ name.length + 1 then none
    else if name.isEmpty then mkValues s
    else
      let n := lowerAll name
      if n = "linear".toList ∨ n = "lin".toList then linArgs rest
      else if n = "factor".toList ∨ n = "fact".toList ∨ n = "fac".toList then facArgs rest
      else if n = "range".toList then rangeArgs rest
      else none

/-! ### profiles (iterator_profile.c) -/

/-- `nextVis(ptr, cont)` of iterator_profile.c with a continuation word -/
def profCont : List Char → List Char → Option (List Char)
  | p, [] => some p
  | [], _ => some []
  | c :: p, k :: cont =>
    if isSpace c ∨ c = ':' then some (c :: p)
    else if c ≠ k then none
    else profCont p cont

/-- white space, an optional ':', white space -/
def profSkip (p : List Char) : List Char :=
  let p1 := dropSpace p
  if p1.head? = some ':' then dropSpace p1.tail else p1

def profNext (p : List Char) (cont : Option (List Char)) : Option (List Char) :=
  match cont with
  | some k => (profCont p k).map profSkip
  | none =>
    match p with
    | [] => some []
    | c :: t => if !isSpace c ∧ c ≠ ':' then none else some (profSkip t)


/-- coefficients of `mpt_iterator_poly`: numbers up to the first failure (at most 128), position after them -/
def polyCoeffs : Nat → List Char → List Rat × List Char
  | 0, s => ([], s)
  | n + 1, s =>
    match cdouble s with
    | .ok v rest => ((polyCoeffs n rest).1.cons v, (polyCoeffs n rest).2)
    | _ => ([], s)

/-- `getValues(val, len, ptr)`: up to `n` numbers, nothing but white space behind them (`none` = refused;
    fix in /repo: text behind the numbers used to be ignored) -/
def getValues (n : Nat) (s : List Char) : Option (List Rat) :=
  if (dropSpace (polyCoeffs n s).2).isEmpty then some (polyCoeffs n s).1 else none

/-- `mpt_iterator_poly(desc, grid)`: coefficients, then (behind white space and a `:`) at most one shift per
    coefficient but the last; anything else behind them is refused (fix in /repo: further numbers and other
    text used to be ignored) -/
def mkPoly (desc : List Char) (grid : List Rat) : Option Gen :=
  let mults := (polyCoeffs 128 desc).1
  if mults.isEmpty then none
  else
    let r1 := dropSpace (polyCoeffs 128 desc).2
    let sh := if r1.head? = some ':' then polyCoeffs (mults.length - 1) r1.tail else ([], r1)
    if !(dropSpace sh.2).isEmpty then none
    else
      let coeff := (List.range mults.length).map fun j => (sh.1.getD j 0, mults.getD j 0)
      some (.poly grid coeff 0 none)

/-- `mpt_iterator_poly(desc, grid)` with an array without data; `desc = none` models NULL (identity) -/
def mkPolyN (desc : Option (List Char)) : Option Gen :=
  match desc with
  | none => some (.polyN [] 0 none)
  | some d =>
    match mkPoly d [] with
    | some (.poly _ coeff _ _) => some (.polyN coeff 0 none)
    | _ => none

def startsWithCI (s : List Char) (w : String) : Bool := lowerAll (s.take w.length) = w.toList

/-- `mpt_iterator_profile(arr, desc)` for a non-empty array of doubles; `file` profiles are outside the model -/
def profile (grid : List Rat) (desc : List Char) : Option Gen :=
  if grid.isEmpty then none
  else
    let d := dropSpace desc
    if startsWithCI d "lin" then
      match profNext (d.drop 3) (some "ear".toList) with
      | none => none
      | some p =>
        match getValues 2 p with
        | some [a, b] => mkLinear grid.length a b
        | _ => none
    else if startsWithCI d "bound" then
      match profNext (d.drop 5) (some "ary".toList) with
      | none => none
      | some p =>
        match getValues 3 p with
        | some [l, i, r] => mkBoundary grid.length l i r
        | _ => none
    else if startsWithCI d "poly" then
      match profNext (d.drop 4) none with
      | none => none
      | some p => mkPoly p grid
    else none

/-! ### array fillers -/

/-- `mpt_values_linear(points, target, ld, min, max)` on a zeroed target of `size` slots; index `i·ld` -/
def valuesLinear (points ld : Nat) (mn mx : Rat) (size : Nat) : List Rat :=
  if points < 1 then List.replicate size 0
  else
    let len := points - 1
    let dv := (mx - mn) / (len : Rat)
    (List.range size).map fun k =>
      if k = len * ld then mx                      -- written last
      else if ld ≠ 0 ∧ k % ld = 0 ∧ 0 < k / ld ∧ k / ld < len then mn + ((k / ld : Nat) : Rat) * dv
      else if k = 0 then mn
      else 0

/-- `mpt_values_bound(points, target, ld, left, cont, right)` -/
def valuesBound (points ld : Nat) (l c r : Rat) (size : Nat) : List Rat :=
  if points < 1 then List.replicate size 0
  else if points < 2 then (List.range size).map fun k => if k = 0 then (l + c + r) / 3 else 0
  else
    let fin := points - 1
    (List.range size).map fun k =>
      if k = ld * fin then r
      else if ld ≠ 0 ∧ k % ld = 0 ∧ 0 < k / ld ∧ k / ld < fin then c
      else if k = 0 then l
      else 0

end Mpt.Iter
