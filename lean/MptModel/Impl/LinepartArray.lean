/-
  M: implementation model of the C++ layer mpt++/linepart.cpp (`linepart::array::set`,
  `linepart::array::apply` including the merge path, `length_user`, `length_raw`) and of the part view of
  mpt++/polyline.cpp (`polyline::iterator`, `polyline::part::points` / `line`).
  The transformation is the one the layout graph uses: `part(dim, values, len)` =
  `mpt_linepart_linear(values, len, range of dim)`.
-/
import MptModel.Impl.Linepart
namespace Mpt.Linepart
open Mpt.Visible

/-- `linepart::array::set(len)` for `len ≥ 0`: parts of at most 65533 points, all drawn -/
def arraySetAux : Nat → Nat → List Part
  | 0, _ => []
  | fuel + 1, len =>
    if len = 0 then []
    else if len < 65533 then [{ raw := len, usr := len, cut := 0, trim := 0 }]
    else { raw := 65533, usr := 65533, cut := 0, trim := 0 } :: arraySetAux fuel (len - 65533)

def arraySet (len : Nat) : List Part := arraySetAux (len / 65533 + 2) len

/-- state of the merge loop of `linepart::array::apply` -/
structure MergeSt where
  rest : List Part      -- old parts behind the current one (`base[pos+1 ..]`)
  old : Part            -- working copy of the current old part
  vals : List Rat       -- `val`: remaining values of the dimension (`len` = its length)
  out : List Part       -- new parts so far (reversed)
  done : Bool           -- `pos == oldlen`

/-- `base[oldlen + next - 1].join(pt)` or append -/
def pushPart (out : List Part) (pt : Part) : List Part :=
  match out with
  | [] => [pt]
  | last :: more =>
    match linepartJoin last pt with
    | some j => j :: more
    | none => pt :: last :: more

/-- advance to the next old part (`if (++pos < oldlen) old = base[pos]`) -/
def nextOld (s : MergeSt) : MergeSt :=
  match s.rest with
  | [] => { s with done := true }
  | p :: more => { s with old := p, rest := more }

/-- one round of the merge loop -/
def mergeStep (range : Option Range) (s : MergeSt) : MergeSt :=
  let old := s.old
  if old.usr = 0 ∨ s.vals.length = 0 then
    -- no visible points: the old part is kept, its data skipped
    let vals := if s.vals.length > old.raw then s.vals.drop old.raw else []
    let s1 := nextOld { s with vals := vals }
    -- a part without drawn points carries no cut or trim (fix in /repo)
    -- … and a part for which this dimension has no data left draws nothing (fix in /repo: such parts used to
    -- stay drawn while the part the data ended in was cut short)
    let pt : Part := { old with usr := 0, cut := 0, trim := 0 }
    { s1 with out := pushPart s.out pt }
  else
    let usr := if s.vals.length < old.usr then s.vals.length else old.usr
    let pt0 := linepartLinear (s.vals.take usr) range
    -- cut and trim of the old part are taken over only when the new part draws something (fix in /repo)
    let pt1a : Part := { pt0 with cut := if pt0.usr ≠ 0 ∧ old.cut > pt0.cut then old.cut else pt0.cut }
    -- the trim of the old part belongs to the new part when that ends on the old part's last drawn point
    -- (fix in /repo: it used to be lost for a partial segment and taken over for an earlier end)
    -- (… and not when the data of this dimension ends inside the drawn points of the old part: fix in /repo)
    let pt1 : Part := { pt1a with trim := if pt1a.usr ≠ 0 ∧ ¬ (s.vals.length < old.usr) ∧ pt1a.usr = usr ∧ old.trim > pt1a.trim then old.trim else pt1a.trim }
    if pt1.raw < old.raw then
      -- partial segment: the rest of the old part stays current
      let old' : Part := { old with raw := old.raw - pt1.raw, usr := usr - pt1.raw, cut := 0 }
      { s with old := old', vals := s.vals.drop pt1.raw, out := pushPart s.out pt1 }
    else
      let pt2 : Part := { pt1 with raw := if old.raw < pt1.raw then old.raw else pt1.raw }
      let s1 := nextOld { s with vals := s.vals.drop pt2.raw }
      { s1 with out := pushPart s.out pt2 }

def mergeLoop (range : Option Range) : Nat → MergeSt → MergeSt
  | 0, s => s
  | fuel + 1, s => if s.done then s else mergeLoop range fuel (mergeStep range s)

/-- `linepart::array::apply(tr, dim, src)`: `none` = false (nothing changed) -/
def arrayApply (old : List Part) (vals : List Rat) (range : Option Range) : Option (List Part) :=
  if vals.length = 0 then none
  else match old with
    | [] => some (parts vals range)
    | p :: rest =>
      let s := mergeLoop range (2 * (vals.length + old.length) + 4)
        { rest := rest, old := p, vals := vals, out := [], done := false }
      some s.out.reverse

def lengthUser (ps : List Part) : Nat := (ps.map (·.usr)).sum
def lengthRaw (ps : List Part) : Nat := (ps.map (·.raw)).sum

/-- `polyline::iterator` + `polyline::part::points()` / `line()`: per part the offset of its first drawn
    point in the point array, the `points()` span (offset, length) and the `line()` span -/
def polyParts : List Part → Nat → List (Nat × Int × Nat × Nat)
  | [], _ => []
  | p :: ps, start =>
    let c := if p.cut ≠ 0 then 1 else 0
    let t := if p.trim ≠ 0 then 1 else 0
    (start + c, (p.usr : Int) - c - t, start, p.usr) :: polyParts ps (start + p.usr)

end Mpt.Linepart
