/-
  M (continued): `mpt_parse_config`, `mpt_node_append`, `mpt_parse_node`.

  The element loop of `mpt_parse_config` is defined by well-founded recursion on `measure`
  (remaining input, doubled, +1 while the previous operation was a section end); the decrease is
  `next_measure` of Lemmas/ParseRead.lean.  No fuel: Lean accepting `loop` is the termination proof.
-/
import MptModel.Lemmas.ParseRead

namespace Mpt.Parse
open Mpt Mpt.Conf

/-- result of `mpt_parse_config` -/
structure Result (α : Type) where
  code : Int
  ctx  : α        -- handler context
  st   : St       -- parser context at return (`curr`, `line`)
  prev : Nat
  src  : Src

/-- a path handler: context, parser state at the call (path, valid), `prev`, `ret` ↦ new context,
    `none` = the handler refuses -/
abbrev Handler (α : Type) := α → St → Nat → Int → Option α

/-- after the handler: remove the last path element (section end, option) or the pending data -/
def afterSave (ret : Int) (p : Path) : Except Err Path :=
  if ret.toNat &&& Flag.sectEnd != 0 then p.del else .ok p.invalidate

set_option linter.unusedVariables false in
/-- the loop of `mpt_parse_config` -/
def loop {α : Type} (k : Kind) (cfg : Cfg) (save : Handler α) (ctx : α) (prev : Nat) (s : St) (src : Src) :
    Result α :=
  if h : 0 < (next k cfg prev s src).1 then
    let ret := (next k cfg prev s src).1
    let s1 := (next k cfg prev s src).2.1
    let src1 := (next k cfg prev s src).2.2
    match save ctx s1 prev ret with
    | none => { code := -128, ctx := ctx, st := s1, prev := prev, src := src1 }
    | some ctx1 =>
      match afterSave ret s1.path with
      | .error _ => { code := Err.MissingData.code, ctx := ctx1, st := s1, prev := prev, src := src1 }
      | .ok p => loop k cfg save ctx1 s1.curr { s1 with path := p, curr := 0, valid := 0 } src1
  else
    { code := (next k cfg prev s src).1, ctx := ctx, st := (next k cfg prev s src).2.1, prev := prev,
      src := (next k cfg prev s src).2.2 }
termination_by measure prev src
decreasing_by exact next_measure k cfg prev s src h

/-- `mpt_parse_config(next, fmt, parse, save, ctx)` on a fresh path; `line` starts at 1 -/
def parseConfig {α : Type} (k : Kind) (cfg : Cfg) (save : Handler α) (ctx : α) (prev : Nat)
    (input : List UInt8) : Result α :=
  loop k cfg save ctx prev {} { rest := input }

/-- recording handler: appends the event (newest first); refuses the `failAt`-th call -/
def record (failAt : Option Nat) : Handler (List Events.Event) :=
  fun evs s _ ret => if failAt == some evs.length then none else some (mkEvent ret s :: evs)

/-- the events `mpt_parse_config` hands to a handler that accepts everything, in order -/
def events (k : Kind) (cfg : Cfg) (prev : Nat) (input : List UInt8) : Int × List Events.Event :=
  let r := parseConfig k cfg (record none) [] prev input
  (r.code, r.ctx.reverse)

/-! ### `mpt_node_append`: the temporary tree of `mpt_parse_node` -/

/-- append `t` as last child of the node `depth` levels down the rightmost spine (0 = the list itself) -/
def appendAt : Nat → Forest → Tree → Forest
  | 0, f, t => f ++ [t]
  | d + 1, f, t =>
    match f.getLast? with
    | none => f
    | some (.node n v cs) => f.dropLast ++ [.node n v (appendAt d cs t)]

/-- the tree under construction: children of the local root `conf` and the depth of the current node
    (`curr` of `mpt_parse_node`) on the rightmost spine; depth 0 = `conf` itself.
    New nodes are only ever linked behind the last child/sibling, so the current node is always
    the last one of its level. -/
structure Build where
  forest : Forest := []
  depth  : Nat := 0
  deriving Repr, Inhabited

/-- the two representations `mpt_meta_new` chooses between for a character vector: the basic metatype
    with the text stored behind the object (`mpt_meta_geninfo`; offers the string and the vector
    conversion) and the buffer metatype (`mpt_meta_buffer`; vector conversion only) -/
inductive MetaRep where
  | inline (text : List UInt8)
  | buffer (text : List UInt8)
  deriving Repr, DecidableEq

def MetaRep.text : MetaRep → List UInt8
  | .inline t => t
  | .buffer t => t

/-- `_mpt_geninfo_size(len + 1) < 0` decides: text, terminating zero, 4 bytes of `struct metaInfo` and one
    more byte have to fit into 255 -/
def metaRep (v : List UInt8) : MetaRep :=
  if v.length + 1 + 4 + 1 ≤ 255 then .inline v else .buffer v

@[simp] theorem metaRep_text (v : List UInt8) : (metaRep v).text = v := by
  unfold metaRep; split <;> rfl

/-- `mpt_meta_new` for a character vector: accepted for every length (see the `fix:` commits); the
    value read back from either representation is the text -/
def metaNew (v : List UInt8) : Option (List UInt8) := some (metaRep v).text

/-- name of a new node: last path element (`mpt_path_last`, `mpt_identifier_set`); refused when the
    identifier cannot hold it (`len + 1 > UINT16_MAX`) -/
def nodeName (p : Path) : Option (List UInt8) :=
  match p.elems.getLast? with
  | none => none
  | some n => if n.length + 1 > 65535 then none else some n

/-- `mpt_node_append(old, path, val, prevop, currop)`; `none` = NULL -/
def nodeAppend : Handler Build :=
  fun b s prev ret =>
    let cur := ret.toNat
    if cur &&& 0xf == 0 then some b
    else if cur == Flag.sectEnd then
      -- the previous operation was anything but the start of this very section: one level up
      if prev != 0 && prev &&& 3 != Flag.section_ then
        (if b.depth == 0 then none else some { b with depth := b.depth - 1 })
      else some b
    else
      let name : Option (List UInt8) :=
        if cur &&& Flag.section_ != 0 then nodeName s.path else some []
      let val : Option (Option (List UInt8)) :=
        if cur &&& Flag.data != 0 then (metaNew s.name).map some else some none
      match name, val with
      | some n, some v =>
        let t := Tree.node n v []
        if prev &&& 3 == Flag.section_ then
          -- previous element was a section start: first child of the current node
          some { forest := appendAt b.depth b.forest t, depth := b.depth + 1 }
        else if b.depth == 0 then none   -- would become a sibling of the local root: not reachable, see notes
        else some { forest := appendAt (b.depth - 1) b.forest t, depth := b.depth }
      | _, _ => none

/-! ### merge into the target: `mpt_node_move` -/

/-- index of the first tree named `n` -/
def locate (n : List UInt8) : Forest → Option Nat
  | [] => none
  | t :: ts => if t.name == n then some 0 else (locate n ts).map (· + 1)

def setChildren : Tree → Forest → Tree
  | .node n v _, cs => .node n v cs

mutual
/-- one source node of `mpt_node_move`: without namesake in `dst` it is appended; otherwise only its
    children travel (merged recursively, or re-parented when the namesake has none) -/
def moveOne : Tree → Forest → Forest
  | .node n v cs, dst =>
    match locate n dst with
    | none => dst ++ [.node n v cs]
    | some i =>
      match dst[i]? with
      | none => dst
      | some d =>
        if cs.isEmpty then dst
        else if d.children.isEmpty then dst.set i (setChildren d cs)
        else dst.set i (setChildren d (moveInto cs d.children))
/-- `mpt_node_move(&src, dst)`: what `dst` looks like afterwards -/
def moveInto : Forest → Forest → Forest
  | [], dst => dst
  | t :: ts, dst => moveInto ts (moveOne t dst)
end

/-- `mpt_parse_node(root, parse, fmt)`: return code, children of the target afterwards, and the
    parser context / source for the internals -/
structure NodeResult where
  code : Int
  children : Forest
  st : St
  src : Src

def parseNode (root : Forest) (str : Option (List UInt8)) (sect opt : Nat) (eof : Int) (input : List UInt8) :
    NodeResult :=
  let ft := parseFormat str
  match Kind.ofType ft.2 with
  | none => { code := Err.BadType.code, children := root, st := {}, src := { rest := input } }
  | some k =>
    let cfg : Cfg := { fmt := ft.1, sect := sect, opt := opt, eof := eof }
    let r := parseConfig k cfg nodeAppend ({} : Build) Flag.section_ input
    if r.code < 0 then { code := r.code, children := root, st := r.st, src := r.src }
    else
      let merged :=
        if root.isEmpty then r.ctx.forest
        else if r.ctx.forest.isEmpty then root
        else moveInto root r.ctx.forest
      { code := r.code, children := merged, st := r.st, src := r.src }

/-! ### `mpt_parse_accept`, `mpt_node_parse` -/

/-- one letter of a name restriction description: (upper case = section names, flag bits) -/
def acceptLetter (c : UInt8) : Option (Bool × Nat) :=
  let upper := 65 ≤ c && c ≤ 90
  let l := if upper then c + 32 else c
  let bits : Option Nat :=
    if l == 102 then some 0x1 else if l == 99 then some 0x2 else if l == 110 then some 0x3
    else if l == 115 then some 0x4 else if l == 119 then some 0x8 else if l == 101 then some 0x10
    else if l == 98 then some 0x20 else none
  bits.map fun b => (upper, b)

/-- the letters up to the first white space: (section flags, option flags), `none` = bad letter -/
def acceptLoop : List UInt8 → Nat → Nat → Option (Nat × Nat)
  | [], sect, opt => some (sect, opt)
  | c :: rest, sect, opt =>
    if isspace c then some (sect, opt)
    else match acceptLetter c with
      | none => none
      | some (true, b) => acceptLoop rest (sect ||| b) opt
      | some (false, b) => acceptLoop rest sect (opt ||| b)

/-- `mpt_parse_accept(flags, text)`: `none` = refused -/
def parseAccept (text : Option (List UInt8)) : Option (Nat × Nat) :=
  match text with
  | none => some (0xff, 0xff)
  | some [] => some (NameFlag.numCont, NameFlag.numCont)
  | some t => acceptLoop t 0 0

/-- `mpt_node_parse(conf, file, format, limits, log)`: the stdio front end of `mpt_parse_node`.  The
    children of the target are set aside, the file is parsed into the empty target; on success the old
    children are dropped (no merge), on failure they are put back.  The logger only receives a message. -/
def nodeParse (root : Forest) (str : Option (List UInt8)) (limits : Option (List UInt8)) (input : List UInt8) :
    NodeResult :=
  match parseAccept (some (limits.getD [110, 115])) with
  | none => { code := Err.BadArgument.code, children := root, st := {}, src := { rest := input } }
  | some (sect, opt) =>
    let r := parseNode [] str sect opt (-2) input
    if r.code < 0 then { code := r.code, children := root, st := r.st, src := r.src } else r

/-! ### `mpt::parser::read` (mpt++/parse.cpp) -/

/-- `parser::read(target)`: one more run of `mpt_parse_config` with the context of the parser object
    (`prev` is set to Section, `curr` is what the last run left, `valid` is reset by `mpt_parse_config`)
    on the unread part of its stream; on success the children of the target are REPLACED, on failure
    they stay.  Result of the loop and the children afterwards. -/
def parserRead (k : Kind) (cfg : Cfg) (curr : Nat) (target : Forest) (unread : List UInt8) :
    Result Build × Forest :=
  let r := loop k cfg nodeAppend ({} : Build) Flag.section_ { curr := curr } { rest := unread }
  (r, if r.code < 0 then target else r.ctx.forest)

end Mpt.Parse
