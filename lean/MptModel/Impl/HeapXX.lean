/-
  M, C++ layer: mpt::array (mpt++/array.cpp), reference<T>, content<T>, unique_array<T>, typed_array<T>
  (mptcore/array.h, mptcore/core.h) on top of the heap model `Impl/Heap.lean`.  Each function mirrors one
  C++ method; the C functions they call are the model functions of `Heap.lean`.

  A handle is the `reference<content>` member (`_buf` / `_ref`).  For the typed arrays the static
  `default_data` instance (no storage, flags immutable|shared|nocopy, reference counting switched off) is
  the empty handle (`none`): its `detach(len)` creates a buffer.

  Element types: the traits of `type_properties<T>` always carry `init` and `fini`.  For trivially
  constructible value types (uint8_t, a POD struct) these construct zeros / copy bytes / do nothing, which is
  byte for byte what the plain paths of the C functions do; such types are modelled by plain traits (no
  callbacks).  The token-logging element type of the C05 harness is modelled by traits with callbacks.
-/
import MptModel.Impl.Heap

namespace Mpt.Heap

/-- kind of typed array: element traits, and whether its buffers are created with `BufferNoCopy`
    (`unique_array`) or copyable (`typed_array`) -/
structure XKind where
  t : Traits
  unique : Bool
  deriving DecidableEq, Repr, Inhabited

/-- forget the returned value -/
def Out.unit {α : Type} (r : Out α) : Out Unit :=
  match r with
  | .ok s v => let _ := v; .ok s ()
  | .fail s e => .fail s e
  | .fault w => .fault w

/-! ### mpt::array -/

/-- `reference<T>::operator=(reference const &)`: share the buffer of handle `src` -/
def refAssign (s : State) (dst src : Nat) : Out Unit :=
  if s.handle src = s.handle dst then .ok s ()
  else
    match s.handle src with
    | none => (replaceBuf s dst none (s.handle dst)).unit
    | some a =>
      match addref s a with
      | .ok s1 0 => (replaceBuf s1 dst none (s.handle dst)).unit   -- `r->addref()` failed: the handle becomes empty
      | .ok s1 _ => (replaceBuf s1 dst (some a) (s.handle dst)).unit
      | .fail s1 e => .fail s1 e
      | .fault w => .fault w

/-- `~reference()` -/
def refDrop (s : State) (h : Nat) : Out Unit := (replaceBuf s h none (s.handle h)).unit

/-- the replacement branch of `array::set`: `d = buffer::create(len); d->append(len); _buf.set_instance(d)`
    and the copy of the data -/
def setFresh (s : State) (h : Nat) (bytes : List Byte) : Out Nat :=
  let nb := s.bufs.length
  let s1 := s.newBuf bytes.length 0
  match s1.buf? nb with
  | none => .fault "array::set: freed buffer"
  | some z =>
    if bytes.length > z.size then .fail s1 .null
    else
      match replaceBuf (setUsed s1 nb z (Mem.write z.data 0 bytes) bytes.length) h (some nb) (s.handle h) with
      | .ok s2 _ => .ok s2 0
      | .fail s2 e => .fail s2 e
      | .fault w => .fault w

/-- `array::set(len, base)`: the content of the handle becomes `bytes` -/
def arraySetX (s : State) (h : Nat) (bytes : List Byte) : Out Nat :=
  match s.handle h with
  | none => setFresh s h bytes
  | some b =>
    match s.buf? b with
    | none => .fault "array::set: freed buffer"
    | some x =>
      if x.traits.isSome ∨ x.shared then setFresh s h bytes
      else if bytes.length ≤ x.used then
        -- content::set_length(len), then the copy
        .ok (setUsed s b x (Mem.write x.data 0 bytes) bytes.length) 0
      else if bytes.length - x.used > x.size - x.used then setFresh s h bytes
      else .ok (setUsed s b x (Mem.write x.data 0 bytes) bytes.length) 0

/-- `array::set(const value &)`: a new typed buffer (`buffer::create(reserve, traits)`) gets the data of the value —
    strings with their terminator — and replaces the content of the array -/
def arraySetValue (s : State) (h : Nat) (t : Traits) (bytes : List Byte) (nul : Bool) : Out Nat :=
  let data := if nul then bytes ++ [0] else bytes
  let nb := s.bufs.length
  let s1 := s.newBuf data.length 0 (some t)
  match s1.buf? nb with
  | none => .fault "array::set: freed buffer"
  | some z =>
    if data.length > z.size ∨ t.size = 0 ∨ data.length % t.size ≠ 0 then .fail s1 .null
    else
      match replaceBuf (setUsed s1 nb z (Mem.write z.data 0 data) data.length) h (some nb) (s.handle h) with
      | .ok s2 _ => .ok s2 0
      | .fail s2 e => .fail s2 e
      | .fault w => .fault w

/-- the buffer of the handle has content traits -/
def handleTyped (s : State) (h : Nat) : Bool :=
  match (s.handle h).bind s.buf? with
  | some x => x.traits.isSome
  | none => false

/-- `array::insert(off, len, data)`: raw buffers only; `mpt_array_insert` and the copy -/
def arrayInsertX (s : State) (h off : Nat) (bytes : List Byte) : Out Nat :=
  if handleTyped s h then .fail s .null else insertOp s h off bytes

/-- `array::append(len, data)`: `mpt_array_append(this, len)` (zero filled), then the copy -/
def arrayAppendX (s : State) (h : Nat) (bytes : List Byte) : Out Nat := arrayAppend s h bytes

/-- `array::operator=(slice const &)` for the slice `[off, off+len)` of handle `src` (the slice object holds
    its own reference while the assignment runs) -/
def arraySetSlice (s : State) (h src off len : Nat) : Out Nat :=
  let data : List Byte := match (s.handle src).bind s.buf? with
    | some x => if x.traits.isSome then [] else x.content
    | none => []
  if off + len > data.length then .fail s .null
  else
    -- slice(src): one more reference on the buffer of `src`
    match s.handle src with
    | none => arraySetX s h ((data.drop off).take len)
    | some a =>
      match addref s a with
      | .ok s1 _ =>
        (match arraySetX s1 h ((data.drop off).take len) with
         | .ok s2 v =>
           (match unref s2 a with
            | .ok s3 _ => .ok s3 v
            | .fail s3 e => .fail s3 e
            | .fault w => .fault w)
         | .fail s2 e =>
           (match unref s2 a with
            | .ok s3 _ => .fail s3 e
            | .fail s3 e' => .fail s3 e'
            | .fault w => .fault w)
         | .fault w => .fault w)
      | .fail s1 e => .fail s1 e
      | .fault w => .fault w

/-! ### buffer methods of mpt++/array.cpp -/

/-- `buffer::trim(len)`: drop the last `len` bytes, finalising the dropped elements -/
def bufTrim (s : State) (b len : Nat) : Out Unit :=
  match s.buf? b with
  | none => .fault "trim: freed buffer"
  | some x =>
    if x.used < len then .fail s .null
    else
      let keep := x.used - len
      match x.traits with
      | none => .ok (s.setBuf b { x with used := keep }) ()
      | some t =>
        if t.size = 0 ∨ x.used % t.size ≠ 0 ∨ keep % t.size ≠ 0 then .fail s .null
        else
          let r := if t.fini.isSome then finiLoop (iters keep x.used t.size) s b keep t.size else .ok s ()
          match r with
          | .ok s1 _ =>
            (match s1.buf? b with
             | none => .fault "trim: freed buffer"
             | some y => .ok (s1.setBuf b { y with used := keep }) ())
          | .fail s1 e => .fail s1 e
          | .fault w => .fault w

/-- `buffer::skip(len)`: drop the first `len` bytes, finalising the dropped elements -/
def bufSkip (s : State) (b len : Nat) : Out Unit :=
  match s.buf? b with
  | none => .fault "skip: freed buffer"
  | some x =>
    if x.used < len then .fail s .null
    else
      let post := x.used - len
      let bad : Bool := match x.traits with
        | some t => t.size = 0 ∨ len % t.size ≠ 0
        | none => false
      if bad then .fail s .null
      else
        let r : Out Unit := match x.traits with
          | some t => if t.fini.isSome then finiLoop (iters 0 len t.size) s b 0 t.size else .ok s ()
          | none => .ok s ()
        match r with
        | .ok s1 _ =>
          (match s1.buf? b with
           | none => .fault "skip: freed buffer"
           | some y => .ok (s1.setBuf b { y with data := Mem.move y.data 0 len post, used := post }) ())
        | .fail s1 e => .fail s1 e
        | .fault w => .fault w

/-- `content<T>::set_length(len)` (elements) -/
def contentSetLength (s : State) (b n sz : Nat) : Out Unit :=
  match s.buf? b with
  | none => .fault "set_length: freed buffer"
  | some x =>
    if n * sz = x.used then .ok s ()
    else if n * sz < x.used then bufTrim s b (x.used - n * sz)
    else
      match bufferInsert s b (n * sz) 0 with
      | .ok s1 _ => .ok s1 ()
      | .fail s1 e => .fail s1 e
      | .fault w => .fault w

/-! ### unique_array<T> / typed_array<T> -/

/-- `default_data::detach(len)`: the first buffer of an empty typed array -/
def xCreate (s : State) (h : Nat) (k : XKind) (len : Nat) : State :=
  (s.newBuf (len - len % k.t.size) (if k.unique then 2 else 0) (some k.t)).setHandle h (some s.bufs.length)

/-- `unique_array::reserve(len)`: a private buffer for at least `len` elements -/
def uReserve (s : State) (h : Nat) (k : XKind) (len : Nat) : Out Unit :=
  match s.handle h with
  | none => .ok (xCreate s h k (len * k.t.size)) ()
  | some b =>
    match ensure s h b true (len * k.t.size) with
    | .ok s1 _ => .ok s1 ()
    | .fail s1 e => .fail s1 e
    | .fault w => .fault w

/-- `unique_array::detach()` -/
def uDetach (s : State) (h : Nat) (k : XKind) : Out Unit :=
  match s.handle h with
  | none => .ok (xCreate s h k 0) ()
  | some b =>
    match s.buf? b with
    | none => .fault "detach: freed buffer"
    | some x =>
      match ensure s h b true (x.used / k.t.size * k.t.size) with
      | .ok s1 _ => .ok s1 ()
      | .fail s1 e => .fail s1 e
      | .fault w => .fault w

def xLength (s : State) (h : Nat) (k : XKind) : Nat :=
  match (s.handle h).bind s.buf? with
  | some x => x.used / k.t.size
  | none => 0

/-- `unique_array::resize(len)` -/
def uResize (s : State) (h : Nat) (k : XKind) (len : Nat) : Out Unit :=
  match uReserve s h k len with
  | .ok s1 _ =>
    (match s1.handle h with
     | none => .ok s1 ()
     | some b => contentSetLength s1 b len k.t.size)
  | .fail s1 e => .fail s1 e
  | .fault w => .fault w

/-- position arithmetic of `insert`: `none` = refused; otherwise (position, elements to reserve) -/
def insertPos (len : Nat) (pos : Int) : Option (Nat × Nat) :=
  if pos < 0 then
    (if pos + Int.ofNat len < 0 then none else some ((pos + Int.ofNat len).toNat, len + 1))
  else some (pos.toNat, max len pos.toNat + 1)

/-- the element constructed into the inserted slot: `val` = bytes of a value (typed_array::insert(pos, val),
    plain element types), `none` = default construction; with callbacks the constructor runs -/
def placeElem (s : State) (h nb p : Nat) (k : XKind) (val : Option (List Byte)) (copySrc : Option Nat) : Out Unit :=
  if k.t.init ∧ k.t.fini.isSome then
    -- placement new by the caller: never refused
    match initAt { s with oracle := [] } nb p k.t.size copySrc with
    | .ok s1 _ => .ok { s1 with oracle := s.oracle } ()
    | .fail s1 e => .fail s1 e
    | .fault w => .fault w
  else poke s h p (val.getD (zeros k.t.size))

/-- `unique_array::insert(pos)` (default constructed) / `typed_array::insert(pos, val)` -/
def uInsert (s : State) (h : Nat) (k : XKind) (pos : Int) (val : Option (List Byte)) (copySrc : Option Nat) : Out Unit :=
  match insertPos (xLength s h k) pos with
  | none => .fail s .null
  | some (p, need) =>
    match uReserve s h k need with
    | .ok s1 _ =>
      (match s1.handle h with
       | none => .fault "insert: no buffer"
       | some nb =>
         match bufferInsert s1 nb (p * k.t.size) k.t.size with
         | .ok s2 off => placeElem s2 h nb off k val copySrc
         | .fail s2 e => .fail s2 e
         | .fault w => .fault w)
    | .fail s1 e => .fail s1 e
    | .fault w => .fault w

/-- `Elem val; typed_array<Elem>::insert(pos, val)` as the harness performs it: a temporary source element is
    constructed by the caller, copied into the inserted slot and destroyed afterwards -/
def uInsertE (s : State) (h : Nat) (k : XKind) (pos : Int) : Out Unit :=
  match uInsert (sourcesInit s 1) h k pos none (some s.next) with
  | .ok s' u => .ok (sourcesFini s' s.next 1) u
  | .fail s' e => .fail (sourcesFini s' s.next 1) e
  | .fault w => .fault w

/-- `unique_array::set(pos, v)` for plain element types: `detach(); begin()[pos] = v` -/
def uSet (s : State) (h : Nat) (k : XKind) (pos : Int) (val : List Byte) : Out Unit :=
  let len := xLength s h k
  let p : Option Nat :=
    if pos < 0 then (if pos + Int.ofNat len < 0 then none else some (pos + Int.ofNat len).toNat)
    else if pos ≥ Int.ofNat len then none else some pos.toNat
  match p with
  | none => .fail s .null
  | some p =>
    match uDetach s h k with
    | .ok s1 _ => poke s1 h (p * k.t.size) val
    | .fail s1 e => .fail s1 e
    | .fault w => .fault w

/-- `detach()`, then `buffer::trim(n * sizeof(T))` on the private buffer (harness composition) -/
def xTrim (s : State) (h : Nat) (k : XKind) (n : Nat) : Out Unit :=
  match uDetach s h k with
  | .ok s1 _ =>
    (match s1.handle h with
     | none => .fail s1 .null
     | some b => bufTrim s1 b (n * k.t.size))
  | .fail s1 e => .fail s1 e
  | .fault w => .fault w

/-- `detach()`, then `buffer::skip(n * sizeof(T))` on the private buffer (harness composition) -/
def xSkip (s : State) (h : Nat) (k : XKind) (n : Nat) : Out Unit :=
  match uDetach s h k with
  | .ok s1 _ =>
    (match s1.handle h with
     | none => .fail s1 .null
     | some b => bufSkip s1 b (n * k.t.size))
  | .fail s1 e => .fail s1 e
  | .fault w => .fault w

/-! ### map<K, V> (linear search map over a typed_array of entries; here 1-byte keys and values) -/

/-- index of the first entry whose key is `key` -/
def mapFind (s : State) (h : Nat) (key : Byte) : Option Nat :=
  let v := s.abs h
  (List.range (v.length / 2)).find? fun i => v.getD (2 * i) 0 = key

/-- `map::get(key)` -/
def mapGet (s : State) (h : Nat) (key : Byte) : Option Byte :=
  (mapFind s h key).map fun i => (s.abs h).getD (2 * i + 1) 0

/-- `map::set(key, value)`: the value of an existing entry is replaced in a private copy of the entries, a new
    entry is appended -/
def mapSet (s : State) (h : Nat) (k : XKind) (key val : Byte) : Out Unit :=
  match mapFind s h key with
  | some i =>
    (match uDetach s h k with
     | .ok s1 _ => poke s1 h (2 * i + 1) [val]
     | .fail s1 e => .fail s1 e
     | .fault w => .fault w)
  | none => uInsert s h k (Int.ofNat (xLength s h k)) (some [key, val]) none

/-! ### pointer_array<T> (typed_array of pointers; 8-byte plain elements) -/

/-- the 8-byte elements of a byte list -/
def elems8 (v : List Byte) : List (List Byte) :=
  (List.range (v.length / 8)).map fun i => (v.drop (8 * i)).take 8

/-- `pointer_array::swap(p1, p2)`: on a private copy; positions outside the elements are refused -/
def swapX (s : State) (h : Nat) (k : XKind) (p1 p2 : Int) : Out Unit :=
  let len := xLength s h k
  if p1 < 0 ∨ p2 < 0 ∨ p1.toNat ≥ len ∨ p2.toNat ≥ len then .fail s .null
  else
    let v := s.abs h
    let a := (v.drop (8 * p1.toNat)).take 8
    let b := (v.drop (8 * p2.toNat)).take 8
    match uDetach s h k with
    | .ok s1 _ =>
      (match poke s1 h (8 * p1.toNat) b with
       | .ok s2 _ => poke s2 h (8 * p2.toNat) a
       | .fail s2 e => .fail s2 e
       | .fault w => .fault w)
    | .fail s1 e => .fail s1 e
    | .fault w => .fault w

/-- `pointer_array::compact()`: the non-null pointers move to the front in order and the length shrinks; a shared
    buffer is replaced by a new one with the compacted content; an immutable one is left alone -/
def compactX (s : State) (h : Nat) (k : XKind) : Out Unit :=
  match s.handle h with
  | none => .ok s ()
  | some b =>
    match s.buf? b with
    | none => .fault "compact: freed buffer"
    | some x =>
      if x.immutable then .ok s ()
      else
        let keep := (elems8 x.content).filter fun e => e ≠ zeros 8
        let data := keep.flatten
        if ¬ x.shared then
          .ok (setUsed s b x (Mem.write x.data 0 (data ++ zeros (x.used / 8 * 8 - data.length))) data.length) ()
        else
          let nb := s.bufs.length
          let s1 := s.newBuf data.length 0 (some k.t)
          match s1.buf? nb with
          | none => .fault "compact: freed buffer"
          | some z =>
            (replaceBuf (setUsed s1 nb z (Mem.write z.data 0 data) data.length) h (some nb) (s.handle h)).unit

end Mpt.Heap
