/-
  M: implementation model of mptcore/array/*.c  (copy-on-write buffers, C04 and C05).

  A state is a heap of reference-counted buffers (`bufferData` of buffer_alloc.c), a table of
  array handles (`struct array`, i.e. an optional buffer pointer) and, for slice handles, a window
  (`struct slice` = array + `_off`/`_len`).  Every function mirrors one C function branch by branch.
  Memory of a buffer is `data` (`_size` bytes after the header); bytes outside `[0,_used)` are
  indeterminate in C and are tracked exactly here (fresh allocations hold the poison byte the
  sanitised harness run fills them with), so uninitialised bytes that become visible are seen.

  Element traits (`struct type_traits`) are modelled by `Traits`; the init/fini *callbacks* are
  those of the harness (harness/drv_elem.c): `init` consults a failure schedule, takes the next
  token number and writes it into the element, `fini` logs the token it finds and scribbles over
  the element.  For traits without callbacks (C04: raw and plain-old-data buffers) none of that
  machinery is touched.

  Results are explicit: `ok`, `fail` (NULL / negative return; the state is the one the C code
  leaves behind, which the theorems then relate to the state before), `fault` (an index left
  the buffer memory or a freed buffer was used: memory-safety violation in the C code).
-/
import MptModel.Basic

namespace Mpt.Heap

/-- `struct type_traits`: identity (address), element size, presence of `init`, identity of `fini` -/
structure Traits where
  id : Nat
  size : Nat
  init : Bool
  fini : Option Nat
  deriving DecidableEq, Repr, Inhabited

/-- callback events (harness traits) -/
inductive Ev where
  | init (tok : Nat)          -- default construction created `tok`
  | copy (tok src : Nat)      -- copy construction created `tok` from the element holding `src`
  | fail                      -- constructor refused (schedule)
  | fini (tok : Nat)          -- destructor ran on memory holding `tok`
  deriving DecidableEq, Repr, Inhabited

/-- `struct bufferData` + `struct buffer` -/
structure Buf where
  ref : Nat
  flags : Nat                 -- user flags: bit 0 immutable, bit 1 no-copy
  traits : Option Traits
  used : Nat
  data : List Byte            -- `_size` bytes
  deriving DecidableEq, Repr, Inhabited

namespace Buf
@[reducible] def size (x : Buf) : Nat := x.data.length
def immutable (x : Buf) : Bool := x.flags % 2 = 1
def nocopy (x : Buf) : Bool := x.flags / 2 % 2 = 1
/-- the elements can not be duplicated: the buffer says so (`BufferNoCopy`), or the element type has a destructor but
    no copy constructor -/
def uncopyable (x : Buf) : Bool :=
  x.nocopy || (match x.traits with
    | some t => t.fini.isSome && !t.init
    | none => false)
def shared (x : Buf) : Bool := 2 ≤ x.ref
/-- what a handle reads: `_used` bytes from the start of the data -/
def content (x : Buf) : List Byte := x.data.take x.used
end Buf

/-- `struct slice` window on top of an array handle -/
structure Win where
  off : Nat
  len : Nat
  deriving DecidableEq, Repr, Inhabited

structure State where
  bufs : List (Option Buf) := []      -- index = buffer identity, `none` = freed
  hs : List (Option Nat) := []        -- handle table: `arr->_buf`
  wins : List (Option Win) := []      -- slice windows (`none` = plain array handle)
  next : Nat := 1                     -- next element token
  oracle : List Bool := []            -- constructor failure schedule (`true` = this call fails)
  log : List Ev := []
  deriving Repr, Inhabited

inductive Fail where
  | null                      -- NULL return
  | err (e : Err)             -- negative return
  deriving DecidableEq, Repr, Inhabited

inductive Out (α : Type) where
  | ok (s : State) (v : α)
  | fail (s : State) (e : Fail)
  | fault (why : String)
  deriving Repr

def poison : Byte := 0xbe
def zeros (n : Nat) : List Byte := List.replicate n 0

/-- `_mpt_buffer_alloc`: header of 64 bytes, total rounded up to the 128-byte granule -/
def allocSize (len : Nat) : Nat := ((len + 63) / 128 + 1) * 128 - 64

/-- element size of a buffer's content traits (raw data: bytes) -/
def esize : Option Traits → Nat
  | some t => t.size
  | none => 1

/-- round `len` up to a multiple of `sz` (`sz ≠ 0`) -/
def roundUp (len sz : Nat) : Nat := if len % sz = 0 then len else len + (sz - len % sz)

namespace State

def buf? (s : State) (b : Nat) : Option Buf :=
  match s.bufs[b]? with
  | some (some x) => some x
  | _ => none

def setBuf (s : State) (b : Nat) (x : Buf) : State := { s with bufs := s.bufs.set b (some x) }
def freeBuf (s : State) (b : Nat) : State := { s with bufs := s.bufs.set b none }

/-- `_mpt_buffer_alloc(len, flags)`; the new buffer has identity `s.bufs.length` -/
def newBuf (s : State) (len flags : Nat) (traits : Option Traits := none) : State :=
  { s with bufs := s.bufs ++ [some { ref := 1, flags := flags % 256, traits := traits, used := 0,
                                     data := List.replicate (allocSize len) poison }] }

def handle (s : State) (h : Nat) : Option Nat :=
  match s.hs[h]? with
  | some (some b) => some b
  | _ => none

def setHandle (s : State) (h : Nat) (v : Option Nat) : State := { s with hs := s.hs.set h v }

def win (s : State) (h : Nat) : Option Win :=
  match s.wins[h]? with
  | some (some w) => some w
  | _ => none

def setWin (s : State) (h : Nat) (w : Option Win) : State := { s with wins := s.wins.set h w }

/-- content read through handle `h` (the observation of C04) -/
def abs (s : State) (h : Nat) : List Byte :=
  match s.handle h with
  | some b => match s.buf? b with
    | some x => x.content
    | none => []
  | none => []

end State

/-! ### harness element callbacks -/

def le32 (n : Nat) : List Byte :=
  [UInt8.ofNat (n % 256), UInt8.ofNat (n / 256 % 256), UInt8.ofNat (n / 65536 % 256), UInt8.ofNat (n / 16777216 % 256)]

def rdTok (d : List Byte) (pos : Nat) : Nat :=
  (d.getD pos 0).toNat + 256 * (d.getD (pos + 1) 0).toNat + 65536 * (d.getD (pos + 2) 0).toNat
    + 16777216 * (d.getD (pos + 3) 0).toNat

/-- a constructed element: token, then filler -/
def elemBytes (tok sz : Nat) : List Byte := (le32 tok ++ List.replicate (sz - 4) 0xa5).take sz

/-- the event of a successful construction of `tok`: copy of the element holding `src`, or default -/
def ctorEv (tok : Nat) : Option Nat → Ev
  | some k => Ev.copy tok k
  | none => Ev.init tok

/-- `init(ptr, src)` on the element at `pos` of buffer `b`; `src` = token in the source element.
    Result: did construction succeed -/
def initAt (s : State) (b pos sz : Nat) (src : Option Nat) : Out Bool :=
  match s.buf? b with
  | none => .fault "init: freed buffer"
  | some x =>
    if pos + sz > x.size then .fault "init: outside the buffer" else
    match s.oracle with
    | true :: rest => .ok { s with oracle := rest, log := s.log ++ [Ev.fail] } false
    | o =>
      .ok ({ s with oracle := o.tail, next := s.next + 1, log := s.log ++ [ctorEv s.next src] }.setBuf b
            { x with data := Mem.write x.data pos (elemBytes s.next sz) }) true

/-- `fini(ptr)` -/
def finiAt (s : State) (b pos sz : Nat) : Out Unit :=
  match s.buf? b with
  | none => .fault "fini: freed buffer"
  | some x =>
    if pos + sz > x.size then .fault "fini: outside the buffer" else
    .ok ({ s with log := s.log ++ [Ev.fini (rdTok x.data pos)] }.setBuf b
          { x with data := Mem.write x.data pos (List.replicate sz 0xdd) }) ()

/-- `for (n times) { fini(ptr + pos); pos += sz; }` -/
def finiLoop : Nat → State → Nat → Nat → Nat → Out Unit
  | 0, s, _, _, _ => .ok s ()
  | n + 1, s, b, pos, sz =>
    match finiAt s b pos sz with
    | .ok s1 _ => finiLoop n s1 b (pos + sz) sz
    | .fail s1 e => .fail s1 e
    | .fault w => .fault w

/-- number of iterations of `for (p = a; p < stop; p += sz)` -/
def iters (a stop sz : Nat) : Nat := (stop - a + sz - 1) / sz

/-- `for (n times) { if (init(ptr + pos, 0) < 0) { _used = pos; return 0; } pos += sz; }` (array_slice.c) -/
def initLoopStop : Nat → State → Nat → Nat → Nat → Out Unit
  | 0, s, _, _, _ => .ok s ()
  | n + 1, s, b, pos, sz =>
    match initAt s b pos sz none with
    | .ok s1 true => initLoopStop n s1 b (pos + sz) sz
    | .ok s1 false =>
      (match s1.buf? b with
       | none => .fault "slice: freed buffer"
       | some y => .fail (s1.setBuf b { y with used := pos }) .null)
    | .fail s1 e => .fail s1 e
    | .fault w => .fault w

/-- `while (n times) { if (init(ptr + pos, 0) < 0) break; pos += sz; }`: position where it stopped -/
def initLoopBreak : Nat → State → Nat → Nat → Nat → Out Nat
  | 0, s, _, pos, _ => .ok s pos
  | n + 1, s, b, pos, sz =>
    match initAt s b pos sz none with
    | .ok s1 true => initLoopBreak n s1 b (pos + sz) sz
    | .ok s1 false => .ok s1 pos
    | .fail s1 e => .fail s1 e
    | .fault w => .fault w

/-! ### buffer level (buffer_insert.c, buffer_cut.c, buffer_set.c) -/

def setUsed (s : State) (b : Nat) (x : Buf) (d : List Byte) (used : Nat) : State :=
  s.setBuf b { x with data := d, used := used }

/-- `mpt_buffer_insert(buf, pos, len)`: offset of the (uninitialised) inserted region -/
def bufferInsert (s : State) (b pos len : Nat) : Out Nat :=
  match s.buf? b with
  | none => .fault "buffer_insert: freed buffer"
  | some x =>
    let used := x.used
    -- `pos < used ? (used + len, used - pos) : (pos + len, 0)`
    let total := max used pos + len
    let keep := used - pos
    if total = 0 then .ok s 0
    else if total > x.size then .fail s .null
    else if x.immutable then .fail s .null
    else
      let d1 := if keep ≠ 0 then Mem.move x.data (pos + len) pos keep else x.data
      match x.traits with
      | none =>
        let d2 := if pos > used then Mem.write d1 used (zeros (pos - used)) else d1
        .ok (setUsed s b x d2 total) pos
      | some t =>
        if t.size = 0 ∨ used % t.size ≠ 0 ∨ pos % t.size ≠ 0 ∨ len % t.size ≠ 0 then .fail s .null
        else if t.init then
          match initLoopBreak (iters used pos t.size) (setUsed s b x d1 total) b used t.size with
          | .ok s1 stop =>
            match s1.buf? b with
            | none => .fault "buffer_insert: freed buffer"
            | some y =>
              -- a refused constructor: keep the elements built so far, fail
              if pos > stop then .fail (s1.setBuf b { y with used := stop }) .null else .ok s1 pos
          | .fail s1 e => .fail s1 e
          | .fault w => .fault w
        else
          let d2 := if pos > used then Mem.write d1 used (zeros (pos - used)) else d1
          .ok (setUsed s b x d2 total) pos

/-- `mpt_buffer_cut(buf, off, len)`; `len = 0` keeps the data up to `off` -/
def bufferCut (s : State) (b off len : Nat) : Out Nat :=
  match s.buf? b with
  | none => .fault "buffer_cut: freed buffer"
  | some x =>
    if len > x.used then .fail s (.err .BadArgument)
    else if len = 0 ∧ off > x.used then .fail s (.err .MissingData)
    else
      let len := if len = 0 then x.used - off else len
      if x.used - len < off then .fail s (.err .MissingData)
      else
        let keep := x.used - len - off
        match x.traits with
        | none =>
          let d := if keep ≠ 0 then Mem.move x.data off (off + len) keep else x.data
          .ok (setUsed s b x d (off + keep)) (off + keep)
        | some t =>
          if t.size = 0 ∨ off % t.size ≠ 0 ∨ len % t.size ≠ 0 then .fail s (.err .BadArgument)
          else
            let r := if t.fini.isSome then finiLoop (iters 0 len t.size) s b off t.size else .ok s ()
            match r with
            | .ok s1 _ =>
              match s1.buf? b with
              | none => .fault "buffer_cut: freed buffer"
              | some y =>
                let d := if keep ≠ 0 then Mem.move y.data off (off + len) keep else y.data
                .ok (setUsed s1 b y d (off + keep)) (off + keep)
            | .fail s1 e => .fail s1 e
            | .fault w => .fault w

/-- copy-construction loop of `mpt_buffer_set` (`init != 0`): elements `[pos, stop)` from `bytes`
    (relative to `base`); on a fatal constructor failure `_used = pos` and the live tail `[stop, used)` is
    finalised; on completion `_used = max used stop`.  Result: number of copy-constructed elements -/
def setInitLoop : Nat → State → Nat → Nat → Nat → Nat → Nat → List Byte → Bool → Nat → Bool → Nat → Out Int
  | 0, s, b, _, stop, used, _, _, _, _, _, count =>
    match s.buf? b with
    | none => .fault "buffer_set: freed buffer"
    | some y => .ok (s.setBuf b { y with used := max used stop }) (Int.ofNat count)
  | n + 1, s, b, pos, stop, used, base, bytes, hasSrc, sz, hasFini, count =>
    let try1 : Out Bool := if hasSrc then initAt s b pos sz (some (rdTok bytes (pos - base))) else .ok s false
    match try1 with
    | .ok s1 true => setInitLoop n s1 b (pos + sz) stop used base bytes hasSrc sz hasFini (count + 1)
    | .ok s1 false =>
      match initAt s1 b pos sz none with
      | .ok s2 true => setInitLoop n s2 b (pos + sz) stop used base bytes hasSrc sz hasFini count
      | .ok s2 false =>
        match s2.buf? b with
        | none => .fault "buffer_set: freed buffer"
        | some y =>
          let s3 := s2.setBuf b { y with used := pos }
          if hasFini then
            match finiLoop (iters stop used sz) s3 b stop sz with
            | .ok s4 _ => .ok s4 (Int.ofNat count)
            | .fail s4 e => .fail s4 e
            | .fault w => .fault w
          else .ok s3 (Int.ofNat count)
      | .fail s2 e => .fail s2 e
      | .fault w => .fault w
    | .fail s1 e => .fail s1 e
    | .fault w => .fault w

/-- tokens of the `n` elements from byte position `pos` on (the replaced elements `mpt_buffer_set` saves aside) -/
def savedToks (d : List Byte) (pos sz n : Nat) : List Nat := (List.range n).map fun i => rdTok d (pos + i * sz)

/-- default-construct the gap `[used, pos)` of `mpt_buffer_set`; a failure sets `_used` and is fatal -/
def setGapLoop : Nat → State → Nat → Nat → Nat → Out Unit
  | 0, s, _, _, _ => .ok s ()
  | n + 1, s, b, off, sz =>
    match initAt s b off sz none with
    | .ok s1 true => setGapLoop n s1 b (off + sz) sz
    | .ok s1 false =>
      match s1.buf? b with
      | none => .fault "buffer_set: freed buffer"
      | some y => .fail (s1.setBuf b { y with used := off }) (.err .BadOperation)
    | .fail s1 e => .fail s1 e
    | .fault w => .fault w

/-- typed part of `mpt_buffer_set` -/
def bufferSetTyped (s : State) (b : Nat) (x : Buf) (t : Traits) (src : Option Traits) (pos : Nat)
    (bytes : List Byte) (hasSrc : Bool) : Out Int :=
  let len := bytes.length
  let stop := pos + len
  match src with
  | none => .fail s (.err .BadType)
  | some st =>
    let esz := st.size
    if esz = 0 ∨ pos % esz ≠ 0 ∨ len % esz ≠ 0 then .fail s (.err .BadArgument)
    else if t ≠ st ∧ (t.fini.isNone ∨ t.fini ≠ st.fini ∨ t.size ≠ esz) then .fail s (.err .BadType)
    else
      let used := x.used - x.used % esz
      if t.fini.isNone ∧ st.init = false then
        -- plain data
        let d1 := if used < pos then Mem.write x.data used (zeros (pos - used)) else x.data
        .ok (setUsed s b x (Mem.write d1 pos bytes) (max used stop)) (Int.ofNat (len / esz))
      else if st.init then
        -- the elements that are replaced stay alive (saved aside) until their replacements are constructed:
        -- a new element may refer to the same entity as the one it replaces
        let olds := if t.fini.isSome then savedToks x.data pos esz (iters pos (min used stop) esz) else []
        match setGapLoop (iters used pos esz) s b used esz with
        | .ok s2 _ =>
          (match setInitLoop (iters pos stop esz) s2 b pos stop used pos bytes hasSrc esz t.fini.isSome 0 with
           | .ok s3 c => .ok { s3 with log := s3.log ++ olds.map Ev.fini } c
           | .fail s3 e => .fail s3 e
           | .fault w => .fault w)
        | .fail s2 e => .fail s2 e
        | .fault w => .fault w
      else
        -- ownership is transferred by raw copy: the elements that are overwritten are finalised first
        let r1 := if t.fini.isSome then finiLoop (iters pos (min used stop) esz) s b pos esz else .ok s ()
        match r1 with
        | .ok s1 _ =>
          (match s1.buf? b with
           | none => .fault "buffer_set: freed buffer"
           | some y =>
             let d1 := if used < pos then Mem.write y.data used (zeros (pos - used)) else y.data
             .ok (setUsed s1 b y (Mem.write d1 pos bytes) (max used stop)) (Int.ofNat (len / esz)))
        | .fail s1 e => .fail s1 e
        | .fault w => .fault w

/-- `mpt_buffer_set(buf, src_traits, pos, src_data, len)`; `bytes` = the `len` source bytes (zeros when
    `src_data == NULL`, then `hasSrc = false`) -/
def bufferSet (s : State) (b : Nat) (src : Option Traits) (pos : Nat) (bytes : List Byte) (hasSrc : Bool) : Out Int :=
  match s.buf? b with
  | none => .fault "buffer_set: freed buffer"
  | some x =>
    if pos + bytes.length > x.size then .fail s (.err .MissingBuffer)
    else
      match x.traits with
      | none =>
        if src.isSome then .fail s (.err .BadArgument)
        else
          let d1 := if x.used < pos then Mem.write x.data x.used (zeros (pos - x.used)) else x.data
          .ok (setUsed s b x (Mem.write d1 pos bytes) (max x.used (pos + bytes.length))) 0
      | some t => bufferSetTyped s b x t src pos bytes hasSrc

/-! ### reference counting and detach (buffer_alloc.c) -/

/-- `_mpt_buffer_alloc_unref` -/
def unref (s : State) (b : Nat) : Out Unit :=
  match s.buf? b with
  | none => .fault "unref: freed buffer"
  | some x =>
    if x.ref = 0 then .ok s ()
    else if x.ref ≠ 1 then .ok (s.setBuf b { x with ref := x.ref - 1 }) ()
    else
      let s0 := s.setBuf b { x with ref := 0 }
      let r := match x.traits with
        | some t => if t.size ≠ 0 ∧ t.fini.isSome then finiLoop ((x.used - x.used % t.size) / t.size) s0 b 0 t.size else .ok s0 ()
        | none => .ok s0 ()
      match r with
      | .ok s1 _ => .ok (s1.freeBuf b) ()
      | .fail s1 e => .fail s1 e
      | .fault w => .fault w

/-- `_mpt_buffer_alloc_ref`: 0 = failure -/
def addref (s : State) (b : Nat) : Out Nat :=
  match s.buf? b with
  | none => .fault "addref: freed buffer"
  | some x => if x.ref = 0 then .ok s 0 else .ok (s.setBuf b { x with ref := x.ref + 1 }) (x.ref + 1)

/-- shared source: element-wise copy into the new buffer `nb` -/
def detachCopy (s : State) (b : Nat) (x : Buf) (nb : Nat) : Out Nat :=
  let s2 := s.setBuf b { x with ref := x.ref - 1 }
  match bufferSet s2 nb x.traits 0 x.content true with
  | .ok s3 _ => .ok s3 nb
  | .fail s3 _ =>
    match unref s3 nb with
    | .ok s4 _ =>
      match s4.buf? b with
      | none => .fault "detach: freed buffer"
      | some y => .fail (s4.setBuf b { y with ref := y.ref + 1 }) .null
    | .fail s4 e => .fail s4 e
    | .fault w => .fault w
  | .fault w => .fault w

/-- finalise the elements of `x` (buffer `b`) that do not fit into `len` bytes -/
def finiTail (s : State) (b : Nat) (x : Buf) (len : Nat) : Out Unit :=
  if x.used > len then
    match x.traits with
    | some t =>
      if t.fini.isSome then finiLoop (iters len (x.used - x.used % t.size) t.size) s b len t.size
      else .ok s ()
    | none => .ok s ()
  else .ok s ()

/-- unique source: move the data, finalise what does not fit -/
def detachMove (s : State) (b : Nat) (x : Buf) (nb len : Nat) : Out Nat :=
  match finiTail (s.setBuf b { x with ref := 0 }) b x len with
  | .ok s3 _ =>
    let add := min x.used len
    match s3.buf? b, s3.buf? nb with
    | some y, some z =>
      if add > z.size then .fault "detach: copy beyond the new buffer"
      else .ok ((s3.setBuf nb { z with data := Mem.write z.data 0 (y.data.take add), used := add }).freeBuf b) nb
    | _, _ => .fault "detach: freed buffer"
  | .fail s3 e => .fail s3 e
  | .fault w => .fault w

/-- `_mpt_buffer_alloc_detach(buf, len)`: identity of a private, mutable buffer of at least `len` bytes -/
def detach (s : State) (b len : Nat) : Out Nat :=
  match s.buf? b with
  | none => .fault "detach: freed buffer"
  | some x =>
    if esize x.traits = 0 then .fail s .null
    else
      let len := roundUp len (esize x.traits)
      if x.ref < 2 ∧ len ≤ x.size ∧ ¬ x.immutable then .ok s b
      else if 2 ≤ x.ref ∧ x.uncopyable ∧ x.used ≠ 0 then .fail s .null
      else
        let nb := s.bufs.length
        let s1 := s.newBuf len (x.flags - x.flags % 2) x.traits
        if 2 ≤ x.ref then detachCopy s1 b x nb else detachMove s1 b x nb len

/-- `if (need) { b = b->detach(b, n); arr->_buf = b; }`: the buffer to continue with -/
def ensure (s : State) (h b : Nat) (need : Bool) (n : Nat) : Out Nat :=
  if need then
    match detach s b n with
    | .ok s1 nb => .ok (s1.setHandle h (some nb)) nb
    | .fail s1 e => .fail s1 e
    | .fault w => .fault w
  else .ok s b

/-! ### array level -/

/-- content types of the two buffers differ (`mpt_array_clone`: BadType) -/
def cloneMismatch (s : State) (set buf : Option Nat) : Bool :=
  match set, buf with
  | some a, some b =>
    (match s.buf? a, s.buf? b with
     | some x, some y => x.traits ≠ y.traits
     | _, _ => false)
  | _, _ => false

/-- `arr->_buf = set; if (buf) buf->unref();` with the return code of `mpt_array_clone` -/
def replaceBuf (s : State) (dst : Nat) (set buf : Option Nat) : Out Int :=
  match buf with
  | none => .ok (s.setHandle dst set) (if set.isSome then 1 else 0)
  | some b =>
    match unref (s.setHandle dst set) b with
    | .ok s3 _ => .ok s3 (if set.isSome then 3 else 2)
    | .fail s3 e => .fail s3 e
    | .fault w => .fault w

/-- `mpt_array_clone(&dst, from)`; `from = none` is the NULL pointer (drop) -/
def arrayClone (s : State) (dst : Nat) (src : Option Nat) : Out Int :=
  match src with
  | none => replaceBuf s dst none (s.handle dst)
  | some hsrc =>
    if s.handle hsrc = s.handle dst then .ok s 0
    else if cloneMismatch s (s.handle hsrc) (s.handle dst) then .fail s (.err .BadType)
    else
      match s.handle hsrc with
      | none => replaceBuf s dst none (s.handle dst)
      | some a =>
        match addref s a with
        | .ok s1 0 => .fail s1 (.err .BadOperation)
        | .ok s1 _ => replaceBuf s1 dst (some a) (s.handle dst)
        | .fail s1 e => .fail s1 e
        | .fault w => .fault w

/-- store into memory obtained from the library (`memcpy(ptr, data, n)` by the caller) -/
def poke (s : State) (h off : Nat) (bytes : List Byte) : Out Unit :=
  match s.handle h with
  | none => if bytes.isEmpty then .ok s () else .fault "poke: no buffer"
  | some b =>
    match s.buf? b with
    | none => .fault "poke: freed buffer"
    | some x =>
      if off + bytes.length > x.size then .fault "poke: outside the buffer"
      else .ok (s.setBuf b { x with data := Mem.write x.data off bytes }) ()

/-- the write of `mpt_array_append` into buffer `nb` at `used` -/
def appendAt (s : State) (nb used : Nat) (bytes : List Byte) : Out Nat :=
  if bytes.length = 0 then .ok s used
  else
    match s.buf? nb with
    | none => .fault "append: freed buffer"
    | some z =>
      if used + bytes.length > z.size then .fault "append: outside the buffer"
      else .ok (setUsed s nb z (Mem.write z.data used bytes) (used + bytes.length)) used

/-- `mpt_array_append(arr, len, base)`: offset of the appended data -/
def arrayAppend (s : State) (h : Nat) (bytes : List Byte) : Out Nat :=
  match s.handle h with
  | none => appendAt ((s.newBuf bytes.length 0).setHandle h (some s.bufs.length)) s.bufs.length 0 bytes
  | some b =>
    match s.buf? b with
    | none => .fault "append: freed buffer"
    | some x =>
      if x.traits.isSome then .fail s .null
      else
        match ensure s h b (bytes.length > x.size - x.used ∨ (bytes.length ≠ 0 ∧ (x.shared ∨ x.immutable))) (x.used + bytes.length) with
        | .ok s1 nb => appendAt s1 nb x.used bytes
        | .fail s1 _ => .fail s1 .null
        | .fault w => .fault w

/-- `mpt_array_insert(arr, pos, len)`: offset of the uninitialised inserted region -/
def arrayInsert (s : State) (h pos len : Nat) : Out Nat :=
  match s.handle h with
  | none =>
    let nb := s.bufs.length
    let s1 := (s.newBuf (len + pos) 0).setHandle h (some nb)
    match s1.buf? nb with
    | none => .fault "insert: freed buffer"
    | some z => .ok (setUsed s1 nb z (if pos ≠ 0 then Mem.write z.data 0 (zeros pos) else z.data) (len + pos)) pos
  | some b =>
    match s.buf? b with
    | none => .fault "insert: freed buffer"
    | some x =>
      match ensure s h b (¬ (max x.used pos + len ≤ x.size ∧ ¬ x.shared)) (max x.used pos + len) with
      | .ok s1 nb => bufferInsert s1 nb pos len
      | .fail s1 _ => .fail s1 .null
      | .fault w => .fault w

/-- `p = mpt_array_insert(arr, pos, len); memcpy(p, data, len)`: insertion as callers perform it -/
def insertOp (s : State) (h pos : Nat) (bytes : List Byte) : Out Nat :=
  match arrayInsert s h pos bytes.length with
  | .ok s1 p =>
    match poke s1 h p bytes with
    | .ok s2 _ => .ok s2 p
    | .fail s2 e => .fail s2 e
    | .fault w => .fault w
  | .fail s1 e => .fail s1 e
  | .fault w => .fault w

/-- `mpt_array_set(arr, traits, len, data, off)`; `off` counts elements, negative = from the end -/
def arraySet (s : State) (h : Nat) (traits : Option Traits) (bytes : List Byte) (hasSrc : Bool) (off : Int) : Out Nat :=
  match traits with
  | none => .fail s .null
  | some t =>
    let len := bytes.length
    if t.size = 0 ∨ len % t.size ≠ 0 then .fail s .null
    else
      let pos0 : Int := off * Int.ofNat t.size
      match s.handle h with
      | none =>
        if pos0 < 0 then .fail s .null
        else
          let pos := pos0.toNat
          let nb := s.bufs.length
          let s1 := (s.newBuf (pos + len) 0 (some t)).setHandle h (some nb)
          match bufferSet s1 nb (some t) pos bytes hasSrc with
          | .ok s2 _ => .ok s2 pos
          | .fail s2 _ => .fail s2 .null
          | .fault w => .fault w
      | some b =>
        match s.buf? b with
        | none => .fault "set: freed buffer"
        | some x =>
          if x.traits ≠ some t then .fail s .null
          else
            let pos1 : Int := if off < 0 then pos0 + Int.ofNat x.used else pos0
            if pos1 < 0 then .fail s .null
            else
              let pos := pos1.toNat
              let total := pos + len
              match ensure s h b (x.size < total ∨ x.immutable ∨ x.shared) (max total x.used) with
              | .ok s1 nb =>
                match bufferSet s1 nb (some t) pos bytes hasSrc with
                | .ok s2 _ => .ok s2 pos
                | .fail s2 _ => .fail s2 .null
                | .fault w => .fault w
              | .fail s1 _ => .fail s1 .null
              | .fault w => .fault w

/-- alignment test of `mpt_array_slice` for typed buffers -/
def sliceBad (x : Buf) (off len : Nat) : Bool :=
  match x.traits with
  | some t => t.size = 0 ∨ off % t.size ≠ 0 ∨ len % t.size ≠ 0 ∨ x.used % t.size ≠ 0
  | none => false

/-- new region of `mpt_array_slice`: default-construct (stop at the first failure) or zero -/
def sliceFill (s : State) (h nb : Nat) (t : Option Traits) (p missing : Nat) : Out Unit :=
  match t with
  | some t =>
    if t.init then initLoopStop (iters 0 missing t.size) s nb p t.size
    else poke s h p (zeros missing)
  | none => poke s h p (zeros missing)

/-- extension part of `mpt_array_slice` on the (private) buffer `nb` -/
def sliceGrow (s : State) (h nb : Nat) (t : Option Traits) (used missing off : Nat) : Out Nat :=
  match bufferInsert s nb used missing with
  | .ok s2 p =>
    match sliceFill s2 h nb t p missing with
    | .ok s3 _ => .ok s3 off
    | .fail s3 e => .fail s3 e
    | .fault w => .fault w
  | .fail s2 _ => .fail s2 .null
  | .fault w => .fault w

/-- `mpt_array_slice(arr, off, len)`: offset of the requested region, which exists afterwards -/
def arraySlice (s : State) (h off len : Nat) : Out Nat :=
  match s.handle h with
  | none =>
    let nb := s.bufs.length
    let s1 := (s.newBuf (off + len) 0).setHandle h (some nb)
    match s1.buf? nb with
    | none => .fault "slice: freed buffer"
    | some z => .ok (setUsed s1 nb z (if off + len ≠ 0 then Mem.write z.data 0 (zeros (off + len)) else z.data) (off + len)) off
  | some b =>
    match s.buf? b with
    | none => .fault "slice: freed buffer"
    | some x =>
      if sliceBad x off len then .fail s .null
      else
        match ensure s h b (off + len > x.size ∨ x.immutable ∨ x.shared) (max (off + len) x.used) with
        | .ok s1 nb =>
          if off + len > x.used then sliceGrow s1 h nb x.traits x.used (off + len - x.used) off
          else .ok s1 off
        | .fail s1 _ => .fail s1 .null
        | .fault w => .fault w

/-- `mpt_array_reduce(arr)`: the allocated size afterwards -/
def arrayReduce (s : State) (h : Nat) : Out Nat :=
  match s.handle h with
  | none => .ok s 0
  | some b =>
    match s.buf? b with
    | none => .fault "reduce: freed buffer"
    | some x =>
      match ensure s h b true x.used with
      | .ok s1 nb =>
        match s1.buf? nb with
        | none => .fault "reduce: freed buffer"
        | some z => .ok s1 z.size
      | .fail s1 _ => .ok s1 x.size
      | .fault w => .fault w

/-- copy step of the shared / immutable branch of `mpt_array_reserve`: compatible content is copied into the
    new buffer `nb`, cut to the reserved length -/
def reserveCopy (s : State) (nb : Nat) (x : Buf) (len : Nat) (traits : Option Traits) : Out Int :=
  if x.traits = traits ∧ ¬ x.uncopyable ∧ min (x.used - x.used % esize x.traits) len ≠ 0 then
    bufferSet s nb traits 0 (x.data.take (min (x.used - x.used % esize x.traits) len)) true
  else .ok s 0

/-- shared / immutable / empty branch of `mpt_array_reserve` -/
def reserveNew (s : State) (h : Nat) (buf : Option Nat) (len : Nat) (traits : Option Traits) : Out Nat :=
  match buf with
  | none => .ok ((s.newBuf len 0 traits).setHandle h (some s.bufs.length)) s.bufs.length
  | some b =>
    match s.buf? b with
    | none => .fault "reserve: freed buffer"
    | some x =>
      if esize x.traits = 0 then .fault "reserve: division by zero"
      else
        match reserveCopy (s.newBuf len 0 traits) s.bufs.length x len traits with
        | .ok s2 _ =>
          (match unref s2 b with
           | .ok s3 _ => .ok (s3.setHandle h (some s.bufs.length)) s.bufs.length
           | .fail s3 e => .fail s3 e
           | .fault w => .fault w)
        | .fail s2 _ =>
          (match unref s2 s.bufs.length with
           | .ok s3 _ => .fail s3 .null
           | .fail s3 e => .fail s3 e
           | .fault w => .fault w)
        | .fault w => .fault w

/-- finalise all elements of a private buffer whose type is replaced -/
def reserveFini (s : State) (b : Nat) (x : Buf) : Out Unit :=
  match x.traits with
  | some o =>
    if o.fini.isSome then
      if o.size = 0 then .fault "reserve: division by zero"
      else finiLoop ((x.used - x.used % o.size) / o.size) s b 0 o.size
    else .ok s ()
  | none => .ok s ()

/-- incompatible data of a private buffer is dropped by `mpt_array_reserve` (types are compatible when
    they share the finaliser and the element size) -/
def reserveClear (s : State) (b : Nat) (x : Buf) (traits : Option Traits) : Out Unit :=
  if x.traits ≠ traits ∧ (x.traits.isNone ∨ (x.traits.bind (·.fini)).isNone ∨ traits.isNone
      ∨ x.traits.bind (·.fini) ≠ traits.bind (·.fini) ∨ esize x.traits ≠ esize traits) then
    match reserveFini s b x with
    | .ok s1 _ =>
      (match s1.buf? b with
       | none => .fault "reserve: freed buffer"
       | some y => .ok (s1.setBuf b { y with used := 0 }) ())
    | .fail s1 e => .fail s1 e
    | .fault w => .fault w
  else .ok s ()

/-- private, mutable branch of `mpt_array_reserve` -/
def reserveKeep (s : State) (h b : Nat) (x : Buf) (len : Nat) (traits : Option Traits) : Out Nat :=
  match reserveClear s b x traits with
  | .ok s1 _ =>
    (match ensure s1 h b true len with
     | .ok s2 nb =>
       (match s2.buf? nb with
        | none => .fault "reserve: freed buffer"
        | some z => .ok (s2.setBuf nb { z with traits := traits }) nb)
     | .fail s2 _ => .fail s2 .null
     | .fault w => .fault w)
  | .fail s1 e => .fail s1 e
  | .fault w => .fault w

/-- size of the new buffer in the shared / immutable branch of `mpt_array_reserve`: content that is copied is kept
    completely -/
def reserveLen (x : Buf) (len : Nat) (traits : Option Traits) : Nat :=
  if x.traits = traits ∧ ¬ x.uncopyable then max len (x.used - x.used % esize x.traits) else len

/-- `mpt_array_reserve(arr, len, traits)`: identity of the buffer -/
def arrayReserve (s : State) (h len : Nat) (traits : Option Traits) : Out Nat :=
  if esize traits = 0 then .fail s .null
  else
    match s.handle h with
    | none => reserveNew s h none (roundUp len (esize traits)) traits
    | some b =>
      match s.buf? b with
      | none => .fault "reserve: freed buffer"
      | some x =>
        if x.shared ∨ x.immutable then
          -- content of the same type that can not be copied must not get lost: refused
          if x.traits = traits ∧ x.uncopyable ∧ x.used - x.used % esize x.traits ≠ 0 then .fail s .null
          else reserveNew s h (some b) (reserveLen x (roundUp len (esize traits)) traits) traits
        else reserveKeep s h b x (roundUp len (esize traits)) traits

/-- `vsnprintf(base, len, "%s", text)` into the buffer at `pos`: at most `len-1` characters and a NUL -/
def snprintfAt (s : State) (h pos len : Nat) (text : List Byte) : Out Unit :=
  if len = 0 then .ok s ()
  else poke s h pos (text.take (len - 1) ++ [0])

def setUsedH (s : State) (h used : Nat) : Out Unit :=
  match s.handle h with
  | none => .fault "printf: no buffer"
  | some b =>
    match s.buf? b with
    | none => .fault "printf: freed buffer"
    | some x => .ok (s.setBuf b { x with used := used }) ()

/-- `buf->_used = used + n; return n;` -/
def printfFinish (s : State) (h used n : Nat) : Out Nat :=
  match setUsedH s h (used + n) with
  | .ok s1 _ => .ok s1 n
  | .fail s1 e => .fail s1 e
  | .fault w => .fault w

/-- second attempt of `mpt_vprintf` after the text did not fit into `len` bytes -/
def printfRetry (s2 : State) (h used len : Nat) (text : List Byte) : Out Nat :=
  let n := text.length
  let len2 := (n / 64 + 1) * 64
  match arraySlice s2 h used (max len len2) with
  | .ok s3 _ =>
    match snprintfAt s3 h used (max len len2) text with
    | .ok s4 _ => if n = 0 then .fail s4 (.err .BadValue) else printfFinish s4 h used n
    | .fail s4 e => .fail s4 e
    | .fault w => .fault w
  | .fail s3 _ => .fail s3 (.err .BadOperation)
  | .fault w => .fault w

/-- `mpt_vprintf` after the buffer has been checked: slice `len` bytes behind `used`, print, adjust -/
def printfTail (s0 : State) (h used len : Nat) (text : List Byte) : Out Nat :=
  let n := text.length
  match arraySlice s0 h used len with
  | .ok s1 _ =>
    match snprintfAt s1 h used len text with
    | .ok s2 _ => if n = 0 ∨ n < len then printfFinish s2 h used n else printfRetry s2 h used len text
    | .fail s2 e => .fail s2 e
    | .fault w => .fault w
  | .fail s1 _ => .fail s1 (.err .BadOperation)
  | .fault w => .fault w

/-- `mpt_printf(arr, "%s", text)`; `ct` = the library's traits of `'c'`; `text` has no zero byte -/
def arrayPrintf (s : State) (h : Nat) (ct : Traits) (text : List Byte) : Out Nat :=
  match s.handle h with
  | none => printfTail ((s.newBuf 64 0 (some ct)).setHandle h (some s.bufs.length)) h 0 (allocSize 64) text
  | some b =>
    match s.buf? b with
    | none => .fault "printf: freed buffer"
    | some x =>
      if x.traits ≠ some ct then .fail s (.err .BadType)
      else printfTail s h x.used ((x.size - x.used + 63) / 64 * 64) text

/-- `mpt_array_string(arr)`: character data only; when the data holds no zero byte one is appended -/
def arrayString (s : State) (h : Nat) (ct : Traits) : Out Unit :=
  match s.handle h with
  | none => .fail s .null
  | some b =>
    match s.buf? b with
    | none => .fault "string: freed buffer"
    | some x =>
      if x.traits ≠ some ct then .fail s .null
      else if x.content.contains 0 then .ok s ()
      else
        match arraySlice s h x.used 1 with
        | .ok s1 _ => poke s1 h x.used [0]
        | .fail s1 e => .fail s1 e
        | .fault w => .fault w

/-! ### slices (slice_write.c) -/

/-- `_fast_append`: as many whole blocks as fit behind the window -/
def fastAppend (s : State) (h b : Nat) (w : Win) (nblk esz : Nat) (bytes : List Byte) : Out Nat :=
  match s.buf? b with
  | none => .fault "slice_write: freed buffer"
  | some x =>
    let pos := w.off + w.len
    let avail := x.size - pos
    let count := min nblk (avail / esz)
    let take := count * esz
    if pos + take > x.size then .fault "slice_write: outside the buffer"
    else
      .ok ((setUsed s b x (Mem.write x.data pos (bytes.take take)) (max x.used (pos + take))).setWin h
            (some { off := w.off, len := w.len + take })) count

/-- repair of an inconsistent window (`off + len` behind the used size) -/
def winRepair (w0 : Win) (used : Nat) : Win :=
  if w0.off + w0.len > used then
    (if w0.off ≥ used then { off := used, len := 0 } else { off := w0.off, len := used - w0.off })
  else w0

/-- the bytes of the window -/
def sliceKeep (bx : Option Buf) (w : Win) : List Byte :=
  match bx with
  | some x => (x.data.drop w.off).take w.len
  | none => []

/-- no room in place: a new buffer gets the window data and all blocks; the handle's old buffer (if any) loses
    its reference -/
def sliceSlow (s : State) (h : Nat) (w : Win) (bx : Option Buf) (nblk esz : Nat) (bytes : List Byte) : Out Nat :=
  let nb := s.bufs.length
  let s1 := s.newBuf (w.len + nblk * esz) 0
  match s1.buf? nb with
  | none => .fault "slice_write: freed buffer"
  | some z =>
    if (sliceKeep bx w).length ≠ w.len then .fault "slice_write: window outside the buffer"
    else
      match replaceBuf ((setUsed s1 nb z (Mem.write z.data 0 (sliceKeep bx w ++ bytes.take (nblk * esz))) (w.len + nblk * esz)).setWin h
          (some { off := 0, len := w.len + nblk * esz })) h (some nb) (s.handle h) with
      | .ok s3 _ => .ok s3 nblk
      | .fail s3 e => .fail s3 e
      | .fault w => .fault w

/-- the window data is moved to the front of the (private) buffer -/
def sliceFront (s : State) (h b : Nat) (x : Buf) (w : Win) : State :=
  (setUsed s b x (if w.len ≠ 0 then Mem.move x.data 0 w.off w.len else x.data) w.len).setWin h (some { off := 0, len := w.len })

/-- `mpt_slice_write(sl, nblk, from, size)` with `size ≠ 0`; `bytes` = `nblk * size` source bytes -/
def sliceWrite (s : State) (h nblk esz : Nat) (bytes : List Byte) : Out Nat :=
  let w0 : Win := (s.win h).getD { off := 0, len := 0 }
  match s.handle h with
  | none => sliceSlow (s.setWin h (some (winRepair w0 0))) h (winRepair w0 0) none nblk esz bytes
  | some b =>
    match s.buf? b with
    | none => .fault "slice_write: freed buffer"
    | some x =>
      if x.traits.isSome then .fail s (.err .BadType)
      else
        let w := winRepair w0 x.used
        let s := s.setWin h (some w)
        let avail := x.size - (w.off + w.len)
        if ¬ (x.immutable ∨ x.shared) then
          if nblk = 0 then .ok s 0
          else if avail ≥ esz then fastAppend s h b w nblk esz bytes
          else if w.off ≠ 0 ∧ avail + w.off ≥ esz then
            fastAppend (sliceFront s h b x w) h b { off := 0, len := w.len } nblk esz bytes
          else sliceSlow s h w (some x) nblk esz bytes
        else sliceSlow s h w (some x) nblk esz bytes

/-! ### compositions used by callers of the buffer-level interface (and by the harness) -/

/-- `b = b->detach(b, n); arr->_buf = b` -/
def detachOp (s : State) (h n : Nat) : Out Nat :=
  match s.handle h with
  | none => .fail s .null
  | some b => ensure s h b true n

/-- private copy of the current size, then `mpt_buffer_cut` -/
def cutOp (s : State) (h off len : Nat) : Out Nat :=
  match s.handle h with
  | none => .fail s .null
  | some b =>
    match s.buf? b with
    | none => .fault "cut: freed buffer"
    | some x =>
      match ensure s h b true x.used with
      | .ok s1 nb => bufferCut s1 nb off len
      | .fail s1 e => .fail s1 e
      | .fault w => .fault w

/-- `mpt_values_prepare(arr, len)` (mptplot/values): `len ≥ 0` appends `len` zeroed doubles, `len < 0` appends a copy
    of the last `-len` doubles (refused when there are fewer); `dt` = the library's traits of `'d'` -/
def valuesPrepare (s : State) (h : Nat) (dt : Traits) (len : Int) : Out Nat :=
  let add := len.natAbs * 8
  match s.handle h with
  | none =>
    if len < 0 then .fail s .null
    else
      let nb := s.bufs.length
      let s1 := (s.newBuf add 0 (some dt)).setHandle h (some nb)
      match s1.buf? nb with
      | none => .fault "values_prepare: freed buffer"
      | some z => .ok (setUsed s1 nb z (Mem.write z.data 0 (zeros add)) add) 0
  | some b =>
    match s.buf? b with
    | none => .fault "values_prepare: freed buffer"
    | some x =>
      if x.traits ≠ some dt then .fail s .null
      else if len < 0 ∧ x.used < add then .fail s .null
      else
        match ensure s h b true (x.used + add) with
        | .ok s1 nb =>
          (match s1.buf? nb with
           | none => .fault "values_prepare: freed buffer"
           | some z =>
             if x.used + add > z.size then .fault "values_prepare: outside the buffer"
             else
               let src := if len < 0 then (z.data.drop (x.used - add)).take add else zeros add
               .ok (setUsed s1 nb z (Mem.write z.data x.used src) (x.used + add)) x.used)
        | .fail s1 _ => .fail s1 .null
        | .fault w => .fault w

/-- private copy of the current size, then `mpt_buffer_insert` and the caller's copy -/
def binsertOp (s : State) (h pos : Nat) (bytes : List Byte) : Out Nat :=
  match s.handle h with
  | none => .fail s .null
  | some b =>
    match s.buf? b with
    | none => .fault "binsert: freed buffer"
    | some x =>
      match ensure s h b true x.used with
      | .ok s1 nb =>
        (match bufferInsert s1 nb pos bytes.length with
         | .ok s2 p =>
           (match poke s2 h p bytes with
            | .ok s3 _ => .ok s3 p
            | .fail s3 e => .fail s3 e
            | .fault w => .fault w)
         | .fail s2 e => .fail s2 e
         | .fault w => .fault w)
      | .fail s1 _ => .fail s1 .null
      | .fault w => .fault w

/-- private copy large enough, then `mpt_buffer_set` with the buffer's own traits -/
def bsetOp (s : State) (h pos : Nat) (bytes : List Byte) (hasSrc : Bool) : Out Int :=
  match s.handle h with
  | none => .fail s .null
  | some b =>
    match s.buf? b with
    | none => .fault "bset: freed buffer"
    | some x =>
      match ensure s h b true (max x.used (pos + bytes.length)) with
      | .ok s1 nb => bufferSet s1 nb x.traits pos bytes hasSrc
      | .fail s1 e => .fail s1 e
      | .fault w => .fault w

/-- as `bsetOp`, but `mpt_buffer_set` is handed the element type `src` instead of the buffer's own -/
def bsetAsOp (s : State) (h : Nat) (src : Option Traits) (pos : Nat) (bytes : List Byte) (hasSrc : Bool) : Out Int :=
  match s.handle h with
  | none => .fail s .null
  | some b =>
    match s.buf? b with
    | none => .fault "bset: freed buffer"
    | some x =>
      match ensure s h b true (max x.used (pos + bytes.length)) with
      | .ok s1 nb => bufferSet s1 nb src pos bytes hasSrc
      | .fail s1 e => .fail s1 e
      | .fault w => .fault w

/-- harness set-up: drop `h`, then `_mpt_buffer_alloc(max n len, flags)` filled with `bytes` by hand -/
def allocOp (s : State) (h n flags : Nat) (traits : Option Traits) (bytes : List Byte) : Out Unit :=
  match arrayClone s h none with
  | .ok s1 _ =>
    let nb := s1.bufs.length
    let s2 := (s1.newBuf (max n bytes.length) flags traits).setHandle h (some nb)
    match s2.buf? nb with
    | none => .fault "alloc: freed buffer"
    | some z => .ok (setUsed s2 nb z (Mem.write z.data 0 bytes) bytes.length) ()
  | .fail s1 e => .fail s1 e
  | .fault w => .fault w

/-! ### elements handled by the caller (C05 harness) -/

/-- `k` source elements constructed by the caller (never refused): their bytes -/
def sourcesBytes (first k sz : Nat) : List Byte :=
  (List.range k).flatMap fun i => elemBytes (first + i) sz

/-- the caller constructs `k` source elements: tokens `next ..`, logged -/
def sourcesInit (s : State) (k : Nat) : State :=
  { s with next := s.next + k, log := s.log ++ (List.range k).map fun i => Ev.init (s.next + i) }

/-- the caller destroys its `k` source elements again -/
def sourcesFini (s : State) (first k : Nat) : State :=
  { s with log := s.log ++ (List.range k).map fun i => Ev.fini (first + i) }

/-- harness set-up: drop `h`, then a new buffer (any flags) whose owner constructs `k` elements of type `t` in place -/
def allocOpE (s : State) (h n flags : Nat) (t : Traits) (k : Nat) : Out Unit :=
  match arrayClone s h none with
  | .ok s1 _ => allocOp (sourcesInit s1 k) h n flags (some t) (sourcesBytes s1.next k t.size)
  | .fail s1 e => .fail s1 e
  | .fault w => .fault w

/-- `mpt_array_set(arr, traits, k elements, data, off)` as callers perform it: with `withSrc` the caller
    constructs `k` source elements, passes them as data and destroys them afterwards; otherwise the data pointer is
    NULL (default construction) -/
def setOpE (s : State) (h : Nat) (t : Traits) (off : Int) (k : Nat) (withSrc : Bool) : Out Nat :=
  if withSrc then
    match arraySet (sourcesInit s k) h (some t) (sourcesBytes s.next k t.size) true off with
    | .ok s' v => .ok (sourcesFini s' s.next k) v
    | .fail s' e => .fail (sourcesFini s' s.next k) e
    | .fault w => .fault w
  else arraySet s h (some t) (zeros (k * t.size)) false off

/-- `mpt_buffer_set` on the private buffer with `k` source elements the caller constructs, passes and destroys again -/
def bsetSrcE (s : State) (h pos k : Nat) : Out Int :=
  match ((s.handle h).bind s.buf?).bind (·.traits) with
  | none => .fail s .null
  | some t =>
    match bsetOp (sourcesInit s k) h pos (sourcesBytes s.next k t.size) true with
    | .ok s' v => .ok (sourcesFini s' s.next k) v
    | .fail s' e => .fail (sourcesFini s' s.next k) e
    | .fault w => .fault w

/-- constructions done by the caller in library-provided memory (never refused) -/
def ctorLoop : Nat → State → Nat → Nat → Nat → Out Unit
  | 0, s, _, _, _ => .ok s ()
  | n + 1, s, b, pos, sz =>
    match initAt { s with oracle := [] } b pos sz none with
    | .ok s1 _ => ctorLoop n { s1 with oracle := s.oracle } b (pos + sz) sz
    | .fail s1 e => .fail s1 e
    | .fault w => .fault w

/-- `p = mpt_array_insert(arr, pos, len)` followed by what the caller does with the region: construct the
    elements when the buffer has a constructor or a destructor, copy the bytes otherwise -/
def insertOpE (s : State) (h pos : Nat) (bytes : List Byte) : Out Nat :=
  match arrayInsert s h pos bytes.length with
  | .ok s1 p =>
    let managed : Option Traits := ((s1.handle h).bind s1.buf?).bind fun x => x.traits.bind fun t =>
      if (t.init ∨ t.fini.isSome) ∧ t.size ≠ 0 then some t else none
    match managed with
    | some t =>
      (match s1.handle h with
       | none => .fault "insert: no buffer"
       | some nb =>
         match ctorLoop (bytes.length / t.size) s1 nb p t.size with
         | .ok s2 _ => .ok s2 p
         | .fail s2 e => .fail s2 e
         | .fault w => .fault w)
    | none =>
      match poke s1 h p bytes with
      | .ok s2 _ => .ok s2 p
      | .fail s2 e => .fail s2 e
      | .fault w => .fault w
  | .fail s1 e => .fail s1 e
  | .fault w => .fault w

end Mpt.Heap
