/-
  M: implementation model of mptcore/config/path_*.c (byte level, 8-bit `first`, separator and binary
  length mode), node_query.c / node_assign.c / meta_set.c and the assign/query/remove functions of
  config_global.c.

  The configuration tree is modelled on ordered trees (`CNode`): C14 ties the pointer operations used
  here (first match of `mpt_node_locate`, append by `mpt_gnode_add(first, 0, node)`, `unlink` + `destroy`
  of a sub-tree, `mpt_node_clear`) to exactly these list operations.
-/
import MptModel.Impl.Ring
namespace Mpt.Config
open Mpt

/-! ### paths -/

structure Path where
  base : List Byte := []     -- the text incl. its terminator, or the used part of the array buffer
  off : Nat := 0
  len : Nat := 0
  first : Nat := 0           -- uint8_t
  keepPost : Bool := false   -- MPT_PATHFLAG(KeepPost)
  hasArray : Bool := false   -- MPT_PATHFLAG(HasArray)
  binary : Bool := false     -- MPT_PATHFLAG(SepBinary)
  sep : Byte := 46
  assign : Byte := 0
  deriving Repr, Inhabited

/-- the scan loop of `mpt_path_set`: (plen, elem, first, assign seen) -/
def setScan (sep assign : Byte) : List Byte → Nat → Nat → Nat → Nat × Nat × Nat × Bool
  | [], plen, elem, first => (plen, elem, first, false)
  | c :: cs, plen, elem, first =>
    if c = assign ∨ c = 0 then (plen + 1, elem + 1, first, true)   -- assign character, or the terminator
    else if c = sep then setScan sep assign cs (plen + 1) (elem + 1) (if elem = 0 then plen else first)
    else setScan sep assign cs (plen + 1) elem first

/-- `mpt_path_set(path, val, -1)`: `text` is the C string without its terminator; returns the element count too -/
def pathSet (sep assign : Byte) (text : List Byte) : Path × Nat :=
  let r := setScan sep assign (text ++ [0]) 0 0 0
  ({ base := text ++ [0], off := 0, len := r.1 + (if r.2.2.2 then 0 else 1),
     first := if r.2.2.1 > 255 then 0 else r.2.2.1, sep := sep, assign := assign }, r.2.1)

/-- `mpt_path_set(path, val, n)` with an explicit length `n ≤ strlen(val)`: only the first `n` characters are
    scanned, the byte behind them takes the place of the terminator -/
def pathSetN (sep assign : Byte) (text : List Byte) (n : Nat) : Path × Nat :=
  let r := setScanN sep assign (text.take n) 0 0 0
  ({ base := text ++ [0], off := 0, len := r.1 + (if r.2.2.2 then 0 else 1),
     first := if r.2.2.1 > 255 then 0 else r.2.2.1, sep := sep, assign := assign }, r.2.1)
where
  /-- the scan loop without the implicit terminator -/
  setScanN (sep assign : Byte) : List Byte → Nat → Nat → Nat → Nat × Nat × Nat × Bool
  | [], plen, elem, first => (plen, elem, first, false)
  | c :: cs, plen, elem, first =>
    if c = assign then (plen + 1, elem + 1, first, true)
    else if c = sep then setScanN sep assign cs (plen + 1) (elem + 1) (if elem = 0 then plen else first)
    else setScanN sep assign cs (plen + 1) elem first

/-- `memchr(data, sep, n)` -/
def memchr (data : List Byte) (c : Byte) (n : Nat) : Option Nat :=
  let i := (data.take n).findIdx (· = c)
  if i < (data.take n).length then some i else none

/-- `mpt_path_next`: the path afterwards and the length of the consumed element -/
def pathNext (p : Path) : Res (Path × Nat) :=
  if p.len = 0 then .err .MissingData
  else
    let data := p.base.drop p.off
    if p.binary then
      let len := p.first
      let skip := len + 2
      match data[len + 1]? with
      | none => .oob
      | some nx =>
        if skip > p.len then .oob
        else .ok ({ p with first := nx.toNat, off := p.off + skip, len := p.len - skip }, len)
    else if p.first ≠ 0 then
      let skip := p.first + 1
      if skip > p.len then .oob
      else .ok ({ p with first := 0, off := p.off + skip, len := p.len - skip }, p.first)
    else
      if p.off + (p.len - 1) > p.base.length then .oob else
      let skip := match memchr data p.sep (p.len - 1) with
        | some e => e + 1
        | none => p.len
      .ok ({ p with off := p.off + skip, len := p.len - skip }, skip - 1)

/-- the elements `mpt_path_next` yields until the path is used up -/
def elems (p : Path) : Nat → Res (List (List Byte))
  | 0 => .fault
  | f + 1 =>
    if p.len = 0 then .ok []
    else
      match pathNext p with
      | .ok (q, n) =>
        match elems q f with
        | .ok es => .ok (((p.base.drop (q.off - n - (if p.binary then 2 else 1))).take n) :: es)
        | e => e
      | .err e => .err e
      | .null => .null | .oob => .oob | .fault => .fault

/-- `n` calls of `mpt_path_next` -/
def nextN (p : Path) : Nat → Res Path
  | 0 => .ok p
  | n + 1 =>
    match pathNext p with
    | .ok (q, _) => nextN q n
    | .err e => .err e
    | .null => .null | .oob => .oob | .fault => .fault

/-- backward scan of `mpt_path_last`/`mpt_path_del`: from index `idx` while `pos ≠ 0` and the byte is not `sep` -/
def scanBack (base : List Byte) (sep : Byte) : Nat → Nat → Nat → Res (Nat × Nat)
  | 0, _, len => .ok (0, len)
  | pos + 1, idx, len =>
    match base[idx]? with
    | none => .oob
    | some c =>
      if c = sep then .ok (pos + 1, len)
      else scanBack base sep pos (idx - 1) (len + 1)

/-- `mpt_path_last`: the path reduced to its last element, and that element's length -/
def pathLast (p : Path) : Res (Path × Nat) :=
  if p.len = 0 then .err .BadValue
  else if p.binary then
    if p.len < 2 then .err .BadValue else
    match p.base[p.off + p.len - 2]? with
    | none => .oob
    | some l =>
      let len := l.toNat
      if p.len < len + 2 then .err .BadValue
      else .ok ({ p with off := p.off + (p.len - (len + 2)), first := len, len := len + 2 }, len)
  else
    match scanBack p.base p.sep (p.len - 1) (p.off + p.len - 2) 0 with
    | .ok (pos, len) => .ok ({ p with off := p.off + pos, first := if len > 255 then 0 else len, len := len + 1 }, len)
    | .err e => .err e
    | .null => .null | .oob => .oob | .fault => .fault

/-- `mpt_path_addchar`: 3 = new storage, 0 = last pending character replaced, 1/2 = appended -/
def pathAddChar (p : Path) (c : Byte) : Path × Nat :=
  let pos := p.off + p.len
  if !p.hasArray then
    ({ p with base := p.base.take pos ++ [c], hasArray := true }, 3)
  else
    let used := p.base.length
    if pos < used ∧ !p.keepPost then ({ p with base := p.base.take (used - 1) ++ [c] }, 0)
    else ({ p with base := p.base ++ [c] }, 1)

/-- `mpt_path_valid`: number of pending characters; they are kept from now on -/
def pathValid (p : Path) : Res (Path × Nat) :=
  if !p.hasArray then .ok (p, 0)
  else
    let used := p.base.length
    if used < p.off + p.len then .err .BadValue
    else
      let post := used - (p.off + p.len)
      .ok ({ p with keepPost := p.keepPost || post ≠ 0 }, post)

/-- `mpt_path_add(path, add)` on the used part `p.base` of the buffer: the `add` pending characters become the next element -/
def pathAddCore (p : Path) (add : Nat) : Res Path :=
    let len := p.off + p.len
    let used := p.base.length
    if used < len then .oob else
    let post := used - len
    if post < add then .err .BadValue
    else
      let post := post - add
      if p.binary then
        if add > 255 then .err .BadValue
        else
          -- make room for the two length bytes
          let base := if post < 2 then p.base ++ List.replicate (2 - post) 0 else p.base
          let base := if len ≠ 0 then Mem.write base (len - 1) [UInt8.ofNat add] else base
          let first := if p.len ≠ 0 then p.first else add
          let base := Mem.write base (len + add) [UInt8.ofNat add, 0]
          .ok { p with base := base, first := first, len := len + add + 2 - p.off, keepPost := false }
      else
        if ((p.base.drop len).take add).contains p.sep then .err .BadValue
        else
          let base := if post < 1 then p.base ++ [0] else p.base
          let base := if len ≠ 0 then Mem.write base (len - 1) [p.sep] else base
          let first := if p.len ≠ 0 then p.first else (if add > 255 then 0 else add)
          let base := Mem.write base (len + add) [p.assign]
          .ok { p with base := base, first := first, len := len + add + 1 - p.off, keepPost := false }

/-- `mpt_path_add(path, add)`: without storage (`base == NULL`) only an empty element can be added; a path that still refers to a plain string
    gets a buffer with a copy of its data and the `add` bytes behind it -/
def pathAdd (p : Path) (add : Nat) : Res Path :=
  if !p.hasArray then
    if p.base.isEmpty ∧ (add ≠ 0 ∨ p.off ≠ 0 ∨ p.len ≠ 0) then .err .MissingBuffer
    else if p.base.length < p.off + p.len + add then .oob
    else pathAddCore { p with base := p.base.take (p.off + p.len + add), hasArray := true } add
  else pathAddCore p add

/-- `mpt_path_addchar` followed by `mpt_path_valid`: one more pending character that is kept -/
def pushChar (p : Path) (c : Byte) : Path :=
  let q := (pathAddChar p c).1
  match pathValid q with
  | .ok (r, _) => r
  | _ => q

/-- a whole element: its characters one by one, then `mpt_path_add` -/
def pushElem (p : Path) (e : List Byte) : Res Path := pathAdd (e.foldl pushChar p) e.length

/-- a path built element by element -/
def pushElems (p : Path) : List (List Byte) → Res Path
  | [] => .ok p
  | e :: es =>
    match pushElem p e with
    | .ok q => pushElems q es
    | x => x

/-- the empty path the builders start from (no storage yet) -/
def emptyPath (sep assign : Byte) (bin : Bool) : Path := { sep := sep, assign := assign, binary := bin }

/-- the text of a separator-mode path with these elements -/
def joinSep (sep : Byte) : List (List Byte) → List Byte
  | [] => []
  | [e] => e
  | e :: e' :: es => e ++ sep :: joinSep sep (e' :: es)

/-- binary length mode: every element is followed by its own length and the length of the next element
    (`x` = what that field says behind the last element: 0 after `mpt_path_add`, stale after `mpt_path_del`) -/
def encBin (x : Byte) : List (List Byte) → List Byte
  | [] => []
  | [e] => e ++ [UInt8.ofNat e.length, x]
  | e :: e' :: es => e ++ [UInt8.ofNat e.length, UInt8.ofNat e'.length] ++ encBin x (e' :: es)

/-- the loop of `mpt_path_del` (separator mode): `while (--len && *data != sep) { ++part; --data; }` -/
def delScan (base : List Byte) (sep : Byte) : Nat → Nat → Nat → Res (Nat × Nat)
  | 0, _, part => .ok (0, part)       -- unreachable: called with len ≥ 1
  | len + 1, idx, part =>
    if len = 0 then .ok (0, part)
    else
      match base[idx]? with
      | none => .oob
      | some c =>
        if c = sep then .ok (len, part)
        else delScan base sep len (idx - 1) (part + 1)

/-- `mpt_path_del`: the path without its last element, and that element's length -/
def pathDel (p : Path) : Res (Path × Nat) :=
  if p.len = 0 then .err .MissingData
  else
    let pos := p.len + p.off
    let r : Res (Nat × Nat) :=
      if p.binary then
        if p.len < 2 then .err .BadValue else
        match p.base[pos - 2]? with
        | none => .oob
        | some l =>
          let part := l.toNat
          if p.len ≤ part then .err .BadValue
          else
            let len := p.len - (part + 2)
            let pos' := len + p.off
            let back : Option Nat := if pos' ≠ 0 then (p.base[pos' - 1]?).map (·.toNat) else some p.first
            match back with
            | none => .oob
            | some b => if part ≠ b then .err .BadOperation else .ok (len, part)
      else delScan p.base p.sep p.len (pos - 2) 0
    match r with
    | .ok (len, part) =>
      if p.hasArray then
        if len + p.off > p.base.length then .err .BadValue
        else .ok ({ p with base := p.base.take (len + p.off), len := len, first := if len = 0 then 0 else p.first, keepPost := false }, part)
      else .ok ({ p with len := len, first := if len = 0 then 0 else p.first, keepPost := false }, part)
    | .err e => .err e
    | .null => .null | .oob => .oob | .fault => .fault

/-! ### the configuration tree -/

inductive CNode where
  | mk (name : List Byte) (value : Option (List Byte)) (kids : List CNode)
  deriving Repr, Inhabited

namespace CNode
def name : CNode → List Byte | .mk n _ _ => n
def value : CNode → Option (List Byte) | .mk _ v _ => v
def kids : CNode → List CNode | .mk _ _ k => k
end CNode

/-- `mpt_node_locate(list, 1, name, len, -1)`: index of the first node called `nm` -/
def locate : List CNode → List Byte → Option Nat
  | [], _ => none
  | c :: cs, nm => if c.name = nm then some 0 else (locate cs nm).map (· + 1)

/-- `mpt_node_query`: the values of the deepest existing node on the path (its value), how many path
    elements were consumed -/
def nodeQuery : List CNode → List (List Byte) → Option (Option (List Byte)) × Nat
  | _, [] => (none, 0)
  | l, e :: es =>
    match locate l e with
    | none => (none, 0)
    | some i =>
      match l[i]? with
      | none => (none, 0)
      | some c =>
        match c.kids, es with
        | [], _ => (some c.value, 1)
        | _, [] => (some c.value, 1)
        | k :: ks, e' :: es' =>
          let r := nodeQuery (k :: ks) (e' :: es')
          match r.1 with
          | none => (some c.value, 1)
          | some v => (some v, r.2 + 1)

/-- the chain of new nodes `mpt_node_assign` creates for the missing path elements; the last one gets the value -/
def chain : List (List Byte) → Option (List Byte) → List CNode
  | [], _ => []
  | [e], v => [.mk e v []]
  | e :: e' :: es, v => [.mk e none (chain (e' :: es) v)]

/-- `mpt_node_assign(&list, path, value)`: `none` = refused (no path element at all) -/
def nodeAssign : List CNode → List (List Byte) → List Byte → Option (List CNode)
  | _, [], _ => none
  | l, e :: es, v =>
    match locate l e with
    | none => some (l ++ chain (e :: es) (some v))
    | some i =>
      match l[i]? with
      | none => none
      | some c =>
        if es.isEmpty then some (l.set i (.mk c.name (some v) c.kids))        -- `mpt_meta_set` on the existing node
        else
          match nodeAssign c.kids es v with
          | some ks' => some (l.set i (.mk c.name c.value ks'))
          | none => none

/-- what is assigned: a text (stored through `mpt_meta_new`), or a value `mpt_meta_new`/`mpt_meta_set` have no
    representation for (e.g. `MPT_VALUE_INIT('i', …)`) -/
inductive AVal where
  | text (v : List Byte)
  | noText
  deriving Repr, Inhabited

/-- `mpt_identifier_set` takes names of at most 65534 bytes (length incl. terminator ≤ UINT16_MAX) -/
def elemFits (e : List Byte) : Bool := e.length + 1 ≤ 65535

/-- `mpt_node_assign` with every way to fail, in the order of the code: the value is made first (an existing path:
    `mpt_meta_set`), then the remaining path elements are checked, only then nodes are created and linked.
    Result: the list afterwards and whether the call succeeded. -/
def nodeAssignE (l : List CNode) (k : List (List Byte)) (v : AVal) : List CNode × Bool :=
  match v with
  | .noText => (l, false)
  | .text t =>
    if !k.all elemFits then (l, false)
    else match nodeAssign l k t with
      | some l' => (l', true)
      | none => (l, false)

/-! ### the tree functions on a path cursor (node_query.c / node_assign.c as written: `mpt_path_next` interleaved with
    the walk; a failed step leaves the cursor where it was before that step) -/

/-- the bytes of the element a `pathNext` step from `p` to `q` consumed (`n` = its length) -/
def stepElem (p q : Path) (n : Nat) : List Byte :=
  (p.base.drop (q.off - n - (if p.binary then 2 else 1))).take n

/-- `mpt_node_query(list, &path)`: the deepest existing node along the path, and the cursor behind the consumed
    elements (cursor restored to the state before an element that is not there) -/
def nodeFindP (l : List CNode) (p : Path) : Nat → Res (Option CNode × Path)
  | 0 => .fault
  | f + 1 =>
    if p.len = 0 then .ok (none, p)
    else match pathNext p with
      | .ok (q, n) =>
        match locate l (stepElem p q n) with
        | none => .ok (none, p)
        | some i =>
          match l[i]? with
          | none => .ok (none, p)
          | some c =>
            if c.kids.isEmpty then .ok (some c, q)
            else match nodeFindP c.kids q f with
              | .ok (some d, q') => .ok (some d, q')
              | .ok (none, q') => .ok (some c, q')
              | e => e
      | .err e => .err e
      | .null => .null | .oob => .oob | .fault => .fault

/-- value read through `mpt_node_query`: the whole path must be consumed -/
def nodeGetP (l : List CNode) (p : Path) (fuel : Nat) : Res (Option (List Byte)) :=
  match nodeFindP l p fuel with
  | .ok (some c, q) => .ok (if q.len = 0 then c.value else none)
  | .ok (none, _) => .ok none
  | .err e => .err e
  | .null => .null | .oob => .oob | .fault => .fault

/-- `mpt_node_assign(&list, &path, value)` on the cursor: existing elements are followed, from the first missing
    element on the remaining elements are created as a chain -/
def nodeAssignP (l : List CNode) (p : Path) (v : List Byte) : Nat → Res (Option (List CNode))
  | 0 => .fault
  | f + 1 =>
    if p.len = 0 then .ok none
    else match pathNext p with
      | .ok (q, n) =>
        let e := stepElem p q n
        match locate l e with
        | none =>
          match elems q f with
          | .ok es => .ok (some (l ++ chain (e :: es) (some v)))
          | .err x => .err x
          | .null => .null | .oob => .oob | .fault => .fault
        | some i =>
          match l[i]? with
          | none => .ok none
          | some c =>
            if q.len = 0 then .ok (some (l.set i (.mk c.name (some v) c.kids)))
            else match nodeAssignP c.kids q v f with
              | .ok (some ks') => .ok (some (l.set i (.mk c.name c.value ks')))
              | x => x
      | .err e => .err e
      | .null => .null | .oob => .oob | .fault => .fault

/-- exact lookup used by query/remove of config_global.c: `mpt_node_query` must consume the whole path -/
def findExact : List CNode → List (List Byte) → Option CNode
  | _, [] => none
  | l, e :: es =>
    match locate l e with
    | none => none
    | some i =>
      match l[i]? with
      | none => none
      | some c => if es.isEmpty then some c else findExact c.kids es

/-- `configRemove`: unlink and destroy the node at exactly this path -/
def removeExact : List CNode → List (List Byte) → Option (List CNode)
  | _, [] => none
  | l, e :: es =>
    match locate l e with
    | none => none
    | some i =>
      match l[i]? with
      | none => none
      | some c =>
        if es.isEmpty then some (l.eraseIdx i)
        else
          match removeExact c.kids es with
          | some ks' => some (l.set i (.mk c.name c.value ks'))
          | none => none

/-- `mpt_node_clear` of the node at exactly this path (view remove with an empty path) -/
def clearExact : List CNode → List (List Byte) → Option (List CNode)
  | _, [] => none
  | l, e :: es =>
    match locate l e with
    | none => none
    | some i =>
      match l[i]? with
      | none => none
      | some c =>
        if es.isEmpty then some (l.set i (.mk c.name c.value []))
        else
          match clearExact c.kids es with
          | some ks' => some (l.set i (.mk c.name c.value ks'))
          | none => none

/-- the value of the node at exactly this path is dropped (view remove with a NULL path) -/
def unsetExact : List CNode → List (List Byte) → Option (List CNode)
  | _, [] => none
  | l, e :: es =>
    match locate l e with
    | none => none
    | some i =>
      match l[i]? with
      | none => none
      | some c =>
        if es.isEmpty then some (l.set i (.mk c.name none c.kids))
        else
          match unsetExact c.kids es with
          | some ks' => some (l.set i (.mk c.name c.value ks'))
          | none => none

/-- `make_global(base)`: the base path exists afterwards (new nodes have no value) -/
def ensure : List CNode → List (List Byte) → List CNode
  | l, [] => l
  | l, e :: es =>
    match locate l e with
    | none => l ++ chain (e :: es) none
    | some i =>
      match l[i]? with
      | none => l
      | some (.mk n val ks) => l.set i (.mk n val (ensure ks es))

/-- `configAssign` (value given): view base path `b` (empty for the global object), relative path `p` -/
def configAssign (l : List CNode) (b p : List (List Byte)) (v : List Byte) : Res (List CNode) :=
  let l1 := ensure l b
  match p with
  | [] => if b = [] then .err .BadValue else
    -- value of the base node itself
    match nodeAssign l1 b v with
    | some l2 => .ok l2
    | none => .err .BadOperation
  | _ =>
    match nodeAssign l1 (b ++ p) v with
    | some l2 => .ok l2
    | none => .err .BadOperation

/-- `configAssign` with every way to fail: a view first checks that value and path can be stored at all, then
    `make_global` creates the missing part of the base, then the assignment itself -/
def configAssignE (l : List CNode) (b p : List (List Byte)) (v : AVal) : List CNode × Res Unit :=
  match p with
  | [] =>
    if b = [] then (l, .err .BadValue)
    else if !b.all elemFits then (l, .err .BadOperation)
    else match v with
      | .noText => (l, .err .BadOperation)
      | .text t =>
        match nodeAssign (ensure l b) b t with
        | some l2 => (l2, .ok ())
        | none => (l, .err .BadOperation)
  | _ =>
    if !(b ++ p).all elemFits then (l, .err .BadOperation)
    else match v with
      | .noText => (l, .err .BadOperation)
      | .text t =>
        match nodeAssign (ensure l b) (b ++ p) t with
        | some l2 => (l2, .ok ())
        | none => (l, .err .BadOperation)

/-- every element of the tree with its value -/
def allNodes : List CNode → List (List (List Byte) × Option (List Byte))
  | [] => []
  | (.mk n v ks) :: ts => ([n], v) :: (allNodes ks).map (fun e => (n :: e.1, e.2)) ++ allNodes ts

/-- `configQuery` with the value conversion of `mpt_config_getp(…, 's', …)` -/
def configQuery (l : List CNode) (b p : List (List Byte)) : Res (List Byte) :=
  match b ++ p with
  | [] => .err .MissingData
  | k =>
    match findExact l k with
    | none => .err .MissingData
    | some c =>
      match c.value with
      | none => .err .MissingData
      | some v => .ok v

/-- `configRemove`: result code (1 removed, 0 nothing there) -/
def configRemove (l : List CNode) (b p : List (List Byte)) : Res (List CNode × Int) :=
  if l.isEmpty then .err .BadOperation
  else match p with
  | [] =>
    if b = [] then .ok ([], 0)      -- empty path on the global object: everything goes
    else match clearExact l b with
      | some l' => .ok (l', 0)
      | none => .ok (l, 0)
  | _ =>
    if b ≠ [] ∧ (findExact l b).isNone then .ok (l, 0)
    else match removeExact l (b ++ p) with
      | some l' => .ok (l', 1)
      | none => .ok (l, 0)

/-- `configRemove` with the path argument as the code sees it: `none` = NULL pointer (a view drops the value of its
    base; the global object refuses), `some []` = empty path, `some k` = elements -/
def configRemoveP (l : List CNode) (b : List (List Byte)) (p : Option (List (List Byte))) : Res (List CNode × Int) :=
  match p with
  | some k => configRemove l b k
  | none =>
    if l.isEmpty then .err .BadOperation
    else if b = [] then .err .BadOperation
    else match unsetExact l b with
      | some l' => .ok (l', 0)
      | none => .ok (l, 0)

/-- all (path, value) pairs of the tree -/
def pairs : List CNode → List (List (List Byte) × List Byte)
  | [] => []
  | (.mk n v ks) :: ts =>
    (match v with | some x => [([n], x)] | none => []) ++
      (pairs ks).map (fun e => (n :: e.1, e.2)) ++ pairs ts

end Mpt.Config
