/-
  M: implementation model of mptcore/parse/*.c and mptcore/config/path_*.c as used by the parser.

  Input is a `List UInt8` handed out one character at a time by `getc` (the end marker, -2 = end of
  input or -1 = read error, is returned again and again once the list is exhausted).  Every loop of
  the C code that reads characters is an instance of `scan` (one `getc` per iteration, structural
  recursion on the remaining input); the loop bodies are the non-recursive `…Step`/`…Body` functions
  which mirror the C blocks branch by branch.  No fuel, no `partial`.

  The path (`struct path` + its array buffer) is kept as: committed elements, the pending bytes
  behind them (`buf->_used - len`), the KeepPost flag, "has a buffer", and the 8 bit `first`.
  `parser_context.valid` is a `size_t` (it was 16 bit and wrapped, see known-findings.txt); the
  model keeps it as a natural number.

  Assumptions (checked by the correspondence run only): the `getc` callback returns 0..255 or a
  negative end marker; allocation never fails; `<ctype.h>` classes are those of the "C" locale.
-/
import MptModel.Basic
import MptModel.Spec.ConfTree
import MptModel.Spec.Events

namespace Mpt.Parse
open Mpt

/-! ### character classes (`<ctype.h>`, "C" locale) -/
def isspace (c : UInt8) : Bool := c == 32 || (9 ≤ c && c ≤ 13)
def isdigit (c : UInt8) : Bool := 48 ≤ c && c ≤ 57
def isprint (c : UInt8) : Bool := 32 ≤ c && c ≤ 126
def isalpha (c : UInt8) : Bool := (65 ≤ c && c ≤ 90) || (97 ≤ c && c ≤ 122)
def isalnum (c : UInt8) : Bool := isdigit c || isalpha c

/-! ### `struct parser_format`, `mpt_parse_format` -/
structure Format where
  sstart : UInt8 := 123   -- '{'
  send   : UInt8 := 125   -- '}'
  ostart : UInt8 := 0
  assign : UInt8 := 61    -- '='
  oend   : UInt8 := 0
  esc    : List UInt8 := [34, 39, 0]      -- '"' '\''
  com    : List UInt8 := [35, 0, 0, 0]    -- '#'
  deriving Repr, DecidableEq, Inhabited

/-- `MPT_iscomment` -/
def Format.isComment (f : Format) (c : UInt8) : Bool := c != 0 && f.com.contains c
/-- `MPT_isescape` -/
def Format.isEscape (f : Format) (c : UInt8) : Bool := c != 0 && f.esc.contains c

/-- a delimiter position of the description: white space means "none" -/
def delim (c : UInt8) : UInt8 := if isspace c then 0 else c

/-- up to `n` leading non-space characters, zero padded to `n` (comment / escape lists) -/
def takeWord (n : Nat) (s : List UInt8) : List UInt8 :=
  let w := (s.takeWhile fun c => !isspace c).take n
  w ++ List.replicate (n - w.length) 0

/-- `mpt_parse_format(fmt, str)`: format and the format type character; `none` = NULL description.
    The description is a C string: the list holds the characters in front of the terminator.
    (Descriptions shorter than two characters end the evaluation, see the `fix:` commit.) -/
def parseFormat (str : Option (List UInt8)) : Format × UInt8 :=
  match str with
  | none => ({}, 42)
  | some [] => ({}, 42)
  | some [a] => ({ sstart := delim a }, 42)
  | some (a :: t :: rest) =>
    let f0 : Format := { sstart := delim a }
    match rest with
    | [] => (f0, t)
    | se :: r1 =>
      let f1 := { f0 with send := delim se }
      match r1 with
      | [] => (f1, t)
      | os :: r2 =>
        let f2 := { f1 with ostart := delim os }
        match r2 with
        | [] => (f2, t)
        | as :: r3 =>
          let f3 := { f2 with assign := delim as }
          match r3 with
          | [] => (f3, t)
          | oe :: r4 =>
            let f4 := { f3 with oend := delim oe }
            match r4 with
            | [] => (f4, t)
            | _ =>
              let f5 := { f4 with com := takeWord 4 r4 }
              -- skip the comment word (at most 4 characters are consumed) and the white space behind it
              let after := (r4.dropWhile fun c => !isspace c)
              let afterCom := if (r4.takeWhile fun c => !isspace c).length ≤ 4 then after
                              else r4.drop 4
              let r5 := afterCom.dropWhile isspace
              match r5 with
              | [] => (f5, t)
              | _ => ({ f5 with esc := takeWord 3 r5 }, t)

/-! ### name checks: `mpt_parse_ncheck` -/
namespace NameFlag
def numStart : Nat := 0x1
def numCont  : Nat := 0x2
def special  : Nat := 0x4
def space    : Nat := 0x8
def empty    : Nat := 0x10
def binary   : Nat := 0x20
end NameFlag

def has (flags bit : Nat) : Bool := flags &&& bit != 0

/-- the per-character loop of `mpt_parse_ncheck`; `first` = the character is `name[0]` -/
def ncheckChars (take : Nat) : Bool → List UInt8 → Option Err
  | _, [] => none
  | first, c :: rest =>
    if isspace c then
      if !has take NameFlag.space then some .BadType else ncheckChars take false rest
    else if isdigit c then
      if !has take (if first then NameFlag.numStart else NameFlag.numCont) then some .BadValue
      else ncheckChars take false rest
    else if !isprint c then
      if !has take NameFlag.binary then some .BadValue else ncheckChars take false rest
    else if !isalnum c then
      if !has take NameFlag.special then some .BadValue else ncheckChars take false rest
    else ncheckChars take false rest

/-- `mpt_parse_ncheck(name, len, take)`: `none` = accepted -/
def ncheck (name : List UInt8) (take : Nat) : Option Err :=
  if name.isEmpty then (if has take NameFlag.empty then none else some .MissingData)
  else ncheckChars take true name

/-! ### the path -/
structure Path where
  elems   : List (List UInt8) := []   -- committed elements, root first
  pending : Array UInt8 := #[]        -- bytes behind the committed part (`buf->_used - len` of them)
  keep    : Bool := false             -- MPT_PATHFLAG(KeepPost)
  hasBuf  : Bool := false             -- base != NULL, MPT_PATHFLAG(HasArray)
  first   : UInt8 := 0                -- 8 bit length of the first element
  deriving Repr, DecidableEq, Inhabited

namespace Path
/-- path separator of `MPT_PATH_INIT` -/
def sep : UInt8 := 46

/-- `mpt_path_addchar`: overwrite the last pending character until it was declared valid -/
def addchar (p : Path) (c : UInt8) : Path :=
  match p with
  | { elems, pending, keep, hasBuf, first } =>
    if !hasBuf then { elems, pending := pending.push c, keep, hasBuf := true, first }
    else if pending.size != 0 && !keep then { elems, pending := pending.pop.push c, keep, hasBuf, first }
    else { elems, pending := pending.push c, keep, hasBuf, first }

/-- `mpt_path_delchar` (result ignored by the parser) -/
def delchar (p : Path) : Path :=
  match p with
  | { elems, pending, keep, hasBuf, first } =>
    if !hasBuf then { elems, pending, keep, hasBuf, first }
    else { elems, pending := pending.pop, keep, hasBuf, first }

/-- `mpt_path_valid`: number of pending bytes; they are kept from now on -/
def valid (p : Path) : Nat × Path :=
  match p with
  | { elems, pending, keep, hasBuf, first } =>
    if !hasBuf then (0, { elems, pending, keep, hasBuf, first })
    else (pending.size, { elems, pending, keep := keep || pending.size != 0, hasBuf, first })

/-- `mpt_path_invalidate`: drop the pending bytes -/
def invalidate (p : Path) : Path :=
  if !p.hasBuf then p else { p with pending := #[], keep := false }

/-- the first `n` pending bytes -/
def head (p : Path) (n : Nat) : List UInt8 := (p.pending.extract 0 n).toList

/-- `mpt_path_add(path, n)`: the first `n` pending bytes become a new element, one more byte is the
    separator/assign slot -/
def add (p : Path) (n : Nat) : Except Err Path :=
  if !p.hasBuf then
    -- without storage only an empty first element can be added (it gets a buffer for its separator slot)
    (if n != 0 || !p.elems.isEmpty then .error .MissingBuffer
     else .ok { p with elems := [[]], pending := #[], hasBuf := true, first := 0, keep := false })
  else if p.pending.size < n then .error .BadValue
  else if (p.head n).contains sep then .error .BadValue
  else .ok { p with
    elems := p.elems ++ [p.head n]
    pending := p.pending.extract (n + 1) p.pending.size
    first := if p.elems.isEmpty then UInt8.ofNat n else p.first
    keep := false }

/-- `mpt_path_del`: remove the last element and everything behind it -/
def del (p : Path) : Except Err Path :=
  if p.elems.isEmpty then .error .MissingData
  else .ok { p with
    elems := p.elems.dropLast
    pending := #[]
    first := if p.elems.dropLast.isEmpty then 0 else p.first
    keep := false }
end Path

/-! ### reading: `getc`, the generic loop -/

/-- what is left of the input and the bookkeeping of the `getc` callback -/
structure Src where
  rest  : List UInt8
  reads : Nat := 0            -- invocations of getc, including observations of the end marker
  trace : List UInt8 := []    -- characters delivered so far, newest first
  deriving Repr, DecidableEq, Inhabited

inductive Step (σ ρ : Type) where
  | more (s : σ)
  | done (r : ρ)

/-- `while ((c = getc()) …) body`: one `getc` per iteration; `atEnd` when the end marker is returned -/
def scanAux {σ ρ : Type} (step : σ → UInt8 → Step σ ρ) (atEnd : σ → ρ) :
    List UInt8 → Nat → List UInt8 → σ → ρ × Src
  | [], n, t, s => (atEnd s, { rest := [], reads := n + 1, trace := t })
  | c :: r, n, t, s =>
    match step s c with
    | .more s' => scanAux step atEnd r (n + 1) (c :: t) s'
    | .done out => (out, { rest := r, reads := n + 1, trace := c :: t })

def scan {σ ρ : Type} (step : σ → UInt8 → Step σ ρ) (atEnd : σ → ρ) (src : Src) (s : σ) : ρ × Src :=
  scanAux step atEnd src.rest src.reads src.trace s

/-- a single `getc`: `none` = end marker -/
def getc (src : Src) : Option UInt8 × Src :=
  match src.rest with
  | [] => (none, { src with reads := src.reads + 1 })
  | c :: r => (some c, { rest := r, reads := src.reads + 1, trace := c :: src.trace })

/-! ### parser state -/
namespace Flag
def section_ : Nat := 1
def sectEnd : Nat := 2
def option : Nat := 3
def data : Nat := 4
def name : Nat := 8
end Flag

/-- the part of `parser_context` + `path` a format function changes -/
structure St where
  path  : Path := {}
  valid : Nat := 0     -- parser_context.valid (size_t since the `fix:` commit; was 16 bit)
  curr  : Nat := 0     -- parser_context.curr
  line  : Nat := 1     -- parser_input.line
  deriving Repr, DecidableEq, Inhabited

/-- what stays fixed during one parse -/
structure Cfg where
  fmt  : Format := {}
  sect : Nat := 0xff    -- parser_context.name.sect
  opt  : Nat := 0xff    -- parser_context.name.opt
  eof  : Int := -2      -- the end marker of the source (-2 end of input, -1 read error)
  deriving Repr, Inhabited

namespace St
/-- `parse->valid = mpt_path_valid(path)` -/
def markValid (s : St) : St :=
  match s with
  | { path, valid := _, curr, line } =>
    let r := path.valid
    { path := r.2, valid := r.1, curr, line }

/-- what `mpt_parse_getchar` does with a delivered character: count lines, save into the path.
    A zero byte is returned to the caller without being counted or saved. -/
def save (s : St) (c : UInt8) : St :=
  if c == 0 then s
  else
    match s with
    | { path, valid, curr, line } =>
      { path := path.addchar c, valid, curr, line := if c == 10 then line + 1 else line }

/-- the name the pending area holds: `valid` bytes behind the path -/
def name (s : St) : List UInt8 := s.path.head s.valid

/-- `ncheck(…, valid, flags)` then `mpt_path_add(path, valid)`; errors as the callers map them -/
def commit (s : St) (flags : Nat) (eCheck eAdd : Err) : Except Err St :=
  match ncheck s.name flags with
  | some _ => .error eCheck
  | none =>
    match s.path.add s.valid with
    | .error _ => .error eAdd
    | .ok p => .ok { s with path := p }
end St

/-- result of a format function: return code, state, source -/
abbrev Out := Int × St × Src

def err (e : Err) (s : St) (src : Src) : Out := (e.code, s, src)

/-! ### `mpt_parse_endline`, `mpt_parse_nextvis` -/

/-- `mpt_parse_endline`: skip to the end of the line; the state is the line counter -/
def endlineStep (line : Nat) (c : UInt8) : Step Nat Nat :=
  if c == 10 then .done (line + 1) else .more line

def endline (s : St) (src : Src) : St × Src :=
  let r := scan endlineStep (fun l => l) src s.line
  ({ s with line := r.1 }, r.2)

structure Vis where
  line : Nat
  skip : Bool     -- inside the `mpt_parse_endline` of a comment
/-- `mpt_parse_nextvis`: first visible character outside comments, not saved.
    Result: the character (0 for a zero byte, which ends the loop) or `none` at the end marker. -/
def nextvisStep (f : Format) (v : Vis) (c : UInt8) : Step Vis (Option UInt8 × Nat) :=
  if v.skip then
    if c == 10 then .more { line := v.line + 1, skip := false } else .more v
  else if c == 0 then .done (some 0, v.line)
  else
    let line := if c == 10 then v.line + 1 else v.line
    if isspace c then .more { line := line, skip := false }
    else if f.isComment c then .more { line := line, skip := true }
    else .done (some c, line)

def nextvis (f : Format) (s : St) (src : Src) : Option UInt8 × St × Src :=
  let r := scan (nextvisStep f) (fun v => (none, v.line)) src { line := s.line, skip := false }
  (r.1.1, { s with line := r.1.2 }, r.2)

/-! ### `mpt_parse_data` -/
structure DataSt where
  st   : St
  mtch : UInt8 := 0        -- open escape character, 0 = none
  last : Option UInt8 := none

inductive DataExit where
  | oend (s : St)          -- `curr == fmt->oend`
  | newline (s : St)
  | comment (s : St)       -- comment character after white space: skip the rest of the line
  | eof (s : St)

def dataStep (f : Format) (d : DataSt) (c : UInt8) : Step DataSt DataExit :=
  let s := d.st.save c
  if d.mtch != 0 then
    let s1 :=
      if c == d.mtch then
        let p := s.path.delchar
        if d.last != some 92 then { s with path := p }
        else { s with path := (p.delchar).addchar c }
      else s
    let m := if c == d.mtch && d.last != some 92 then 0 else d.mtch
    .more { st := s1.markValid, mtch := m, last := some c }
  else if f.isEscape c then .more { st := s, mtch := c, last := some c }
  else if c == f.oend then .done (.oend s)
  else if c == 10 then .done (.newline s)
  else if f.oend == 0 && f.isComment c && (match d.last with | some l => isspace l | none => false) then
    .done (.comment s)
  else if !isspace c then .more { st := s.markValid, mtch := 0, last := some c }
  else .more { st := s, mtch := 0, last := some c }

/-- the code behind the loop of `mpt_parse_data` -/
def dataFinish (cfg : Cfg) (s : St) (atOend : Bool) (src : Src) : Out :=
  if cfg.fmt.oend != 0 && !atOend then (Err.BadValue.code, { s with curr := Flag.data }, src)
  else (s.valid, s, src)

/-- `mpt_parse_data`: returns the valid length of the value or a negative error code -/
def parseData (cfg : Cfg) (s : St) (src : Src) : Out :=
  let r := scan (dataStep cfg.fmt) (fun d => DataExit.eof d.st) src { st := s }
  match r.1 with
  | .oend s => dataFinish cfg s true r.2
  | .newline s => dataFinish cfg s false r.2
  | .eof s => dataFinish cfg s false r.2
  | .comment s => let e := endline s r.2; dataFinish cfg e.1 false e.2

/-- the common tail "name is complete, read the value": ncheck, path_add, invalidate, parse_data -/
def nameThenData (cfg : Cfg) (s : St) (src : Src) (eAdd : Err) : Out :=
  match s.commit cfg.opt .BadType eAdd with
  | .error e => err e s src
  | .ok s1 =>
    let s2 := { s1 with path := s1.path.invalidate, valid := 0 }
    let r := parseData cfg s2 src
    if r.1 < 0 then r
    else if r.1 == 0 then (Flag.option, r.2)
    else (Flag.option ||| Flag.data, r.2)

/-! ### `mpt_parse_option` -/
inductive OptExit where
  | ret (code : Int) (s : St)
  | data (s : St)           -- name complete: value follows
  | brk (s : St)            -- left the loop: data-only element
  | comment (s : St)        -- comment: skip the line, then as `brk`

/-- loop body of `mpt_parse_option` for the current character (already saved) -/
def optBody (cfg : Cfg) (s : St) (c : UInt8) : Step St OptExit :=
  let f := cfg.fmt
  if isspace c then
    if f.assign == 0 then .done (.data s)
    else if c == 10 then
      if f.oend != 0 && c != f.oend then .done (.ret Err.BadValue.code s) else .done (.brk s)
    else .more s
  else if c == f.assign then .done (.data s)
  else if c == f.oend then .done (.brk s)
  else if f.isComment c then
    if f.oend != 0 then .done (.ret Err.BadValue.code s) else .done (.comment s)
  else .more s.markValid

def optFinish (cfg : Cfg) (s : St) (src : Src) : Out :=
  let s1 := { s with curr := Flag.data }
  if !has cfg.opt NameFlag.empty then err .BadType s1 src else (Flag.data, s1, src)

def optExit (cfg : Cfg) (e : OptExit) (src : Src) : Out :=
  match e with
  | .ret code s => (code, s, src)
  | .data s => nameThenData cfg s src .MissingBuffer
  | .brk s => optFinish cfg s src
  | .comment s => let r := endline s src; optFinish cfg r.1 r.2

/-- the character `mpt_parse_option` starts with: the next visible one — or, when the caller has already stored
    the first character of the name (`valid != 0`), simply the next character (not saved, lines counted) -/
def optFirst (f : Format) (s : St) (src : Src) : Option UInt8 × St × Src :=
  if s.valid != 0 then
    match getc src with
    | (none, src1) => (none, s, src1)
    | (some c, src1) => (some c, { s with line := if c == 10 then s.line + 1 else s.line }, src1)
  else nextvis f s src

/-- `mpt_parse_option` -/
def parseOption (cfg : Cfg) (s : St) (src : Src) : Out :=
  let f := cfg.fmt
  let onm := Flag.option ||| Flag.name
  match optFirst f s src with
  | (none, s1, src1) =>
    let s2 := { s1 with curr := if s1.valid != 0 then onm else Flag.option }
    if cfg.eof != -2 then err .BadArgument s2 src1
    else if !s2.path.elems.isEmpty then err .MissingData s2 src1 else (0, s2, src1)
  | (some c, s1, src1) =>
    if f.ostart != 0 && c != f.ostart && s1.valid != 0 then err .BadValue { s1 with curr := onm } src1
    else
      let s2 := { s1 with path := s1.path.addchar c, curr := onm }
      match optBody cfg s2 c with
      | .done e => optExit cfg e src1
      | .more s3 =>
        let r := scan (fun s c => optBody cfg (s.save c) c)
          (fun s => OptExit.ret (if cfg.eof == -2 then Err.MissingData.code else Err.BadArgument.code) s) src1 s3
        optExit cfg r.1 r.2

/-! ### `mpt_parse_format_pre` -/
inductive PreExit where
  | ret (code : Int) (s : St)
  | option (s : St)                  -- `return mpt_parse_option(…)`
  | data (s : St)                    -- assign character: value follows
  | brk (s : St) (c : Option UInt8)  -- left the loop with this current character (`none` = end marker)
  | comment (s : St) (c : UInt8)     -- comment: skip the line, then as `brk`
  | newline (s : St)                 -- name ended by a line break: look at the next visible character

def preBody (cfg : Cfg) (s : St) (c : UInt8) : Step St PreExit :=
  let f := cfg.fmt
  if c == f.send then .done (.ret Flag.sectEnd { s with curr := Flag.sectEnd })
  else if c == f.sstart then .done (.brk s (some c))
  else if c == f.ostart then .done (.option s)
  else if c == f.assign then .done (.data { s with curr := Flag.option ||| Flag.name })
  else if c == f.oend then .done (.brk s (some c))
  else if f.isComment c then .done (.comment s c)
  else
    let s1 := { s with curr := Flag.name }
    if !isspace c then .more s1.markValid
    else if c == 10 then .done (.newline s1)
    else .more s1

/-- the code behind the loop of `mpt_parse_format_pre` -/
def preFinish (cfg : Cfg) (s : St) (c : Option UInt8) (src : Src) : Out :=
  let f := cfg.fmt
  if f.sstart != 0 && c == some f.sstart then
    let s1 := { s with curr := Flag.section_ ||| Flag.name }
    match s1.commit cfg.sect .BadType .BadOperation with
    | .error e => err e s1 src
    | .ok s2 => (Flag.section_, s2, src)
  else if f.oend != 0 && c == some f.oend then
    let s1 := { s with curr := Flag.data }
    if !has cfg.opt NameFlag.empty then err .BadType s1 src else (Flag.data, s1, src)
  else err .BadValue { s with curr := Flag.name } src

def preExit (cfg : Cfg) (e : PreExit) (src : Src) : Out :=
  match e with
  | .ret code s => (code, s, src)
  | .option s => parseOption cfg s src
  | .data s => nameThenData cfg s src .BadOperation
  | .brk s c => preFinish cfg s c src
  | .comment s c => let r := endline s src; preFinish cfg r.1 (some c) r.2
  | .newline s =>
    match nextvis cfg.fmt s src with
    | (some c, s1, src1) => preFinish cfg { s1 with path := s1.path.addchar c } (some c) src1
    | (none, s1, src1) =>
      -- the (negative) end marker is stored as a character: `val & 0xff`
      preFinish cfg { s1 with path := s1.path.addchar (if cfg.eof == -2 then 254 else 255) } none src1

/-- `mpt_parse_format_pre` -/
def parseFormatPre (cfg : Cfg) (s : St) (src : Src) : Out :=
  let f := cfg.fmt
  match nextvis f s src with
  | (none, s1, src1) =>
    if cfg.eof != -2 then err .BadArgument s1 src1
    else if s1.path.elems.isEmpty then (0, s1, src1) else err .MissingData s1 src1
  | (some c, s1, src1) =>
    if c == f.sstart then
      let s2 := { s1 with curr := Flag.section_ }
      match s2.commit cfg.sect .BadType .BadOperation with
      | .error e => err e s2 src1
      | .ok s3 => (Flag.section_, s3, src1)
    else
      let s2 := { s1 with curr := Flag.name, path := s1.path.addchar c }
      match preBody cfg s2 c with
      | .done e => preExit cfg e src1
      | .more s3 =>
        let r := scan (fun s c => preBody cfg (s.save c) c) (fun s => PreExit.brk s none) src1 s3
        preExit cfg r.1 r.2

/-! ### `mpt_parse_format_enc` -/
inductive EncExit where
  | ret (code : Int) (s : St)
  | brk (s : St)
  | comment (s : St)

/-- the name loop of `mpt_parse_format_enc` -/
def encStep (f : Format) (s : St) (c : UInt8) : Step St EncExit :=
  if c == 0 then .done (.ret Err.MissingData.code s)
  else
    let s1 := s.save c
    if isspace c then .done (.brk s1)
    else if f.isComment c then .done (.comment s1)
    else .more s1.markValid

def encFinish (cfg : Cfg) (s : St) (src : Src) : Out :=
  match s.commit cfg.sect .BadType .BadOperation with
  | .error e => err e s src
  | .ok s1 => (Flag.section_, { s1 with valid := 0 }, src)

/-- section name part of `mpt_parse_format_enc` (behind the section start character) -/
def encSection (cfg : Cfg) (s : St) (src : Src) : Out :=
  let f := cfg.fmt
  let s0 := { s with curr := Flag.section_ }
  match nextvis f s0 src with
  | (none, s1, src1) => err .MissingData s1 src1
  | (some c, s1, src1) =>
    if c == 0 then err .MissingData s1 src1
    else
      let s2 := ({ s1 with curr := Flag.section_ ||| Flag.name, path := s1.path.addchar c }).markValid
      let r := scan (encStep f) (fun s => EncExit.ret Err.MissingData.code s) src1 s2
      match r.1 with
      | .ret code s3 => (code, s3, r.2)
      | .brk s3 => encFinish cfg s3 r.2
      | .comment s3 => let e := endline s3 r.2; encFinish cfg e.1 e.2

/-- not a section start: option (or data) element -/
def encOption (cfg : Cfg) (s : St) (c : UInt8) (src : Src) : Out :=
  let f := cfg.fmt
  let s1 := { s with path := s.path.addchar c }
  if f.ostart != 0 then
    if c != f.ostart then err .BadValue { s1 with curr := Flag.option } src
    else parseOption cfg s1 src
  else parseOption cfg s1.markValid src

/-- `mpt_parse_format_enc` -/
def parseFormatEnc (cfg : Cfg) (prev : Nat) (s : St) (src : Src) : Out :=
  let f := cfg.fmt
  if f.sstart == f.send then
    if prev == Flag.sectEnd then encSection cfg s src
    else
      match nextvis f s src with
      | (none, s1, src1) =>
        if cfg.eof != -2 then err .BadArgument { s1 with curr := 0 } src1 else (0, { s1 with curr := 0 }, src1)
      | (some c, s1, src1) =>
        if !s1.path.elems.isEmpty && c == f.sstart then (Flag.sectEnd, { s1 with curr := Flag.sectEnd }, src1)
        else if c != f.sstart then encOption cfg s1 c src1
        else encSection cfg s1 src1
  else
    match nextvis f s src with
    | (none, s1, src1) =>
      let s2 := { s1 with curr := Flag.name }
      if s2.path.elems.isEmpty && cfg.eof == -2 then (0, s2, src1) else err .MissingData s2 src1
    | (some c, s1, src1) =>
      if !s1.path.elems.isEmpty && f.send != 0 && c == f.send then
        (Flag.sectEnd, { s1 with curr := Flag.sectEnd }, src1)
      else if c != f.sstart then encOption cfg s1 c src1 else encSection cfg s1 src1

/-! ### `mpt_parse_format_sep` -/
inductive SepExit where
  | sect (s : St)      -- `curr == fmt->send`: name complete
  | brk (s : St)

/-- loop body of the name loop for the current character (already saved) -/
def sepBody (f : Format) (s : St) (c : UInt8) : Step St SepExit :=
  if c == f.send then .done (.sect s)
  else if f.isComment c then .done (.brk s)
  else if !isspace c then .more s.markValid
  else if c == 10 then .done (.brk s)
  else .more s

def sepExit (cfg : Cfg) (e : SepExit) (src : Src) : Out :=
  match e with
  | .sect s =>
    let s1 := { s with curr := Flag.section_ ||| Flag.name }
    match s1.commit cfg.sect .BadType .BadOperation with
    | .error e => err e s1 src
    | .ok s2 => (Flag.section_, s2, src)
  | .brk s => err .BadValue { s with curr := Flag.section_ } src

/-- the name loop, entered with current character `c` -/
def sepName (cfg : Cfg) (s : St) (c : UInt8) (src : Src) : Out :=
  match sepBody cfg.fmt s c with
  | .done e => sepExit cfg e src
  | .more s1 =>
    let r := scan (fun s c => sepBody cfg.fmt (s.save c) c) (fun s => SepExit.brk s) src s1
    sepExit cfg r.1 r.2

/-- first character of a section name: `fmt->sstart` itself when start and end are the same
    character, otherwise the next character of the input (saved) -/
def sepFirst (cfg : Cfg) (s : St) (src : Src) : Out :=
  let f := cfg.fmt
  if f.send != f.sstart then
    match getc src with
    | (none, src1) => err (if cfg.eof == -2 then .MissingData else .BadArgument) s src1
    | (some c, src1) => sepName cfg (s.save c) c src1
  else sepName cfg s f.sstart src

/-- `mpt_parse_format_sep` -/
def parseFormatSep (cfg : Cfg) (prev : Nat) (s : St) (src : Src) : Out :=
  let f := cfg.fmt
  if prev &&& 0xf == Flag.sectEnd then sepFirst cfg { s with curr := Flag.section_ } src
  else
    match nextvis f s src with
    | (none, s1, src1) =>
      if cfg.eof == -2 then (0, s1, src1) else err .BadArgument { s1 with curr := Flag.name } src1
    | (some c, s1, src1) =>
      if c != f.sstart then
        if c != f.ostart then
          parseOption cfg ({ s1 with curr := Flag.name, path := s1.path.addchar c }).markValid src1
        else parseOption cfg s1 src1
      else if !s1.path.elems.isEmpty then (Flag.sectEnd, { s1 with curr := Flag.sectEnd }, src1)
      else sepFirst cfg { s1 with curr := Flag.section_ } src1

/-! ### `mpt_parse_next_fcn`, `mpt_parse_config` -/
inductive Kind where
  | pre | enc | sep | opt
  deriving Repr, DecidableEq, Inhabited

/-- `mpt_parse_next_fcn` -/
def Kind.ofType (t : UInt8) : Option Kind :=
  if t == 95 then some .opt else if t == 120 then some .enc else if t == 32 then some .sep
  else if t == 42 then some .pre else none

def next (k : Kind) (cfg : Cfg) (prev : Nat) (s : St) (src : Src) : Out :=
  match k with
  | .pre => parseFormatPre cfg s src
  | .enc => parseFormatEnc cfg prev s src
  | .sep => parseFormatSep cfg prev s src
  | .opt => parseOption cfg s src

open Events in
/-- the event the handler is called with -/
def mkEvent (ret : Int) (s : St) : Event :=
  let p := s.path.elems
  let v := s.name
  if ret == 1 then .sect p
  else if ret == 2 then .end_ p
  else if ret == 3 then .opt p none
  else if ret == 7 then .opt p (some v)
  else .data p v

end Mpt.Parse
