/-
  M: implementation model of the text argument iterator mptcore/meta/iterator_string.c
  (`mpt_iterator_string(val, sep)`) for numeric element conversion (`mpt_value_convert(value(), t, …)`,
  `t` = 'd' or 'u').

  The C object keeps the text in one buffer and marks the end of a converted element by storing a NUL at
  `restore` (the overwritten character is kept in `save`).  The model keeps the text unpatched and records
  the patch position; positions are offsets into the text.
-/
import MptModel.Impl.Iter
namespace Mpt.Iter

structure StrIt where
  sep : List Char
  text : List Char
  pos : Option Nat        -- `it->val` (none = NULL)
  endNull : Bool          -- `it->end == NULL`
  restore : Option Nat    -- `it->restore`
  patched : Bool          -- a NUL is currently stored at `restore`
  deriving Repr, DecidableEq

/-- result of converting the current element -/
inductive ConvRes (α : Type) where
  | err (e : Err)
  | ok (v : α)
  deriving Repr, DecidableEq

namespace StrIt

/-- `mpt_iterator_string(val, sep)`; `val = none` models NULL (then the separators are dropped too) -/
def create (val : Option (List Char)) (sep : Option (List Char)) : StrIt :=
  match val with
  | none => { sep := [], text := [], pos := some 0, endNull := false, restore := none, patched := false }
  | some v => { sep := sep.getD " ,;/:".toList, text := v, pos := some 0, endNull := false,
                restore := none, patched := false }

/-- `parseValue`: NULL after the last element -/
def hasValue (s : StrIt) : Bool := s.pos.isSome

/-- `parseConvertElement(conv, t, dest)` for a number type scanned by `scan` (`mpt_cdouble`, `mpt_cuint32`):
    `mpt_convert_string` skips white space first; nothing converted is MissingData -/
def convWith {α : Type} (scan : List Char → Scan α) (s : StrIt) : StrIt × ConvRes α :=
  match s.pos with
  | none => (s, .err .MissingData)
  | some p =>
    let txt := s.text.drop p
    if txt.isEmpty then ({ s with restore := none, patched := false }, .err .MissingData)
    else
      match scan (dropSpace txt) with
      | .err e => ({ s with patched := false }, .err e)
      | .zero => ({ s with patched := false }, .err .MissingData)
      | .ok v rest =>
        let r := p + (txt.length - rest.length)
        if s.text.length ≤ r then ({ s with restore := none, patched := false }, .ok v)
        else ({ s with restore := some r, patched := true }, .ok v)

/-- length of the leading white space -/
def spaceLen : List Char → Nat
  | [] => 0
  | c :: cs => if isSpace c then spaceLen cs + 1 else 0

/-- length of the leading run of non-space characters -/
def wordLen : List Char → Nat
  | [] => 0
  | c :: cs => if isSpace c then 0 else wordLen cs + 1

/-- `parseConvertElement(conv, vector of char, dest)`: the next word (with the white space in front of it);
    the word ends at white space or at the end of the text (fix in /repo) -/
def word (s : StrIt) : StrIt × ConvRes (List Char) :=
  match s.pos with
  | none => (s, .err .MissingData)
  | some p =>
    let txt := s.text.drop p
    if txt.isEmpty then ({ s with restore := none, patched := false }, .err .MissingData)
    else
      let n := spaceLen txt + wordLen (txt.drop (spaceLen txt))
      let r := p + n
      if s.text.length ≤ r then ({ s with restore := none, patched := false }, .ok (txt.take n))
      else ({ s with restore := some r, patched := true }, .ok (txt.take n))

/-- body loop of `mpt_convert_key` with a separator set: (length of the key, characters consumed) -/
def keyBody (sep : List Char) (spaceEnds : Bool) : List Char → Nat → Nat → Nat × Nat
  | [], e, len => (len, e)
  | c :: cs, e, len =>
    if isSpace c then (if spaceEnds then (len, e) else keyBody sep spaceEnds cs (e + 1) len)
    else if sep.contains c then (len, e + 1)
    else keyBody sep spaceEnds cs (e + 1) (e + 1)

/-- `mpt_convert_key(&txt, sep, &klen)`: offset and length of the key, `none` = NULL (nothing there) -/
def keyScan (sep : List Char) (txt : List Char) : Option (Nat × Nat) :=
  let k := spaceLen txt
  let body := txt.drop k
  if sep.isEmpty then
    (if wordLen body = 0 then none else some (k, wordLen body))
  else
    let r := keyBody sep (sep.any isSpace) body 0 0
    if r.2 = 0 then none else some (k, r.1)

/-- `parseConvertElement(conv, 'k', dest)`: the next key; the element ends behind the key (fix in /repo) -/
def key (s : StrIt) : StrIt × ConvRes (List Char) :=
  match s.pos with
  | none => (s, .err .MissingData)
  | some p =>
    let txt := s.text.drop p
    if txt.isEmpty then ({ s with restore := none, patched := false }, .err .MissingData)
    else
      match keyScan s.sep txt with
      | none => ({ s with restore := none, patched := false }, .err .BadValue)
      | some (k, n) =>
        let r := p + k + n
        if s.text.length ≤ r then ({ s with restore := none, patched := false }, .ok ((txt.drop k).take n))
        else ({ s with restore := some r, patched := true }, .ok ((txt.drop k).take n))

/-- `parseConvertElement(conv, 's', dest)`: the remaining text behind its white space (`none` = a NULL string
    for an empty rest); the element keeps no end mark -/
def rest (s : StrIt) : StrIt × ConvRes (Option (List Char)) :=
  match s.pos with
  | none => (s, .err .MissingData)
  | some p =>
    let txt := s.text.drop p
    if txt.isEmpty then ({ s with restore := none, patched := false }, .ok none)
    else ({ s with restore := none, patched := false }, .ok (some (dropSpace txt)))

/-- conversion to `double` -/
def conv (s : StrIt) : StrIt × ConvRes Rat := convWith cdouble s

/-- `parseAdvance` -/
def advance (s : StrIt) : StrIt × AdvRes :=
  if s.endNull then (s, .err .MissingData)
  else match s.pos with
    | none => ({ s with endNull := true }, .last)
    | some p =>
      if s.text.length - p = 0 then ({ s with pos := none, endNull := true }, .last)
      else match s.restore with
        | some r =>
          -- white space behind the last element is no further element (fix in /repo: a phantom element whose
          -- conversion reported MissingData used to follow)
          let sepSpace : Bool := match s.text[r]? with | some c => isSpace c | none => false
          if sepSpace = true ∧ (s.text.drop (r + 1)).all isSpace = true then
            ({ s with pos := none, restore := none, patched := false }, .last)
          else ({ s with pos := some (r + 1), restore := none, patched := false }, .more)
        | none => ({ s with pos := none }, .last)      -- no NUL inside the remaining text

/-- `parseReset` -/
def reset (s : StrIt) : StrIt × Int :=
  ({ s with pos := some 0, endNull := false, restore := none, patched := false }, 1)

/-- `parseClone`: a new iterator over a copy of the whole text (with the separators), then position, end
    mark and element mark (the stored NUL included) are transferred -/
def clone (s : StrIt) : StrIt :=
  let c := create (some s.text) (some s.sep)
  { c with pos := s.pos, endNull := s.endNull, restore := s.restore, patched := s.patched }

end StrIt
end Mpt.Iter
