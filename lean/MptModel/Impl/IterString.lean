/-
  M: implementation model of the text argument iterator mptcore/meta/iterator_string.c
  (`mpt_iterator_string(val, sep)`) for numeric element conversion (`mpt_value_convert(value(), 'd', …)`).

  The C object keeps the text in one buffer and marks the end of a converted element by storing a NUL at
  `restore` (the overwritten character is kept in `save`).  The model keeps the text unpatched and records
  the patch position; positions are offsets into the text.
-/
import MptModel.Impl.Iter
namespace Mpt.Iter

structure StrIt where
  sep : List Char
  text : List Char
  pos : Option Nat        -- `it->val` (none = NULL)
  endNull : Bool          -- `it->end == NULL`
  restore : Option Nat    -- `it->restore`
  patched : Bool          -- a NUL is currently stored at `restore`
  deriving Repr, DecidableEq

/-- result of converting the current element -/
inductive ConvRes where
  | none0                 -- the converter returned 0: "consumed", nothing was written
  | err (e : Err)
  | ok (v : Rat)
  deriving Repr, DecidableEq

namespace StrIt

/-- `mpt_iterator_string(val, sep)`; `val = none` models NULL (then the separators are dropped too) -/
def create (val : Option (List Char)) (sep : Option (List Char)) : StrIt :=
  match val with
  | none => { sep := [], text := [], pos := some 0, endNull := false, restore := none, patched := false }
  | some v => { sep := sep.getD " ,;/:".toList, text := v, pos := some 0, endNull := false,
                restore := none, patched := false }

/-- `parseConvertElement(conv, 'd', dest)` -/
def conv (s : StrIt) : StrIt × ConvRes :=
  match s.pos with
  | none => (s, .none0)
  | some p =>
    let txt := s.text.drop p
    if txt.isEmpty then ({ s with restore := none, patched := false }, .err .MissingData)
    else
      -- `mpt_convert_string`: skip white space, then `mpt_cdouble`
      match cdouble (dropSpace txt) with
      | .err e => ({ s with patched := false }, .err e)
      | .zero =>
        -- len = 0: the element is "terminated" at its own first character
        ({ s with restore := some p, patched := true }, .none0)
      | .ok v rest =>
        let r := p + (txt.length - rest.length)
        if s.text.length ≤ r then ({ s with restore := none, patched := false }, .ok v)
        else ({ s with restore := some r, patched := true }, .ok v)

/-- `parseAdvance` -/
def advance (s : StrIt) : StrIt × AdvRes :=
  if s.endNull then (s, .err .MissingData)
  else match s.pos with
    | none => ({ s with endNull := true }, .last)
    | some p =>
      if s.text.length - p = 0 then ({ s with pos := none, endNull := true }, .last)
      else match s.restore with
        | some r => ({ s with pos := some (r + 1), restore := none, patched := false }, .more)
        | none => ({ s with pos := none }, .last)      -- no NUL inside the remaining text

/-- `parseReset` (fix in /repo: the end position is set again) -/
def reset (s : StrIt) : StrIt × Int :=
  ({ s with pos := some 0, endNull := false, restore := none, patched := false }, 1)

/-- `parseClone`: a new iterator over the C string at `restore` (or at `val`) -/
def clone (s : StrIt) : StrIt :=
  match s.restore with
  | some r => create (some (if s.patched then [] else s.text.drop r)) (some s.sep)
  | none =>
    match s.pos with
    | some p => create (some (s.text.drop p)) (some s.sep)
    | none => create none (some s.sep)

end StrIt
end Mpt.Iter
