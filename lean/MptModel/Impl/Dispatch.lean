/-
  M: implementation model of the event dispatcher and its command table
     mptcore/event/{command_get,command_set,command_reserve,command_traits,dispatch_set,dispatch_emit,
                    dispatch_hash,dispatch_finit}.c, mptcore/misc/hash_djb2.c
  Mirrors the C control flow.  The command table is the element list `[0, _used / sizeof(command))` of the
  array buffer (`slots`) and its capacity in bytes (`cap`); the buffer always carries the command traits and the
  NoCopy flag (mpt_command_set and, since repair 4b10f2d, mpt_command_reserve create it that way).
  Handlers are harness functions: `cmd = some .user` with `arg` = registration number; invoking one appends
  to the log and answers what the oracle `HRes` of the current operation says.  `.logReply` is the library's
  placeholder handler of a freshly reserved slot.
  Also modelled: the built-in `unknownEvent` fallback of dispatch_finit.c, release of the table through the
  content traits (command_traits.c), and `set_default`/`set_error` of the C++ class in mpt++/event.cpp.
  Not modelled: the fallback reply context `_ctx` (always NULL here), fragmented messages, allocation failure.
-/
import MptModel.Spec.Dispatch
import MptModel.Impl.Message
namespace Mpt.Dispatch

inductive Hnd where
  | user       -- harness handler; the slot's `arg` is the registration number
  | logReply   -- `log_reply` of command_reserve.c
  deriving DecidableEq, Repr, Inhabited

/-- `struct command { uintptr_t id; int (*cmd)(); void *arg; }` -/
structure Slot where
  id  : Id
  cmd : Option Hnd
  arg : Nat
  deriving DecidableEq, Repr, Inhabited

structure Table where
  slots : List Slot
  cap   : Nat
  deriving DecidableEq, Repr, Inhabited

/-- `struct dispatch` (without `_ctx`) -/
structure Disp where
  tab  : Option Table     -- `_d._buf`
  dflt : Id               -- `_def`
  err  : Option Nat       -- `_err`: harness fallback with this registration number, or none
  bi   : Bool             -- `_err` is the library's `unknownEvent` (only with `err = none`)
  deriving DecidableEq, Repr, Inhabited

def Slot.live (s : Slot) : Bool := s.cmd.isSome

/- ---------- buffer sizes (buffer_alloc.c; internals only) ---------- -/
def slotSize : Nat := 24
/-- `_mpt_buffer_alloc(len)`: usable size of a new buffer (header 64 bytes, granularity 128) -/
def allocSize (len : Nat) : Nat := ((len + 64 - 1) / 128 + 1) * 128 - 64
/-- capacity after `detach(buf, want)` of an unshared buffer -/
def detachCap (t : Table) (want : Nat) : Nat :=
  let want := if want % slotSize ≠ 0 then want + (slotSize - want % slotSize) else want
  if want ≤ t.cap then t.cap else allocSize want

/- ---------- command_get.c ---------- -/
/-- `mpt_command_find(base, elem, id)`: index of the first active element with this id -/
def commandFind (slots : List Slot) (id : Id) : Option Nat :=
  slots.findIdx? fun s => s.live && id == s.id
/-- `mpt_command_empty(base, elem)`: index of the first unused element -/
def commandEmpty (slots : List Slot) : Option Nat :=
  slots.findIdx? fun s => !s.live

/-- `mpt_command_get(arr, id)`: index and content of the matching element -/
def commandGet (tab : Option Table) (id : Id) : Option (Nat × Slot) :=
  match tab with
  | none => none
  | some t =>
    match commandFind t.slots id with
    | none => none
    | some i =>
      match t.slots[i]? with
      | some s => some (i, s)
      | none => none

/-- `cmd(arg, NULL)`: the end-of-life call of an element -/
def finalise (s : Slot) : List LogE :=
  match s.cmd with
  | some .user => [.fin s.arg]
  | _ => []

/-- `mpt_command_clear(arr)`: every active element is finalised, `_used = 0` -/
def commandClear (tab : Option Table) : Option Table × List LogE :=
  match tab with
  | none => (none, [])
  | some t => (some { t with slots := [] }, (t.slots.map finalise).flatten)

/- ---------- command_set.c ---------- -/
/-- `mpt_command_set(arr, id, cmd, arg)` -/
def commandSet (tab : Option Table) (id : Id) (cmd : Option Hnd) (arg : Nat) : Option Table × Int × List LogE :=
  match commandGet tab id, tab with
  | some (i, old), some t =>
    -- replace/delete command
    (some { t with slots := t.slots.set i { old with cmd := cmd, arg := arg } }, if cmd.isSome then 0 else 2, finalise old)
  | some _, none => (tab, Err.BadOperation.code, [])
  | none, none =>
    -- new typed buffer (BufferNoCopy, command traits) with one element
    (some { slots := [⟨id, cmd, arg⟩], cap := allocSize slotSize }, 1, [])
  | none, some t =>
    match (if t.slots.length ≠ 0 then commandEmpty t.slots else none) with
    | some i =>
      -- place in empty area
      (some { t with slots := t.slots.set i ⟨id, cmd, arg⟩ }, 0, [])
    | none =>
      -- append command data: mpt_array_insert(arr, _used, sizeof(*dest))
      let used := t.slots.length * slotSize
      let cap := if used + slotSize ≤ t.cap then t.cap else detachCap t (used + slotSize)
      (some { t with slots := t.slots ++ [⟨id, cmd, arg⟩], cap := cap }, 1, [])

/- ---------- dispatch_set.c ---------- -/
/-- `mpt_dispatch_set(disp, id, cmd, arg)` -/
def dispatchSet (d : Disp) (id : Id) (cmd : Option Hnd) (arg : Nat) : Disp × Int × List LogE :=
  match cmd with
  | none =>
    -- clear registration
    match commandGet d.tab id with
    | none => (d, Err.BadArgument.code, [])
    | some (i, s) =>
      -- `cmd = 0, arg = 0`, then the end-of-life call (detached first since acffd38); the position is returned
      ({ d with tab := d.tab.map fun t => { t with slots := t.slots.set i { s with cmd := none, arg := 0 } } }, i, finalise s)
  | some c =>
    match commandGet d.tab id with
    | some _ => (d, Err.BadArgument.code, [])      -- id already used
    | none =>
      -- register command
      let r := commandSet d.tab id (some c) arg
      ({ d with tab := r.1 }, r.2.1, r.2.2)

/- ---------- dispatch_finit.c ---------- -/
/-- `_err.cmd(_err.arg, 0)` if a fallback is set -/
def errFin (err : Option Nat) : List LogE :=
  match err with
  | some r => [.fin r]
  | none => []

/-- `mpt_dispatch_fini(disp)` -/
def dispatchFini (d : Disp) : Disp × List LogE :=
  let c := commandClear d.tab
  -- the built-in fallback is "finalised" too (`unknownEvent(arg, 0)` does nothing)
  ({ tab := none, dflt := 0, err := none, bi := false }, c.2 ++ errFin d.err)

/- ---------- handler invocation ---------- -/
/-- result of `cmd(arg, ev)`: log, event id afterwards, returned value; `none` = undefined behaviour
    (`log_reply` reads the event as if it were a message) -/
def invoke (h : Hnd) (arg : Nat) (evid : Id) (res : HRes) : Option (List LogE × Id × Int) :=
  match h with
  | .user => some ([.call arg evid], if res.zero then 0 else evid, res.val)
  | .logReply => none

/- ---------- hash_djb2.c ---------- -/
/-- `mpt_hash_djb2(data, len)` with `len >= 0`: the `while (len--)` loop -/
def djb2Loop (hash : UInt64) : List Byte → UInt64
  | [] => hash
  | c :: rest => djb2Loop ((hash * 33) ^^^ signExt c) rest
def mptHash (bs : List Byte) : UInt64 := djb2Loop 5381 bs

/- ---------- message_argv.c on one contiguous part ---------- -/
/-- position of the first byte equal to `tok`, else the length (`nextChar`) -/
def nextChar (data : List Byte) (tok : Byte) : Nat :=
  match data.findIdx? (· == tok) with
  | some i => i
  | none => data.length

/-- token set `"\t \n\r\v"` of the argument tokenizer (form feed is white space for `isspace` but no token) -/
def isTokWs (c : Byte) : Bool := c == 0x09 || c == 0x20 || c == 0x0a || c == 0x0d || c == 0x0b
/-- escape set `"'\""` -/
def isQuote (c : Byte) : Bool := c == 0x27 || c == 0x22

/-- `mpt_memtok(&part, 1, "\t \n\r\v", NULL, "'\"")` on one part: position of the first token byte outside quotes
    (`m` = open quote character or 0, `prev` = previous byte, a backslash keeps the quote open); `none` = -2 -/
def memtokGo : List Byte → Nat → Byte → Byte → Option Nat
  | [], _, _, _ => none
  | c :: rest, pos, m, prev =>
    if m ≠ 0 then memtokGo rest (pos + 1) (if c == m && prev != 0x5c then 0 else m) c
    else if isQuote c then memtokGo rest (pos + 1) c prev
    else if isTokWs c then some pos
    else memtokGo rest (pos + 1) 0 c
def memtok (data : List Byte) : Option Nat := memtokGo data 0 0 0x20

/-- length of the first argument for white-space separation: "find space character not in escapes",
    else "check for termination" with `sep = 0` -/
def argWs (data : List Byte) : Nat :=
  match memtok data with
  | some p => p
  | none => nextChar data 0

/-- `mpt_message_argv(msg, sep)` on one contiguous part: the message data afterwards (leading white space consumed
    for `sep ≠ 0`) and the returned length; `none` = MissingData (no data) -/
def messageArgv (data : List Byte) (sep : Byte) : Option (List Byte × Nat) :=
  if data.isEmpty then none
  else if sep = 0 then some (data, nextChar data 0)
  else
    -- trim leading whitespace: position of the first non-space byte, unchanged if there is none
    let data1 := match data.findIdx? (fun c => !isSpace c) with
      | some p => data.drop p
      | none => data
    if isGraph sep then some (data1, nextChar data1 sep)
    else some (data1, argWs data1)

/- ---------- dispatch_hash.c ---------- -/
/-- the id computed by `mpt_dispatch_hash` for a message; `.fail` = one of the `MPT_event_fail` exits before any
    handler is looked up -/
inductive HashId where
  | id (v : Id)
  | fail
  deriving DecidableEq, Repr

def hashId (msg : List Byte) : HashId :=
  match msg with
  | ty :: arg :: payload =>
    let sep : Byte := if ty = msgCommand then arg else 0
    match messageArgv payload sep with
    | none => .fail                          -- unable to get text command
    | some (base, len) =>
      if len = 0 then .fail
      else
        -- continuous data: drop a terminating zero that was counted
        let len := if sep = 0 ∧ base[len - 1]? = some 0 then len - 1 else len
        .id (mptHash (base.take len))
  | _ => .fail                                 -- missing message header / type

/-- `unknownEvent(arg, ev)` of dispatch_finit.c with an event: the returned flags and the event id afterwards -/
def unknownEvent (evid : Id) (msg : Option (List Byte)) : Int × Id :=
  if evid != 0 then (3, 0)                       -- bad event id: `ev->id = 0`, Default | Fail
  else match msg with
    | none => (3, evid)                          -- bad default event: Default | Fail
    | some [] => (0, evid)                       -- empty message
    | some (_ :: _) => (2, evid)                 -- bad message type: Fail

/-- `mpt_dispatch_hash` from "execute matching command" on (`hid` = the id computed from the message, `msg` = the
    flattened message): the outcome and the event id left in the event.  Every `MPT_event_fail` exit answers
    `Fail|Default` and clears the event id. -/
def hashExec (d : Disp) (hid : HashId) (msg : List Byte) (res : HRes) : Out × Id :=
  match hid with
  | .fail => (⟨.val failDefault, []⟩, 0)
  | .id id =>
    match commandGet d.tab id with
    | some (_, s) =>
      -- execute matching command
      match s.cmd with
      | none => (⟨.fault, []⟩, id)
      | some h =>
        match invoke h s.arg id res with
        | none => (⟨.fault, []⟩, id)
        | some (log, evid', state) =>
          if state < 0 then (⟨.val failDefault, log⟩, 0)        -- failed to execute command
          else (⟨.val state, log⟩, evid')
    | none =>
      -- execute fallback command
      match d.err with
      | some r =>
        match invoke .user r id res with
        | none => (⟨.fault, []⟩, id)
        | some (log, evid', state) => (⟨.val state, log⟩, evid')
      | none =>
        if d.bi then (⟨.val (unknownEvent id (some msg)).1, []⟩, (unknownEvent id (some msg)).2)
        else (⟨.val failDefault, []⟩, 0)                        -- unable to find command

/-- `mpt_dispatch_hash(disp, ev)` with a contiguous message -/
def dispatchHash (d : Disp) (msg : List Byte) (res : HRes) : Out := (hashExec d (hashId msg) msg res).1

/-- message made of the given fragments -/
def msgOf : List (List Byte) → Msg
  | [] => ⟨[], []⟩
  | f :: fs => ⟨f, fs⟩

/-- the id `mpt_dispatch_hash` computes for a message given in fragments (`base` = first fragment, `cont` = the
    others): header through `mpt_message_read`, first argument through `mpt_message_argv` (both modelled in
    Impl/Message.lean), then the contiguous case (`msg.used >= len`) or the copy into a scratch buffer -/
def hashIdFrag (frags : List (List Byte)) : HashId :=
  let r := (msgOf frags).read 2
  if r.total < 2 then .fail                       -- missing message header / type
  else
    let ty := r.out[0]?.getD 0
    let arg := r.out[1]?.getD 0
    let sep : Byte := if ty = msgCommand then arg else 0
    match r.msg.argv sep with
    | (m2, .ok len) =>
      if len = 0 then .fail
      else if m2.base.length ≥ len then
        -- continous data
        let len := if sep = 0 ∧ m2.base[len - 1]? = some 0 then len - 1 else len
        .id (mptHash (m2.base.take len))
      else
        -- need aligned data (`buf[128]`, or a temporary block for larger texts: malloc does not fail in the model)
        let buf := (m2.read len).out
        let len := if sep = 0 ∧ buf[len - 1]? = some 0 then len - 1 else len
        .id (mptHash (buf.take len))
    | (_, _) => .fail                             -- unable to get text command

/-- `mpt_dispatch_hash(disp, ev)` with a message in fragments -/
def dispatchHashFrag (d : Disp) (frags : List (List Byte)) (res : HRes) : Out :=
  (hashExec d (hashIdFrag frags) frags.flatten res).1

/- ---------- dispatch_emit.c ---------- -/
/-- event as passed by the caller: `id` and the message bytes (contiguous) if any -/
structure Ev where
  id  : Id
  msg : Option (List Byte)
  deriving Repr, Inhabited

/-- `mpt_dispatch_emit` from "modify default command" on: the handler answered `state >= 0` and left `evid'` in the event -/
def emitFlags (d : Disp) (state : Int) (evid' : Id) (log : List LogE) : Disp × Out :=
  let f := state.toNat
  -- modify default command
  let d1 := if hasDefault f then { d with dflt := evid' } else d
  let f1 := if hasDefault f then clrDefault f else f
  -- propagate default call availability
  let f2 := if d1.dflt != 0 then setDefault f1 else f1
  (d1, ⟨.val (Int.ofNat f2), log⟩)

/-- `mpt_dispatch_hash(disp, ev)` called from inside a handler: outcome and event id afterwards -/
def nestedCall (d : Disp) (msg : Option (List Byte)) (res : HRes) : Out × Id :=
  match msg with
  | some m => hashExec d (hashId m) m res
  | none => (⟨.val failDefault, []⟩, 0)               -- missing message data

/-- a harness handler that dispatches the event's command text by hash instead of answering itself
    (`return mpt_dispatch_hash(disp, ev)`): its own invocation is logged, then whatever the nested call logs; event
    id and returned value are those of the nested call.  Without a message the nested call fails at once. -/
def invokeNested (d : Disp) (h : Hnd) (arg : Nat) (evid : Id) (msg : Option (List Byte)) (res : HRes) :
    Option (List LogE × Id × Int) :=
  match h with
  | .logReply => none
  | .user =>
    let inner := nestedCall d msg res
    match inner.1.ret with
    | .val v => some (.call arg evid :: inner.1.log, inner.2, v)
    | _ => none

/-- the tail of `mpt_dispatch_emit` once the command element (or none) is resolved -/
def emitResolved (d : Disp) (cmd : Option (Nat × Slot)) (evid : Id) (msg : Option (List Byte)) (nest : Bool) (res : HRes) : Disp × Out :=
  let tgt : Option (Hnd × Nat) :=
    match cmd with
    | some (_, s) => s.cmd.map fun h => (h, s.arg)
    | none => d.err.map fun r => (Hnd.user, r)
  match tgt with
  | none =>
    if d.bi then
      -- default handler for unknown ids
      let a := unknownEvent evid msg
      emitFlags d a.1 a.2 []
    else (d, ⟨.val Err.BadArgument.code, []⟩)          -- "unknown command"
  | some (h, arg) =>
    match (if nest then invokeNested d h arg evid msg res else invoke h arg evid res) with
    | none => (d, ⟨.fault, []⟩)
    | some (log, evid', state) =>
      if state < 0 then (d, ⟨.val state, log⟩)              -- bad execution of command
      else emitFlags d state evid' log

/-- `mpt_dispatch_emit(disp, ev)` -/
def dispatchEmit (d : Disp) (ev : Option Ev) (res : HRes) (nest : Bool := false) : Disp × Out :=
  match ev with
  | none =>
    -- execute default command
    if d.dflt = 0 then (d, ⟨.val 0, []⟩)
    else match commandGet d.tab d.dflt with
      | none => ({ d with dflt := 0 }, ⟨.val Err.BadValue.code, []⟩)   -- bad default command
      | some c => emitResolved d (some c) d.dflt none nest res
  | some e =>
    match e.msg with
    | none => emitResolved d (commandGet d.tab e.id) e.id none nest res
    | some bytes =>
      match bytes with
      | [] => (d, ⟨.val (-2), []⟩)
      | b :: _ => emitResolved d (commandGet d.tab b.toUInt64) b.toUInt64 (some bytes) nest res

/- ---------- command_reserve.c ---------- -/
/-- the `switch (max)` table, capped at INTPTR_MAX; 0 = refuse -/
def widthMax (w : Nat) : Nat :=
  match w with
  | 0 => 0
  | 1 => 127
  | 2 => 32767
  | 3 => 8388607
  | 4 => 2147483647
  | 5 => 549755813887
  | 6 => 140737488355327
  | 7 => 36028797018963967
  | _ => 9223372036854775807

/-- `while (++cmd < (base+i)) if (!cmd->cmd) break;` started with `cmd = c`: the resulting position -/
def nextFree (slots : List Slot) (c i : Nat) : Nat → Nat
  | 0 => c
  | fuel + 1 =>
    if c < i then
      match slots[c]? with
      | some s => if !s.live then c else nextFree slots (c + 1) i fuel
      | none => c
    else c

structure CompSt where
  slots : List Slot
  cmd   : Option Nat     -- smallest free position seen so far (`cmd`)
  used  : Nat
  mid   : Id
  deriving Repr, Inhabited

/-- one iteration of the compaction loop for index `i` -/
def compactStep (st : CompSt) (i : Nat) : CompSt :=
  match st.slots[i]? with
  | none => st
  | some bi =>
    -- find highest previous id
    let mid := if bi.id > st.mid then bi.id else st.mid
    if !bi.live then
      -- save available space
      { st with mid := mid, cmd := match st.cmd with | some c => some c | none => some i }
    else
      -- track number of active commands
      match st.cmd with
      | none => { st with mid := mid, used := st.used + 1 }     -- no smaller position available
      | some c =>
        -- move command entry, find smallest free position
        let slots := (st.slots.set c bi).set i { bi with cmd := none }
        { slots := slots, cmd := some (nextFree slots (c + 1) i (i - c)), used := st.used + 1, mid := mid }

def compactLoop (st : CompSt) (i : Nat) : Nat → CompSt
  | 0 => st
  | n + 1 => compactLoop (compactStep st i) (i + 1) n

/-- candidates `1 .. n` in order -/
def lowIds (n : Nat) : List Nat := (List.range n).map (· + 1)

/-- "try to find low free id": the first id in `1..max` not used by an active element.  The C loop runs up to
    `max`; among the first `used + 1` candidates one is always free, so the search is cut there. -/
def lowFreeId (slots : List Slot) (max : Nat) : Option Nat :=
  (lowIds (min max (slots.length + 1))).find? fun i => (commandFind slots (UInt64.ofNat i)).isNone

/-- `mpt_command_reserve(arr, max)`: the table afterwards and the index of the reserved element
    (its id is `slots[idx].id`, handler `log_reply`) or `none` = NULL.
    Models the code with the repairs 1ea9e6d (`mid >= max` instead of `++mid > max`) and 4b10f2d (the same typed
    buffer as `mpt_command_set`: created with the command traits, extended with `mpt_array_insert`). -/
def commandReserve (tab : Option Table) (w : Nat) : Option Table × Option Nat :=
  let max := widthMax w
  if max = 0 then (tab, none)
  else match tab with
  | none =>
    -- first use: eight zeroed elements, the first one gets id 1
    (some { slots := ⟨1, some .logReply, 1⟩ :: List.replicate 7 ⟨0, none, 0⟩, cap := allocSize (8 * slotSize) },
     some 0)
  | some t =>
    let st := compactLoop ⟨t.slots, none, 0, 0⟩ 0 t.slots.length
    -- save used size
    let slots := st.slots.take st.used
    let t1 := { t with slots := slots }
    -- try to find low free id
    let mid : Option Nat := if st.mid.toNat ≥ max then lowFreeId slots max else some (st.mid.toNat + 1)
    match mid with
    | none => (some t1, none)                       -- no unique message id available
    | some m =>
      -- add command slot: mpt_array_insert(arr, used, sizeof(*cmd))
      let used := slots.length * slotSize
      let cap := if used + slotSize ≤ t.cap then t.cap else detachCap t1 (used + slotSize)
      (some { t1 with slots := slots ++ [⟨UInt64.ofNat m, some .logReply, m⟩], cap := cap }, some slots.length)

/-- what the caller does with a reserved element: "set control handler of returned element to activate" -/
def activate (tab : Option Table) (idx : Nat) (arg : Nat) : Option Table :=
  match tab with
  | none => none
  | some t =>
    match t.slots[idx]? with
    | some s => some { t with slots := t.slots.set idx { s with cmd := some .user, arg := arg } }
    | none => some t

/- ---------- command_traits.c, mpt++/event.cpp ---------- -/
/-- `mpt_array_clone(&disp->_d, 0)`: the buffer is released; its content traits (`_command_fini`) finalise every
    element of `[0, _used)` that has a handler -/
def arrayDrop (tab : Option Table) : List LogE :=
  match tab with
  | none => []
  | some t => (t.slots.map finalise).flatten

/-- `_command_init(ptr, src)` with `src` = the table element that holds registration `r`: copying an active command
    is refused (BadOperation); the code for "no such element" is 0 (an empty source is copied as zeros) -/
def traitsCopy (tab : Option Table) (r : Nat) : Int :=
  match tab with
  | none => 0
  | some t => if t.slots.any (fun s => s.live && s.arg == r) then Err.BadOperation.code else 0

/-- C++ `dispatch::set_default(id)` (after repair: the id must name a registered handler) -/
def setDefaultX (d : Disp) (id : Id) : Disp × Bool :=
  match commandGet d.tab id with
  | some _ => ({ d with dflt := id }, true)
  | none => (d, false)

/-- C++ `dispatch::set_error(cmd, arg)`: the old fallback is finalised, the new one installed -/
def setErrorX (d : Disp) (r : Nat) : Disp × List LogE :=
  ({ d with err := some r, bi := false }, errFin d.err)

/- ---------- histories ---------- -/
/-- dispatcher plus the harness' registration counter -/
structure St where
  d    : Disp
  next : Reg
  deriving Repr, Inhabited

/-- `mpt_dispatch_init` (fallback = the built-in `unknownEvent`); the harness may install its own fallback
    (registration 0) or remove it -/
def St.init (start : Start) : St :=
  { d := { tab := none, dflt := 0, err := if start = .fb then some 0 else none, bi := decide (start = .builtin) }, next := 1 }

def step (s : St) (op : Op) : St × Out :=
  match op with
  | .set id =>
    let r := dispatchSet s.d id (some .user) s.next
    ({ d := r.1, next := s.next + 1 }, ⟨.val r.2.1, r.2.2⟩)
  | .cset id =>
    let r := commandSet s.d.tab id (some .user) s.next
    ({ d := { s.d with tab := r.1 }, next := s.next + 1 }, ⟨.val r.2.1, r.2.2⟩)
  | .clear id =>
    let r := dispatchSet s.d id none 0
    ({ s with d := r.1 }, ⟨.val r.2.1, r.2.2⟩)
  | .clearAll =>
    let r := commandClear s.d.tab
    ({ s with d := { s.d with tab := r.1 } }, ⟨.val 0, r.2⟩)
  | .emitId id h =>
    let r := dispatchEmit s.d (some ⟨id, none⟩) h
    ({ s with d := r.1 }, r.2)
  | .emitMsg msg h =>
    let r := dispatchEmit s.d (some ⟨0, some msg⟩) h
    ({ s with d := r.1 }, r.2)
  | .emitCmd msg h =>
    let r := dispatchEmit s.d (some ⟨0, some msg⟩) h true
    ({ s with d := r.1 }, r.2)
  | .emitNone h =>
    let r := dispatchEmit s.d none h
    ({ s with d := r.1 }, r.2)
  | .hash msg h => (s, dispatchHash s.d msg h)
  | .hashFrag frags h => (s, dispatchHashFrag s.d frags h)
  | .hashNone => (s, (nestedCall s.d none ⟨0, false⟩).1)      -- `mpt_dispatch_hash` with `ev->msg = NULL`: "missing message data"
  | .reserve w =>
    let r := commandReserve s.d.tab w
    match r.2 with
    | none => ({ d := { s.d with tab := r.1 }, next := s.next + 1 }, ⟨.null, []⟩)
    | some idx =>
      let id : Id := match r.1 with
        | some t => (t.slots[idx]?.map (·.id)).getD 0
        | none => 0
      ({ d := { s.d with tab := activate r.1 idx s.next }, next := s.next + 1 }, ⟨.val id.toNat, []⟩)
  | .fini =>
    let r := dispatchFini s.d
    ({ s with d := r.1 }, ⟨.val 0, r.2⟩)
  | .drop => ({ s with d := { s.d with tab := none } }, ⟨.val 0, arrayDrop s.d.tab⟩)
  | .tcopy r => (s, ⟨.val (traitsCopy s.d.tab r), []⟩)
  | .setDefault id =>
    let r := setDefaultX s.d id
    ({ s with d := r.1 }, ⟨.val (if r.2 then 1 else -1), []⟩)
  | .setError =>
    let r := setErrorX s.d s.next
    ({ d := r.1, next := s.next + 1 }, ⟨.val 0, r.2⟩)

/-- state after a history and the outcomes it produced -/
def runFrom (s : St) : List Op → St × List (Op × Out)
  | [] => (s, [])
  | op :: rest =>
    let r := step s op
    let q := runFrom r.1 rest
    (q.1, (op, r.2) :: q.2)

def run (start : Start) (ops : List Op) : St × List (Op × Out) := runFrom (St.init start) ops

/-- live registrations of the table: `(id, registration)` of every active element, in table order -/
def liveList (tab : Option Table) : List (Id × Reg) :=
  match tab with
  | none => []
  | some t => (t.slots.filter (·.live)).map fun s => (s.id, s.arg)

end Mpt.Dispatch
