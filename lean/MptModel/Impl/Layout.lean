/-
  M for C20: the layout object setters/getters of mptplot/layout/*_property.c, driven by text values
  through `mpt_object_set_string` (mptcore/object/object_set_string.c: `iterConv`), with the text
  conversions of mptcore/convert (`mpt_convert_string`, `mpt_convert_number`, `_mpt_convert_[u]int`,
  `mpt_cfloat/cdouble`), the colour parsers (color_parse.c, color_html.c), the line attribute setters
  (lattr_set.c), `mpt_fpoint_set` through the string iterator, `mpt_string_set/pset` and
  `mpt_property_match`.

  The per-kind tables (struct fields with defaults, the `elem[]` table of every `mpt_*_get`, the
  `strcmp` chain of every `mpt_*_set` with the shape of each handler) are NOT written here: they are
  regenerated from the C sources into `MptModel/Generated/LayoutTables.lean` on every run
  (translate/layout_extract.py).  This file only defines the table vocabulary and its interpreter.

  Core Lean only (linked into mm_layout).
-/
import MptModel.Basic

namespace Mpt.Layout

abbrev Str := List Byte

def str (s : String) : Str := s.toUTF8.toList

/-! ### ctype.h in the C locale -/
def isSpace (b : Byte) : Bool := b == 32 || (9 ≤ b && b ≤ 13)
def isGraph (b : Byte) : Bool := 33 ≤ b && b ≤ 126
def lower (b : Byte) : Byte := if 65 ≤ b && b ≤ 90 then b + 32 else b

def skipSpaces : Str → Str
  | [] => []
  | b :: r => if isSpace b then skipSpaces r else b :: r

/-- `strcasecmp(a, b) == 0` -/
def eqNoCase (a b : Str) : Bool := a.map lower == b.map lower
/-- `strncasecmp(a, b, n) == 0`: the first `n` characters agree (a string that ends earlier must end
    in both) -/
def eqNoCaseN (a b : Str) (n : Nat) : Bool := (a.take n).map lower == (b.take n).map lower

/-! ### values -/

/-- an exactly represented binary floating point number `m * 2^e` (`m` odd, or `m = e = 0`) -/
structure Fl where
  m : Int
  e : Int
  deriving Repr, DecidableEq, Inhabited

/-- strip factors of two (bounded by `fuel`) -/
def normAux : Nat → Int → Int → Fl
  | 0, m, e => ⟨m, e⟩
  | fuel + 1, m, e => if m % 2 == 0 then normAux fuel (m / 2) (e + 1) else ⟨m, e⟩

def Fl.norm (m e : Int) : Fl := if m == 0 then ⟨0, 0⟩ else normAux (m.natAbs + 1) m e

/-- `a < b` for exact values -/
def Fl.lt (a b : Fl) : Bool :=
  let e := min a.e b.e
  a.m * (2 : Int) ^ (a.e - e).toNat < b.m * (2 : Int) ^ (b.e - e).toNat

/-- `struct color` (layout.h) -/
structure Color where
  r : Nat
  g : Nat
  b : Nat
  a : Nat
  deriving Repr, DecidableEq, Inhabited

/-- a property/field value -/
inductive Val where
  | str (s : Option Str)    -- `char *` (none = NULL)
  | int (n : Int)           -- uint8_t, int16_t, uint32_t
  | chr (c : Nat)           -- char, printed as unsigned byte
  | flt (f : Fl)            -- float, double
  | col (c : Color)
  | pt (x y : Fl)           -- struct fpoint (only as a property value, fields hold the coordinates)
  deriving Repr, DecidableEq, Inhabited

/-! ### result of `convertable::convert` on the text source -/
inductive Conv (α : Type) where
  | val (x : α) (used : Nat)  -- value stored, positive return
  | none                      -- return 0: no value, nothing stored
  | err (e : Err)             -- negative return, nothing stored
  | unsup                     -- outside the modelled grammar (hex floats, inf/nan, inexact decimals)
  deriving Repr, DecidableEq

/-! ### strtoimax / strtoumax (glibc grammar) -/

def digitVal (b : Byte) : Option Nat :=
  if 48 ≤ b && b ≤ 57 then some (b.toNat - 48)
  else if 97 ≤ b && b ≤ 122 then some (b.toNat - 87)
  else if 65 ≤ b && b ≤ 90 then some (b.toNat - 55)
  else Option.none

/-- digits valid in `base`: (value, number of digits) -/
def digitsAux (base : Nat) : Str → Nat → Nat → Nat × Nat
  | [], acc, cnt => (acc, cnt)
  | b :: r, acc, cnt =>
    match digitVal b with
    | some d => if d < base then digitsAux base r (acc * base + d) (cnt + 1) else (acc, cnt)
    | Option.none => (acc, cnt)

def digits (base : Nat) (s : Str) : Nat × Nat := digitsAux base s 0 0

def isHexX (b : Byte) : Bool := b == 120 || b == 88

/-- magnitude after the sign: (value, characters used) or none = no conversion; `base` 0 or 16 -/
def strtoMag (base : Nat) (s : Str) : Option (Nat × Nat) :=
  match s with
  | 48 :: x :: r =>
    if isHexX x then
      let (v, c) := digits 16 r
      if c > 0 then some (v, c + 2) else some (0, 1)
    else
      let (v, c) := digits (if base == 0 then 8 else base) s
      some (v, c)
  | _ =>
    let (v, c) := digits (if base == 0 then (if s.head? == some 48 then 8 else 10) else base) s
    if c > 0 then some (v, c) else Option.none

/-- sign handling: (negative, rest, sign characters) -/
def takeSign (s : Str) : Bool × Str × Nat :=
  match s with
  | 45 :: r => (true, r, 1)
  | 43 :: r => (false, r, 1)
  | _ => (false, s, 0)

/-- `_mpt_convert_uint(val, vlen, src, base)` with the width as upper bound `hi`; `s` starts at `src` -/
def convUint (base : Nat) (hi : Nat) (s : Str) : Conv Int :=
  if s.isEmpty then .none else
  let t := skipSpaces s
  let sp := s.length - t.length
  let (neg, u, sg) := takeSign t
  match strtoMag base u with
  | Option.none => if t.isEmpty then .none else .err .BadType
  | some (v, c) =>
    if v > 18446744073709551615 then .err .BadValue
    else if neg then .err .BadValue
    else if v > hi then .err .BadValue
    else .val v (sp + sg + c)

/-- `_mpt_convert_int` with bounds `lo..hi` -/
def convSint (base : Nat) (lo hi : Int) (s : Str) : Conv Int :=
  if s.isEmpty then .none else
  let t := skipSpaces s
  let sp := s.length - t.length
  let (neg, u, sg) := takeSign t
  match strtoMag base u with
  | Option.none => if t.isEmpty then .none else .err .BadType
  | some (v, c) =>
    let x : Int := if neg then - (v : Int) else v
    if x > 9223372036854775807 ∨ x < -9223372036854775808 then .err .BadValue
    else if x < lo ∨ x > hi then .err .BadValue
    else .val x (sp + sg + c)

/-! ### strtof / strtod restricted to exactly representable decimal numerals -/

def decDigitsAux : Str → Nat → Nat → Nat × Nat
  | [], acc, cnt => (acc, cnt)
  | b :: r, acc, cnt => if 48 ≤ b && b ≤ 57 then decDigitsAux r (acc * 10 + (b.toNat - 48)) (cnt + 1) else (acc, cnt)

def decDigits (s : Str) : Nat × Nat := decDigitsAux s 0 0

def isExpE (b : Byte) : Bool := b == 101 || b == 69

/-- decimal exponent part `e[+-]digits` at the start of `s`: (exponent, characters used); (0,0) if absent -/
def decExp (s : Str) : Int × Nat :=
  match s with
  | c :: r =>
    if isExpE c then
      let (neg, u, sg) := takeSign r
      let (v, n) := decDigits u
      if n > 0 then ((if neg then - (v : Int) else v), 1 + sg + n) else (0, 0)
    else (0, 0)
  | [] => (0, 0)

/-- decimal numeral at the start of `s` (after blanks and sign): (mantissa, decimal exponent, used) -/
def decNumeral (s : Str) : Option (Nat × Int × Nat) :=
  let (ip, ni) := decDigits s
  let r1 := s.drop ni
  match r1 with
  | 46 :: r2 =>
    let (_, nf) := decDigits r2
    if ni + nf = 0 then Option.none
    else
      let (all, _) := decDigitsAux (r2.take nf) ip ni
      let (ex, ne) := decExp (r2.drop nf)
      some (all, ex - nf, ni + 1 + nf + ne)
  | _ =>
    if ni = 0 then Option.none
    else
      let (ex, ne) := decExp r1
      some (ip, ex, ni + ne)

def pow5 (k : Nat) : Nat := 5 ^ k

/-- position of the highest set bit of `n > 0` (0-based), bounded search -/
def log2Aux : Nat → Nat → Nat → Nat
  | 0, _, acc => acc
  | fuel + 1, n, acc => if n ≤ 1 then acc else log2Aux fuel (n / 2) (acc + 1)
def log2 (n : Nat) : Nat := log2Aux (n + 1) n 0

/-- text starts (case-insensitively) with one of the special strtod forms that are not modelled -/
def fltUnsupPrefix (s : Str) : Bool :=
  match s with
  | c :: r =>
    let l := lower c
    l == 105 || l == 110 || (c == 48 && (match r with | x :: _ => isHexX x | [] => false))
  | [] => false

/-- `mpt_cfloat` (`prec` = 24, `emax` = 128) / `mpt_cdouble` (53, 1024); `s` starts at `src` -/
def convFloat (prec : Nat) (emax : Int) (s : Str) : Conv Fl :=
  if s.isEmpty then .none else
  let t := skipSpaces s
  let sp := s.length - t.length
  let (neg, u, sg) := takeSign t
  if fltUnsupPrefix u then .unsup else
  match decNumeral u with
  | Option.none => if t.isEmpty then .none else .err .BadType
  | some (mant, dexp, used) =>
    if mant = 0 then .val ⟨0, 0⟩ (sp + sg + used)
    else if dexp > 400 then .err .BadValue      -- beyond every binary format
    else if dexp < -400 then .unsup
    else
      let exact : Option Fl :=
        if dexp ≥ 0 then some (Fl.norm (mant * 10 ^ dexp.toNat) 0)
        else
          let k := (-dexp).toNat
          if mant % pow5 k = 0 then some (Fl.norm (mant / pow5 k) (-(k : Int))) else Option.none
      match exact with
      | Option.none => .unsup
      | some f =>
        let top : Int := (log2 f.m.natAbs : Int) + f.e
        if top ≥ emax then .err .BadValue
        else if f.m.natAbs ≥ 2 ^ prec ∨ top < -(emax - 2) then .unsup
        else .val ⟨if neg then -f.m else f.m, f.e⟩ (sp + sg + used)

/-- `mpt_convert_number(src, 'c', dest)` -/
def convChar (s : Str) : Conv Nat :=
  let t := skipSpaces s
  match t with
  | [] => .none
  | b :: _ => if isGraph b then .val b.toNat (s.length - t.length + 1) else .err .BadType

/-- type codes of the scalar conversions the setters ask for -/
def convScalar (ty : Char) (s : Str) : Conv Val :=
  let lift (c : Conv Int) : Conv Val :=
    match c with | .val x u => .val (.int x) u | .none => .none | .err e => .err e | .unsup => .unsup
  let liftF (c : Conv Fl) : Conv Val :=
    match c with | .val x u => .val (.flt x) u | .none => .none | .err e => .err e | .unsup => .unsup
  match ty with
  | 'y' => lift (convUint 0 255 s)
  | 'q' => lift (convUint 0 65535 s)
  | 'u' => lift (convUint 0 4294967295 s)
  | 'b' => lift (convSint 0 (-128) 127 s)
  | 'n' => lift (convSint 0 (-32768) 32767 s)
  | 'i' => lift (convSint 0 (-2147483648) 2147483647 s)
  | 'f' => liftF (convFloat 24 128 s)
  | 'd' => liftF (convFloat 53 1024 s)
  | 'c' => match convChar s with
    | .val x u => .val (.chr x) u | .none => .none | .err e => .err e | .unsup => .unsup
  | _ => .err .BadType

/-- `iterConv(type)` for a number/character target: `mpt_convert_string(val, type, dest)`;
    `v = none` is `val == NULL` -/
def convText (ty : Char) (v : Option Str) : Conv Val :=
  match v with
  | Option.none => .none
  | some s =>
    if s.isEmpty then .none
    else
      let t := skipSpaces s
      match convScalar ty t with
      | .val x u => .val x (s.length - t.length + u)
      | r => r

/-! ### colours: color_parse.c, color_html.c -/

/-- table entry of `mpt_color_parse` -/
structure NamedColor where
  name : Str
  col : Color
  deriving Repr, DecidableEq

/-- one `mpt_cuint8(&col[i], part, 0x10, 0)` on a two character part: some none = nothing stored -/
def htmlPart (c0 c1 : Byte) : Option (Option Nat) :=
  match convUint 16 255 [c0, c1] with
  | .val x _ => some (some x.toNat)
  | .none => some Option.none
  | _ => Option.none

/-- the loop of `mpt_color_html`: parts still allowed, text, collected components, characters used -/
def htmlLoop : Nat → Str → List Nat → Nat → Option (List Nat × Nat)
  | 0, _, acc, used => some (acc, used)
  | _ + 1, [], acc, used => some (acc, used + 1)       -- the terminator was read with `len++`
  | _ + 1, [_], _, _ => Option.none
  | n + 1, c0 :: c1 :: r, acc, used =>
    match htmlPart c0 c1 with
    | Option.none => Option.none
    | some p => htmlLoop n r (acc ++ [p.getD ([0, 0, 0, 255].getD acc.length 0)]) (used + 2)

/-- `mpt_color_html(color, txt)`: (colour, length) or none = negative return -/
def colorHtml (txt : Str) : Option (Color × Nat) :=
  match htmlLoop 4 txt [] 0 with
  | Option.none => Option.none
  | some (acc, used) =>
    some (⟨acc.getD 0 0, acc.getD 1 0, acc.getD 2 0, acc.getD 3 255⟩, used)

def colorByName (tab : List NamedColor) (txt : Str) : Option (Color × Nat) :=
  match tab with
  | [] => Option.none
  | e :: rest =>
    let len := e.name.length
    if eqNoCaseN e.name txt len && (match txt.drop len with | [] => true | c :: _ => isSpace c) then some (e.col, len)
    else colorByName rest txt

/-- `mpt_color_parse(color, txt)`: (colour, returned length) or none = negative return -/
def colorParse (tab : List NamedColor) (txt : Str) : Option (Color × Nat) :=
  match txt with
  | [] => some (⟨0, 0, 0, 255⟩, 0)
  | 35 :: r =>
    match colorHtml r with
    | Option.none => Option.none
    | some (c, len) => some (c, if len > 0 then len + 1 else len)
  | _ => colorByName tab txt

/-- lower-case hexadecimal digit as a character code -/
def hexByte (n : Nat) : Byte := if n < 10 then (48 + n).toUInt8 else (87 + n).toUInt8
def hex2 (n : Nat) : Str := [hexByte (n / 16 % 16), hexByte (n % 16)]

/-- text form of a colour as mpt++/color.cpp prints it: `#rrggbb`, `#rrggbbaa` when not opaque -/
def colorPrint (c : Color) : Str :=
  35 :: (hex2 c.r ++ hex2 c.g ++ hex2 c.b ++ (if c.a = 255 then [] else hex2 c.a))

/-! ### `mpt_property_match` -/

/-- result of a name lookup -/
inductive Match where
  | found (i : Nat)
  | ambiguous         -- BadType
  | missing           -- BadValue
  deriving Repr, DecidableEq

/-- some later name has the same first `mlen` characters -/
def laterMatch (m : Str) (mlen : Nat) : List Str → Bool
  | [] => false
  | c :: rest => eqNoCaseN m c mlen || laterMatch m mlen rest

/-- `mpt_property_match(match, mlen, sub, len)`; `mlen = none` is a negative length (full match) -/
def propertyMatch (m : Str) (mlen : Option Nat) : List Str → Nat → Match
  | [], _ => .missing
  | c :: rest, pos =>
    match mlen with
    | Option.none => if eqNoCase m c then .found pos else propertyMatch m mlen rest (pos + 1)
    | some n =>
      if eqNoCaseN m c n then
        if n ≤ c.length ∧ laterMatch m n rest then .ambiguous else .found pos
      else propertyMatch m mlen rest (pos + 1)

/-! ### table vocabulary (instances are generated from the C sources) -/

/-- C type of a struct member -/
inductive CTy where
  | str | f64 | f32 | i16 | u8 | u32 | chr | col
  deriving Repr, DecidableEq

/-- struct member (nested colour kept whole, `lineattr`/`fpoint` members flattened) with the value of the
    `def_<kind>` initialiser -/
structure Field where
  name : String
  ty : CTy
  dflt : Val
  deriving Repr, DecidableEq

/-- row of the `elem[]` table of `mpt_<kind>_get`: type code (character code, -1 colour, -2 point) and
    the index of the member the offset names -/
structure GetEntry where
  name : Str
  ty : Int
  field : Nat
  deriving Repr, DecidableEq

/-- shape of one handler of the `mpt_<kind>_set` chain -/
inductive Act where
  /-- `if (!src || !(len = convert(src, ty, &o->f))) { o->f = def.f; return 0; } return len < 0 ? len : 0;` -/
  | conv (ty : Char) (field : Nat)
  /-- `if (!src) { mpt_string_set(&o->f, 0, 0); return 0; } return mpt_string_pset(&o->f, src);` -/
  | string (field : Nat)
  /-- `[if (!src) { o->g = def.g; return 0; }] return mpt_color_pset(&o->f, src);`
      (`reset` = the member `g` the guard restores, none: no guard) -/
  | colour (field : Nat) (reset : Option Nat)
  /-- `[if (!src) { o->attr.g = def.attr.g; return 0; }] return mpt_lattr_<m>(&o->attr, src);`
      with `{default, min, max}` of lattr_set.c (`reset` = the member `g` the guard restores) -/
  | lattr (field : Nat) (dflt lo hi : Nat) (reset : Option Nat)
  /-- axis `setPosition(&o->f, src, def.f)` -/
  | axisPos (field : Nat)
  /-- line `setPosition(&o->f, src)` -/
  | linePos (field : Nat)
  /-- `static const range r = {lo, hi}; if (!src || !(len = mpt_fpoint_set(&o->f, src, &r))) {default}
      return len < 0 ? len : 0;` (`retLen`: `return len;`) -/
  | fpoint (field : Nat) (lo hi : Fl) (retLen : Bool)
  /-- axis `intervals`: count or the keyword `log` (flag `bit` of member `flags`); `clearNone`: the "no value"
      result of the count conversion clears the flag too (as the count and `NULL` do) -/
  | intervals (field flags : Nat) (bit : Nat) (clearNone : Bool)
  /-- graph `align`: number or up to four letters b/e/z -/
  | align (field : Nat)
  /-- graph `clip`: number or axis letters -/
  | clip (field : Nat)
  deriving Repr, DecidableEq

/-- one `if (!strcmp(name, ..) || !strcasecmp(name, ..)) {handler}` of the chain: names with
    "compared case-insensitively" -/
structure SetEntry where
  names : List (Str × Bool)
  act : Act
  deriving Repr, DecidableEq

/-- one conversion the setter tries when no name is given (`name == NULL`, type-directed assignment) -/
inductive AutoStep where
  | sibling             -- an object of the same kind: assigned like the sibling copy
  | own                 -- (line) a value of the kind's own struct type
  | string (field : Nat)   -- `mpt_string_pset` into a string member: takes any text
  | colour (field : Nat)   -- a value of the colour type
  | lattr               -- a value of the line attribute type
  deriving Repr, DecidableEq

/-- everything extracted for one object kind -/
structure Kind where
  name : String
  fields : List Field
  gets : List GetEntry
  /-- third argument of `mpt_property_match` in the getter (none = -1, full names only) -/
  matchLen : Option Nat
  /-- names the getter replaces by a listed name before the lookup (full comparison, case ignored) -/
  getAlias : List (Str × Str)
  /-- the conversions of the `name == NULL` block, in order -/
  auto : List AutoStep
  sets : List SetEntry
  /-- getter special: entry index whose value reads `log` while flag `bit` of member `flags` is set -/
  logAt : Option (Nat × Nat × Nat)
  /-- getter special: entry name shown through the alias table while the value is below its length -/
  clipAlias : Option (Str × List Str)
  /-- getter special: single-character names served from a second table (text `x`, `y`) -/
  single : List GetEntry
  /-- the sibling copy (`name = ""`) asks the source for this kind's own type -/
  copyOwnType : Bool
  /-- the sibling copy returns early when source and target are the same object -/
  selfGuard : Bool
  /-- string members `mpt_<kind>_init(obj, from)` duplicates with `strdup` -/
  dups : List Nat
  deriving Repr

/-! ### objects -/

/-- a layout object: member values; `toks[i]` names the heap block a string member owns (0 = none) -/
structure Obj where
  vals : List Val
  toks : List Nat
  deriving Repr, DecidableEq, Inhabited

def Kind.defaults (k : Kind) : Obj :=
  { vals := k.fields.map (·.dflt), toks := k.fields.map (fun _ => 0) }

def Obj.get (o : Obj) (i : Nat) : Val := o.vals.getD i (.int 0)
def Obj.put (o : Obj) (i : Nat) (v : Val) : Obj := { o with vals := o.vals.set i v }
def Kind.dflt (k : Kind) (i : Nat) : Val := (k.fields.map (·.dflt)).getD i (.int 0)

def Val.toInt : Val → Int
  | .int n => n | .chr c => c | _ => 0
def Val.toFl : Val → Fl
  | .flt f => f | _ => ⟨0, 0⟩

/-- value source handed to a setter -/
inductive Src where
  | null                      -- `src == NULL`
  | text (v : Option Str)     -- the convertable of `mpt_object_set_string` (none: `val == NULL`)
  | typed (ty : Char) (x : Val)   -- the convertable of `mpt_object_set_value`: a value of C type code `ty`
  deriving Repr, DecidableEq

/-- return code of a setter -/
inductive Ret where
  | ok (n : Nat)
  | err (e : Err)
  | unsup
  deriving Repr, DecidableEq

def Ret.isOk : Ret → Bool
  | .ok _ => true | _ => false

/-- outcome of a setter: the object afterwards (C mutates in place) and the return code -/
structure Out where
  obj : Obj
  ret : Ret
  deriving Repr, DecidableEq

/-- string member set from text: `mpt_string_pset` takes the character vector of the text,
    `mpt_string_set` frees for length 0 and (re)allocates otherwise; `tok` is the fresh block -/
def setString (o : Obj) (f : Nat) (v : Option Str) (tok : Nat) : Obj :=
  match v with
  | some (c :: r) => { vals := o.vals.set f (.str (some (c :: r))), toks := o.toks.set f tok }
  | _ => { vals := o.vals.set f (.str Option.none), toks := o.toks.set f 0 }

/-- `mpt_color_pset(col, src)` on text -/
def colourText (tab : List NamedColor) (v : Option Str) : Conv Color :=
  match v with
  | Option.none => .none
  | some [] => .none
  | some s =>
    match colorParse tab s with
    | some (c, n) => .val c n
    | Option.none => .err .BadValue

/-- `lattr_pset(val, src, {dflt, lo, hi})` on text: the new member value or the error -/
def lattrText (dflt lo hi : Nat) (v : Option Str) : Conv Int :=
  match convText 'y' v with
  | .none => .val dflt 0
  | .unsup => .unsup
  | .val (.int x) u => if x < lo ∨ x > hi then .err .BadValue else .val x u
  | .val _ _ => .unsup
  | .err _ =>
    match convText 'i' v with
    | .err e => .err e
    | .unsup => .unsup
    | .none => .val dflt 0
    | .val (.int t) u =>
      if t < 0 ∨ t > 255 then .err .BadValue
      else if t < lo ∨ t > hi then .err .BadValue else .val t u
    | .val _ _ => .unsup

/-- `inf`, `infinity`, `nan` (any case, optional sign, after blanks) at the start of a coordinate text: strtof
    accepts them; every range of the point properties excludes the value.  (sign negative, characters used) -/
def specialFloat (s : Str) : Option (Bool × Nat) :=
  let t := skipSpaces s
  let (neg, u, sg) := takeSign t
  let l := u.map lower
  let sp := s.length - t.length
  if l.take 8 == [105, 110, 102, 105, 110, 105, 116, 121] then some (neg, sp + sg + 8)
  else if l.take 3 == [105, 110, 102] then some (neg, sp + sg + 3)
  else if l.take 3 == [110, 97, 110] ∧ (l.drop 3).head? != some 40 then some (neg, sp + sg + 3)
  else Option.none

/-- a value outside every range used by the point properties -/
def Fl.outside (neg : Bool) : Fl := ⟨if neg then -1 else 1, 2000⟩

/-- one coordinate for `mpt_iterator_consume(it, 'f', ..)` on the string iterator: the element converter
    is `mpt_convert_string(it->val, 'f', ..)`, every failure surfaces as BadType (`mpt_value_convert`) -/
def coordText (s : Str) : Conv Fl :=
  match specialFloat s with
  | some (neg, used) => .val (Fl.outside neg) used
  | Option.none =>
  match convText 'f' (some s) with
  | .val (.flt x) u => .val x u
  | .val _ _ => .unsup
  | .none => .err .BadType   -- blank element: MissingData of the element, BadType of the value
  | .err _ => .err .BadType
  | .unsup => .unsup

/-- `mpt_fpoint_set(pt, src, &r)` on text: the point or the error; `none` = return 0 -/
def fpointText (lo hi : Fl) (v : Option Str) : Conv (Fl × Fl) :=
  match v with
  | Option.none => .none
  | some [] => .none
  | some s =>
    match coordText s with
    | .err e => .err e
    | .unsup => .unsup
    | .none => .err .BadType
    | .val x used =>
      -- iterator exhausted after the first value — the text ends there, or only white space follows an element that
      -- ended at white space (6f4fa3a): the second coordinate repeats the first (return 1)
      let tail := s.drop used
      let single : Bool := tail.isEmpty || ((match tail with | c :: _ => isSpace c | [] => false) && (skipSpaces tail).isEmpty)
      let second : Conv Fl :=
        if single then .val x 0
        else
          let rest := s.drop (used + 1)             -- one separator character is skipped
          if rest.isEmpty then .err .BadType        -- MissingData of the element, BadType of the value
          else coordText rest
      match second with
      | .err e => .err e
      | .unsup => .unsup
      | .none => .unsup
      | .val y _ =>
        if x.lt lo || y.lt lo || hi.lt x || hi.lt y then .err .BadValue else .val (x, y) (if single then 1 else 2)

/-- graph `align` letters: `n |= flag << (i-1)*2` after `i` was advanced (two bits per axis, at most four
    letters), truncated to 8 bits -/
def alignLetters : Str → Nat → Nat → Nat
  | [], _, n => n
  | c :: r, i, n =>
    if i ≥ 4 then n
    else
      let l := lower c
      let flag := if l == 98 then 1 else if l == 101 then 2 else if l == 122 then 3 else 0
      alignLetters r (i + 1) ((n ||| (flag <<< (i * 2))) % 256)

/-- graph `clip` letters -/
def clipLetters : Str → Nat → Nat
  | [], n => n
  | c :: r, n => clipLetters r (n ||| (if c == 120 then 1 else if c == 121 then 2 else if c == 122 then 4 else 8))

def clearBit (v : Int) (bit : Nat) : Int := (v.toNat &&& (255 - bit) : Nat)
def setBit (v : Int) (bit : Nat) : Int := (v.toNat ||| bit : Nat)
def hasBit (v : Int) (bit : Nat) : Bool := v.toNat &&& bit != 0

/-- `valueConvert` of object_set_value.c for a scalar target: a value of exactly the requested type is taken as it
    is, a 32 bit integer is converted with a range test; other combinations are not modelled -/
def convTyped (target ty : Char) (x : Val) : Conv Val :=
  if target = ty then .val x 1
  else if ty = 'i' then
    match x with
    | .int n =>
      let ranged (lo hi : Int) : Conv Val := if lo ≤ n ∧ n ≤ hi then .val (.int n) 3 else .err .BadType
      match target with
      | 'y' => ranged 0 255
      | 'n' => ranged (-32768) 32767
      | 'u' => ranged 0 4294967295
      | 'f' => if n.natAbs < 16777216 then .val (.flt (Fl.norm n 0)) 3 else .unsup
      | 'd' => .val (.flt (Fl.norm n 0)) 3
      | _ => .unsup
    | _ => .unsup
  else .unsup

/-- the keyword of axis `intervals` -/
def logWord : Str := [108, 111, 103]

/-- members a handler may write -/
def Act.touched : Act → List Nat
  | .conv _ f => [f] | .string f => [f]
  | .colour f r => f :: r.toList | .lattr f _ _ _ r => f :: r.toList
  | .axisPos f => [f] | .linePos f => [f] | .fpoint f _ _ _ => [f, f + 1]
  | .intervals f g _ _ => [f, g] | .align f => [f] | .clip f => [f]

/-- run one handler -/
def Act.run (k : Kind) (tab : List NamedColor) (a : Act) (o : Obj) (src : Src) (tok : Nat) : Out :=
  match a with
  | .conv ty f =>
    match src with
    | .null => ⟨o.put f (k.dflt f), .ok 0⟩
    | .text v =>
      match convText ty v with
      | .none => ⟨o.put f (k.dflt f), .ok 0⟩
      | .val x _ => ⟨o.put f x, .ok 0⟩
      | .err e => ⟨o, .err e⟩
      | .unsup => ⟨o, .unsup⟩
    | .typed t x =>
      match convTyped ty t x with
      | .val y _ => ⟨o.put f y, .ok 0⟩
      | .err e => ⟨o, .err e⟩
      | _ => ⟨o, .unsup⟩
  | .string f =>
    match src with
    | .null => ⟨setString o f Option.none 0, .ok 0⟩
    | .text v => ⟨setString o f v tok, .ok 0⟩
    | .typed _ _ => ⟨o, .unsup⟩
  | .colour f reset =>
    match src with
    | .null =>
      match reset with
      | some g => ⟨o.put g (k.dflt g), .ok 0⟩
      | Option.none => ⟨o, .ok (if o.get f = .col ⟨0, 0, 0, 255⟩ then 0 else 1)⟩
    | .text v =>
      match colourText tab v with
      | .none => ⟨o, .ok 0⟩
      | .val c _ => ⟨o.put f (.col c), .ok 0⟩
      | .err e => ⟨o, .err e⟩
      | .unsup => ⟨o, .unsup⟩
    | .typed _ _ => ⟨o, .unsup⟩
  | .lattr f d lo hi reset =>
    match src with
    | .null =>
      match reset with
      | some g => ⟨o.put g (k.dflt g), .ok 0⟩
      | Option.none => ⟨o.put f (.int d), .ok 0⟩
    | .text v =>
      match lattrText d lo hi v with
      | .val x _ => ⟨o.put f (.int x), .ok 0⟩
      | .err e => ⟨o, .err e⟩
      | _ => ⟨o, .unsup⟩
    | .typed t x =>
      -- 'y' first, then 'i' with the 0..255 test, then the attribute's limits
      match convTyped 'y' t x with
      | .val (.int n) _ => if n < lo ∨ n > hi then ⟨o, .err .BadValue⟩ else ⟨o.put f (.int n), .ok 0⟩
      | .err _ => ⟨o, .err .BadValue⟩
      | _ => ⟨o, .unsup⟩
  | .axisPos f =>
    match src with
    | .null => ⟨o.put f (k.dflt f), .ok 0⟩
    | .text v =>
      match v with
      | Option.none => ⟨o.put f (k.dflt f), .ok 0⟩
      | some s =>
        match skipSpaces s with
        | [] => ⟨o.put f (k.dflt f), .ok 0⟩
        | b :: _ => ⟨o.put f (.chr b.toNat), .ok 0⟩      -- 'c' for printable, else the key conversion
    | .typed t x => if t = 'c' then ⟨o.put f x, .ok 0⟩ else ⟨o, .unsup⟩
  | .linePos f =>
    match src with
    | .null => ⟨o.put f (.flt ⟨0, 0⟩), .ok 0⟩
    | .text v =>
      match convText 'f' v with
      | .none => ⟨o.put f (.flt ⟨0, 0⟩), .ok 0⟩
      | .val x _ => ⟨o.put f x, .ok 0⟩
      | .err .BadValue =>                                  -- beyond float: the double path is tried
        match convText 'd' v with
        | .err _ => ⟨o, .err .BadType⟩
        | _ => ⟨o, .err .BadValue⟩                         -- a finite double beyond the float range is refused
      | .err _ => ⟨o, .err .BadType⟩
      | .unsup => ⟨o, .unsup⟩
    | .typed t x =>
      match convTyped 'f' t x with
      | .val y _ => ⟨o.put f y, .ok 0⟩
      | _ =>
        -- a double: refused as 'f', read as 'd' and narrowed when it lies inside the float range
        match t, x with
        | 'd', .flt fl =>
          let top : Int := (log2 fl.m.natAbs : Int) + fl.e
          if fl.m = 0 then ⟨o.put f x, .ok 0⟩
          else if top ≥ 128 then ⟨o, .err .BadValue⟩
          else if fl.m.natAbs < 16777216 ∧ top ≥ -126 then ⟨o.put f x, .ok 0⟩
          else ⟨o, .unsup⟩
        | _, _ => ⟨o, .unsup⟩
  | .fpoint f lo hi retLen =>
    match src with
    | .null => ⟨(o.put f (k.dflt f)).put (f + 1) (k.dflt (f + 1)), .ok 0⟩
    | .text v =>
      match fpointText lo hi v with
      | .none => ⟨(o.put f (k.dflt f)).put (f + 1) (k.dflt (f + 1)), .ok 0⟩
      | .val (x, y) n => ⟨(o.put f (.flt x)).put (f + 1) (.flt y), .ok (if retLen then n else 0)⟩
      | .err e => ⟨o, .err e⟩
      | .unsup => ⟨o, .unsup⟩
    | .typed _ _ => ⟨o, .unsup⟩
  | .intervals f g bit clearNone =>
    match src with
    | .null => ⟨(o.put f (k.dflt f)).put g (.int (clearBit (o.get g).toInt bit)), .ok 0⟩
    | .text v =>
      match convText 'y' v with
      | .none =>
        if clearNone then ⟨(o.put f (k.dflt f)).put g (.int (clearBit (o.get g).toInt bit)), .ok 0⟩
        else ⟨o.put f (k.dflt f), .ok 0⟩
      | .val x _ => ⟨(o.put f x).put g (.int (clearBit (o.get g).toInt bit)), .ok 0⟩
      | .unsup => ⟨o, .unsup⟩
      | .err e =>
        if eqNoCaseN (v.getD []) logWord 3 then
          ⟨(o.put f (.int 0)).put g (.int (setBit (o.get g).toInt bit)), .ok 0⟩
        else ⟨o, .err e⟩
    | .typed t x =>
      match convTyped 'y' t x with
      | .val y _ => ⟨(o.put f y).put g (.int (clearBit (o.get g).toInt bit)), .ok 0⟩
      | .err e => ⟨o, .err e⟩
      | _ => ⟨o, .unsup⟩
  | .align f =>
    match src with
    | .null => ⟨o.put f (k.dflt f), .ok 0⟩
    | .text v =>
      match convText 'y' v with
      | .none => ⟨o.put f (k.dflt f), .ok 0⟩
      | .val x _ => ⟨o.put f x, .ok 0⟩
      | .unsup => ⟨o, .unsup⟩
      | .err .BadValue => ⟨o, .err .BadValue⟩              -- a number outside the range is no letter sequence
      | .err _ => ⟨o.put f (.int (alignLetters (v.getD []) 0 0)), .ok 0⟩
    | .typed t x =>
      match convTyped 'y' t x with
      | .val y _ => ⟨o.put f y, .ok 0⟩
      | .err e => ⟨o, .err e⟩
      | _ => ⟨o, .unsup⟩
  | .clip f =>
    match src with
    | .null => ⟨o.put f (k.dflt f), .ok 0⟩
    | .text v =>
      match convText 'y' v with
      | .none => ⟨o.put f (k.dflt f), .ok 0⟩
      | .val x _ => ⟨o.put f x, .ok 0⟩
      | .unsup => ⟨o, .unsup⟩
      | .err .BadValue => ⟨o, .err .BadValue⟩
      | .err _ => ⟨o.put f (.int (clipLetters (v.getD []) 0)), .ok 0⟩
    | .typed t x =>
      match convTyped 'y' t x with
      | .val y _ => ⟨o.put f y, .ok 0⟩
      | .err e => ⟨o, .err e⟩
      | _ => ⟨o, .unsup⟩

/-- one name of the chain matches: `strcmp` or `strcasecmp` -/
def nameHit (name : Str) (n : Str × Bool) : Bool :=
  if n.2 then eqNoCase name n.1 else name == n.1

/-- first handler of the chain whose condition holds -/
def findSet (sets : List SetEntry) (name : Str) : Option SetEntry :=
  sets.find? fun e => e.names.any (nameHit name)

/-- `mpt_<kind>_set(obj, name, src)` for a non-empty name -/
def Kind.setProp (k : Kind) (tab : List NamedColor) (o : Obj) (name : Str) (src : Src) (tok : Nat) : Out :=
  match findSet k.sets name with
  | Option.none => ⟨o, .err .BadArgument⟩
  | some e => e.act.run k tab o src tok

/-- `mpt_<kind>_set(obj, "", 0)`: finalise (strings freed) and set the defaults -/
def Kind.reset (k : Kind) (_o : Obj) : Obj := k.defaults

/-- `mpt_<kind>_set(obj, "", src)` with a text source: the text is asked for the kind's own (pointer) type;
    no or empty text converts to "no object" (the defaults are taken), any other text is no object -/
def Kind.setEmptyName (k : Kind) (o : Obj) (src : Src) : Out :=
  match src with
  | .null => ⟨k.defaults, .ok 0⟩
  | .text Option.none => ⟨k.defaults, .ok 0⟩
  | .text (some []) => ⟨k.defaults, .ok 0⟩
  | .text (some _) => ⟨o, .err .BadType⟩
  | .typed _ _ => ⟨o, .unsup⟩

/-- `mpt_<kind>_set(obj, NULL, src)` with a text source: no text converts to "no value" of the kind's own type (the
    defaults are taken); any other text is taken by the first string member the block offers, else refused -/
def Kind.setAuto (k : Kind) (o : Obj) (src : Src) (tok : Nat) : Out :=
  match src with
  | .null => ⟨o, .err .BadOperation⟩
  | .typed _ _ => ⟨o, .unsup⟩
  | .text Option.none => ⟨k.defaults, .ok 0⟩
  | .text (some []) => ⟨k.defaults, .ok 0⟩
  | .text (some v) =>
    match k.auto.findSome? (fun st => match st with | .string f => some f | _ => Option.none) with
    | some f => ⟨setString o f (some v) tok, .ok 0⟩
    | Option.none => ⟨o, .err .BadType⟩

/-- `mpt_<kind>_set(obj, NULL, src)` with a source that answers exactly one type (the colour type: `colour = true`, else the
    line attribute type) with "no value": the member of the first step of that type takes its default -/
def Kind.setAutoNone (k : Kind) (o : Obj) (colour : Bool) : Out :=
  let attrFields := k.sets.filterMap fun e => match e.act with | .lattr f _ _ _ _ => some f | _ => Option.none
  let hit := k.auto.findSome? fun st =>
    match st with
    | .colour f => if colour then some [f] else Option.none
    | .lattr => if colour then Option.none else some attrFields
    | _ => Option.none
  match hit with
  | some fs => ⟨fs.foldl (fun ob f => ob.put f (k.dflt f)) o, .ok 0⟩
  | Option.none => ⟨o, .err .BadType⟩

/-! ### getters -/

/-- value of table row `g` -/
def Kind.readEntry (_k : Kind) (o : Obj) (g : GetEntry) : Val :=
  if g.ty = -2 then .pt (o.get g.field).toFl (o.get (g.field + 1)).toFl else o.get g.field

/-- `mpt_<kind>_get` by position (with the text aliases of axis `intervals` and graph `clip`) -/
def Kind.getAt (k : Kind) (o : Obj) (i : Nat) : Option (Str × Val) :=
  match k.gets[i]? with
  | Option.none => Option.none
  | some g =>
    let plain := k.readEntry o g
    let v1 :=
      match k.logAt with
      | some (idx, flags, bit) => if idx = i ∧ hasBit (o.get flags).toInt bit then .str (some logWord) else plain
      | Option.none => plain
    let v2 :=
      match k.clipAlias with
      | some (nm, names) =>
        if nm = g.name then
          match v1 with
          | .int n => if n.toNat < names.length then .str (some (names.getD n.toNat [])) else v1
          | _ => v1
        else v1
      | Option.none => v1
    some (g.name, v2)

/-- members row `i` reads -/
def Kind.reads (k : Kind) (i : Nat) : List Nat :=
  match k.gets[i]? with
  | Option.none => []
  | some g =>
    (if g.ty = -2 then [g.field, g.field + 1] else [g.field]) ++
    (match k.logAt with | some (idx, flags, _) => if idx = i then [flags] else [] | Option.none => [])

/-- every listed property in table order: the observation after each operation -/
def Kind.dump (k : Kind) (o : Obj) : List (Str × Val) :=
  (List.range k.gets.length).filterMap (k.getAt o)

/-- name lookup of the getter: index into `gets`, or a row of the single-character table -/
inductive Found where
  | row (i : Nat)
  | single (g : GetEntry)
  | refused
  deriving Repr, DecidableEq

def Kind.lookup (k : Kind) (name0 : Str) : Found :=
  let name := match k.getAlias.find? (fun a => eqNoCase name0 a.1) with | some a => a.2 | Option.none => name0
  if ¬ k.single.isEmpty ∧ name.length = 1 then
    match k.single.find? (fun g => g.name == name) with
    | some g => .single g
    | Option.none => .refused
  else
    match propertyMatch name k.matchLen (k.gets.map (·.name)) 0 with
    | .found i => .row i
    | _ => .refused

/-- `mpt_<kind>_get(obj, pr)` with `pr->name = name` -/
def Kind.getProp (k : Kind) (o : Obj) (name : Str) : Option (Str × Val) :=
  match k.lookup name with
  | .row i => k.getAt o i
  | .single g => some (g.name, k.readEntry o g)
  | .refused => Option.none

/-! ### copy through the generic assignment (`mpt_<kind>_set(obj, "", src)` with a sibling as source) -/

/-- tokens after `*obj = *from` and the `strdup` of the members in `dups`: a duplicated non-NULL string
    gets the fresh token `base + i`, every other member keeps the source's token (shared block) -/
def copyToks (dups : List Nat) (src : Obj) (base : Nat) : List Nat :=
  (List.range src.vals.length).map fun i =>
    match src.vals.getD i (.int 0) with
    | .str (some _) => if dups.contains i then base + i else src.toks.getD i 0
    | _ => 0

/-- `mpt_<kind>_fini(obj); mpt_<kind>_init(obj, from)`: member-wise copy, strings duplicated -/
def Kind.copyFrom (k : Kind) (src : Obj) (base : Nat) : Obj :=
  { vals := src.vals, toks := copyToks k.dups src base }

/-- `mpt_<kind>_set(obj, "", <source yielding object `from` of kind `fk`>)`; `same` = source is the target -/
def Kind.copy (k : Kind) (o : Obj) (fk : String) (src : Obj) (same : Bool) (base : Nat) : Out :=
  if fk ≠ k.name ∨ ¬ k.copyOwnType then ⟨o, .err .BadType⟩
  else if same ∧ k.selfGuard then ⟨o, .ok 0⟩
  else if same then ⟨k.defaults, .ok 0⟩        -- finalised first, then copied from itself
  else ⟨k.copyFrom src base, .ok 0⟩

end Mpt.Layout
