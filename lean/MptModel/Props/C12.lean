/-
  C12 — each request is answered at most once, to the right requester.

  Part 1: message ids (mptcore/message/message_id.c) for ALL ids and header widths.
  Part 2: the deferrable reply context (mptcore/event/reply_deferrable.c, reply_set.c) over ALL
  histories of arm / reply / defer / deferred reply / release with an arbitrary transport
  (the transport's answer to a send is a parameter of each operation).
  The model follows the code after the fix: commits d4dec70, 5ba563d, 281bbde, ba98223, 13e022b.
-/
import MptModel.Impl.Reply
import MptModel.Spec.Reply
import MptModel.Lemmas.ReplyId
import MptModel.Lemmas.ReplyCtx
import MptModel.Lemmas.ReplyStream
import MptModel.Lemmas.ReplyRequester
import MptModel.Lemmas.ReplyRefine
namespace Mpt.C12
open Mpt Mpt.Reply Mpt.ReplySpec

/- ---------------------------------------------------------------- ids -/

/-- an id that fits the header width (`id < 2^(8w−1)`, 64-bit id) is written and read back unchanged -/
theorem id_roundtrip (id w : Nat) (h64 : id < 2 ^ 64) (hfit : id < 2 ^ (8 * w - 1)) :
    ∃ bs u1 u2, MsgId.id2buf id w = .ok (bs, u1) ∧ MsgId.buf2id bs = .ok (id, u2) := by
  obtain ⟨u1, h1⟩ := (id2buf_spec id w).1 (by simp [fits, hfit])
  have hlt : id < 256 ^ w := by
    cases w with
    | zero => simpa using hfit
    | succ n =>
      rw [halfTop] at hfit
      rw [pow256_succ]
      have := pow256_pos n
      omega
  have hv : value (beDigits w id) = id := value_beDigits w id hlt
  obtain ⟨u2, h2⟩ := (buf2id_spec (beDigits w id)).1 (by rw [hv]; exact h64)
  exact ⟨_, u1, u2, h1, by rw [h2, hv]⟩
example : (12345 : Nat) < 2 ^ (8 * 2 - 1) ∧ MsgId.id2buf 12345 2 = .ok ([0x30, 0x39], 2) ∧
    MsgId.buf2id [0x30, 0x39] = .ok (12345, 2) := by decide

/-- an id that does not fit is refused (nothing is accepted beyond `2^(8w−1)`) -/
theorem id_refused (id w : Nat) (h : 2 ^ (8 * w - 1) ≤ id) : ∃ e, MsgId.id2buf id w = .err e :=
  (id2buf_spec id w).2 (by simp [fits]; omega)
example : MsgId.id2buf 128 1 = .err .BadValue ∧ MsgId.id2buf 256 1 = .err .MissingBuffer := by decide

/-- the bytes written are the big-endian digits the spec prescribes -/
theorem id2buf_encode (id w : Nat) :
    match encode id w with
    | some bs => ∃ used, MsgId.id2buf id w = .ok (bs, used)
    | none => ∃ e, MsgId.id2buf id w = .err e := by
  unfold encode
  cases h : fits id w with
  | true => simpa using (id2buf_spec id w).1 h
  | false => simpa using (id2buf_spec id w).2 h

/-- reading any byte string: its big-endian value when that is a 64-bit number, refused otherwise -/
theorem buf2id_decode (bs : List Byte) :
    match decode bs with
    | some v => ∃ used, MsgId.buf2id bs = .ok (v, used)
    | none => MsgId.buf2id bs = .err .BadValue := by
  unfold decode
  by_cases h : value bs < 2 ^ 64
  · simpa [h] using (buf2id_spec bs).1 h
  · simpa [h] using (buf2id_spec bs).2 (by omega)
example : MsgId.buf2id [0, 0, 1, 0] = .ok (256, 2) ∧ MsgId.buf2id [1, 0, 0, 0, 0, 0, 0, 0, 0] = .err .BadValue := by decide

/- ---------------------------------------------------------------- reply context -/

/-- **at most once**: over every history on a fresh context, whatever the transport answers,
    * a call the transport accepted is never followed by another call for the same armed request
      (so rejected calls may precede the accepted one — retries — but nothing comes after it),
    * hence the transport accepts at most one reply per `arm`,
    * and every call carries the bytes given to that `arm` with the reply mark set. -/
theorem at_most_once (len : Nat) (ptr : Bool) (c0 : Ctx) (hc : create len ptr = some c0) (ops : List Op) :
    (run c0 ops).log.Pairwise (fun a b => a.tag = b.tag → a.ok = false) ∧
    (∀ t, ((run c0 ops).log.filter (fun e => e.tag == t && e.ok)).length ≤ 1) ∧
    (∀ e ∈ (run c0 ops).log, e.id = mark ((run c0 ops).arms.getD e.tag [])) := by
  have hinv := inv_run c0 ops (inv_create len ptr c0 hc)
  exact ⟨hinv.ordered, fun t => count_le_one _ t hinv.ordered, hinv.logId⟩
example : ((create 2 true).map fun c => (run c [.arm [1, 2], .reply (some [9]) (-4), .defer, .reply none 0,
      .dreply 0 (some [9]) 0, .arm [3, 4], .dropCtx 0]).log) =
    some [⟨0, [0x81, 2], some [9], false⟩, ⟨0, [0x81, 2], some [9], true⟩, ⟨1, [0x83, 4], none, true⟩] := by decide

/-- (one call, from any state) later attempts are refused: without an unanswered request on the context a
    reply returns BadArgument and the transport is not called; safety over whole histories is `at_most_once` -/
theorem answered_refused (c : Ctx) (msg : Option (List Byte)) (ans : Int) (h : c.cur = none) :
    (reply c msg ans).1 = Err.BadArgument.code ∧ (reply c msg ans).2.log = c.log ∧ (reply c msg ans).2.cur = none := by
  simp [reply, h, csend_none, addCall]

/-- … and an accepted reply leaves no request on the context -/
theorem accepted_consumes (c : Ctx) (msg : Option (List Byte)) (ans : Int) (r : Req) (hs : c.send = true) (hp : c.ptr = true)
    (hc : c.cur = some r) (ha : 0 ≤ ans) :
    (reply c msg ans).2.cur = none ∧ (reply c msg ans).2.log = c.log ++ [⟨r.tag, mark r.val, msg, true⟩] := by
  simp [reply, hc, contextSend, hs, hp, ha, addCall]

/-- a rejected send may be retried: the request stays, and the next attempt carries the same marked id -/
theorem retry (c : Ctx) (m1 m2 : Option (List Byte)) (a1 a2 : Int) (r : Req) (hs : c.send = true) (hp : c.ptr = true)
    (hc : c.cur = some r) (h1 : a1 < 0) (h2 : 0 ≤ a2) :
    (reply c m1 a1).1 = a1 ∧
    (reply (reply c m1 a1).2 m2 a2).2.log =
      c.log ++ [⟨r.tag, mark r.val, m1, false⟩, ⟨r.tag, mark r.val, m2, true⟩] := by
  have n1 : ¬ 0 ≤ a1 := by omega
  simp [reply, hc, contextSend, hs, hp, n1, h2, addCall, mark_unmark_mark]
example : ((create 2 true).map fun c => (reply (reply (arm c [1, 2]).2 (some [7]) (-4)).2 (some [8]) 0).2.log) =
    some [⟨0, [0x81, 2], some [7], false⟩, ⟨0, [0x81, 2], some [8], true⟩] := by decide

/-- **default reply**, owner releases the context: an unanswered request on it gets exactly one
    default reply (NULL message) when the transport is attached, and nothing is sent otherwise -/
theorem default_reply (c : Ctx) (ans : Int) :
    (dropCtx c ans).log =
      match c.cur with
      | some r => if c.send ∧ c.ptr then c.log ++ [⟨r.tag, mark r.val, none, decide (0 ≤ ans)⟩] else c.log
      | none => c.log := by
  unfold dropCtx
  cases hc : c.cur with
  | none => simp [addCall]
  | some r =>
    by_cases hs : c.send = true
    · by_cases hp : c.ptr = true
      · by_cases ha : 0 ≤ ans
        · simp [contextSend, hs, hp, ha, addCall]
        · simp [contextSend, hs, hp, ha, addCall]
      · simp [contextSend, hs, hp, addCall]
    · simp [hs, addCall]

/-- **default reply**, a deferred handle is released (reply with NULL message): exactly one default
    reply when the transport is attached, none otherwise; the handle is gone in every case -/
theorem default_reply_deferred (c : Ctx) (k : Nat) (ans : Int) (r : Req) (hk : c.handles.getD k none = some r) :
    (dreply c k none ans).2.log =
      (if c.send ∧ c.ptr then c.log ++ [⟨r.tag, mark r.val, none, decide (0 ≤ ans)⟩] else c.log) ∧
    (dreply c k none ans).2.handles = c.handles.set k none ∧ 0 ≤ (dreply c k none ans).1 := by
  unfold dreply
  rw [hk]
  by_cases hs : c.send = true
  · by_cases hp : c.ptr = true
    · by_cases ha : 0 ≤ ans
      · simp [contextSend, hs, hp, ha, addCall]; omega
      · simp [contextSend, hs, hp, ha, addCall]; omega
    · simp [contextSend, hs, hp, addCall]
  · simp [contextSend, hs, addCall]
example : ((create 2 true).map fun c => (run c [.arm [1, 2], .defer, .arm [3, 4], .dropCtx 0, .dreply 0 none 0]).log) =
    some [⟨1, [0x83, 4], none, true⟩] := by decide

/-- arming touches the reply data only.  NOTE: in the model this holds by construction (`arm` is a record
    update of `cur` and the ghost fields); the historical defect (281bbde: arming overwrote the interface
    pointer) cannot be expressed in M.  For the C code the clause rests on the correspondence run: after
    every `r arm` the driver checks that the context still answers `convert` with the same interface
    pointers (`ctx=intact`), and ASan watches the stores.  The theorem documents what M does:
    nothing but the data changes, an unanswered request is never overwritten (fix affcd55), an id longer
    than the header is refused. -/
theorem arm_pure (c : Ctx) (bytes : List Byte) :
    (arm c bytes).2.refs = c.refs ∧ (arm c bytes).2.send = c.send ∧ (arm c bytes).2.ptr = c.ptr ∧
    (arm c bytes).2.owner = c.owner ∧ (arm c bytes).2.handles = c.handles ∧ (arm c bytes).2.log = c.log ∧
    (arm c bytes).2.max = c.max ∧
    (c.cur.isSome = true → (arm c bytes).2 = c ∧ (arm c bytes).1 = Err.BadOperation.code) ∧
    (c.cur = none → bytes.length ≤ c.max →
      (arm c bytes).2.cur = if bytes.length = 0 then none else some ⟨bytes, c.nextTag⟩) ∧
    (c.cur = none → c.max < bytes.length → (arm c bytes).2 = c ∧ (arm c bytes).1 = Err.BadValue.code) := by
  unfold arm
  by_cases h0 : c.cur.isSome = true
  · have hne : c.cur ≠ none := by intro hn; simp [hn] at h0
    simp [h0, hne]
  · by_cases h : bytes.length > c.max
    · simp [h0, h]; omega
    · simp [h0, h]
      first | omega | (intro _ h2; omega) | skip
example : (arm (arm ⟨2, true, 1, true, true, none, [], 0, [], [], []⟩ [1, 2]).2 [3, 4]).1 = Err.BadOperation.code := by decide

/-- **every request is accounted for** — over every history on a fresh context with a transport
    pointer, whatever the transport answers: each accepted `arm` with a non-empty id either still stands
    (on the context or on a deferred handle), or the transport was called for it (reply or default reply,
    accepted or rejected), or it was discarded after the owner had released the context while deferred
    handles were outstanding (`reply.send = 0`, the transport is gone).  No request is lost silently while
    the transport is attached. -/
theorem every_request_accounted (len : Nat) (c0 : Ctx) (hc : create len true = some c0) (ops : List Op) (t : Nat)
    (ht : t < (run c0 ops).nextTag) (hne : (run c0 ops).arms.getD t [] ≠ []) :
    (∃ s r, (run c0 ops).slot s = some r ∧ r.tag = t) ∨ (∃ e ∈ (run c0 ops).log, e.tag = t) ∨
    (t ∈ (run c0 ops).lost ∧ (run c0 ops).send = false) := by
  have hinv := inv_run c0 ops (inv_create len true c0 hc)
  have hp : (run c0 ops).ptr = true := by
    rw [run_ptr]
    unfold create at hc; split at hc
    · cases hc
    · cases hc; rfl
  rcases hinv.covered hp t ht hne with h | h | h
  · exact Or.inl h
  · exact Or.inr (Or.inl h)
  · exact Or.inr (Or.inr ⟨h, hinv.lostDet (List.ne_nil_of_mem h)⟩)

/-- … in particular: while the transport is still attached at the end of the history and nothing stands
    on the context or a handle any more, the transport has been called for every request -/
theorem released_all_answered (len : Nat) (c0 : Ctx) (hc : create len true = some c0) (ops : List Op)
    (hs : (run c0 ops).send = true) (hfree : ∀ s, (run c0 ops).slot s = none) (t : Nat)
    (ht : t < (run c0 ops).nextTag) (hne : (run c0 ops).arms.getD t [] ≠ []) :
    ∃ e ∈ (run c0 ops).log, e.tag = t := by
  rcases every_request_accounted len c0 hc ops t ht hne with ⟨s, r, h, _⟩ | h | ⟨_, h⟩
  · rw [hfree s] at h; cases h
  · exact h
  · rw [hs] at h; cases h
example : ((create 2 true).map fun c => (run c [.arm [1, 2], .arm [3, 4], .dropCtx 0]).log) =
    some [⟨0, [0x81, 2], none, true⟩] := by decide
example : ((create 2 true).map fun c => ((run c [.arm [1, 2], .defer, .dropCtx 0, .dreply 0 (some [9]) 0]).lost,
      (run c [.arm [1, 2], .defer, .dropCtx 0, .dreply 0 (some [9]) 0]).send)) = some ([0], false) := by decide

/-- deferred handle: a rejected reply (with a message) keeps the handle and the request, so that the
    reply can be retried with the same marked id … -/
theorem dreply_retry (c : Ctx) (k : Nat) (m : List Byte) (ans : Int) (r : Req) (hk : c.handles.getD k none = some r)
    (hs : c.send = true) (hp : c.ptr = true) (ha : ans < 0) :
    (dreply c k (some m) ans).1 = ans ∧
    (dreply c k (some m) ans).2.handles = c.handles.set k (some ⟨unmark (mark r.val), r.tag⟩) ∧
    (dreply c k (some m) ans).2.log = c.log ++ [⟨r.tag, mark r.val, some m, false⟩] ∧
    (dreply c k (some m) ans).2.refs = c.refs := by
  have n1 : ¬ 0 ≤ ans := by omega
  unfold dreply
  rw [hk]
  simp [contextSend, hs, hp, n1, ha, addCall, addLost]

/-- … and an accepted reply through the handle consumes handle and request -/
theorem dreply_accepted_releases (c : Ctx) (k : Nat) (msg : Option (List Byte)) (ans : Int) (r : Req)
    (hk : c.handles.getD k none = some r) (hs : c.send = true) (hp : c.ptr = true) (ha : 0 ≤ ans) :
    (dreply c k msg ans).1 = ans ∧ (dreply c k msg ans).2.handles = c.handles.set k none ∧
    (dreply c k msg ans).2.log = c.log ++ [⟨r.tag, mark r.val, msg, true⟩] := by
  have n1 : ¬ ans < 0 := by omega
  unfold dreply
  rw [hk]
  simp [contextSend, hs, hp, ha, n1, addCall, addLost]
example : ((create 2 true).map fun c => (run c [.arm [1, 2], .defer, .dreply 0 (some [7]) (-4), .dreply 0 (some [8]) 0,
      .dreply 0 (some [9]) 0]).log) = some [⟨0, [0x81, 2], some [7], false⟩, ⟨0, [0x81, 2], some [8], true⟩] := by decide

/- ---------------------------------------------------------------- stream-input variant -/

/-- **stream input (mptio/stream/stream_input.c)**: for every incoming message on an idle stream input
    and every handler behaviour (any list of reply / NULL reply / defer attempts and return values),
    the frames handed to the stream are exactly what the spec names: no frame when no reply is due
    (no id header, id all zero, message is itself a reply, header incomplete), otherwise ONE frame made
    of the request id with the reply mark followed by the handler's first reply — or the answer header
    `01 <code>` when the handler did not reply (default reply); the input is idle again afterwards. -/
theorem stream_one_reply (s : StreamIn.SIn) (hs : s.rdlen = 0) (data : List Byte) (acts : List StreamIn.Act) :
    (StreamIn.request s data acts).frames =
      (streamFrame s.idlen data (StreamIn.firstReply acts) (StreamIn.codeByte (StreamIn.lastRet acts 0))).toList ∧
    (StreamIn.request s data acts).s.rdlen = 0 :=
  StreamIn.request_frames s hs data acts
example : (StreamIn.request ⟨2, 0, []⟩ [0, 5, 0x78] [.reply [0x41], .reply [0x42], .ret (-4)]).frames = [[0x80, 5, 0x41]] ∧
    (StreamIn.request ⟨2, 0, []⟩ [0, 6, 0x79] [.defer, .ret (-4)]).frames = [[0x80, 6, 1, 0xfc]] ∧
    (StreamIn.request ⟨2, 0, []⟩ [0x80, 6, 0x79] [.reply [1]]).frames = [] := by decide

/-- stream variant, retry: a reply attempt the stream cannot take (`mpt_stream_reply` < 0, act `replyFail`) is refused,
    puts nothing on the stream and leaves the pending request exactly as it was, reply mark taken back — so the next
    attempt, or the default reply, goes out once with the same id (`stream_one_reply` holds for act lists with failed
    attempts in any position: `firstReply` skips them) -/
theorem stream_retry (s : StreamIn.SIn) (msg : Option (List Byte)) (h0 : s.rdlen ≠ 0) (hv : (s.val.headD 0).toNat < 128) :
    StreamIn.sreply s msg false = (Err.BadArgument.code, s, none) := by
  obtain ⟨idlen, rdlen, val⟩ := s
  simp only at h0 hv
  simp [StreamIn.sreply, h0, StreamIn.unmark_mark val hv]
example : (StreamIn.request ⟨2, 0, []⟩ [0, 5, 0x78] [.replyFail [0x41], .reply [0x42], .reply [0x43]]).frames = [[0x80, 5, 0x42]] ∧
    (StreamIn.request ⟨2, 0, []⟩ [0, 5, 0x78] [.replyFail [0x41], .ret 3]).frames = [[0x80, 5, 1, 0]] := by decide

/-- at most one frame per request, and it starts with the marked request id -/
theorem stream_at_most_once (s : StreamIn.SIn) (hs : s.rdlen = 0) (data : List Byte) (acts : List StreamIn.Act) :
    (StreamIn.request s data acts).frames.length ≤ 1 ∧
    ∀ f ∈ (StreamIn.request s data acts).frames, f.take s.idlen = mark (data.take s.idlen) := by
  rw [(stream_one_reply s hs data acts).1]
  unfold streamFrame
  simp only []
  split
  · simp
  · rename_i h
    have hlen : (data.take s.idlen).length = s.idlen := by
      have : ¬ data.length < s.idlen := fun hl => h (Or.inr (Or.inl hl))
      simp; omega
    refine ⟨by simp, ?_⟩
    intro f hf
    simp at hf
    subst hf
    rw [List.take_append_of_le_length (by rw [StreamIn.mark_length, hlen]; exact Nat.le_refl _)]
    apply List.take_of_length_le
    rw [StreamIn.mark_length, hlen]; exact Nat.le_refl _

/- ---------------------------------------------------------------- requester side (io::stream, command_reserve) -/

/-- **to the right requester**: `await` hands a new request an id that is legal for the header width
    and that no outstanding request uses; ids in use stay pairwise distinct (so a reply id names at
    most one waiting handler) -/
theorem request_id_fresh (arr : Option (List Requester.Slot)) (idlen tag : Nat) (a : List Requester.Slot) (i : Nat)
    (hn : ∀ es, arr = some es → (Requester.activeIds es).Nodup)
    (h : Requester.reserve arr idlen tag = some (a, i)) :
    1 ≤ i ∧ i ≤ Requester.idMax idlen ∧ (∀ es, arr = some es → i ∉ Requester.activeIds es) ∧
    (Requester.activeIds a).Nodup ∧ i ∈ Requester.activeIds a :=
  Requester.reserve_fresh arr idlen tag a i hn h
example : Requester.reserve (some [⟨1, some 7⟩, ⟨2, none⟩, ⟨3, some 9⟩]) 2 5 = some ([⟨1, some 7⟩, ⟨3, some 9⟩, ⟨4, some 5⟩], 4) := by
  decide

/-- **to the right requester, at most once (requester side)**: when `io::stream` hands message `m` to a reply
    handler `t`, then the id header of `m` decodes (mark removed) to an id `rid`, `t` is the handler
    registered under exactly `rid`, it receives exactly the bytes after the id header, and afterwards nobody
    waits for `rid` (a second reply with the same id reaches no reply handler) -/
theorem reply_delivered_once (s : Requester.St) (m : List Byte) (t : Nat) (p : Option (List Byte))
    (hn : (Requester.activeIds (s.arr.getD [])).Nodup)
    (h : (Requester.process s m).2 = some ⟨some t, p⟩) :
    ∃ rid u, MsgId.buf2id (Reply.unmark (m.take s.idlen)) = .ok (rid, u) ∧
      ((m.take s.idlen).headD 0).toNat ≥ 128 ∧ p = some (m.drop s.idlen) ∧
      Requester.findActive (s.arr.getD []) rid = some t ∧
      rid ∉ Requester.activeIds ((Requester.process s m).1.arr.getD []) := by
  unfold Requester.process at h ⊢
  simp only [] at h ⊢
  by_cases h0 : s.idlen = 0
  · simp [h0] at h
  · by_cases hm : ((m.take s.idlen).headD 0).toNat ≥ 128
    · simp only [h0, hm, if_true, if_false] at h ⊢
      cases hb : MsgId.buf2id (Reply.unmark (m.take s.idlen)) with
      | ok pr =>
        obtain ⟨rid, u⟩ := pr
        try rw [hb] at h
        try rw [hb]
        simp only [] at h ⊢
        cases hf : Requester.findActive (s.arr.getD []) rid with
        | none => (try rw [hf] at h); simp at h
        | some t' =>
          try rw [hf] at h
          try rw [hf]
          simp only [Option.some.injEq, Requester.Call.mk.injEq] at h ⊢
          obtain ⟨ht, hp⟩ := h
          cases ht
          refine ⟨rid, u, rfl, trivial, hp.symm, hf, ?_⟩
          cases ha : s.arr with
          | none => simp [Requester.activeIds, Requester.active]
          | some es =>
            have hn' : (Requester.activeIds es).Nodup := by simpa [ha] using hn
            simp only [Option.map_some, Option.getD_some]
            rw [Requester.deactivate_active es rid hn']
            simp
      | err e => (try rw [hb] at h); simp at h
      | null => (try rw [hb] at h); simp at h
      | oob => (try rw [hb] at h); simp at h
      | fault => (try rw [hb] at h); simp at h
    · rw [if_neg h0, if_neg hm] at h
      simp at h
example : (Requester.process ⟨2, some [⟨1, some 7⟩, ⟨2, some 8⟩], 0, []⟩ [0x80, 2, 0x41]).2 = some ⟨some 8, some [0x41]⟩ := by
  decide

/-- the hypothesis of `reply_delivered_once` holds along every requester history (await / send / peer frames
    dispatched / peer frames taken by `sync`, including the compaction of the handler array, commands that
    report failure (`fails`) and commands that register a follow-up request while they handle their reply
    (`follow`)): the ids of the waiting handlers are always pairwise distinct -/
theorem requester_ids_distinct (fails : Nat → Bool) (follow : Nat → Option Nat) (idlen : Nat) (ops : List Requester.ROp) :
    (Requester.activeIds ((Requester.rrun fails follow { idlen := idlen } ops).1.arr.getD [])).Nodup :=
  Requester.distinct_rrun fails follow { idlen := idlen } ops (by simp [Requester.Distinct, Requester.activeIds, Requester.active])
example : (Requester.rrun (fun _ => false) Requester.noFollow { idlen := 1 } [.await 7, .send [1], .await 8, .send [2],
    .sync [[0x82, 5], [0x82, 6]], .await 9, .answer [[0x81], [0x83]]]).2 = [⟨some 8, some [5]⟩, ⟨some 7, some []⟩, ⟨some 9, some []⟩] := by decide
-- a command that reports failure ends the wait; its reply is consumed, the next sync goes on with the following one
example : (Requester.rrun (· == 8) Requester.noFollow { idlen := 1 } [.await 7, .send [1], .await 8, .send [2],
    .sync [[0x82, 5], [0x82, 6], [0x81, 4]], .sync []]).2 = [⟨some 8, some [5]⟩, ⟨some 7, some [4]⟩] := by decide
-- command 7 registers request 70 while it handles its reply: the new request gets id 3 and its own reply later
example : (Requester.rrun (fun _ => false) (fun t => if t = 7 then some 70 else none) { idlen := 1 } [.await 7, .send [1], .await 8, .send [2],
    .sync [[0x81, 5]], .send [3], .sync [[0x83, 6], [0x82, 4]]]).2 = [⟨some 7, some [5]⟩, ⟨some 70, some [6]⟩, ⟨some 8, some [4]⟩] := by decide

/-- **refinement Requester ⊑ ReplySpec.ReqSt, dispatching**: from related states (same header width, the waiting
    handlers of the slot array = the spec's pending set, same queue) every message is delivered to the same
    handler with the same bytes by model and spec, and the states stay related -/
theorem requester_refines_dispatch (x : Requester.St) (sp : ReqSt) (q : List (List Byte)) (h : Requester.Rel x sp) :
    (Requester.drain q x []).2.map Requester.callS = (deliverAll q sp []).2 ∧
    Requester.Rel { (Requester.drain q x []).1 with inq := [] } { (deliverAll q sp []).1 with inq := [] } :=
  Requester.rel_drain q x sp [] [] h rfl

/-- **… waiting for replies**: `sync` (mpt_stream_sync: only while a handler waits, only replies, left after a command
    reported failure — whose reply is consumed and whose registration is released all the same —, handler array
    compacted afterwards) makes the same calls as the spec's "take replies while a request is outstanding" -/
theorem requester_refines_sync (fails : Nat → Bool) (x : Requester.St) (sp : ReqSt) (fuel : Nat) (h : Requester.Rel x sp)
    (hf : x.inq.length < fuel) :
    (Requester.sync fails Requester.noFollow x).2.map Requester.callS = (awaitReplies fails fuel sp.inq sp []).2 ∧
    Requester.Rel (Requester.sync fails Requester.noFollow x).1 (awaitReplies fails fuel sp.inq sp []).1 :=
  Requester.rel_sync fails x sp fuel h hf

/-- **… new requests**: the id `await` assigns (mpt_command_reserve) is one the spec accepts as fresh (≥ 1, fits
    the header, not in use), and the request is pending in both afterwards -/
theorem requester_refines_await (x : Requester.St) (sp : ReqSt) (tag : Nat) (x' : Requester.St) (i : Nat)
    (h : Requester.Rel x sp) (ha : Requester.await x tag = some (x', i)) :
    freshId sp i = true ∧ Requester.Rel x' { sp with pending := sp.pending ++ [(i, tag)], cur := i } :=
  Requester.rel_await x sp tag x' i h ha

end Mpt.C12
