/-
  C13 — Ring-buffer queue is a faithful byte deque.   PROPERTY THEOREMS ONLY.

  M = `Mpt.Ring` (MptModel/Impl/Ring.lean, mirrors mptcore/queue/*.c), S = `Mpt.Deque` (a plain list).
  `Ring.content` is the abstraction function (the bytes `base[(off+i) % max]`, i < len, that the C struct
  denotes).  `Ring.WF` (len ≤ max ∧ off ≤ max) is the representation invariant.

  Every theorem holds for ALL rings (any capacity, offset, fill, wrapped or not), all operands, all
  histories.  Proved: crop, get, set, push, unshift, pop, shift (ok + refusal cases, memory bounds) and
  the history theorem over these operations.  Stated but not proved (correspondence only): align, resize,
  prepare, find, string — see the `_statement` definitions at the end.
-/
import MptModel.Lemmas.Ring2

namespace Mpt.C13
open Mpt Mpt.Ring

/-- operations of a history (data pointer supplied, as the property's "every read returns those bytes") -/
inductive Op where
  | push (bs : List Byte)
  | unshift (bs : List Byte)
  | pop (n : Nat)
  | shift (n : Nat)
  | crop (pos n : Nat)
  | set (pos : Nat) (bs : List Byte)
  | get (pos n : Nat)
  deriving Repr

/-- observable outcome of one operation -/
inductive Out where
  | ok (bytes : List Byte)      -- accepted; bytes returned to the caller (empty for writes)
  | refused                     -- refused, nothing changed
  | bad                         -- the model left the storage or faulted (never happens, see `step_refines`)
  deriving Repr, DecidableEq

/-- M: one operation on the ring model -/
def stepM (r : Ring) : Op → Ring × Out
  | .push bs => match r.qpush bs.length (some bs) with
    | .ok (r', _) => (r', .ok []) | .err _ => (r, .refused) | .null => (r, .refused) | _ => (r, .bad)
  | .unshift bs => match r.qunshift bs.length (some bs) with
    | .ok (r', _) => (r', .ok []) | .err _ => (r, .refused) | .null => (r, .refused) | _ => (r, .bad)
  | .pop n => match r.qpop n true with
    | .ok (r', out) => (r', .ok out) | .err _ => (r, .refused) | .null => (r, .refused) | _ => (r, .bad)
  | .shift n => match r.qshift n true with
    | .ok (r', out) => (r', .ok out) | .err _ => (r, .refused) | .null => (r, .refused) | _ => (r, .bad)
  | .crop pos n => match r.crop pos n with
    | .ok (r', _) => (r', .ok []) | .err _ => (r, .refused) | .null => (r, .refused) | _ => (r, .bad)
  | .set pos bs => match r.set pos bs.length (some bs) with
    | .ok (r', _) => (r', .ok []) | .err _ => (r, .refused) | .null => (r, .refused) | _ => (r, .bad)
  | .get pos n => match r.get pos n true with
    | .ok (_, out) => (r, .ok out) | .err _ => (r, .refused) | .null => (r, .refused) | _ => (r, .bad)

/-- S: the same operation on a plain byte list with capacity `cap`.  Requests for more than is stored or
    free are refused; a zero-length push onto a completely full queue is refused as well (the content is
    the same either way). -/
def stepS (cap : Nat) (d : List Byte) : Op → List Byte × Out
  | .push bs => if d.length < cap ∧ bs.length ≤ cap - d.length then (d ++ bs, .ok []) else (d, .refused)
  | .unshift bs => if d.length < cap ∧ bs.length ≤ cap - d.length then (bs ++ d, .ok []) else (d, .refused)
  | .pop n => if n ≤ d.length then (d.take (d.length - n), .ok (d.drop (d.length - n))) else (d, .refused)
  | .shift n => if n ≤ d.length then (d.drop n, .ok (d.take n)) else (d, .refused)
  | .crop pos n => if pos + n ≤ d.length then (d.take pos ++ d.drop (pos + n), .ok []) else (d, .refused)
  | .set pos bs =>
    if bs.length = 0 then (d, .ok [])
    else if pos + bs.length ≤ d.length then (d.take pos ++ bs ++ d.drop (pos + bs.length), .ok [])
    else (d, .refused)
  | .get pos n =>
    if n = 0 then (d, .ok [])
    else if pos + n ≤ d.length then (d, .ok ((d.drop pos).take n)) else (d, .refused)

theorem setSrc_some (bs : List Byte) : setSrc bs.length (some bs) = bs := by
  unfold setSrc; simp

/-- **One step**: on every well-formed ring, every operation of the model (i) keeps the ring well-formed and
    its capacity, (ii) changes the denoted content exactly as the plain deque operation does, (iii) returns
    the deque's bytes / refuses exactly when the deque refuses, (iv) never leaves the storage (`Out.bad`
    is impossible because the deque never produces it). -/
theorem step_refines (r : Ring) (h : r.WF) (op : Op) :
    (stepM r op).1.WF ∧ (stepM r op).1.store.length = r.store.length ∧
    ((stepM r op).1.content, (stepM r op).2) = stepS r.store.length r.content op := by
  have hcl := content_length r h.1 h.2
  have h1 : r.len ≤ r.store.length := h.1
  have h2 : r.off ≤ r.store.length := h.2
  cases op with
  | push bs =>
    simp only [stepM, stepS]
    by_cases hc : r.len < r.store.length ∧ bs.length ≤ r.store.length - r.len
    · obtain ⟨r', c, he, hw, hl, hcn⟩ := qpush_ok r h bs.length (some bs) hc.1 hc.2
      rw [he, hcl, if_pos hc, hcn, setSrc_some]
      exact ⟨hw, hl, rfl⟩
    · rw [qpush_refused r h bs.length (some bs) (by omega), hcl, if_neg hc]
      exact ⟨h, rfl, rfl⟩
  | unshift bs =>
    simp only [stepM, stepS]
    by_cases hc : r.len < r.store.length ∧ bs.length ≤ r.store.length - r.len
    · obtain ⟨r', c, he, hw, hl, hcn⟩ := qunshift_ok r h bs.length (some bs) hc.1 hc.2
      rw [he, hcl, if_pos hc, hcn, setSrc_some]
      exact ⟨hw, hl, rfl⟩
    · rw [qunshift_refused r h bs.length (some bs) (by omega), hcl, if_neg hc]
      exact ⟨h, rfl, rfl⟩
  | pop n =>
    simp only [stepM, stepS]
    obtain ⟨hok, hno⟩ := qpop_spec r h n true
    by_cases hc : n ≤ r.len
    · rcases hok hc with he | ⟨hf, _⟩
      · rw [he, hcl, if_pos hc]
        refine ⟨⟨by simp only []; omega, h.2⟩, rfl, ?_⟩
        rw [content_take r (r.len - n) (by omega)]
      · cases hf
    · rw [hno (by omega), hcl, if_neg hc]
      exact ⟨h, rfl, rfl⟩
  | shift n =>
    simp only [stepM, stepS]
    obtain ⟨hok, hno⟩ := qshift_spec r h n true
    by_cases hc : n ≤ r.len
    · rcases hok hc with ⟨r', he, hw, hs, hl, hcn⟩ | ⟨hf, _⟩
      · rw [he, hcl, if_pos hc, hcn]
        exact ⟨hw, by rw [hs], rfl⟩
      · cases hf
    · rw [hno (by omega), hcl, if_neg hc]
      exact ⟨h, rfl, rfl⟩
  | crop pos n =>
    simp only [stepM, stepS]
    by_cases hc : pos + n ≤ r.len
    · by_cases hp : pos = 0
      · subst hp
        obtain ⟨r', c, he, hw, hs, hl, hcn⟩ := crop_front r h n (by omega)
        rw [he, hcl, if_pos hc, hcn]
        refine ⟨hw, by rw [hs], ?_⟩
        simp
      · obtain ⟨r', c, he, hw, hs, ho, hl, hcn⟩ := crop_mid r h pos n hp hc
        rw [he, hcl, if_pos hc, hcn]
        exact ⟨hw, hs, rfl⟩
    · rw [crop_refused r h pos n (by omega), hcl, if_neg hc]
      exact ⟨h, rfl, rfl⟩
  | set pos bs =>
    simp only [stepM, stepS]
    by_cases h0 : bs.length = 0
    · rw [if_pos h0]
      unfold Ring.set
      rw [if_pos h0]
      exact ⟨h, rfl, rfl⟩
    · rw [if_neg h0]
      by_cases hc : pos + bs.length ≤ r.len
      · obtain ⟨r', c, he, hw, hs, ho, hl, hcn⟩ := set_ok r h pos bs.length (some bs) (by omega) hc
        rw [he, hcl, if_pos hc, hcn, setSrc_some]
        exact ⟨hw, hs, rfl⟩
      · rw [hcl, if_neg hc]
        rcases set_refused r h pos bs.length (some bs) (by omega) (by omega) with he | he <;> rw [he] <;>
          exact ⟨h, rfl, rfl⟩
  | get pos n =>
    simp only [stepM, stepS]
    by_cases h0 : n = 0
    · rw [if_pos h0]
      unfold Ring.get
      rw [if_pos h0]
      exact ⟨h, rfl, rfl⟩
    · rw [if_neg h0]
      by_cases hc : pos + n ≤ r.len
      · obtain ⟨c, he⟩ := get_ok r h pos n (by omega) hc
        rw [he, hcl, if_pos hc]
        exact ⟨h, rfl, rfl⟩
      · rw [get_refused r h pos n true (by omega) (by omega), hcl, if_neg hc]
        exact ⟨h, rfl, rfl⟩

/-- run a history on the model / on the spec, collecting the outcomes -/
def runM (r : Ring) : List Op → Ring × List Out
  | [] => (r, [])
  | op :: ops => let (r1, o) := stepM r op; let (r2, os) := runM r1 ops; (r2, o :: os)

def runS (cap : Nat) (d : List Byte) : List Op → List Byte × List Out
  | [] => (d, [])
  | op :: ops => let (d1, o) := stepS cap d op; let (d2, os) := runS cap d1 ops; (d2, o :: os)

/-- **Deque refinement for all histories**: from any well-formed ring (any capacity, offset, fill —
    wrapped or not) and for any finite sequence of operations, the model ends with exactly the content
    the plain byte deque holds after the same operations, and every operation returned exactly the
    deque's bytes / verdicts (in particular no `Out.bad`: no access left the storage). -/
theorem deque_refinement (ops : List Op) (r : Ring) (h : r.WF) :
    (runM r ops).1.WF ∧ (runM r ops).1.store.length = r.store.length ∧
    ((runM r ops).1.content, (runM r ops).2) = runS r.store.length r.content ops := by
  induction ops generalizing r with
  | nil => exact ⟨h, rfl, rfl⟩
  | cons op ops ih =>
    obtain ⟨hw, hl, he⟩ := step_refines r h op
    obtain ⟨hw2, hl2, he2⟩ := ih (stepM r op).1 hw
    unfold runM runS
    have e1 : (stepS r.store.length r.content op).1 = (stepM r op).1.content := by rw [← he]
    have e2 : (stepS r.store.length r.content op).2 = (stepM r op).2 := by rw [← he]
    simp only []
    rw [e1, e2, ← hl, ← he2]
    exact ⟨hw2, by rw [hl2], rfl⟩

/-- refused operations leave the content unchanged (corollary, stated on its own because the property
    names it) -/
theorem refusal_pure (r : Ring) (h : r.WF) (op : Op) (hr : (stepM r op).2 = .refused) :
    (stepM r op).1.content = r.content := by
  obtain ⟨_, _, he⟩ := step_refines r h op
  have e1 : (stepS r.store.length r.content op).1 = (stepM r op).1.content := by rw [← he]
  have e2 : (stepS r.store.length r.content op).2 = (stepM r op).2 := by rw [← he]
  rw [hr] at e2
  rw [← e1]
  cases op <;> simp only [stepS] at e2 ⊢ <;> (repeat' split at e2) <;> first | (cases e2; done) | (simp_all; done) | (split <;> simp_all)

/-- no access of the model leaves the storage, for any history -/
theorem in_bounds (ops : List Op) (r : Ring) (h : r.WF) : Out.bad ∉ (runM r ops).2 := by
  have e2 : (runS r.store.length r.content ops).2 = (runM r ops).2 := by
    rw [← (deque_refinement ops r h).2.2]
  rw [← e2]
  generalize r.content = d
  generalize r.store.length = cap
  clear e2 h
  induction ops generalizing d with
  | nil => simp [runS]
  | cons op ops ih =>
    unfold runS
    simp only [List.mem_cons, not_or]
    refine ⟨?_, ih _⟩
    cases op <;> simp only [stepS] <;> (repeat' split) <;> simp

-- non-vacuity: a wrapped ring (capacity 4, offset 3, content "abc" = 1 byte at the end + 2 at the start)
example : (Ring.make 4 3 [97, 98, 99]).WF ∧ (Ring.make 4 3 [97, 98, 99]).content = [97, 98, 99]
    ∧ (Ring.make 4 3 [97, 98, 99]).store = [98, 99, 0, 97] := by
  refine ⟨⟨by decide, by decide⟩, by decide, by decide⟩
example : (runM (Ring.make 4 3 [97, 98, 99]) [.crop 1 1, .push [100, 101], .pop 3]).2
    = [.ok [], .ok [], .ok [99, 100, 101]] := by decide

/-! ### Stated, not proved (tied to the code by the correspondence run only) -/

/-- re-aligning keeps the content -/
def align_statement : Prop :=
  ∀ (r : Ring) (pos : Nat), r.WF → ∃ r', r.align pos = .ok r' ∧ r'.WF ∧ r'.content = r.content
/-- growing keeps the content, shrinking keeps the last `n` bytes -/
def resize_statement : Prop :=
  ∀ (r : Ring) (n : Nat), r.WF → ∃ r', r.resize n = .ok r' ∧ r'.WF ∧ r'.store.length = n ∧
    r'.content = r.content.drop (r.len - n)
/-- the zero-terminated view returns the content and keeps it -/
def string_statement : Prop :=
  ∀ (r : Ring), r.WF → r.len < r.store.length →
    ∃ r', r.string = .ok (r', r.content) ∧ r'.WF ∧ r'.content = r.content

end Mpt.C13
