/-
  C13 — Ring-buffer queue is a faithful byte deque.   PROPERTY THEOREMS ONLY.

  M = `Mpt.Ring` (MptModel/Impl/Ring.lean, mirrors mptcore/queue/*.c), S = `Mpt.Deque` (a plain list).
  `Ring.content` is the abstraction function (the bytes `base[(off+i) % max]`, i < len, that the C struct
  denotes).  `Ring.WF` (len ≤ max ∧ off ≤ max) is the representation invariant.

  Every theorem holds for ALL rings (any capacity, offset, fill, wrapped or not), all operands, all
  histories.  Proved: crop, get, set, push, unshift, pop, shift, align (incl. the 1024-byte block
  rotation of mpt_memrev), resize, string (ok + refusal cases, memory bounds), the history theorem over
  these operations, prepare, find (first element-aligned match or documented refusal), and the C++
  `io::queue` wrappers push/unshift/pop/shift/write, `mpt_queue_load/save` (descriptor = byte source/sink).
  `io::queue::read/peek` and `pipe<T>::elements()` (as `peek` of everything).
-/
import MptModel.Lemmas.Ring6

namespace Mpt.C13
open Mpt Mpt.Ring

/-- operations of a history (data pointer supplied, as the property's "every read returns those bytes") -/
inductive Op where
  | push (bs : List Byte)
  | unshift (bs : List Byte)
  | pop (n : Nat)
  | shift (n : Nat)
  | crop (pos n : Nat)
  | set (pos : Nat) (bs : List Byte)
  | get (pos n : Nat)
  | align (pos : Nat)
  | resize (n : Nat)
  | string
  deriving Repr

/-- observable outcome of one operation -/
inductive Out where
  | ok (bytes : List Byte)      -- accepted; bytes returned to the caller (empty for writes)
  | refused                     -- refused, nothing changed
  | bad                         -- the model left the storage or faulted (never happens, see `step_refines`)
  deriving Repr, DecidableEq

/-- M: one operation on the ring model -/
def stepM (r : Ring) : Op → Ring × Out
  | .push bs => match r.qpush bs.length (some bs) with
    | .ok (r', _) => (r', .ok []) | .err _ => (r, .refused) | .null => (r, .refused) | _ => (r, .bad)
  | .unshift bs => match r.qunshift bs.length (some bs) with
    | .ok (r', _) => (r', .ok []) | .err _ => (r, .refused) | .null => (r, .refused) | _ => (r, .bad)
  | .pop n => match r.qpop n true with
    | .ok (r', out) => (r', .ok out) | .err _ => (r, .refused) | .null => (r, .refused) | _ => (r, .bad)
  | .shift n => match r.qshift n true with
    | .ok (r', out) => (r', .ok out) | .err _ => (r, .refused) | .null => (r, .refused) | _ => (r, .bad)
  | .crop pos n => match r.crop pos n with
    | .ok (r', _) => (r', .ok []) | .err _ => (r, .refused) | .null => (r, .refused) | _ => (r, .bad)
  | .set pos bs => match r.set pos bs.length (some bs) with
    | .ok (r', _) => (r', .ok []) | .err _ => (r, .refused) | .null => (r, .refused) | _ => (r, .bad)
  | .get pos n => match r.get pos n true with
    | .ok (_, out) => (r, .ok out) | .err _ => (r, .refused) | .null => (r, .refused) | _ => (r, .bad)
  | .align pos => match r.align pos with
    | .ok r' => (r', .ok []) | .err _ => (r, .refused) | .null => (r, .refused) | _ => (r, .bad)
  | .resize n => match r.resize n true with
    | .ok r' => (r', .ok []) | .err _ => (r, .refused) | .null => (r, .refused) | _ => (r, .bad)
  | .string => match r.string with
    | .ok (r', out) => (r', .ok out) | .err _ => (r, .refused) | .null => (r, .refused) | _ => (r, .bad)

/-- S: the same operation on a plain byte list with capacity `cap` (state = capacity and content).
    Requests for more than is stored or free are refused; a zero-length push onto a completely full queue
    is refused as well (the content is the same either way).  `resize` sets the capacity and keeps the
    newest `n` bytes (queue_resize.c: "remove data from queue start"); `string` needs one free byte for
    the terminator. -/
def stepS (cap : Nat) (d : List Byte) : Op → (Nat × List Byte) × Out
  | .push bs => if d.length < cap ∧ bs.length ≤ cap - d.length then ((cap, d ++ bs), .ok []) else ((cap, d), .refused)
  | .unshift bs => if d.length < cap ∧ bs.length ≤ cap - d.length then ((cap, bs ++ d), .ok []) else ((cap, d), .refused)
  | .pop n => if n ≤ d.length then ((cap, d.take (d.length - n)), .ok (d.drop (d.length - n))) else ((cap, d), .refused)
  | .shift n => if n ≤ d.length then ((cap, d.drop n), .ok (d.take n)) else ((cap, d), .refused)
  | .crop pos n => if pos + n ≤ d.length then ((cap, d.take pos ++ d.drop (pos + n)), .ok []) else ((cap, d), .refused)
  | .set pos bs =>
    if bs.length = 0 then ((cap, d), .ok [])
    else if pos + bs.length ≤ d.length then ((cap, d.take pos ++ bs ++ d.drop (pos + bs.length)), .ok [])
    else ((cap, d), .refused)
  | .get pos n =>
    if n = 0 then ((cap, d), .ok [])
    else if pos + n ≤ d.length then ((cap, d), .ok ((d.drop pos).take n)) else ((cap, d), .refused)
  | .align _ => ((cap, d), .ok [])
  | .resize n => ((n, d.drop (d.length - n)), .ok [])
  | .string => if d.length < cap then ((cap, d), .ok d) else ((cap, d), .refused)

theorem setSrc_some (bs : List Byte) : setSrc bs.length (some bs) = bs := by
  unfold setSrc; simp

/-- **One step**: on every well-formed ring, every operation of the model (i) keeps the ring well-formed,
    (ii) changes capacity and denoted content exactly as the plain deque operation does, (iii) returns
    the deque's bytes / refuses exactly when the deque refuses, (iv) never leaves the storage (`Out.bad`
    is impossible because the deque never produces it). -/
theorem step_refines (r : Ring) (h : r.WF) (op : Op) :
    (stepM r op).1.WF ∧
    (((stepM r op).1.store.length, (stepM r op).1.content), (stepM r op).2) = stepS r.store.length r.content op := by
  have hcl := content_length r h.1 h.2
  have h1 : r.len ≤ r.store.length := h.1
  have h2 : r.off ≤ r.store.length := h.2
  cases op with
  | push bs =>
    simp only [stepM, stepS]
    by_cases hc : r.len < r.store.length ∧ bs.length ≤ r.store.length - r.len
    · obtain ⟨r', c, he, hw, hl, hcn⟩ := qpush_ok r h bs.length (some bs) hc.1 hc.2
      rw [he, hcl, if_pos hc, hcn, setSrc_some]
      exact ⟨hw, by rw [hl]⟩
    · rw [qpush_refused r h bs.length (some bs) (by omega), hcl, if_neg hc]
      exact ⟨h, rfl⟩
  | unshift bs =>
    simp only [stepM, stepS]
    by_cases hc : r.len < r.store.length ∧ bs.length ≤ r.store.length - r.len
    · obtain ⟨r', c, he, hw, hl, hcn⟩ := qunshift_ok r h bs.length (some bs) hc.1 hc.2
      rw [he, hcl, if_pos hc, hcn, setSrc_some]
      exact ⟨hw, by rw [hl]⟩
    · rw [qunshift_refused r h bs.length (some bs) (by omega), hcl, if_neg hc]
      exact ⟨h, rfl⟩
  | pop n =>
    simp only [stepM, stepS]
    obtain ⟨hok, hno⟩ := qpop_spec r h n true
    by_cases hc : n ≤ r.len
    · rcases hok hc with he | ⟨hf, _⟩
      · rw [he, hcl, if_pos hc]
        refine ⟨⟨by simp only []; omega, h.2⟩, ?_⟩
        rw [content_take r (r.len - n) (by omega)]
      · cases hf
    · rw [hno (by omega), hcl, if_neg hc]
      exact ⟨h, rfl⟩
  | shift n =>
    simp only [stepM, stepS]
    obtain ⟨hok, hno⟩ := qshift_spec r h n true
    by_cases hc : n ≤ r.len
    · rcases hok hc with ⟨r', he, hw, hs, hl, hcn⟩ | ⟨hf, _⟩
      · rw [he, hcl, if_pos hc, hcn]
        exact ⟨hw, by rw [hs]⟩
      · cases hf
    · rw [hno (by omega), hcl, if_neg hc]
      exact ⟨h, rfl⟩
  | crop pos n =>
    simp only [stepM, stepS]
    by_cases hc : pos + n ≤ r.len
    · by_cases hp : pos = 0
      · subst hp
        obtain ⟨r', c, he, hw, hs, hl, hcn⟩ := crop_front r h n (by omega)
        rw [he, hcl, if_pos hc, hcn]
        refine ⟨hw, ?_⟩
        rw [hs]; simp
      · obtain ⟨r', c, he, hw, hs, ho, hl, hcn⟩ := crop_mid r h pos n hp hc
        rw [he, hcl, if_pos hc, hcn]
        exact ⟨hw, by rw [hs]⟩
    · rw [crop_refused r h pos n (by omega), hcl, if_neg hc]
      exact ⟨h, rfl⟩
  | set pos bs =>
    simp only [stepM, stepS]
    by_cases h0 : bs.length = 0
    · rw [if_pos h0]
      unfold Ring.set
      rw [if_pos h0]
      exact ⟨h, rfl⟩
    · rw [if_neg h0]
      by_cases hc : pos + bs.length ≤ r.len
      · obtain ⟨r', c, he, hw, hs, ho, hl, hcn⟩ := set_ok r h pos bs.length (some bs) (by omega) hc
        rw [he, hcl, if_pos hc, hcn, setSrc_some]
        exact ⟨hw, by rw [hs]⟩
      · rw [hcl, if_neg hc]
        rcases set_refused r h pos bs.length (some bs) (by omega) (by omega) with he | he <;> rw [he] <;>
          exact ⟨h, rfl⟩
  | get pos n =>
    simp only [stepM, stepS]
    by_cases h0 : n = 0
    · rw [if_pos h0]
      unfold Ring.get
      rw [if_pos h0]
      exact ⟨h, rfl⟩
    · rw [if_neg h0]
      by_cases hc : pos + n ≤ r.len
      · obtain ⟨c, he⟩ := get_ok r h pos n (by omega) hc
        rw [he, hcl, if_pos hc]
        exact ⟨h, rfl⟩
      · rw [get_refused r h pos n true (by omega) (by omega), hcl, if_neg hc]
        exact ⟨h, rfl⟩
  | align pos =>
    simp only [stepM, stepS]
    obtain ⟨r1, he, hw, hl, hs, hc, _⟩ := align_spec r h pos
    rw [he, hc, hs]
    exact ⟨hw, rfl⟩
  | resize n =>
    simp only [stepM, stepS]
    obtain ⟨r1, he, hw, hs, hc⟩ := resize_spec r h n
    rw [he, hc, hs, hcl]
    exact ⟨hw, rfl⟩
  | string =>
    simp only [stepM, stepS]
    by_cases hc : r.len < r.store.length
    · obtain ⟨r1, he, hw, hs, hcn⟩ := string_spec r h hc
      rw [he, hcl, if_pos hc, hcn, hs]
      exact ⟨hw, rfl⟩
    · rw [hcl, if_neg hc]
      unfold Ring.string
      simp only [Ring.max]
      rw [if_pos (by omega)]
      exact ⟨h, rfl⟩

/-- run a history on the model / on the spec, collecting the outcomes -/
def runM (r : Ring) : List Op → Ring × List Out
  | [] => (r, [])
  | op :: ops => let (r1, o) := stepM r op; let (r2, os) := runM r1 ops; (r2, o :: os)

def runS (cap : Nat) (d : List Byte) : List Op → (Nat × List Byte) × List Out
  | [] => ((cap, d), [])
  | op :: ops => let (cd, o) := stepS cap d op; let (cd2, os) := runS cd.1 cd.2 ops; (cd2, o :: os)

/-- **Deque refinement for all histories**: from any well-formed ring (any capacity, offset, fill —
    wrapped or not) and for any finite sequence of operations (push/unshift/pop/shift/crop/set/get/
    align/resize/string with any operands), the model ends with exactly the capacity and content the
    plain byte deque holds after the same operations, and every operation returned exactly the deque's
    bytes / verdicts (in particular no `Out.bad`: no access left the storage). -/
theorem deque_refinement (ops : List Op) (r : Ring) (h : r.WF) :
    (runM r ops).1.WF ∧
    (((runM r ops).1.store.length, (runM r ops).1.content), (runM r ops).2) = runS r.store.length r.content ops := by
  induction ops generalizing r with
  | nil => exact ⟨h, rfl⟩
  | cons op ops ih =>
    obtain ⟨hw, he⟩ := step_refines r h op
    obtain ⟨hw2, he2⟩ := ih (stepM r op).1 hw
    unfold runM runS
    simp only []
    rw [← he]
    simp only []
    rw [← he2]
    exact ⟨hw2, rfl⟩

/-- refused operations leave the content unchanged (corollary, stated on its own because the property
    names it) -/
theorem refusal_pure (r : Ring) (h : r.WF) (op : Op) (hr : (stepM r op).2 = .refused) :
    (stepM r op).1.content = r.content := by
  obtain ⟨_, he⟩ := step_refines r h op
  have e1 : (stepS r.store.length r.content op).1.2 = (stepM r op).1.content := by rw [← he]
  have e2 : (stepS r.store.length r.content op).2 = (stepM r op).2 := by rw [← he]
  rw [hr] at e2
  rw [← e1]
  cases op <;> simp only [stepS] at e2 ⊢ <;> (repeat' split at e2) <;>
    first | (cases e2; done) | (simp_all; done) | (split <;> simp_all)

theorem runS_no_bad (ops : List Op) (cap : Nat) (d : List Byte) : Out.bad ∉ (runS cap d ops).2 := by
  induction ops generalizing cap d with
  | nil => simp [runS]
  | cons op ops ih =>
    unfold runS
    simp only [List.mem_cons, not_or]
    refine ⟨?_, ih _ _⟩
    cases op <;> simp only [stepS] <;> (repeat' split) <;> simp

/-- no access of the model leaves the storage, for any history -/
theorem in_bounds (ops : List Op) (r : Ring) (h : r.WF) : Out.bad ∉ (runM r ops).2 := by
  have e2 : (runS r.store.length r.content ops).2 = (runM r ops).2 := by
    rw [← (deque_refinement ops r h).2]
  rw [← e2]
  exact runS_no_bad ops _ _

/-- `mpt_queue_prepare(n)`: afterwards at least `n` bytes are free and the content is unchanged -/
theorem prepare_keeps_content (r : Ring) (h : r.WF) (n : Nat) :
    ∃ r' left, r.prepare n = .ok (r', left) ∧ r'.WF ∧ r'.content = r.content ∧
      left = r'.store.length - r'.len ∧ n ≤ left :=
  let ⟨r', left, he, hw, hc, hl, hn, _⟩ := prepare_spec r h n
  ⟨r', left, he, hw, hc, hl, hn⟩

/-- `mpt_memrev` (block swaps until one side fits the 1024-byte temporary) is a rotation, for all sizes -/
theorem memrev_rotate (s : List Byte) (pos pre len : Nat) (hp : pre ≤ len) (h : pos + len ≤ s.length) :
    ∃ s', Ring.memrev s pos pre len = .ok s' ∧ s'.length = s.length ∧
      ∀ i, s'[i]? = if pos ≤ i ∧ i < pos + (len - pre) then s[i + pre]?
                   else if pos + (len - pre) ≤ i ∧ i < pos + (len - pre) + pre then s[i - (len - pre)]? else s[i]? :=
  let ⟨s', he, hl, hs⟩ := memrev_spec s pos pre len hp h
  ⟨s', he, hl, hs⟩

/-- C++ `io::queue::push` (storage grows on demand): the bytes are appended; only an empty push onto a
    queue without a free byte reports failure, and then nothing changed -/
theorem cxx_push_appends (r : Ring) (h : r.WF) (bytes : List Byte) :
    ∃ r' b, r.xpush bytes = .ok (r', b) ∧ r'.WF ∧
      (b = true → r'.content = r.content ++ bytes) ∧ (b = false → r'.content = r.content ∧ bytes = []) :=
  xpush_spec r h bytes

/-- C++ `io::queue::unshift` -/
theorem cxx_unshift_prepends (r : Ring) (h : r.WF) (bytes : List Byte) :
    ∃ r' b, r.xunshift bytes = .ok (r', b) ∧ r'.WF ∧
      (b = true → r'.content = bytes ++ r.content) ∧ (b = false → r'.content = r.content ∧ bytes = []) :=
  xunshift_spec r h bytes

-- non-vacuity: a wrapped ring (capacity 4, offset 3, content "abc" = 1 byte at the end + 2 at the start)
example : (Ring.make 4 3 [97, 98, 99]).WF ∧ (Ring.make 4 3 [97, 98, 99]).content = [97, 98, 99]
    ∧ (Ring.make 4 3 [97, 98, 99]).store = [98, 99, 0, 97] := by
  refine ⟨⟨by decide, by decide⟩, by decide, by decide⟩
example : (runM (Ring.make 4 3 [97, 98, 99]) [.crop 1 1, .push [100, 101], .pop 3]).2
    = [.ok [], .ok [], .ok [99, 100, 101]] := by decide

/-- `mpt_queue_find` (comparison = "element equals needle"): the result is the FIRST element-aligned
    occurrence of the needle in the content (returned as the physical position of that logical index),
    `none` only if no element matches, and NULL only in the two documented cases (fewer bytes than one
    element; an element would straddle the storage wrap).  Never out of bounds. -/
theorem find_first_match (r : Ring) (h : r.WF) (needle : List Byte) (hn : needle ≠ []) :
    match r.find needle with
    | .ok (some a) => ∃ k, (k + 1) * needle.length ≤ r.len ∧ a = physIdx r.store.length r.off (k * needle.length) ∧
        elemAt r.content needle.length k = needle ∧ ∀ j, j < k → elemAt r.content needle.length j ≠ needle
    | .ok none => ∀ k, (k + 1) * needle.length ≤ r.len → elemAt r.content needle.length k ≠ needle
    | .null => r.len < needle.length ∨ (r.frag = true ∧ (r.store.length - r.off) % needle.length ≠ 0)
    | _ => False :=
  find_spec r h needle hn

/-- C++ `io::queue::pop` (with or without a target): `true` = the last `n` bytes were removed (and
    returned), `false` = content unchanged; a non-empty request within the content always succeeds -/
theorem cxx_pop (r : Ring) (h : r.WF) (n : Nat) (dst : Bool) :
    ∃ r' b out, r.xpop n dst = .ok (r', b, out) ∧ r'.WF ∧
      (b = false → r'.content = r.content ∧ r'.store.length = r.store.length) ∧
      (b = true → n ≤ r.len ∧ r'.content = r.content.take (r.len - n) ∧ r'.store.length = r.store.length ∧
        (dst = true → out = r.content.drop (r.len - n))) ∧
      (n ≤ r.len → 0 < n → r.store.length ≠ 0 → b = true) :=
  xpop_spec r h n dst

/-- C++ `io::queue::shift` -/
theorem cxx_shift (r : Ring) (h : r.WF) (n : Nat) (dst : Bool) :
    ∃ r' b out, r.xshift n dst = .ok (r', b, out) ∧ r'.WF ∧
      (b = false → r'.content = r.content ∧ r'.store.length = r.store.length) ∧
      (b = true → n ≤ r.len ∧ r'.content = r.content.drop n ∧ r'.store.length = r.store.length ∧
        (dst = true → out = r.content.take n)) ∧
      (n ≤ r.len → 0 < n → r.store.length ≠ 0 → b = true) :=
  xshift_spec r h n dst

/-- C++ `io::queue::write(len, data, part)`: all `len` elements are appended and `len` is returned -/
theorem cxx_write (r : Ring) (h : r.WF) (part : Nat) (hp : 0 < part) (elems : List (List Byte))
    (he : ∀ e ∈ elems, e.length = part) :
    ∃ r', r.xwrite part elems = .ok (r', elems.length) ∧ r'.WF ∧ r'.content = r.content ++ elems.flatten :=
  xwrite_spec r h part hp elems he

example : (Ring.make 8 6 [1, 2, 3, 4]).find [3, 4] = .ok (some 0) := by decide

/-! ### `mpt_queue_load` / `mpt_queue_save` (descriptor side modelled as "these bytes are ready, then end of
    file" and "accepts everything"; short reads/writes of the OS are driven by the harness only) -/

/-- `mpt_queue_load(len)` appends the first `min avail cap` bytes the descriptor offers (cap = free space,
    or `len` when `0 < len < free`), in order, for every ring state (wrapped or not) -/
theorem load_appends (r : Ring) (len : Nat) (bytes : List Byte) (h : r.WF) (hfree : r.len < r.store.length) :
    let cap := if len = 0 ∨ len ≥ r.store.length - r.len then r.store.length - r.len else len
    ∃ r', r.load len bytes = .ok (r', min bytes.length cap) ∧ r'.WF ∧
      r'.content = r.content ++ bytes.take (min bytes.length cap) :=
  load_spec r len bytes h hfree

/-- a full queue refuses `mpt_queue_load` (the literal `-2`) and is left as it was -/
theorem load_full_refused (r : Ring) (len : Nat) (bytes : List Byte) (hfull : r.store.length ≤ r.len) :
    r.load len bytes = .err .BadValue := by
  unfold Ring.load
  rw [empty_none r hfull]

/-- `mpt_queue_save` writes the whole content in order and leaves the queue empty -/
theorem save_drains (r : Ring) (h : r.WF) :
    ∃ r', r.save = .ok (r', r.content) ∧ r'.WF ∧ r'.content = [] :=
  save_spec r h

example : ((Ring.make 8 6 [1, 2, 3, 4]).load 3 [9, 8, 7, 6, 5]).bind (fun p => .ok (p.1.content, p.2))
    = .ok ([1, 2, 3, 4, 9, 8, 7], 3) := by decide
example : (Ring.make 8 6 [1, 2, 3, 4]).save.bind (fun p => .ok (p.1.content, p.2))
    = .ok ([], [1, 2, 3, 4]) := by decide

/-! ### C++ `io::queue::read`, `io::queue::peek`, `pipe<T>::elements()` -/

/-- `io::queue::read(len, data, part)`: the elements are taken off the END of the content, last element first;
    what is left, followed by the elements in their original order, is the old content; all `len` elements
    are delivered whenever `len * part` bytes are there, and the loop stops early ONLY when what is left is
    shorter than one element (so the count is `min len (stored / part)`) -/
theorem cxx_read (r : Ring) (h : r.WF) (part k : Nat) :
    ∃ r' outs, r.xread part k = .ok (r', outs) ∧ r'.WF ∧ r'.store.length = r.store.length ∧
      r'.content ++ outs.reverse.flatten = r.content ∧ (∀ o ∈ outs, o.length = part) ∧
      outs.length ≤ k ∧ (k * part ≤ r.len → outs.length = k) ∧ (outs.length < k → r'.len < part) :=
  xread_spec r h part k

/-- `io::queue::read(len, 0, part)` (no target): `n ≤ len` whole elements are removed from the end, nothing else
    changes (the loop may stop early at an element stored in two pieces: `mpt_qpop` has no pointer to return) -/
theorem cxx_read_null (r : Ring) (h : r.WF) (part k : Nat) :
    ∃ r' n, r.xreadNull part k = .ok (r', n) ∧ r'.WF ∧ r'.store.length = r.store.length ∧ n ≤ k ∧
      n * part ≤ r.len ∧ r'.content = r.content.take (r.len - n * part) :=
  xreadNull_spec r h part k

/-- Two-phase operations never refuse late: once `mpt_qpost` / `mpt_qpre` have accepted the length (and moved
    `len`/`off`), the write through `mpt_queue_set` cannot fail — for data and for zero fill.  (Refusals of the
    model carry no ring at all: `Res.err`/`Res.null`; that the C functions likewise return before their first
    write is tied by the differential run, which prints the content after every refused op.) -/
theorem no_late_refusal (r : Ring) (h : r.WF) (n : Nat) (data : Option (List Byte)) :
    (∀ r1 k, r.qpost n = .ok (r1, k) → ∃ r' c, r.qpush n data = .ok (r', c)) ∧
    (∀ r1 k, r.qpre n = .ok (r1, k) → ∃ r' c, r.qunshift n data = .ok (r', c)) := by
  have hcase : (r.len < r.store.length ∧ n ≤ r.store.length - r.len) ∨
      (r.store.length - r.len < n ∨ r.len = r.store.length) := by have := h.1; omega
  constructor
  · intro r1 k hp
    rcases hcase with hc | hc
    · obtain ⟨r', c, he, _⟩ := qpush_ok r h n data hc.1 hc.2
      exact ⟨r', c, he⟩
    · rw [qpost_refused r h n hc] at hp; cases hp
  · intro r1 k hp
    rcases hcase with hc | hc
    · obtain ⟨r', c, he, _⟩ := qunshift_ok r h n data hc.1 hc.2
      exact ⟨r', c, he⟩
    · rw [qpre_refused r h n hc] at hp; cases hp

/-- `io::queue::peek(len)` (0 = everything): never changes the content (it may re-align the storage), the
    span it returns is a prefix of the content, and it covers the request whenever the request can be met -/
theorem cxx_peek (r : Ring) (h : r.WF) (n : Nat) :
    ∃ r' out, r.xpeek n = .ok (r', out) ∧ r'.WF ∧ r'.content = r.content ∧
      ∃ m, out = r.content.take m ∧ m ≤ r.len ∧
        ((if n = 0 then r.len else n) ≤ r.len → (if n = 0 then r.len else n) ≤ m) :=
  xpeek_spec r h n

/-- `pipe<T>::elements()` = `peek()` of everything: the span is the whole content, in order (the template
    then cuts it to a multiple of `sizeof(T)`) -/
theorem cxx_peek_all (r : Ring) (h : r.WF) :
    ∃ r', r.xpeek 0 = .ok (r', r.content) ∧ r'.WF ∧ r'.content = r.content := by
  obtain ⟨r', out, he, hw, hc, m, ho, hm, hreq⟩ := xpeek_spec r h 0
  have hm' : m = r.len := by
    have := hreq (by simp)
    simp only [↓reduceIte] at this
    omega
  have hcl := content_length r h.1 h.2
  refine ⟨r', ?_, hw, hc⟩
  rw [he, ho, hm', List.take_of_length_le (by omega)]

-- peek of a wrapped ring returns the first part when that suffices; read takes the last two 2-byte elements
-- off a wrapped ring (the re-aligning case of peek runs the well-founded block rotation, not evaluated here)
example : ((Ring.make 4 3 [97, 98, 99]).xpeek 1).bind (fun p => .ok (p.1.content, p.2))
    = .ok ([97, 98, 99], [97]) := by decide
example : ((Ring.make 8 6 [1, 2, 3, 4, 5]).xread 2 2).bind (fun p => .ok (p.1.content, p.2))
    = .ok ([1], [[4, 5], [2, 3]]) := by decide

/-! ### The step the drivers run, against the outcomes the property allows (`Deque.allowed`)

`Ring.stepX` (Impl/RingOps.lean) is the function the model driver executes for every op line, incl. the NULL-data
variants, `find`, `prepare`, `load`, `save` with a short write, and `mpt_message_get` views; `Deque.allowed` is
what the driver prints as the `S` column and what the real code's answer is judged against.  `stepX_sound`
says the model's answer is always one of the allowed ones and the ring stays well-formed — for every ring, op
and operand; `runX_sound` lifts it to every history.  The find needle must be non-empty (the C function
divides by the element size; both drivers reject an empty needle). -/

open Mpt.Deque (XOp XOut allowed)

def validOp : XOp → Prop
  | .find needle => needle ≠ []
  | _ => True

theorem stepX_sound (r : Ring) (h : r.WF) (op : XOp) (hv : validOp op) :
    (r.stepX op).1.WF ∧
      ((r.stepX op).2.1, (r.stepX op).1.content) ∈ allowed r.store.length r.frag r.content op := by
  have hcl := content_length r h.1 h.2
  have h1 : r.len ≤ r.store.length := h.1
  have h2 : r.off ≤ r.store.length := h.2
  cases op with
  | push n data =>
    by_cases hc : r.len < r.store.length ∧ n ≤ r.store.length - r.len
    · obtain ⟨r', c, he, hw, hl, hcn⟩ := qpush_ok r h n data hc.1 hc.2
      simp only [stepX, he, allowed, Deque.allowedGrow, Deque.push, hcn, setSrc_eq_srcBytes]
      refine ⟨hw, ?_⟩
      by_cases hn : n = 0
      · subst hn; simp [srcBytes_zero]
      · rw [if_neg hn, if_pos (by omega)]; simp
    · rw [show r.stepX (.push n data) = (r, .refused, "MissingBuffer") by
        simp only [stepX, qpush_refused r h n data (by omega), failX, resText]; rfl]
      refine ⟨h, ?_⟩
      simp only [allowed, Deque.allowedGrow]
      by_cases hn : n = 0
      · rw [if_pos hn]; simp
      · rw [if_neg hn, if_neg (by omega)]; simp
  | unshift n data =>
    by_cases hc : r.len < r.store.length ∧ n ≤ r.store.length - r.len
    · obtain ⟨r', c, he, hw, hl, hcn⟩ := qunshift_ok r h n data hc.1 hc.2
      simp only [stepX, he, allowed, Deque.allowedGrow, Deque.unshift, hcn, setSrc_eq_srcBytes]
      refine ⟨hw, ?_⟩
      by_cases hn : n = 0
      · subst hn; simp [srcBytes_zero]
      · rw [if_neg hn, if_pos (by omega)]; simp
    · rw [show r.stepX (.unshift n data) = (r, .refused, "MissingBuffer") by
        simp only [stepX, qunshift_refused r h n data (by omega), failX, resText]; rfl]
      refine ⟨h, ?_⟩
      simp only [allowed, Deque.allowedGrow]
      by_cases hn : n = 0
      · rw [if_pos hn]; simp
      · rw [if_neg hn, if_neg (by omega)]; simp
  | pop n dst =>
    obtain ⟨hok, hno⟩ := qpop_spec r h n dst
    simp only [allowed, Deque.allowedTake, Deque.pop, hcl]
    by_cases hc : n ≤ r.len
    · rw [if_pos hc]
      rcases hok hc with he | ⟨hf, he⟩
      · simp only [stepX, he]
        refine ⟨⟨by simp only []; omega, h2⟩, ?_⟩
        rw [content_take r (r.len - n) (by omega)]
        simp
      · subst hf
        simp only [stepX, he, failX]
        exact ⟨h, by simp⟩
    · rw [if_neg hc]
      simp only [stepX, hno (by omega), failX]
      exact ⟨h, by simp⟩
  | shift n dst =>
    obtain ⟨hok, hno⟩ := qshift_spec r h n dst
    simp only [allowed, Deque.allowedTake, Deque.shift, hcl]
    by_cases hc : n ≤ r.len
    · rw [if_pos hc]
      rcases hok hc with ⟨r', he, hw, _, _, hcn⟩ | ⟨hf, he⟩
      · simp only [stepX, he, hcn]
        exact ⟨hw, by simp⟩
      · subst hf
        simp only [stepX, he, failX]
        exact ⟨h, by simp⟩
    · rw [if_neg hc]
      simp only [stepX, hno (by omega), failX]
      exact ⟨h, by simp⟩
  | crop pos n =>
    simp only [allowed, Deque.allowedAt, Deque.crop, hcl]
    by_cases hc : pos + n ≤ r.len
    · rw [if_pos hc]
      by_cases hp : pos = 0
      · subst hp
        obtain ⟨r', c, he, hw, _, _, hcn⟩ := crop_front r h n (by omega)
        simp only [stepX, he, hcn]
        exact ⟨hw, by simp⟩
      · obtain ⟨r', c, he, hw, _, _, _, hcn⟩ := crop_mid r h pos n hp hc
        simp only [stepX, he, hcn]
        exact ⟨hw, by simp⟩
    · rw [if_neg hc]
      simp only [stepX, crop_refused r h pos n (by omega), failX]
      exact ⟨h, by simp⟩
  | set pos n data =>
    simp only [allowed, Deque.allowedAt, Deque.set, hcl, srcBytes_length]
    by_cases hn : n = 0
    · subst hn
      have he : r.set pos 0 data = .ok (r, 0) := by unfold Ring.set; simp
      simp only [stepX, he, srcBytes_zero]
      refine ⟨h, ?_⟩
      by_cases hc : pos + 0 ≤ r.len
      · rw [if_pos hc]; simp
      · rw [if_neg hc]; simp
    · by_cases hc : pos + n ≤ r.len
      · rw [if_pos hc]
        obtain ⟨r', c, he, hw, _, _, _, hcn⟩ := set_ok r h pos n data (by omega) hc
        simp only [stepX, he, hcn, setSrc_eq_srcBytes]
        exact ⟨hw, by simp⟩
      · rw [if_neg hc]
        rcases set_refused r h pos n data (by omega) (by omega) with he | he <;>
        · simp only [stepX, he, failX]
          exact ⟨h, by simp⟩
  | get pos n dst =>
    simp only [allowed, Deque.allowedAt, Deque.get, hcl]
    by_cases hn : n = 0
    · subst hn
      have he : r.get pos 0 dst = .ok (0, []) := by unfold Ring.get; simp
      simp only [stepX, he]
      refine ⟨h, ?_⟩
      by_cases hc : pos + 0 ≤ r.len
      · rw [if_pos hc]; cases dst <;> simp
      · rw [if_neg hc]; simp
    · by_cases hc : pos + n ≤ r.len
      · rw [if_pos hc]
        cases dst with
        | true =>
          obtain ⟨c, he⟩ := get_ok r h pos n (by omega) hc
          simp only [stepX, he]
          exact ⟨h, by simp⟩
        | false =>
          obtain ⟨c, he⟩ := get_nodst r h pos n (by omega) hc
          simp only [stepX, he]
          exact ⟨h, by simp⟩
      · rw [if_neg hc]
        simp only [stepX, get_refused r h pos n dst (by omega) (by omega), failX]
        exact ⟨h, by simp⟩
  | align pos =>
    obtain ⟨r1, he, hw, _, _, hcn, _⟩ := align_spec r h pos
    simp only [stepX, he, hcn, allowed]
    exact ⟨hw, by simp⟩
  | resize n =>
    obtain ⟨r', he, hw, _, hcn⟩ := resize_spec r h n
    simp only [stepX, he, hcn, allowed, hcl]
    refine ⟨hw, ?_⟩
    by_cases hc : n < r.len
    · rw [if_pos hc]; simp
    · rw [if_neg hc, show r.len - n = 0 by omega]; simp
  | prepare n =>
    obtain ⟨r', left, he, hw, hcn, _, hov, hno⟩ := prepareC_spec r h n
    simp only [allowed, hcl]
    by_cases hc : n > r.store.length - r.len ∧ n - (r.store.length - r.len) > Deque.sizeMax - 8 - r.store.length
    · obtain ⟨hr, hl⟩ := hov hc
      subst hr hl
      rw [if_pos hc]
      simp only [stepX, he]
      rw [if_neg (by omega)]
      exact ⟨h, by simp⟩
    · obtain ⟨_, hn⟩ := hno hc
      rw [if_neg hc]
      simp only [stepX, he]
      rw [if_pos hn]
      exact ⟨hw, by simp [hcn]⟩
  | find needle =>
    have hne : needle ≠ [] := hv
    have hpos : 0 < needle.length := List.length_pos_iff.mpr hne
    have hs := find_spec r h needle hne
    simp only [allowed, hcl]
    generalize hf : r.find needle = res at hs
    match res, hs with
    | .ok (some a), hs =>
      obtain ⟨k, hk, ha, hm, hfirst⟩ := hs
      have hkl : k * needle.length < r.store.length := by
        have : (k + 1) * needle.length = k * needle.length + needle.length := Nat.succ_mul _ _
        omega
      have hkd : k < r.content.length + 1 := by
        have : k + 1 ≤ (k + 1) * needle.length := Nat.le_mul_of_pos_right _ hpos
        omega
      simp only [stepX, hf]
      rw [ha, logicalPos_physIdx r h _ hkl,
          findAt_some r.content needle k (by rw [hcl]; exact hk) hm hfirst (r.len + 1) 0 (by omega) (by omega)]
      exact ⟨h, by simp⟩
    | .ok none, hs =>
      simp only [stepX, hf]
      rw [findAt_none r.content needle (r.len + 1) 0 (fun k _ hk => hs k (by rw [← hcl]; exact hk))]
      exact ⟨h, by simp⟩
    | .null, hs =>
      simp only [stepX, hf, failX]
      refine ⟨h, ?_⟩
      have : r.len < needle.length ∨ r.frag = true := by
        rcases hs with hs | hs
        · exact Or.inl hs
        · exact Or.inr hs.1
      rw [if_pos this]
      simp
    | .err _, hs => exact absurd hs (by simp)
    | .oob, hs => exact absurd hs (by simp)
    | .fault, hs => exact absurd hs (by simp)
  | string =>
    simp only [allowed, hcl]
    by_cases hc : r.len < r.store.length
    · obtain ⟨r', he, hw, _, hcn⟩ := string_spec r h hc
      rw [if_pos hc]
      simp only [stepX, he, hcn]
      exact ⟨hw, by simp⟩
    · rw [if_neg hc]
      have he : r.string = .null := by
        unfold Ring.string; simp only [Ring.max]; rw [if_pos (by omega)]
      simp only [stepX, he, failX]
      exact ⟨h, by simp⟩
  | load len avail =>
    simp only [allowed, hcl]
    by_cases hc : r.len < r.store.length
    · obtain ⟨r', he, hw, hcn⟩ := load_spec r len avail h hc
      rw [if_neg (by omega)]
      simp only [stepX, he, hcn]
      exact ⟨hw, by simp [Nat.min_def]⟩
    · rw [if_pos (by omega)]
      have he : r.load len avail = .err .BadValue := by
        unfold Ring.load; rw [empty_none r (by omega)]
      simp only [stepX, he, failX]
      exact ⟨h, by simp⟩
  | save accept =>
    obtain ⟨r', he, hw, _, hcn⟩ := saveN_spec r h accept
    have hlen : (r.content.take (min r.len accept)).length = min r.len accept := by
      rw [List.length_take, hcl]; omega
    have e : Nat.min r.len accept = min r.len accept := rfl
    simp only [allowed, hcl, stepX, he, hcn, e, hlen]
    exact ⟨hw, by simp⟩
  | mget off take vec =>
    obtain ⟨hin, hout⟩ := mget_spec r h off take vec
    simp only [allowed, hcl]
    by_cases hc : off + take ≤ r.len
    · rw [if_pos hc]
      rcases hin hc with ⟨a, b, he, hab⟩ | ⟨hvf, he⟩
      · simp only [stepX, he, hab]
        exact ⟨h, by simp⟩
      · subst hvf
        simp only [stepX, he, failX]
        exact ⟨h, by simp⟩
    · rw [if_neg hc]
      obtain ⟨e, he⟩ := hout (by omega)
      simp only [stepX, he, failX]
      exact ⟨h, by simp⟩

/-- M run over a history of driver ops: final ring and the (outcome, content afterwards) pairs -/
def runX (r : Ring) : List XOp → Ring × List (XOut × List Byte)
  | [] => (r, [])
  | op :: ops =>
    let r' := (r.stepX op).1
    let rest := runX r' ops
    (rest.1, ((r.stepX op).2.1, r'.content) :: rest.2)

/-- the model's answers along a history are allowed answers, each judged at the state the history reached -/
def AllowedRun : Ring → List XOp → Prop
  | _, [] => True
  | r, op :: ops =>
    ((r.stepX op).2.1, (r.stepX op).1.content) ∈ allowed r.store.length r.frag r.content op ∧
      AllowedRun (r.stepX op).1 ops

/-- **Every history** of driver ops (push/unshift/pop/shift with or without data, crop, set, get, align, resize,
    prepare, find, string, load, save with short writes, message views): the ring stays well-formed and every
    answer of the model is one the property allows at that point.  Together with the differential run (the real
    code's answer is checked against the same `allowed` list and against the model's answer) this is the tie
    "code ⊑ spec" for the `S` column the driver prints. -/
theorem runX_sound (r : Ring) (h : r.WF) (ops : List XOp) (hv : ∀ op ∈ ops, validOp op) :
    (runX r ops).1.WF ∧ AllowedRun r ops := by
  induction ops generalizing r with
  | nil => exact ⟨h, trivial⟩
  | cons op ops ih =>
    obtain ⟨hw, hm⟩ := stepX_sound r h op (hv op (List.mem_cons_self))
    obtain ⟨hw', hr⟩ := ih (r.stepX op).1 hw (fun o ho => hv o (List.mem_cons_of_mem _ ho))
    exact ⟨hw', hm, hr⟩

example : ((Ring.make 4 3 [97, 98, 99]).stepX (.mget 1 2 true)).2.1 = .ok [98, 99] := by decide
example : ((Ring.make 4 3 [97, 98, 99]).stepX (.save 2)).2.1 = .okN 2 [97, 98]
    ∧ ((Ring.make 4 3 [97, 98, 99]).stepX (.save 2)).1.content = [99] := by decide
example : ((Ring.make 4 3 [97, 98, 99]).stepX (.pop 3 false)).2.1 = .refused := by decide

end Mpt.C13
