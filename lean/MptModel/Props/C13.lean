import MptModel.Impl.Ring
import MptModel.Spec.Deque
namespace Mpt.C13
theorem placeholder : True := trivial
end Mpt.C13
