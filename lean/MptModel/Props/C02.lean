/-
  C02 — Message stream integrity under arbitrary segmentation.   PROPERTY THEOREMS ONLY
  (helper lemmas: Lemmas/Stream.lean, Lemmas/CodedQueue.lean).

  Part 1 needs no implementation model: S = Spec/Stream.lean (`wire`, the reference receiver that splits at
  the delimiter, schedules of `write i | flush | deliver k | receive` events).
  Part 2 is about M = Impl/CodedQueue.lean (`queuePush`, `queueRecv`, `queueShift` … on the C13 ring model with
  the C01/C03 codec models): representation invariants of both queues for every reachable state, refinement
  of the flat encoder by `queuePush` on every ring state, and what a sender history puts on the wire.
-/
import MptModel.Lemmas.Stream
import MptModel.Lemmas.CodedQueueHist
import MptModel.Lemmas.CodedQueueDec
import MptModel.Lemmas.CodedQueueDrain
import MptModel.Lemmas.CodedQueuePeek
namespace Mpt.C02
open Mpt Mpt.Cobs Mpt.Stream Mpt.Codec Mpt.CQ

/-- the value of a model call, for the examples -/
def _root_.Mpt.Res.toOption' {α} : Res α → Option α
  | .ok v => some v
  | _ => none

/-- Frames are uniquely recoverable: if every frame is zero-terminated and zero-free otherwise, splitting
    the concatenation at the delimiter gives back exactly the frames (same count, order, bytes) and
    nothing is left over. -/
theorem frames_unique (fs : List (List Byte)) (h : ∀ f ∈ fs, IsFrame f) : splitFrames fs.flatten = (fs, []) :=
  splitAux_frames fs h

example : splitFrames ([[2, 7, 0], [1, 0], [3, 1, 1, 0]] : List (List Byte)).flatten = ([[2, 7, 0], [1, 0], [3, 1, 1, 0]], []) := by
  decide

/-- the frames the reference encoder produces meet the hypothesis of `frames_unique`, all four framings -/
theorem wire_frames (v : Variant) (ms : List Msg) :
    splitFrames (wire v ms) = (ms.map (enc v), []) := by
  unfold wire
  exact frames_unique _ (by intro f hf; obtain ⟨m, _, rfl⟩ := List.mem_map.mp hf; exact enc_isFrame v m)

/-- **Stream integrity**: for every message list and every way of cutting its wire byte stream into
    segments (any number of segments, any lengths, empty ones included: `segs.flatten = wire v ms` is the
    only hypothesis), the reference receiver obtains exactly the sent messages — same count, same order,
    same bytes, nothing lost, duplicated or merged — and no byte is left pending.  All four framings. -/
theorem stream_integrity (v : Variant) (ms : List Msg) (segs : List (List Byte)) (h : segs.flatten = wire v ms) :
    (recvAll v segs).out = ms ∧ (recvAll v segs).pending = [] := by
  rw [recvAll_flatten, h]
  unfold wire
  rw [segment_frames v _ ms (carries_enc v ms) {} rfl]
  simp

example : (recvAll .zpe [[0xe1], [7, 2, 9], [], [0, 1], [0]]).out = [[7, 0, 0, 9], []]
    ∧ [[0xe1], [7, 2, 9], [], [0, 1], [0]].flatten = wire .zpe [[7, 0, 0, 9], []] := by decide

/-- the same for any frames that carry the messages — in particular the frames of messages handed to the
    encoder in pieces (`encChunks`; for zero pair elimination the frame depends on where the pieces end) -/
theorem stream_integrity_frames (v : Variant) (fs : List (List Byte)) (ms : List Msg) (segs : List (List Byte))
    (hc : Carries v fs ms) (h : segs.flatten = fs.flatten) :
    (recvAll v segs).out = ms ∧ (recvAll v segs).pending = [] := by
  rw [recvAll_flatten, h, segment_frames v fs ms hc {} rfl]
  simp

/-- messages handed over in pieces -/
theorem stream_integrity_chunks (v : Variant) (cms : List (List (List Byte))) (segs : List (List Byte))
    (h : segs.flatten = (cms.map (encChunks v)).flatten) :
    (recvAll v segs).out = cms.map List.flatten := by
  refine (stream_integrity_frames v _ _ segs ?_ h).1
  clear h
  induction cms with
  | nil => exact Carries.nil
  | cons c cs ih => exact Carries.cons ⟨encChunks_isFrame v c, encChunks_roundtrip v c⟩ ih

/-- **No stall**: once the delivered bytes contain `k` complete frames — the delivered prefix is the wire
    of the first `k` messages followed by anything (the beginning of the next frame, or nothing) — the
    first `k` messages are available at the receiver, whatever the segmentation. -/
theorem no_stall (v : Variant) (ms : List Msg) (k : Nat) (segs : List (List Byte)) (rest : List Byte)
    (h : segs.flatten = wire v (ms.take k) ++ rest) :
    ∃ more, (recvAll v segs).out = ms.take k ++ more := by
  rw [recvAll_flatten, h, segment_append]
  have h1 := segment_frames v _ (ms.take k) (carries_enc v (ms.take k)) {} rfl
  unfold wire
  rw [h1]
  obtain ⟨more, hm⟩ := segment_out_mono v rest { pending := [], out := ([] : List Msg) ++ ms.take k }
  exact ⟨more, by rw [hm]; simp⟩

example : (recvAll .cobs [[2], [7, 0, 3], [1]]).out = [[7]] := by decide

/-- nothing is invented ahead of time: whatever prefix of the wire has been delivered, in whatever
    segments, the messages obtained are a prefix of the sent ones -/
theorem prefix_only (v : Variant) (ms : List Msg) (segs : List (List Byte)) (rest : List Byte)
    (h : segs.flatten ++ rest = wire v ms) :
    ∃ later, (recvAll v segs).out ++ later = ms := by
  have hall := (stream_integrity v ms (segs ++ [rest]) (by simp [h])).1
  rw [recvAll_flatten] at hall ⊢
  rw [List.flatten_append, segment_append] at hall
  obtain ⟨more, hm⟩ := segment_out_mono v [rest].flatten (Recv.segment v {} segs.flatten)
  exact ⟨more, by rw [← hall, hm]⟩

/-- **Schedules**: for every interleaving of `write i | flush | deliver k | receive` events (any order,
    any `k`, writes of any indices of `ms`), the messages the receiver has obtained are at every moment a
    prefix of the messages written so far; once everything written has been flushed, delivered and looked
    at, they are exactly the written messages. -/
theorem schedule_integrity (v : Variant) (ms : List Msg) (evs : List Event) :
    (∃ later, (run v ms evs).rx.out ++ later = (run v ms evs).sent) ∧
    ((run v ms evs).txbuf = [] → (run v ms evs).chan = [] → (run v ms evs).rxbuf = [] →
      (run v ms evs).rx.out = (run v ms evs).sent ∧ (run v ms evs).rx.pending = []) := by
  obtain ⟨c, h1, h2⟩ := run_inv v ms evs {} (init_inv v)
  unfold run
  generalize List.foldl (step v ms) {} evs = s at h1 h2
  constructor
  · have := prefix_only v s.sent [c] (s.rxbuf ++ s.chan ++ s.txbuf) (by simp [← h2])
    rw [recvAll_flatten] at this
    simpa [h1] using this
  · intro e1 e2 e3
    rw [e1, e2, e3] at h2
    have := stream_integrity v s.sent [c] (by simpa using h2)
    rw [recvAll_flatten] at this
    simpa [h1] using this

example : (run .cobsR [[5, 6], [], [9]] [.write 0, .write 2, .flush, .deliver 2, .receive, .write 1, .deliver 9, .flush,
    .receive, .deliver 1, .deliver 5, .receive]).rx.out = [[5, 6], [9], []] := by decide

/-! ### Part 2: the implementation model -/

/-- **`mpt_queue_push` without encoder (raw byte queue)**, any ring state with `done + scratch = data.len`:
    a data call appends the first `min free len` bytes to the content and counts them as open data, a full
    queue refuses with `MissingBuffer` and stays as it is; the terminating call declares all data finished
    (`done = data.len`, `scratch = 0`) without touching the ring. -/
theorem queue_push_raw (q : EncodeQueue) (hc : q.codec = none) (hwf : q.ring.WF) (hl : q.st.done + q.st.scratch = q.ring.len) :
    (∃ out, queuePush q none = .ok out ∧ out.ret = (q.ring.len : Nat) ∧ out.q.ring = q.ring ∧
        out.q.st.done = q.ring.len ∧ out.q.st.scratch = 0) ∧
    (∀ bytes, ∃ out, queuePush q (some bytes) = .ok out ∧
      ((q.ring.len = q.ring.store.length ∧ out.ret = Err.MissingBuffer.code ∧ out.q = q) ∨
       (q.ring.len < q.ring.store.length ∧ out.ret = ((min (q.ring.store.length - q.ring.len) bytes.length : Nat) : Int) ∧
          out.q.ring.WF ∧ out.q.ring.store.length = q.ring.store.length ∧
          out.q.ring.content = q.ring.content ++ bytes.take (min (q.ring.store.length - q.ring.len) bytes.length) ∧
          out.q.st.done = q.st.done ∧
          out.q.st.scratch = q.st.scratch + min (q.ring.store.length - q.ring.len) bytes.length))) :=
  pushRaw_spec q hc hwf hl

/-- **`mpt_queue_peek` is invisible to the stream** (one call, any queue state inside a valid frame stream,
    with or without destination buffer, any `max`): the call is total (`queue_peek_safe`; `DInv` kept for arbitrary
    data: capacity, data length and offset unchanged), and inside a valid stream the receiver keeps its place
    (`Phase`: same number of finished frames, same bytes accepted — the decoder only decodes more data bytes of
    the open block in place, inside the first contiguous part of the ring), the work area invariant that the
    liveness proof needs (`SlackOk`) is kept, no message appears or disappears, and a delivered message that
    waits for `mpt_message_get` is left exactly as it is (state and content unchanged).  Since `queue_refines_recv`
    holds for every `Phase` state, what a later `mpt_queue_recv` delivers is the message of the same frame
    `k` as without the peek. -/
theorem peek_invisible (v : Variant) (frames : List (List Byte)) (ms : List Msg) (hcar : Carries v frames ms)
    (q : DecodeQueue) (hc : q.codec = some v) (fed future : List Byte) (hfut : fed ++ future = frames.flatten) (k : Nat)
    (h : DInv q) (hph : Phase v frames q.st q.ring.content fed k) (mx : Nat) (dst : Bool) :
    ∃ q' r out, queuePeek q mx dst = .ok (q', r, out) ∧
    DInv q' ∧ q'.codec = some v ∧ q'.ring.store.length = q.ring.store.length ∧ q'.ring.len = q.ring.len ∧
    Phase v frames q'.st q'.ring.content fed k ∧ (SlackOk v q.st → SlackOk v q'.st) ∧ q'.st.msg = q.st.msg ∧
    (q.st.msg.isSome → q'.st = q.st ∧ q'.ring.content = q.ring.content) := by
  obtain ⟨q', r, out, he⟩ := queuePeek_total v q h hc mx dst
  obtain ⟨h1, h2, h3, h4, _⟩ := queuePeek_inv v q h hc mx dst q' r out he
  obtain ⟨h5, h6, h7, h8⟩ := queuePeek_phase v frames ms hcar q hc fed future hfut k h hph mx dst q' r out he
  exact ⟨q', r, out, he, h1, h2, h3, h4, h5, h6, h7, h8⟩

/-- `mpt_queue_peek` is total on every state that satisfies the invariant (any data, not only valid streams,
    with or without destination buffer, any `max`): no access outside the storage — the decoder stays inside the
    piece it is given, the copy to the destination stays inside the decoded bytes —, invariant and capacity
    kept.  So the peeks in the histories of `queue_inv_decode`, `receiver_history` and `no_stall_model` are
    real steps, never the "model refused" no-op. -/
theorem queue_peek_safe (v : Variant) (q : DecodeQueue) (hc : q.codec = some v) (h : DInv q) (mx : Nat) (dst : Bool) :
    ∃ q' r out, queuePeek q mx dst = .ok (q', r, out) ∧ DInv q' ∧ q'.ring.store.length = q.ring.store.length := by
  obtain ⟨q', r, out, he⟩ := queuePeek_total v q h hc mx dst
  obtain ⟨h1, _, h3, _⟩ := queuePeek_inv v q h hc mx dst q' r out he
  exact ⟨q', r, out, he, h1, h3⟩

-- non-vacuity: a peek without destination on a wrapped ring with an open block
example :
    let q0 : DecodeQueue := { ring := { store := List.replicate 8 0, len := 0, off := 6 }, codec := some .cobs, base := 3 }
    ((queueFeed q0 [5, 0x61, 0x62]).toOption'.bind fun q1 => (queueRecv q1.1).toOption'.bind fun q2 =>
      (queuePeek q2.1 16 false).toOption'.map fun x => x.2.1) = some 2 := by decide

-- non-vacuity: COBS frame `05 61 62 63 64 00` arrives in a wrapped ring; after the first receive the decoder
-- stands inside the block; a peek decodes two more bytes in place; the next receive delivers the message
example :
    let r : List DOp := [.feed [5, 0x61], .recv, .feed [0x62, 0x63], .peek 16 true, .feed [0x64, 0], .peek 16 false, .recv]
    let s := r.foldl rstep { q := { ring := { store := List.replicate 8 0, len := 0, off := 6 }, codec := some .cobs, base := 3 } }
    s.got = [[0x61, 0x62, 0x63, 0x64]] := by decide

/-- **`queuePush` refines the flat encoder on the ring's content** — every ring state (any capacity, wrap
    offset, fill; data contiguous, wrapped, or with the open block across the storage end), every framing,
    data or termination.  `EInv v q vis fin ms` says: the ring is well-formed, `data.len = done + scratch`,
    and the content is the finished bytes `vis` followed by the open block of the reference encoding of the
    consumed message bytes `ms` (`fin` = its finished blocks).  Then `mpt_queue_push`
    * never leaves the storage and never aborts (the result is `.ok`, not `.oob`/`.fault`), keeps the capacity,
    * is either refused (negative return) with the invariant — hence content and message state — unchanged, or
    * consumes `ret ≤ len` bytes and continues the content by the reference encoding of exactly these bytes
      (`Progress`, data), resp. completes the frame: `fin ++ tail` is the reference frame of the message and
      `tail` is appended to the finished bytes (`Progress`, termination). -/
theorem queue_refines_push (v : Variant) (q : EncodeQueue) (vis fin : List Byte) (ms : List (Byte × Bool))
    (src : Option (List Byte)) (h : EInv v q vis fin ms) :
    ∃ out, queuePush q src = .ok out ∧ out.q.ring.store.length = q.ring.store.length ∧
      ((out.ret < 0 ∧ EInv v out.q vis fin ms) ∨
       (∃ (vis' fin' : List Byte) (ms' : List (Byte × Bool)) (ret : Nat), out.ret = (ret : Int) ∧
          Progress v src vis fin ms vis' fin' ms' ret ∧ EInv v out.q vis' fin' ms')) :=
  queuePush_refines v q vis fin ms src h

-- non-vacuity: capacity 12, data at offset 8 with the open block `07 01..06` across the storage end (the
-- out-of-band path), then 8 zero bytes: 5 are taken, the content is the reference encoding so far
example :
    let q0 : EncodeQueue := { ring := Ring.make 12 8 [7, 1, 2, 3, 4, 5, 6], st := { scratch := 7 }, codec := some (.cobs .cobs) }
    (queuePush q0 (some [0, 0, 0, 0, 0, 0, 0, 0])).toOption'.map
        (fun o => (o.ret, o.q.ring.content, o.q.ring.off, o.q.st.done, o.q.st.scratch))
      = some (5, [7, 1, 2, 3, 4, 5, 6, 1, 1, 1, 1, 1], 8, 11, 1) := by decide

/-- **Representation invariant of the encode queue, every reachable state**: from a fresh queue of any
    capacity and wrap offset, after any sequence of pushes (any pieces), terminations, takes (flushes of any
    size), growths and re-alignments, `done + scratch = data.len ≤ max` and `off ≤ max`. -/
theorem queue_inv_encode (v : Variant) (store : List Byte) (off : Nat) (hoff : off ≤ store.length) (ops : List EOp) :
    let s := erun { q := { ring := { store := store, len := 0, off := off }, codec := some (.cobs v) } } ops
    s.q.st.done + s.q.st.scratch = s.q.ring.len ∧ s.q.ring.len ≤ s.q.ring.max ∧ s.q.ring.off ≤ s.q.ring.max := by
  obtain ⟨_, _, _, _, hinv, _⟩ := (erun_hist v ops _ (fresh_hist v store off hoff)).ex
  exact ⟨hinv.len.symm, hinv.wf.1, hinv.wf.2⟩

/-- **What a sender history puts on the wire**: after any sequence of operations on a fresh queue, the bytes
    taken from the queue so far are a prefix of the frame stream of the terminated messages and the message
    in progress; each frame is zero-terminated, zero-free otherwise and decodes (reference decoder) to its
    message — nothing is lost, duplicated, reordered or overwritten, whatever the ring did in between. -/
theorem sender_history (v : Variant) (store : List Byte) (off : Nat) (hoff : off ≤ store.length) (ops : List EOp) :
    let s := erun { q := { ring := { store := store, len := 0, off := off }, codec := some (.cobs v) } } ops
    ∃ (frames : List (List Byte)) (inQueue partial_ : List Byte),
      Carries v frames s.msgs ∧ s.wire ++ inQueue = frames.flatten ++ partial_ ∧
      (s.q.ring.len = 0 → inQueue = [] ∧ partial_ = []) := by
  obtain ⟨frames, vis, fin, ms, hinv, hcar, hsum, _⟩ := (erun_hist v ops _ (fresh_hist v store off hoff)).ex
  refine ⟨frames, vis, fin, hcar, hsum, ?_⟩
  intro h0
  have hb := hinv.winv.bound
  have hl := hinv.len
  obtain ⟨run, g1, _, g3, _⟩ := hinv.winv
  rcases g3 with ⟨_, _, c, _, _, _⟩ | ⟨a, _, _⟩
  · exact ⟨List.length_eq_zero_iff.mp (by omega), c⟩
  · omega

/-- **Sender to reference receiver**: when everything written has been terminated and taken (the queue is
    empty), the wire is exactly the frame stream, so — by `stream_integrity_frames` — a receiver that gets
    it in any segmentation obtains exactly the messages that were written, in order. -/
theorem sender_to_receiver (v : Variant) (store : List Byte) (off : Nat) (hoff : off ≤ store.length) (ops : List EOp)
    (segs : List (List Byte)) :
    let s := erun { q := { ring := { store := store, len := 0, off := off }, codec := some (.cobs v) } } ops
    s.q.ring.len = 0 → segs.flatten = s.wire → (recvAll v segs).out = s.msgs := by
  intro s h0 hseg
  obtain ⟨frames, inq, part, hcar, hsum, hz⟩ := sender_history v store off hoff ops
  obtain ⟨rfl, rfl⟩ := hz h0
  simp only [List.append_nil] at hsum
  exact (stream_integrity_frames v frames _ segs hcar (by rw [hseg]; exact hsum)).1

example :
    (erun { q := { ring := { store := List.replicate 8 0, len := 0, off := 5 }, codec := some (.cobs .zpe) } }
      [.push [7, 0], .push [0, 9], .term, .take 3, .push [1, 2, 3], .term, .take 100]).wire
      = [2, 7, 1, 2, 9, 0, 4, 1, 2, 3, 0] := by decide

/-! the decode queue -/

/-- **Representation invariant of the decode queue, every reachable state**: from a fresh queue (any
    capacity, wrap offset, storage alignment, framing) after any sequence of arrivals of arbitrary bytes,
    receives, shifts, growths and peeks (`mpt_queue_peek`, any `max`, with or without destination): `pos + len ≤ curr ≤ data.len ≤ max` — the decoded bytes `[pos, pos+len)`
    lie in front of the input position `curr`, the undecoded ones behind it — and a waiting message is
    exactly the decoded data. -/
theorem queue_inv_decode (v : Variant) (store : List Byte) (off base : Nat) (hoff : off ≤ store.length) (ops : List DOp) :
    let q := ops.foldl dstep { ring := { store := store, len := 0, off := off }, codec := some v, base := base }
    q.st.pos + q.st.len ≤ q.st.curr ∧ q.st.curr ≤ q.ring.len ∧ q.ring.len ≤ q.ring.max ∧
    (∀ m, q.st.msg = some m → m = q.st.len) := by
  obtain ⟨hi, _⟩ := dstep_inv v ops _ (DInv.fresh store off hoff (some v) base) rfl
  exact ⟨hi.bnd.le, hi.bnd.tot, hi.wf.1, hi.bnd.msg⟩

/-- `mpt_queue_recv` is total on every state that satisfies the invariant: no access outside the storage,
    no store at or behind the decoder's read position, invariant and capacity kept -/
theorem queue_recv_safe (v : Variant) (q : DecodeQueue) (hc : q.codec = some v) (h : DInv q) :
    ∃ q' r, queueRecv q = .ok (q', r) ∧ DInv q' ∧ q'.ring.store.length = q.ring.store.length :=
  let ⟨q', r, he, hi, hs, _⟩ := queueRecv_inv v q hc h
  ⟨q', r, he, hi, hs⟩

-- non-vacuity: the frame `e1 61 02 62 00` (61 00 00 62, zero pair elimination) arrives first in a wrapped
-- ring with odd storage address; the zero pair needs the `MissingBuffer` recovery; the message is delivered
example :
    let q0 : DecodeQueue := { ring := { store := List.replicate 8 0, len := 0, off := 6 }, codec := some .zpe, base := 3 }
    ((queueFeed q0 [0xe1, 0x61, 0x02, 0x62, 0x00]).toOption'.bind fun q1 =>
      (queueRecv q1.1).toOption'.map fun q2 => (q2.2, (currentMessage q2.1).map Res.toOption'))
      = some (1, some (some (0, [0x61, 0, 0, 0x62]))) := by decide

/-- **`mpt_queue_recv` refines the reference receiver, one call, any queue state**: a receiver that stands at a
    definite place of a valid frame stream (`Phase`: `k` frames finished; between two frames, or inside frame
    `k` after its first byte and some consumed bytes; any capacity, wrap offset, storage alignment, any split
    of the data into the two ring parts) either does not deliver and keeps its place, or delivers — readable
    through `mpt_message_get(data.pos, data.msg)` — exactly the message of frame `k` and stands behind that
    frame.  The call is total; the `MissingBuffer` recovery (space prepended, decoded data moved back, retry)
    is covered. -/
theorem queue_refines_recv (v : Variant) (frames : List (List Byte)) (ms : List Msg) (hcar : Carries v frames ms)
    (q : DecodeQueue) (hc : q.codec = some v) (fed future : List Byte) (hfut : fed ++ future = frames.flatten) (k : Nat)
    (h : DInv q) (hph : Phase v frames q.st q.ring.content fed k) :
    ∃ q' r, queueRecv q = .ok (q', r) ∧ q'.codec = some v ∧ q'.ring.store.length = q.ring.store.length ∧
      RecvOut v frames ms fed k q' r :=
  queueRecv_phase v frames ms hcar q hc fed future hfut k h hph

/-- **Receiver history, all schedules**: a fresh decode queue (any capacity, wrap offset, storage alignment,
    framing) is fed a valid frame stream — frames that carry the messages `ms` — in arbitrary pieces (a
    prefix of the stream may have arrived so far), with receives, shifts, growths and peeks in any order.  Then the
    messages delivered so far, each read through `mpt_message_get` after the delivering `mpt_queue_recv`, are
    exactly the first messages of `ms`: same order, same bytes, nothing duplicated, merged or invented —
    whatever the ring did (wrap-around, `mpt_qpre` recovery, cropping). -/
theorem receiver_history (v : Variant) (frames : List (List Byte)) (ms : List Msg) (hcar : Carries v frames ms)
    (store : List Byte) (off base : Nat) (hoff : off ≤ store.length) (ops : List DOp) (future : List Byte) :
    let s := ops.foldl rstep { q := { ring := { store := store, len := 0, off := off }, codec := some v, base := base } }
    s.fed ++ future = frames.flatten → ∃ k, s.got = ms.take k ∧ k ≤ ms.length := by
  intro s hfut
  have hfresh : Fresh ({} : DecState) := ⟨rfl, fun _ => rfl, fun m hm => by cases hm⟩
  have h0 : RInv v frames ms { q := { ring := { store := store, len := 0, off := off }, codec := some v, base := base } } :=
    ⟨DInv.fresh store off hoff (some v) base, rfl, 0, by simp, by omega, Phase.idle hfresh (by simp) (by simp [Ring.content])⟩
  obtain ⟨k, hk, hkl, _⟩ := (rrun_inv v frames ms hcar ops _ future hfut h0).ex
  exact ⟨k, hk, hkl⟩

/-- (Special case of `queue_to_queue_any`, kept for the sender at rest.)
    **Sender queue to receiver queue (model, end to end, safety)**: messages written through an encode queue
    by any sender history, its wire taken in any pieces and fed in arbitrary pieces to a decode queue with any
    receiver history: what the receiver has delivered is a prefix of what the sender has terminated. -/
theorem queue_to_queue (v : Variant) (estore : List Byte) (eoff : Nat) (heoff : eoff ≤ estore.length) (eops : List EOp)
    (dstore : List Byte) (doff base : Nat) (hdoff : doff ≤ dstore.length) (dops : List DOp) (future : List Byte) :
    let s := erun { q := { ring := { store := estore, len := 0, off := eoff }, codec := some (.cobs v) } } eops
    let r := dops.foldl rstep { q := { ring := { store := dstore, len := 0, off := doff }, codec := some v, base := base } }
    s.q.ring.len = 0 → r.fed ++ future = s.wire → ∃ k, r.got = s.msgs.take k ∧ k ≤ s.msgs.length := by
  intro s r h0 hfed
  obtain ⟨frames, inq, part, hcar, hsum, hz⟩ := sender_history v estore eoff heoff eops
  obtain ⟨rfl, rfl⟩ := hz h0
  simp only [List.append_nil] at hsum
  exact receiver_history v frames _ hcar dstore doff base hdoff dops future (by rw [hfed]; exact hsum)

-- non-vacuity: two messages through a wrapped sender ring (capacity 8, offset 5) and a wrapped receiver ring
-- (capacity 12, offset 10, odd storage address), piecewise delivery with a shift in between, COBS/R
example :
    let s := erun { q := { ring := { store := List.replicate 8 0, len := 0, off := 5 }, codec := some (.cobs .cobsR) } }
      [.push [7, 0, 0, 9], .term, .take 2, .push [1, 2], .term, .take 100]
    let r := ([.feed [2], .recv, .feed [7], .recv, .feed [1, 9], .shift, .recv, .feed [0, 3], .recv, .feed [1, 2, 0], .recv] : List DOp).foldl rstep
      { q := { ring := { store := List.replicate 12 0, len := 0, off := 10 }, codec := some .cobsR, base := 3 } }
    s.wire = [2, 7, 1, 9, 0, 3, 1, 2, 0] ∧ r.fed = s.wire ∧ r.got = [[7, 0, 0, 9], [1, 2]] ∧ s.msgs = r.got := by decide

/-- **queue_inv** (both queues, every reachable state): `EncodeQueue`: `done + scratch = data.len ≤ max`;
    `DecodeQueue`: `pos + len ≤ curr ≤ data.len ≤ max` (decoded bytes in front of undecoded ones) -/
theorem queue_inv (v : Variant) (store : List Byte) (off base : Nat) (hoff : off ≤ store.length) (eops : List EOp) (dops : List DOp) :
    (let s := erun { q := { ring := { store := store, len := 0, off := off }, codec := some (.cobs v) } } eops
     s.q.st.done + s.q.st.scratch = s.q.ring.len ∧ s.q.ring.len ≤ s.q.ring.max) ∧
    (let q := dops.foldl dstep { ring := { store := store, len := 0, off := off }, codec := some v, base := base }
     q.st.pos + q.st.len ≤ q.st.curr ∧ q.st.curr ≤ q.ring.len ∧ q.ring.len ≤ q.ring.max) :=
  ⟨let h := queue_inv_encode v store off hoff eops; ⟨h.1, h.2.1⟩,
   let h := queue_inv_decode v store off base hoff dops; ⟨h.1, h.2.1, h.2.2.1⟩⟩

/-- **queue_refines** (push and recv on any ring state equal the flat encoder / the reference receiver on the
    ring's content): the conjunction of `queue_refines_push` and `queue_refines_recv` -/
theorem queue_refines (v : Variant) :
    (∀ (q : EncodeQueue) (vis fin : List Byte) (ms : List (Byte × Bool)) (src : Option (List Byte)), EInv v q vis fin ms →
      ∃ out, queuePush q src = .ok out ∧ out.q.ring.store.length = q.ring.store.length ∧
        ((out.ret < 0 ∧ EInv v out.q vis fin ms) ∨
         (∃ (vis' fin' : List Byte) (ms' : List (Byte × Bool)) (ret : Nat), out.ret = (ret : Int) ∧
            Progress v src vis fin ms vis' fin' ms' ret ∧ EInv v out.q vis' fin' ms'))) ∧
    (∀ (frames : List (List Byte)) (ms : List Msg), Carries v frames ms →
      ∀ (q : DecodeQueue), q.codec = some v → ∀ (fed future : List Byte), fed ++ future = frames.flatten → ∀ (k : Nat),
        DInv q → Phase v frames q.st q.ring.content fed k →
        ∃ q' r, queueRecv q = .ok (q', r) ∧ q'.codec = some v ∧ q'.ring.store.length = q.ring.store.length ∧
          RecvOut v frames ms fed k q' r) :=
  ⟨fun q vis fin ms src h => queue_refines_push v q vis fin ms src h,
   fun frames ms hcar q hc fed future hfut k h hph => queue_refines_recv v frames ms hcar q hc fed future hfut k h hph⟩

/-! ### liveness of the model -/

/-- **No stall (model)**: from every reachable receiver state inside a valid stream — any history of arrivals
    in arbitrary pieces, receives, shifts, growths and peeks on a queue of any capacity, wrap offset and storage
    alignment — a draining reader that gives the queue `B` bytes of storage more and calls `mpt_queue_recv`
    (`drainStep`) obtains one message per round: after `c − got` rounds, where `c` is the number of complete
    frames among the bytes accepted so far, exactly the first `c` messages have been delivered.  `B` = the
    number of bytes accepted so far plus two is enough for any work area the decoder may ask for
    (`MissingBuffer`, zero pair elimination).  This reader is an idealised policy (storage enlarged before every
    receive, by an amount that always suffices); `recv_or_grow_delivers` is the variant that enlarges only
    after a refusal, `recv_never_waits` the per-call fact (a complete frame in the queue is answered with 1 or
    `MissingBuffer`, never with "need more data") that excludes the three stalls (cropped work area,
    re-alignment of an open block, recovery that did not enlarge the work area) for every reachable state.
    That repeated enlargements by 64 bytes (what the library readers do) add up is not proved. -/
theorem no_stall_model (v : Variant) (frames : List (List Byte)) (ms : List Msg) (hcar : Carries v frames ms)
    (store : List Byte) (off base : Nat) (hoff : off ≤ store.length) (ops : List DOp) (future : List Byte) :
    let s := ops.foldl rstep { q := { ring := { store := store, len := 0, off := off }, codec := some v, base := base } }
    s.fed ++ future = frames.flatten →
    s.got.length ≤ frameCount s.fed ∧
    (drainN (s.fed.length + 2) (frameCount s.fed - s.got.length) s).got = ms.take (frameCount s.fed) := by
  intro s hfut
  have hfresh : Fresh ({} : DecState) := ⟨rfl, fun _ => rfl, fun m hm => by cases hm⟩
  have h0 : RInvL v frames ms { q := { ring := { store := store, len := 0, off := off }, codec := some v, base := base } } :=
    ⟨⟨DInv.fresh store off hoff (some v) base, rfl, 0, by simp, by omega, Phase.idle hfresh (by simp) (by simp [Ring.content])⟩,
     slackOk_ctx0 v _ rfl⟩
  have hI := rrunL_inv v frames ms hcar ops _ future hfut h0
  -- the delivered messages belong to complete frames
  have hle : s.got.length ≤ frameCount s.fed := by
    obtain ⟨k, hgot, hk, hph⟩ := hI.inv.ex
    have hgot' : s.got = ms.take k := hgot
    have hkl : s.got.length = k := by
      rw [hgot', List.length_take]; omega
    have hP : (frames.take k).flatten.count 0 = k := by
      rw [frames_count _ (fun f hf => carries_isFrame hcar f (List.mem_of_mem_take hf)), List.length_take,
        carries_length hcar]; omega
    rw [hkl]
    unfold frameCount
    cases hph with
    | idle _ _ hfed => rw [← hfed, List.count_append, hP]; omega
    | busy c0 Uc _ _ _ hfed => rw [← hfed, List.count_append, hP]; omega
  refine ⟨hle, ?_⟩
  obtain ⟨a, _⟩ := drain_all v frames ms hcar (s.fed.length + 2) (frameCount s.fed - s.got.length) s future hfut hI
    (Nat.le_refl _) (by omega)
  rw [a]; congr 1; omega

-- non-vacuity: the zero pair frame `e1 07 02 09 00` arrives byte by byte in a full ring of 8 bytes whose free
-- space was used up; one draining round (storage grown, `MissingBuffer` recovery inside) delivers
example :
    let s := ([.feed [0xe1], .recv, .feed [7], .recv, .feed [2, 9, 0], .shift] : List DOp).foldl rstep
      { q := { ring := { store := List.replicate 5 0, len := 0, off := 3 }, codec := some .zpe, base := 3 } }
    s.fed = [0xe1, 7, 2, 9, 0] ∧ s.got = [] ∧ frameCount s.fed = 1 := by decide

/-! ### sender not quiescent; per-call liveness; exactness -/

/-- **What a sender history puts on the wire, any state of the sender** (message in progress, finished bytes
    not taken, finished blocks of the open message already taken): the bytes taken so far are a prefix of a
    valid frame stream that carries the terminated messages followed by the message in progress as it would be
    terminated now.  In particular the bytes taken beyond the complete frames are finished blocks of the
    reference encoding of the message in progress (no delimiter among them). -/
theorem sender_wire_prefix (v : Variant) (store : List Byte) (off : Nat) (hoff : off ≤ store.length) (ops : List EOp) :
    let s := erun { q := { ring := { store := store, len := 0, off := off }, codec := some (.cobs v) } } ops
    ∃ (frames : List (List Byte)) (last rest : List Byte),
      Carries v frames s.msgs ∧ IsFrame last ∧ dec v last = some s.cur ∧ rest ≠ [] ∧ rest.getLast? = some 0 ∧
      s.wire ++ rest = (frames ++ [last]).flatten := by
  obtain ⟨frames, vis, fin, ms, hinv, hcar, hsum, hcur⟩ := (erun_hist v ops _ (fresh_hist v store off hoff)).ex
  obtain ⟨run, _, _, _, g4⟩ := hinv.winv
  have hf := g4 []
  simp only [List.append_nil] at hf
  refine ⟨frames, encB v [] false ms ++ [0], vis ++ (encB v run false [] ++ [0]), hcar,
    IsFrame.mk _ (encB_nz v ms [] false (Inv.nil v)), by rw [dec_body_frame v ms, hcur], by simp, by simp, ?_⟩
  rw [List.flatten_append, ← List.append_assoc, hsum, hf]
  simp

/-- **Sender queue to receiver queue, no condition on the sender** (model, end to end, safety, every point of
    every interleaving): whatever the sender has done so far — a message may be in progress, finished bytes may
    wait in its queue, blocks of the open message may be on the wire already — and whatever part of the wire
    has reached the receiver in whatever pieces with receives, shifts, growths and peeks in between: the
    messages delivered are a prefix of the messages the sender has terminated.  The message in progress is
    never delivered, complete or in part. -/
theorem queue_to_queue_any (v : Variant) (estore : List Byte) (eoff : Nat) (heoff : eoff ≤ estore.length) (eops : List EOp)
    (dstore : List Byte) (doff base : Nat) (hdoff : doff ≤ dstore.length) (dops : List DOp) (future : List Byte) :
    let s := erun { q := { ring := { store := estore, len := 0, off := eoff }, codec := some (.cobs v) } } eops
    let r := dops.foldl rstep { q := { ring := { store := dstore, len := 0, off := doff }, codec := some v, base := base } }
    r.fed ++ future = s.wire → ∃ k, r.got = s.msgs.take k ∧ k ≤ s.msgs.length := by
  intro s r hfed
  obtain ⟨frames, last, rest, hcar, hlf, hld, hrne, hrl, hsum⟩ := sender_wire_prefix v estore eoff heoff eops
  have hsum : s.wire ++ rest = (frames ++ [last]).flatten := hsum
  have hcar : Carries v frames s.msgs := hcar
  have hcar' : Carries v (frames ++ [last]) (s.msgs ++ [s.cur]) := hcar.snoc ⟨hlf, hld⟩
  have hfut : r.fed ++ (future ++ rest) = (frames ++ [last]).flatten := by
    rw [← List.append_assoc, hfed]; exact hsum
  obtain ⟨k, hk, hkl⟩ := receiver_history v _ _ hcar' dstore doff base hdoff dops (future ++ rest) hfut
  obtain ⟨hle, _⟩ := no_stall_model v _ _ hcar' dstore doff base hdoff dops (future ++ rest) hfut
  have hk : r.got = (s.msgs ++ [s.cur]).take k := hk
  have hfed : r.fed ++ future = s.wire := hfed
  -- the delimiter of the last frame has not been taken: fewer delimiters on the wire than frames
  have hz : (frames ++ [last]).flatten.count 0 = frames.length + 1 := by
    rw [frames_count _ (fun f hf => carries_isFrame hcar' f hf)]; simp
  have hrz : 1 ≤ rest.count 0 := by
    have hmem : (0 : Byte) ∈ rest := by
      have := List.mem_of_getLast? hrl
      exact this
    exact List.count_pos_iff.mpr hmem
  have hwz : s.wire.count 0 ≤ frames.length := by
    have := congrArg (List.count 0) hsum
    rw [List.count_append, hz] at this
    omega
  have hfz : frameCount r.fed ≤ s.wire.count 0 := by
    unfold frameCount
    have := congrArg (List.count 0) hfed
    rw [List.count_append] at this
    omega
  have hfl : frames.length = s.msgs.length := carries_length hcar
  have hlen' : (s.msgs ++ [s.cur]).length = s.msgs.length + 1 := by simp
  have hkl' : k ≤ s.msgs.length + 1 := by rw [← hlen']; exact hkl
  have hle' : r.got.length ≤ frameCount r.fed := hle
  have hgl : r.got.length = k := by
    have := congrArg List.length hk
    rw [List.length_take, hlen'] at this
    omega
  have hkm : k ≤ s.msgs.length := by omega
  refine ⟨k, ?_, hkm⟩
  rw [hk, List.take_append_of_le_length hkm]

-- non-vacuity: the sender has an open message and one block of it on the wire; the receiver has all of the wire
example :
    let s := erun { q := { ring := { store := List.replicate 8 0, len := 0, off := 5 }, codec := some (.cobs .cobs) } }
      [.push [7], .term, .push [1, 0, 2], .take 100]
    let r := ([.feed [2, 7, 0, 2], .recv, .feed [1], .recv, .recv] : List DOp).foldl rstep
      { q := { ring := { store := List.replicate 12 0, len := 0, off := 10 }, codec := some .cobs, base := 3 } }
    s.wire = [2, 7, 0, 2, 1] ∧ s.q.ring.len ≠ 0 ∧ r.fed = s.wire ∧ r.got = [[7]] ∧ s.msgs = [[7]] := by decide

/-- **`mpt_queue_recv` never waits for data that is there** (one call, any queue state inside a valid stream
    that satisfies the invariants of a receiver history — `DInv`, `Phase`, `SlackOk` hold in every reachable
    state, see `no_stall_model`): when the unread data contains the delimiter of the frame being received, the
    call returns 1 (message delivered) or `MissingBuffer` (the decoder asks for work area); it never returns 0
    or `MissingData`.  With `pre.length + 2` bytes of free storage (`pre` = the bytes in front of the delimiter)
    it returns 1.  This is the fact the correspondence run judges every `dq recv` by. -/
theorem recv_never_waits (v : Variant) (frames : List (List Byte)) (ms : List Msg) (hcar : Carries v frames ms)
    (q : DecodeQueue) (hc : q.codec = some v) (fed future : List Byte) (hfut : fed ++ future = frames.flatten) (k : Nat)
    (h : DInv q) (hs : SlackOk v q.st) (hph : Phase v frames q.st q.ring.content fed k)
    (pre junk : List Byte) (hun : q.ring.content.drop q.st.curr = pre ++ 0 :: junk) (hnz : ∀ x ∈ pre, x ≠ 0) :
    (∃ q' r, queueRecv q = .ok (q', r) ∧ (r = 1 ∨ r = Err.MissingBuffer.code)) ∧
    (pre.length + 2 ≤ q.ring.store.length - q.ring.len → ∃ q', queueRecv q = .ok (q', 1)) :=
  ⟨queueRecv_answers v frames ms hcar q hc fed future hfut k h hs hph pre junk hun hnz,
   fun hfree => queueRecv_live v frames ms hcar q hc fed future hfut k h hs hph pre junk hun hnz hfree⟩

/-- **Growth only on request** (model): from every reachable receiver state with a complete frame pending, a
    reader that calls `mpt_queue_recv` and — only if that did not deliver — gives the queue `B ≥ fed + 2` bytes
    more and calls again, has the next message.  (The readers of the library and of the drivers enlarge by 64
    bytes per refusal and repeat; that the repeated small steps add up is not proved, see the level note.) -/
theorem recv_or_grow_delivers (v : Variant) (frames : List (List Byte)) (ms : List Msg) (hcar : Carries v frames ms)
    (store : List Byte) (off base : Nat) (hoff : off ≤ store.length) (ops : List DOp) (future : List Byte) (B : Nat) :
    let s := ops.foldl rstep { q := { ring := { store := store, len := 0, off := off }, codec := some v, base := base } }
    s.fed ++ future = frames.flatten → s.fed.length + 2 ≤ B → s.got.length < frameCount s.fed →
    (rstep s .recv).got = ms.take (s.got.length + 1) ∨
    ((rstep s .recv).got = s.got ∧ (drainStep B (rstep s .recv)).got = ms.take (s.got.length + 1)) := by
  intro s hfut hB hc
  have hfresh : Fresh ({} : DecState) := ⟨rfl, fun _ => rfl, fun m hm => by cases hm⟩
  have h0 : RInvL v frames ms { q := { ring := { store := store, len := 0, off := off }, codec := some v, base := base } } :=
    ⟨⟨DInv.fresh store off hoff (some v) base, rfl, 0, by simp, by omega, Phase.idle hfresh (by simp) (by simp [Ring.content])⟩,
     slackOk_ctx0 v _ rfl⟩
  have hI := rrunL_inv v frames ms hcar ops _ future hfut h0
  have hsame : (rstep s .recv).fed = s.fed := by
    simp only [rstep]
    split
    · split <;> rfl
    · rfl
  have hI1 := rstepL_inv v frames ms hcar s .recv future (by rw [hsame]; exact hfut) hI
  obtain ⟨k, hgot, hk, _⟩ := hI.inv.ex
  obtain ⟨k1, hgot1, hk1, _⟩ := hI1.inv.ex
  have hgot' : s.got = ms.take k := hgot
  have hkl : s.got.length = k := by
    have := congrArg List.length hgot'
    simp only [List.length_take] at this; omega
  have hlen1 : (rstep s .recv).got.length = s.got.length ∨ (rstep s .recv).got.length = s.got.length + 1 := by
    simp only [rstep]
    split
    · split
      · right; simp
      · left; rfl
    · left; rfl
  have hk1l : (rstep s .recv).got.length = k1 := by
    have := congrArg List.length hgot1
    simp only [List.length_take] at this; omega
  rcases hlen1 with hl | hl
  · right
    have hsg : (rstep s .recv).got = s.got := by
      rw [hgot1, hgot']; congr 1; omega
    refine ⟨hsg, ?_⟩
    have := (drainStep_delivers v frames ms hcar (rstep s .recv) future (by rw [hsame]; exact hfut) hI1 B
      (by rw [hsame]; exact hB) (by rw [hsame, hl]; exact hc)).2.2.1
    rw [this, hl]
  · left
    rw [hgot1]; congr 1; omega

/-- **End to end, exactly the messages written** (model): the sender has terminated and handed out everything
    (empty queue), all of the wire has reached the receiver (any pieces, any receiver history): draining
    delivers exactly the messages that were written, in order. -/
theorem end_to_end_exact (v : Variant) (estore : List Byte) (eoff : Nat) (heoff : eoff ≤ estore.length) (eops : List EOp)
    (dstore : List Byte) (doff base : Nat) (hdoff : doff ≤ dstore.length) (dops : List DOp) :
    let s := erun { q := { ring := { store := estore, len := 0, off := eoff }, codec := some (.cobs v) } } eops
    let r := dops.foldl rstep { q := { ring := { store := dstore, len := 0, off := doff }, codec := some v, base := base } }
    s.q.ring.len = 0 → r.fed = s.wire →
    (drainN (r.fed.length + 2) (s.msgs.length - r.got.length) r).got = s.msgs := by
  intro s r h0 hfed
  obtain ⟨frames, inq, part, hcar, hsum, hz⟩ := sender_history v estore eoff heoff eops
  obtain ⟨rfl, rfl⟩ := hz h0
  simp only [List.append_nil] at hsum
  have hfut : r.fed ++ [] = frames.flatten := by rw [List.append_nil, hfed]; exact hsum
  obtain ⟨_, hd⟩ := no_stall_model v frames _ hcar dstore doff base hdoff dops [] hfut
  have hfc : frameCount r.fed = s.msgs.length := by
    unfold frameCount
    rw [hfed, hsum, frames_count _ (carries_isFrame hcar), carries_length hcar]
  rw [hfc] at hd
  rw [hd, List.take_length]

end Mpt.C02
