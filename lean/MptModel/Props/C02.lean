/-
  C02 — Message stream integrity under arbitrary segmentation.   PROPERTY THEOREMS ONLY
  (helper lemmas: Lemmas/Stream.lean, Lemmas/CodedQueue.lean).

  Part 1 (this section) needs no implementation model: S = Spec/Stream.lean (`wire`, the reference receiver
  that splits at the delimiter, schedules of `write i | flush | deliver k | receive` events).
-/
import MptModel.Lemmas.Stream
namespace Mpt.C02
open Mpt Mpt.Cobs Mpt.Stream

/-- Frames are uniquely recoverable: if every frame is zero-terminated and zero-free otherwise, splitting
    the concatenation at the delimiter gives back exactly the frames (same count, order, bytes) and
    nothing is left over. -/
theorem frames_unique (fs : List (List Byte)) (h : ∀ f ∈ fs, IsFrame f) : splitFrames fs.flatten = (fs, []) :=
  splitAux_frames fs h

example : splitFrames ([[2, 7, 0], [1, 0], [3, 1, 1, 0]] : List (List Byte)).flatten = ([[2, 7, 0], [1, 0], [3, 1, 1, 0]], []) := by
  decide

/-- the frames the reference encoder produces meet the hypothesis of `frames_unique`, all four framings -/
theorem wire_frames (v : Variant) (ms : List Msg) :
    splitFrames (wire v ms) = (ms.map (enc v), []) := by
  unfold wire
  exact frames_unique _ (by intro f hf; obtain ⟨m, _, rfl⟩ := List.mem_map.mp hf; exact enc_isFrame v m)

/-- **Stream integrity**: for every message list and every way of cutting its wire byte stream into
    segments (any number of segments, any lengths, empty ones included: `segs.flatten = wire v ms` is the
    only hypothesis), the reference receiver obtains exactly the sent messages — same count, same order,
    same bytes, nothing lost, duplicated or merged — and no byte is left pending.  All four framings. -/
theorem stream_integrity (v : Variant) (ms : List Msg) (segs : List (List Byte)) (h : segs.flatten = wire v ms) :
    (recvAll v segs).out = ms ∧ (recvAll v segs).pending = [] := by
  rw [recvAll_flatten, h]
  unfold wire
  rw [segment_frames v _ ms (carries_enc v ms) {} rfl]
  simp

example : (recvAll .zpe [[0xe1], [7, 2, 9], [], [0, 1], [0]]).out = [[7, 0, 0, 9], []]
    ∧ [[0xe1], [7, 2, 9], [], [0, 1], [0]].flatten = wire .zpe [[7, 0, 0, 9], []] := by decide

/-- the same for any frames that carry the messages — in particular the frames of messages handed to the
    encoder in pieces (`encChunks`; for zero pair elimination the frame depends on where the pieces end) -/
theorem stream_integrity_frames (v : Variant) (fs : List (List Byte)) (ms : List Msg) (segs : List (List Byte))
    (hc : Carries v fs ms) (h : segs.flatten = fs.flatten) :
    (recvAll v segs).out = ms ∧ (recvAll v segs).pending = [] := by
  rw [recvAll_flatten, h, segment_frames v fs ms hc {} rfl]
  simp

/-- messages handed over in pieces -/
theorem stream_integrity_chunks (v : Variant) (cms : List (List (List Byte))) (segs : List (List Byte))
    (h : segs.flatten = (cms.map (encChunks v)).flatten) :
    (recvAll v segs).out = cms.map List.flatten := by
  refine (stream_integrity_frames v _ _ segs ?_ h).1
  clear h
  induction cms with
  | nil => exact Carries.nil
  | cons c cs ih => exact Carries.cons ⟨encChunks_isFrame v c, encChunks_roundtrip v c⟩ ih

/-- **No stall**: once the delivered bytes contain `k` complete frames — the delivered prefix is the wire
    of the first `k` messages followed by anything (the beginning of the next frame, or nothing) — the
    first `k` messages are available at the receiver, whatever the segmentation. -/
theorem no_stall (v : Variant) (ms : List Msg) (k : Nat) (segs : List (List Byte)) (rest : List Byte)
    (h : segs.flatten = wire v (ms.take k) ++ rest) :
    ∃ more, (recvAll v segs).out = ms.take k ++ more := by
  rw [recvAll_flatten, h, segment_append]
  have h1 := segment_frames v _ (ms.take k) (carries_enc v (ms.take k)) {} rfl
  unfold wire
  rw [h1]
  obtain ⟨more, hm⟩ := segment_out_mono v rest { pending := [], out := ([] : List Msg) ++ ms.take k }
  exact ⟨more, by rw [hm]; simp⟩

example : (recvAll .cobs [[2], [7, 0, 3], [1]]).out = [[7]] := by decide

/-- nothing is invented ahead of time: whatever prefix of the wire has been delivered, in whatever
    segments, the messages obtained are a prefix of the sent ones -/
theorem prefix_only (v : Variant) (ms : List Msg) (segs : List (List Byte)) (rest : List Byte)
    (h : segs.flatten ++ rest = wire v ms) :
    ∃ later, (recvAll v segs).out ++ later = ms := by
  have hall := (stream_integrity v ms (segs ++ [rest]) (by simp [h])).1
  rw [recvAll_flatten] at hall ⊢
  rw [List.flatten_append, segment_append] at hall
  obtain ⟨more, hm⟩ := segment_out_mono v [rest].flatten (Recv.segment v {} segs.flatten)
  exact ⟨more, by rw [← hall, hm]⟩

/-- **Schedules**: for every interleaving of `write i | flush | deliver k | receive` events (any order,
    any `k`, writes of any indices of `ms`), the messages the receiver has obtained are at every moment a
    prefix of the messages written so far; once everything written has been flushed, delivered and looked
    at, they are exactly the written messages. -/
theorem schedule_integrity (v : Variant) (ms : List Msg) (evs : List Event) :
    (∃ later, (run v ms evs).rx.out ++ later = (run v ms evs).sent) ∧
    ((run v ms evs).txbuf = [] → (run v ms evs).chan = [] → (run v ms evs).rxbuf = [] →
      (run v ms evs).rx.out = (run v ms evs).sent ∧ (run v ms evs).rx.pending = []) := by
  obtain ⟨c, h1, h2⟩ := run_inv v ms evs {} (init_inv v)
  unfold run
  generalize List.foldl (step v ms) {} evs = s at h1 h2
  constructor
  · have := prefix_only v s.sent [c] (s.rxbuf ++ s.chan ++ s.txbuf) (by simp [← h2])
    rw [recvAll_flatten] at this
    simpa [h1] using this
  · intro e1 e2 e3
    rw [e1, e2, e3] at h2
    have := stream_integrity v s.sent [c] (by simpa using h2)
    rw [recvAll_flatten] at this
    simpa [h1] using this

example : (run .cobsR [[5, 6], [], [9]] [.write 0, .write 2, .flush, .deliver 2, .receive, .write 1, .deliver 9, .flush,
    .receive, .deliver 1, .deliver 5, .receive]).rx.out = [[5, 6], [9], []] := by decide

end Mpt.C02
