/-
  C09 — Configuration text is read back faithfully.   PROPERTY THEOREMS ONLY.

  S = the reference writer `Render.render style decor : Forest → List UInt8` (Spec/Render.lean) and the
  normal form `Render.norm` of a forest (a leaf without text has no value).
  M = `Parse.parseNode` (Impl/ParseConfig.lean) on an empty target, with the format description of the
  style and all name flags set.
-/
import MptModel.Lemmas.ParseLoop
import MptModel.Spec.Render

namespace Mpt.C09
open Mpt Mpt.Parse Mpt.Render Mpt.Conf

/-- parse a text in the format of `style` into an empty target; `none` = the parser reports an error -/
def parseTree (style : Style) (text : List UInt8) : Option Forest :=
  if (parseNode [] style.desc 0xff 0xff (-2) text).code < 0 then none
  else some (parseNode [] style.desc 0xff 0xff (-2) text).children

/-- full statement: every admissible forest, written in any style with any valid decoration, is read
    back as its normal form -/
def roundtrip_statement : Prop :=
  ∀ (style : Style) (d : Decor) (f : Forest), d.ok → admissible style f = true →
    parseTree style (render style d f) = some (norm f)

/-- full statement: decoration never changes what is read -/
def decor_invariant_statement : Prop :=
  ∀ (style : Style) (d : Decor) (f : Forest), d.ok → admissible style f = true →
    parseTree style (render style d f) = parseTree style (render style noDecor f)

/-- the second statement follows from the first -/
theorem decor_invariant_of_roundtrip (h : roundtrip_statement) : decor_invariant_statement := by
  intro style d f hd ha
  rw [h style d f hd ha, h style noDecor f (by intro k; rfl) ha]

end Mpt.C09
