/-
  C09 — Configuration text is read back faithfully.   PROPERTY THEOREMS ONLY.

  S = the reference writer `Render.render style decor : Forest → List UInt8` (Spec/Render.lean) and the
  normal form `Render.norm` of a forest (a leaf without text has no value).
  M = `Parse.parseNode` (Impl/ParseConfig.lean) on an empty target, with the format description of the
  style and the name restriction words of the run (`roundtrip_flags`: any words that permit the names;
  `roundtrip`: all flags set).

  What the theorems do NOT cover (correspondence run only, stream "layouts" of vlib/props/c09.py): a last ELEMENT
  line without line feed, blanks inside names and section headers, several elements on one line, single-quoted
  values, other delimiter / comment / assignment characters than those of the four descriptions.
-/
import MptModel.Lemmas.FlatTree

namespace Mpt.C09
open Mpt Mpt.Parse Mpt.Render Mpt.Conf

/-- parse a text in the format of `style` into an empty target under the name restriction words `sect`
    (section names) and `opt` (option names); `none` = the parser reports an error -/
def parseTreeF (style : Style) (sect opt : Nat) (text : List UInt8) : Option Forest :=
  if (parseNode [] style.desc sect opt (-2) text).code < 0 then none
  else some (parseNode [] style.desc sect opt (-2) text).children

/-- … with all name flags set -/
def parseTree (style : Style) (text : List UInt8) : Option Forest := parseTreeF style 0xff 0xff text

/-- full statement: every admissible forest, written in any style with any valid decoration, is read
    back as its normal form -/
def roundtrip_statement : Prop :=
  ∀ (style : Style) (d : Decor) (f : Forest), d.ok → admissible style f = true →
    parseTree style (render style d f) = some (norm f)

/-- full statement: decoration never changes what is read -/
def decor_invariant_statement : Prop :=
  ∀ (style : Style) (d : Decor) (f : Forest), d.ok → admissible style f = true →
    parseTree style (render style d f) = parseTree style (render style noDecor f)

/-- **Round trip, every style, every name restriction**: every admissible forest — nested styles (brace,
    `{x}`): any depth, any fan-out; flat styles: options and one level of sections; in all styles duplicate
    names, empty sections (written as `name=` or in section syntax) and empty values, values of any length,
    plain or needing quotes (blanks at the ends, `#`, quotes, backslashes, line feeds, bytes ≥ 0x80), names of
    any bytes but white space, `#`, `=`, `.` and the section delimiters — whose names are permitted by the
    name restriction words `sect` / `opt` (`forestFits`), written with ANY valid decoration (blank and comment
    lines, indentation, blanks — blank, tab, vertical tab, form feed, carriage return — around `=` and in
    front of `{`, trailing blanks and trailing comments, comments glued directly to a section name / brace,
    chosen per line; blank and comment lines behind the last element and a last line without line feed that
    holds blanks or a comment) is read back by `mpt_parse_node` with these restriction words as exactly its
    normal form: same nesting, same order, same names, same values byte for byte. -/
theorem roundtrip_flags (style : Style) (sect opt : Nat) (d : Decor) (hd : d.ok) (f : Forest)
    (ha : admissible style f = true) (hfit : forestFits sect opt f = true) :
    parseTreeF style sect opt (render style d f) = some (norm f) := by
  unfold admissible at ha
  simp only [Bool.and_eq_true] at ha
  obtain ⟨hok, hshape⟩ := ha
  have key : ∀ (text : List UInt8), (parseNode [] style.desc sect opt (-2) text).code = 0 →
      (parseNode [] style.desc sect opt (-2) text).children = norm f → parseTreeF style sect opt text = some (norm f) := by
    intro text hc hch
    unfold parseTreeF
    rw [hc, hch]
    rfl
  obtain ⟨b, hb⟩ := visSkip_endText [] (d (bodyLines style f)) rfl (hd _)
  simp only [List.nil_append] at hb
  cases style with
  | brace =>
    obtain ⟨hc, hch⟩ := parseNode_brace sect opt d hd f hok hfit _ b hb
    exact key _ hc hch
  | sep =>
    obtain ⟨hc, hch⟩ := parseNode_flat (sectStyle_Sep (fs := sect) (fo := opt)) (Style.desc .sep) 32 sect opt cfgS_desc
      (by decide) rfl d hd f hshape hok hfit _ b hb
    exact key _ hc hch
  | bar =>
    obtain ⟨hc, hch⟩ := parseNode_flat (sectStyle_Bar (fs := sect) (fo := opt)) (Style.desc .bar) 120 sect opt cfgBar_desc
      (by decide) rfl d hd f hshape hok hfit _ b hb
    exact key _ hc hch
  | enc =>
    obtain ⟨hc, hch⟩ := parseNode_enc sect opt d hd f hok hfit _ b hb
    exact key _ hc hch

/-- with all flags set every name is permitted -/
theorem forestFits_all (f : Forest) : forestFits 0xff 0xff f = true := by
  refine @Tree.rec_1 (fun t => treeFits 0xff 0xff t = true) (fun f => forestFits 0xff 0xff f = true) ?_ rfl ?_ f
  · intro n v cs ih
    unfold treeFits
    split
    · simp [nameFits_all]
    · simp [nameFits_all, ih]
  · intro t ts iht ihts
    simp [forestFits, iht, ihts]

/-- **Round trip, every style** (all name flags set, the setting of the correspondence run): see
    `roundtrip_flags` -/
theorem roundtrip (style : Style) (d : Decor) (hd : d.ok) (f : Forest) (ha : admissible style f = true) :
    parseTree style (render style d f) = some (norm f) :=
  roundtrip_flags style 0xff 0xff d hd f ha (forestFits_all f)

/-- the full statement holds -/
theorem roundtrip_holds : roundtrip_statement := fun style d f hd ha => roundtrip style d hd f ha

/-- **Decoration is insignificant**: adding or removing blank lines, comment lines, indentation,
    blanks around the assignment character, trailing blanks and trailing comments never changes what
    is read (every style). -/
theorem decor_invariant (style : Style) (d : Decor) (hd : d.ok) (f : Forest) (ha : admissible style f = true) :
    parseTree style (render style d f) = parseTree style (render style noDecor f) := by
  rw [roundtrip style d hd f ha, roundtrip style noDecor (by intro k; rfl) f ha]

/-- the full decoration statement holds -/
theorem decor_invariant_holds : decor_invariant_statement :=
  fun style d f hd ha => decor_invariant style d hd f ha

/-! ### reading again through one parser object (`mpt::parser::read`) -/

/-- format family and configuration `mpt::config_parser` uses for a style with the name restriction words
    it was constructed with -/
def styleCfg (sect opt : Nat) : Style → Kind × Cfg
  | .brace => (.pre, cfgB sect opt)
  | .sep => (.sep, cfgS sect opt)
  | .bar => (.enc, cfgBar sect opt)
  | .enc => (.enc, cfgE sect opt)

/-- **Every read from the start of a text delivers the forest**: `parser::read` on the text of an
    admissible forest (any style, any valid decoration) succeeds and leaves exactly the normal form in
    the target — whatever the previous run left in the parser context (`curr`) and whatever the target
    held before.  (open/read, reset/read, … on one parser object.) -/
theorem roundtrip_reread (style : Style) (sect opt : Nat) (d : Decor) (hd : d.ok) (f : Forest)
    (ha : admissible style f = true) (hfit : forestFits sect opt f = true)
    (curr : Nat) (target : Forest) :
    (parserRead (styleCfg sect opt style).1 (styleCfg sect opt style).2 curr target (render style d f)).1.code = 0
    ∧ (parserRead (styleCfg sect opt style).1 (styleCfg sect opt style).2 curr target (render style d f)).2 = norm f := by
  unfold admissible at ha
  simp only [Bool.and_eq_true] at ha
  obtain ⟨hok, hshape⟩ := ha
  have hclean : Clean [] ({ curr := curr } : St).path := ⟨rfl, rfl, rfl⟩
  obtain ⟨b, hb⟩ := visSkip_endText [] (d (bodyLines style f)) rfl (hd _)
  simp only [List.nil_append] at hb
  unfold parserRead
  cases style with
  | brace =>
    obtain ⟨hc, hf⟩ := loop_brace sect opt d hd f hok hfit { curr := curr } hclean rfl _ b hb
    simp only [styleCfg, render, renderBody, hc, hf]
    simp
  | sep =>
    obtain ⟨hc, hf⟩ := flat_claim (sectStyle_Sep (fs := sect) (fo := opt)) d hd f 0 ({} : Build) Flag.section_ { curr := curr }
      { rest := renderFlat d [91] [93] 0 f ++ endText (d (bodyLines .sep f)) } [] _ true b hshape hok hfit hb
      ⟨hclean, rfl, rfl, by simp⟩ (by simp [Mode, Flag.section_, Flag.sectEnd]) (Or.inl rfl)
    simp only [styleCfg, render, renderBody, hc, hf]
    simp
  | bar =>
    obtain ⟨hc, hf⟩ := flat_claim (sectStyle_Bar (fs := sect) (fo := opt)) d hd f 0 ({} : Build) Flag.section_ { curr := curr }
      { rest := renderFlat d [124] [] 0 f ++ endText (d (bodyLines .bar f)) } [] _ true b hshape hok hfit hb
      ⟨hclean, rfl, rfl, by simp⟩ (by simp [Mode, Flag.section_, Flag.sectEnd]) (Or.inl rfl)
    simp only [styleCfg, render, renderBody, hc, hf]
    simp
  | enc =>
    obtain ⟨hc, hf⟩ := loop_enc sect opt d hd f hok hfit { curr := curr } hclean rfl _ b hb
    simp only [styleCfg, render, renderBody, hc, hf]
    simp

/-! ### format descriptions that name their escape characters -/

/-- a description `{*} = # q` with ONE escape character `q` makes `q` the only quote character: the
    default `"` and `'` are ordinary value characters then -/
theorem format_one_escape (q : UInt8) (hq : Parse.isspace q = false) :
    (parseFormat (some (str "{*} = # " ++ [q]))).1.esc = [q, 0, 0]
    ∧ ∀ c, (parseFormat (some (str "{*} = # " ++ [q]))).1.isEscape c = (c != 0 && c == q) := by
  have h : (parseFormat (some (str "{*} = # " ++ [q]))).1.esc = [q, 0, 0] := by
    have : str "{*} = # " ++ [q] = [123, 42, 125, 32, 61, 32, 35, 32, q] := by
      have : str "{*} = # " = [123, 42, 125, 32, 61, 32, 35, 32] := by decide +kernel
      rw [this]; rfl
    rw [this]
    have hw : List.takeWhile (fun c => !Parse.isspace c) [q] = [q] := by
      simp [List.takeWhile, hq]
    have hsp : Parse.isspace 32 = true := by decide
    have h35 : Parse.isspace 35 = false := by decide
    simp only [parseFormat, takeWord, List.dropWhile, List.takeWhile, hsp, h35, hq, hw, Bool.not_true,
      Bool.not_false, List.length_cons, List.length_nil, List.take]
    have hd : List.dropWhile Parse.isspace [32, q] = [q] := by
      simp [List.dropWhile, hsp, hq]
    have hle : (0 + 1 ≤ 4) := by decide
    simp only [hle, ↓reduceIte, hd, hw]
    simp
  refine ⟨h, ?_⟩
  intro c
  unfold Format.isEscape
  rw [h]
  by_cases h0 : c = 0
  · subst h0; simp
  · have h00 : (c == 0) = false := by simp [h0]
    simp only [List.contains_cons, List.contains_nil, h00, Bool.or_false]

/-! ### values of any length -/

/-- `mpt_meta_new` keeps a value of every length byte for byte; up to 249 bytes in the basic metatype (text
    behind the object), from 250 bytes on in the buffer metatype.  (The limits of the REAL representations —
    8-bit size of the basic metatype, 16-bit fields — are not in M: that values of 249..257 and 65534..65537
    bytes survive in the real code is shown by the correspondence run, which also compares the chosen
    representation, op `p stat`.) -/
theorem value_any_length (v : List UInt8) :
    metaNew v = some v ∧ (metaRep v = .inline v ↔ v.length ≤ 249) ∧ (metaRep v = .buffer v ↔ 250 ≤ v.length) := by
  refine ⟨by simp [metaNew], ?_, ?_⟩
  · unfold metaRep
    constructor
    · intro h; split at h
      · omega
      · cases h
    · intro h; rw [if_pos (by omega)]
  · unfold metaRep
    constructor
    · intro h; split at h
      · cases h
      · omega
    · intro h; rw [if_neg (by omega)]

/-! ### known finding `dot-in-name`: outside `admissible`, inside the name flags -/

/-- **Counterexample** (known finding `c_ne_s:node:dot-in-name`): a name that contains the path
    separator `.` passes the name check with all flags set, but the text `a.b=1` is refused
    (`mpt_path_add` rejects the element), so this forest is not read back. -/
theorem roundtrip_dot_counterexample :
    ncheck (str "a.b") 0xff = none
    ∧ parseTree .brace (render .brace noDecor [.node (str "a.b") (some (str "1")) []]) = none := by
  decide +kernel

/-- `roundtrip` excludes exactly that region through `admissible`: an admissible name never contains
    the separator -/
theorem admissible_name_no_dot (n : List UInt8) (h : nameOk n = true) : n.contains 46 = false := by
  simp only [nameOk, Bool.and_eq_true] at h
  exact nameOk_nosep n h.1.2

/-! ### non-vacuity -/
section examples
/-- a forest with nesting, duplicate names, an empty section, an empty value, a value that needs quotes
    and one with an escaped quote -/
def sample : Forest :=
  [.node (str "d") (some (str "#h")) [],
   .node (str "a") none [.node (str "b") (some (str "1")) [], .node (str "b") (some (str "x \"y")) [],
                         .node (str "sub") none [.node (str "e") none []]],
   .node (str "a") none [.node (str "f") (some []) []]]

example : admissible .brace sample = true := by decide +kernel
example : (decorOf 2 0).ok = true ∧ (decorOf 2 1).ok = true ∧ (decorOf 2 2).ok = true := by decide +kernel
/-- the text really carries decoration and quoting -/
example : render .brace (decorOf 1) [.node (str "a") none [.node (str "b") (some (str "x \"y")) []]]
    = str "a {\n b = \"x \\\"y\"\n  }\n" := by decide +kernel
/-- the theorem's conclusion on the sample, evaluated by the kernel (all four styles) -/
example : (parseTree .brace (render .brace (decorOf 2) sample)).map (flat 0) = some (flat 0 (norm sample)) := by
  decide +kernel
example : (parseTree .sep (render .sep (decorOf 2) [.node (str "o") (some (str "1")) [],
      .node (str "s") none [.node (str "b") (some (str "x \"y")) []]])).map (flat 0)
    = some [(0, str "o", some (str "1")), (0, str "s", none), (1, str "b", some (str "x \"y"))] := by
  decide +kernel
example : (parseTree .bar (render .bar (decorOf 1) [.node (str "o") (some (str "1")) [],
      .node (str "s") none [.node (str "b") (some (str " v ")) []]])).map (flat 0)
    = some [(0, str "o", some (str "1")), (0, str "s", none), (1, str "b", some (str " v "))] := by
  decide +kernel
/-- a comment glued to the section name in the `|name` style -/
example : render .bar (decorOf 4) [.node (str "s") none [.node (str "b") (some (str "1")) []]]
    = str "|s# glued text\n\tb=1\n\t# t" := by decide +kernel
example : (parseTree .bar (render .bar (decorOf 4) [.node (str "s") none [.node (str "b") (some (str "1")) []],
      .node (str "t") none [.node (str "c") none []]])).map (flat 0)
    = some [(0, str "s", none), (1, str "b", some (str "1")), (0, str "t", none), (1, str "c", none)] := by
  decide +kernel
example : (parseTree .enc (render .enc (decorOf 3) [.node (str "o") (some (str "1")) [],
      .node (str "p") (some (str "#")) []])).map (flat 0)
    = some [(0, str "o", some (str "1")), (0, str "p", some (str "#"))] := by
  decide +kernel
/-- sections in the `{x}` format: `{name` … `}`, nested, comment glued to the name -/
example : render .enc (decorOf 4) [.node (str "s") none [.node (str "b") (some (str "1")) []]]
    = str "{s# glued text\n\tb=1\n}\t# t\n\t# glued text" := by decide +kernel
example : (parseTree .enc (render .enc (decorOf 4) [.node (str "s") none [.node (str "b") (some (str "1")) [],
      .node (str "t") none [.node (str "c") none []]], .node (str "o") (some (str "2")) []])).map (flat 0)
    = some [(0, str "s", none), (1, str "b", some (str "1")), (1, str "t", none), (2, str "c", none),
            (0, str "o", some (str "2"))] := by
  decide +kernel
/-- empty sections (`e`, `t`, and `q` inside `s`), CR LF line ends, form feed and vertical tab as blanks, text
    behind the last element, a last line without line feed -/
def sample2 : Forest :=
  [.node (str "o") (some (str "1")) [], .node (str "e") none [],
   .node (str "s") none [.node (str "b") (some (str "x y")) [], .node (str "q") (some []) []], .node (str "t") none []]
example : (List.range 12).all (fun k => (decorOf 5 k).ok && (decorOf 6 k).ok) = true := by decide +kernel
example : render .brace (decorOf 6) sample2
    = str "o=1\ne{ # end\n# empty\n\t}\n\ns{\nb=x y # end\nq{\n# empty\n\t}#\n\n} # end\nt=\n#x" := by
  decide +kernel
example : render .sep (decorOf 5) sample2
    = str "o\x0b=1\r\n\r\n# c\r\n\x0ce=\r \r\n\x0c[s]\r\nb=\r x y\r\n\x0cq\x0b=\r\n\r\n# c\r\n\x0c[t]\r\n\r" := by
  decide +kernel
example : (parseTree .brace (render .brace (decorOf 5) sample2)).map (flat 0) = some (flat 0 (norm sample2)) := by
  decide +kernel
example : (parseTree .brace (render .brace (decorOf 6) sample2)).map (flat 0) = some (flat 0 (norm sample2)) := by
  decide +kernel
example : (parseTree .sep (render .sep (decorOf 5) sample2)).map (flat 0) = some (flat 0 (norm sample2)) := by
  decide +kernel
example : (parseTree .bar (render .bar (decorOf 6) sample2)).map (flat 0) = some (flat 0 (norm sample2)) := by
  decide +kernel
example : (parseTree .enc (render .enc (decorOf 6) sample2)).map (flat 0) = some (flat 0 (norm sample2)) := by
  decide +kernel
/-- names beyond letters and digits: quotes, backslash, punctuation, control characters, high bytes -/
example : nameOk (str "\"a'\\+b~") = true ∧ nameOk [1, 0x80, 0xff, 127] = true := by decide +kernel
example : (parseTree .brace (render .brace (decorOf 2) [.node (str "\"a'\\+b~") (some (str "v")) [],
      .node [1, 0x80, 0xff, 127] none [.node (str "$") none []]])).map (flat 0)
    = some [(0, str "\"a'\\+b~", some (str "v")), (0, [1, 0x80, 0xff, 127], none), (1, str "$", none)] := by
  decide +kernel
/-- name restriction words: `s2` and `k-1` fit (digits behind the first character; specials in option names only) … -/
example : forestFits 0x2 0x6 [.node (str "s2") none [.node (str "k-1") (some (str "v")) []]] = true := by decide +kernel
example : (parseTreeF .brace 0x2 0x6 (render .brace (decorOf 2) [.node (str "s2") none [.node (str "k-1") (some (str "v")) []]])).map
    (flat 0) = some [(0, str "s2", none), (1, str "k-1", some (str "v"))] := by decide +kernel
/-- … a name the word does not permit makes the parse fail (so `forestFits` is needed) -/
example : forestFits 0x2 0x2 [.node (str "k-1") (some (str "v")) []] = false
    ∧ parseTreeF .brace 0x2 0x2 (render .brace noDecor [.node (str "k-1") (some (str "v")) []]) = none := by
  decide +kernel
end examples

end Mpt.C09
