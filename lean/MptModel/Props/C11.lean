/-
  C11 — Event dispatch reaches exactly the registered handler.

  Objects:
  * `run st ops` (Impl/Dispatch.lean): the implementation model M driven through a history `ops`, started from
    `mpt_dispatch_init` with the harness fallback (`fb = true`, registration 0) or without one; it yields the final
    model state and the trace `(op, outcome)` with outcome = return value + handler log of that op.
  * `Spec.run` (Spec/Dispatch.lean): the spec S as a monitor over such traces; its state is the finite map
    id ↦ registration (`live`), the fallback, the default id and the list `regd` of every registration that was
    accepted so far.  "The handler currently registered for id" is `sp.lookup id` of the monitor state `sp`
    reached on the history; the handler an event must reach is `sp.target id` (registered one, else fallback).
  All theorems quantify over *all* histories (lists of operations), all ids (64 bit), all handler answers.
  Proof technique: induction over the history with the refinement relation of Lemmas/DispatchRefine.lean.
-/
import MptModel.Lemmas.DispatchRefine
import MptModel.Lemmas.DispatchBook
set_option linter.constructorNameAsVariable false
namespace Mpt.C11
open Mpt.Dispatch

/-- handler log of a whole history, in order -/
def logAfter (st : Start) (ops : List Op) : List LogE := logOf (run st ops).2

/-- model state after a history -/
def stateAfter (st : Start) (ops : List Op) : St := (run st ops).1

/-- S accepts every run of M: for each operation of each history, return value and handler log are among the
    outcomes the property allows (so a model/spec disagreement `m_ne_s` cannot occur) -/
theorem monitor_accepts (st : Start) (ops : List Op) :
    ∃ sp, (Spec.init st).run (run st ops).2 = some sp := by
  obtain ⟨sp, h, _⟩ := run_refines st ops
  exact ⟨sp, h⟩

example : ((Spec.init .fb).run (run .fb [.set 1, .set 2, .cset 1, .emitId 1 ⟨1, false⟩, .clear 2, .emitNone ⟨0, false⟩, .fini]).2).isSome = true := by
  decide

/- ------------------------------------------------------------------------------------------------
   delivery
   ------------------------------------------------------------------------------------------------ -/

/-- **delivery (event carrying an id)**: after any history, emitting an event with id `id` logs exactly one
    invocation — of the handler currently registered for `id`, else of the fallback — and nothing else; without
    either, nobody is invoked. -/
theorem delivery (st : Start) (ops : List Op) (id : Id) (h : HRes) :
    ∃ sp, (Spec.init st).run (run st ops).2 = some sp ∧
      (step (stateAfter st ops) (.emitId id h)).2.log =
        (match sp.target id with | some r => [.call r id] | none => []) := by
  obtain ⟨sp, hrun, hrel, hw, hs, _⟩ := run_refines st ops
  obtain ⟨sp', hst, _⟩ := step_refines (op := .emitId id h) hw hrel hs
  exact ⟨sp, hrun, stepEmit_log hst⟩

example : (step (stateAfter .fb [.set 1, .set 2, .cset 1]) (.emitId 1 ⟨1, false⟩)).2.log = [.call 3 1] := by decide
example : (step (stateAfter .fb [.set 1, .clear 1]) (.emitId 1 ⟨0, false⟩)).2.log = [.call 0 1] := by decide

/-- **delivery (message)**: the first byte of the message is the id; an empty message reaches nobody. -/
theorem delivery_msg (st : Start) (ops : List Op) (msg : List Byte) (h : HRes) :
    ∃ sp, (Spec.init st).run (run st ops).2 = some sp ∧
      (step (stateAfter st ops) (.emitMsg msg h)).2.log =
        (match msg with
         | [] => []
         | b :: _ => match sp.target b.toUInt64 with | some r => [.call r b.toUInt64] | none => []) := by
  obtain ⟨sp, hrun, hrel, hw, hs, _⟩ := run_refines st ops
  obtain ⟨sp', hst, _⟩ := step_refines (op := .emitMsg msg h) hw hrel hs
  refine ⟨sp, hrun, ?_⟩
  cases msg with
  | nil =>
    simp only [Spec.step] at hst
    split at hst
    · rename_i hc
      simp only [Bool.and_eq_true, beq_iff_eq] at hc
      exact hc.2
    · cases hst
  | cons b rest => exact stepEmit_log hst

example : (step (stateAfter .fb [.set 2]) (.emitMsg [2, 0xff] ⟨0, false⟩)).2.log = [.call 1 2] := by decide

/-- **delivery (default event)**: without an event the default id is dispatched: nobody is invoked when there is
    none; else exactly the handler registered for it.  When the default id names no handler the model refuses
    without invoking anybody. -/
theorem delivery_default (st : Start) (ops : List Op) (h : HRes) :
    ∃ sp, (Spec.init st).run (run st ops).2 = some sp ∧
      (step (stateAfter st ops) (.emitNone h)).2.log =
        (if sp.dflt = 0 then [] else
          match sp.lookup sp.dflt with | some r => [.call r sp.dflt] | none => []) := by
  obtain ⟨sp, hrun, hrel, hw, hs, _⟩ := run_refines st ops
  refine ⟨sp, hrun, ?_⟩
  have hm : stateAfter st ops = (run st ops).1 := rfl
  rw [hm]
  generalize (run st ops).1 = m at hrel hw
  rw [hrel.dflt, lookup_eq hrel hs]
  simp only [step, dispatchEmit]
  by_cases hd0 : m.d.dflt = 0
  · simp [hd0]
  · simp only [hd0, if_false]
    cases hg : commandGet m.d.tab m.d.dflt with
    | none => simp
    | some c =>
      obtain ⟨i, s⟩ := c
      simp only [Option.map_some]
      rw [emitResolved_spec (cmd := some (i, s)) (fun i' s' he => by
        cases he; exact get_user hw i s hg)]
      simp [resolveReg]

example : (step (stateAfter .fb [.set 1, .emitId 1 ⟨1, false⟩]) (.emitNone ⟨0, false⟩)).2.log = [.call 1 1] := by decide

/-- **delivery (command text)**: dispatching a command message by the hash of its text invokes exactly the
    handler registered for that hash (else the fallback), where the text is one of the readings `cmdIds` admits;
    a message without command text reaches nobody. -/
theorem delivery_hash (st : Start) (ops : List Op) (msg : List Byte) (h : HRes) :
    ∃ sp, (Spec.init st).run (run st ops).2 = some sp ∧
      ∃ cid, cid ∈ cmdIds msg ∧
        (step (stateAfter st ops) (.hash msg h)).2.log = sp.hashLog cid := by
  obtain ⟨sp, hrun, hrel, hw, hs, _⟩ := run_refines st ops
  obtain ⟨sp', hst, _⟩ := step_refines (op := .hash msg h) hw hrel hs
  refine ⟨sp, hrun, ?_⟩
  simp only [Spec.step] at hst
  rw [List.findSome?_eq_some_iff] at hst
  obtain ⟨l1, cid, l2, hl, hcid, _⟩ := hst
  exact ⟨cid, by rw [hl]; simp, stepHashId_log hcid⟩

/-- the command text "a" (Output header) and " a:b" (Command header, separator ':') both hash to djb2("a") -/
example : cmdIds [0, 0, 0x61] = [some 177604] ∧ cmdIds [4, 0x3a, 0x20, 0x61, 0x3a, 0x62] = [some 177604] := by decide
example : (step (stateAfter .fb [.set 177604]) (.hash [4, 0x3a, 0x20, 0x61, 0x3a, 0x62] ⟨2, false⟩)).2 = ⟨.val 2, [.call 1 177604]⟩ := by
  decide

/-- **delivery (white-space separated command)**: for a Command message whose separator is a blank (arguments split
    at white space) and whose command word is plain — no quote characters, followed by a blank or the end of the
    message — the handler invoked is exactly the one registered for the hash of that word (`wsWord`: the text after
    the leading white space up to the first white-space character); no other cut of the text is accepted. -/
theorem delivery_hash_word (st : Start) (ops : List Op) (sep : Byte) (payload : List Byte) (h : HRes)
    (hs : sep ≠ 0) (hg : isGraph sep = false) (hp : plainWord payload = true) :
    cmdIds (msgCommand :: sep :: payload) = [some (hashDjb2 (wsWord payload))] ∧
    ∃ sp, (Spec.init st).run (run st ops).2 = some sp ∧
      (step (stateAfter st ops) (.hash (msgCommand :: sep :: payload) h)).2.log = sp.hashLog (some (hashDjb2 (wsWord payload))) := by
  have hc : cmdIds (msgCommand :: sep :: payload) = [some (hashDjb2 (wsWord payload))] := by
    simp [cmdIds, hs, hg, hp]
  refine ⟨hc, ?_⟩
  obtain ⟨sp, hrun, cid, hmem, hlog⟩ := delivery_hash st ops (msgCommand :: sep :: payload) h
  rw [hc, List.mem_singleton] at hmem
  exact ⟨sp, hrun, by rw [hlog, hmem]⟩

/-- "ab c" split at blanks: the command is "ab" (177622 = djb2 "a" is not a reading); with handlers for both hashes
    the one for "ab" is invoked -/
example : plainWord [0x61, 0x62, 0x20, 0x63] = true ∧ wsWord [0x20, 0x61, 0x62, 0x20, 0x63] = [0x61, 0x62] ∧
    cmdIds [4, 0x20, 0x61, 0x62, 0x20, 0x63] = [some (hashDjb2 [0x61, 0x62])] := by decide
example : (step (stateAfter .fb [.set (hashDjb2 [0x61]), .set (hashDjb2 [0x61, 0x62])]) (.hash [4, 0x20, 0x61, 0x62, 0x20, 0x63] ⟨2, false⟩)).2
    = ⟨.val 2, [.call 2 (hashDjb2 [0x61, 0x62])]⟩ := by decide
/-- the monitor rejects a delivery to the handler of a shorter cut of the word -/
example : (Spec.init .fb).run [(.set (hashDjb2 [0x61]), ⟨.val 1, []⟩), (.set (hashDjb2 [0x61, 0x62]), ⟨.val 1, []⟩),
    (.hash [4, 0x20, 0x61, 0x62, 0x20, 0x63] ⟨2, false⟩, ⟨.val 2, [.call 1 (hashDjb2 [0x61])]⟩)] = none := by decide

/-- **delivery (fragmented command message)**: a command message that arrives in several fragments is dispatched
    like the flattened message: same handler, same answer, whatever the fragment boundaries are (inside the header,
    the leading white space or the command word, empty fragments, texts longer than the scratch buffer). -/
theorem delivery_hash_fragments (st : Start) (ops : List Op) (frags : List (List Byte)) (h : HRes) :
    (step (stateAfter st ops) (.hashFrag frags h)).2 = (step (stateAfter st ops) (.hash frags.flatten h)).2 := by
  simp only [step, dispatchHashFrag, dispatchHash, hashIdFrag_flat]

example : (step (stateAfter .fb [.set 193506797]) (.hashFrag [[4, 0x20, 0x20, 0x73], [0x74, 0x61], [0x72, 0x74, 0x20, 0x6e]] ⟨2, false⟩)).2
    = (step (stateAfter .fb [.set 193506797]) (.hash [4, 0x20, 0x20, 0x73, 0x74, 0x61, 0x72, 0x74, 0x20, 0x6e] ⟨2, false⟩)).2 := by decide

/-- **delivery (handler dispatches by hash)**: when the handler an emitted message reaches hands the message on
    with `mpt_dispatch_hash`, the log is its own invocation followed by what the spec lists for the command text
    (`hashOutcomes`: exactly the handler registered for the hash, else the fallback, else nobody), and the
    bookkeeping is done with the value and event id the inner call left: after an inner failure
    (`MPT_event_fail`: id cleared, `Fail|Default`) there is no default event any more. -/
theorem nested_dispatch (st : Start) (ops : List Op) (b : Byte) (rest : List Byte) (h : HRes) :
    ∃ sp, (Spec.init st).run (run st ops).2 = some sp ∧ ∃ o, o ∈ sp.hashOutcomes (some (b :: rest)) h ∧
      let m := stateAfter st ops
      let r := step m (.emitCmd (b :: rest) h)
      match sp.target b.toUInt64 with
      | some t => r.2.log = .call t b.toUInt64 :: o.1 ∧
          r.2.ret = .val (book m.d.dflt o.2.2 ⟨o.2.1, false⟩).1 ∧ r.1.d.dflt = (book m.d.dflt o.2.2 ⟨o.2.1, false⟩).2
      | none => r.2.log = [] := by
  obtain ⟨sp, hrun, hrel, hw, hs, _⟩ := run_refines st ops
  refine ⟨sp, hrun, nestedOutcome sp (some (b :: rest)) h, nestedOutcome_mem _ _ _, ?_⟩
  intro m r
  have hw' : TWf m.d.tab := hw
  have hrel' : Rel m sp := hrel
  have hr : r = ({ m with d := (emitResolved m.d (commandGet m.d.tab b.toUInt64) b.toUInt64 (some (b :: rest)) true h).1 },
      (emitResolved m.d (commandGet m.d.tab b.toUInt64) b.toUInt64 (some (b :: rest)) true h).2) := rfl
  rw [hr, emitResolved_nest _ (get_user hw') (nestedCall_outcome hw' hrel' hs _ h), target_eq hrel' hs]
  cases resolveReg (commandGet m.d.tab b.toUInt64) m.d.err with
  | some t => simp
  | none =>
    by_cases hb : m.d.bi = true
    · simp [hb]
    · simp [hb]

/-- an inner dispatch that finds nobody gives up the default event: event 7 is the default, its handler hands on a
    command nobody is registered for -/
example : (step (stateAfter .nofb [.set 4, .set 7, .emitId 7 ⟨1, false⟩]) (.emitCmd [4, 0x20, 0x78] ⟨0, false⟩)).1.d.dflt = 0 := by decide

/-- no operation of a reachable state is undefined behaviour in the model (the placeholder handler of a reserved
    element is never invoked, no index leaves the table) -/
theorem no_fault (st : Start) (ops : List Op) (op : Op) :
    (step (stateAfter st ops) op).2.ret ≠ .fault := by
  obtain ⟨sp, hrun, hrel, hw, hs, _⟩ := run_refines st ops
  obtain ⟨sp', hst, _⟩ := step_refines (op := op) hw hrel hs
  intro hf
  have hm : stateAfter st ops = (run st ops).1 := rfl
  rw [hm] at hf
  generalize (step (run st ops).1 op).2 = out at hst hf
  obtain ⟨ret, log⟩ := out
  simp only at hf
  subst hf
  have hh : ∀ msg cid h, sp.stepHashId msg cid h ⟨.fault, log⟩ = none := by
    intro msg cid h
    unfold Spec.stepHashId
    repeat' split
    all_goals first | rfl | simp_all
  have hu : ∀ id msg, sp.stepUnhandled id msg ⟨.fault, log⟩ = none := by
    intro id msg
    unfold Spec.stepUnhandled Spec.isErr
    repeat' split
    all_goals first | rfl | simp_all
  have hd : ∀ r id msg nest h, sp.stepDeliver r id msg nest h ⟨.fault, log⟩ = none := by
    intro r id msg nest h
    unfold Spec.stepDeliver
    cases nest with
    | true => simp only [if_true]; rw [List.findSome?_eq_none_iff]; intro o _; simp
    | false => simp
  have he : ∀ id msg nest h, sp.stepEmit id msg nest h ⟨.fault, log⟩ = none := by
    intro id msg nest h
    unfold Spec.stepEmit
    split
    · exact hd _ _ _ _ _
    · exact hu _ _
  cases op with
  | hash msg h =>
    simp only [Spec.step] at hst
    rw [List.findSome?_eq_some_iff] at hst
    obtain ⟨_, cid, _, _, hcid, _⟩ := hst
    rw [hh] at hcid; cases hcid
  | hashFrag frags h =>
    simp only [Spec.step] at hst
    rw [List.findSome?_eq_some_iff] at hst
    obtain ⟨_, cid, _, _, hcid, _⟩ := hst
    rw [hh] at hcid; cases hcid
  | emitCmd msg h =>
    cases msg with
    | nil => simp [Spec.step, Spec.isErr] at hst
    | cons b rest => simp only [Spec.step, he] at hst; cases hst
  | emitId id h => simp only [Spec.step, he] at hst; cases hst
  | emitMsg msg h =>
    cases msg with
    | nil => simp [Spec.step, Spec.isErr] at hst
    | cons b rest => simp only [Spec.step, he] at hst; cases hst
  | emitNone h =>
    simp only [Spec.step, hd, Spec.isErr, hu] at hst
    repeat' split at hst
    all_goals first | (cases hst; done) | (cases hfb : sp.fb <;> rw [hfb] at hst <;> cases hst; done) | simp_all
  | setError =>
    simp only [Spec.step, Spec.isOk] at hst
    cases hfb : sp.fb <;> rw [hfb] at hst <;> simp at hst
  | _ =>
    simp only [Spec.step, Spec.stepRegister, Spec.isOk, Spec.isErr] at hst
    repeat' split at hst
    all_goals first | (cases hst; done) | (cases hfb : sp.fb <;> rw [hfb] at hst <;> cases hst; done) | simp_all

/- ------------------------------------------------------------------------------------------------
   finalised_once
   ------------------------------------------------------------------------------------------------ -/

/-- **finalised_once**: in the log of any history
    * a registration that was accepted and is no longer registered (replaced, cleared, or the dispatcher torn
      down) has exactly one end-of-life call; one that is still registered — and a number that was never
      accepted — has none;
    * only accepted registrations are ever invoked;
    * no invocation of a registration comes after its end-of-life call. -/
theorem finalised_once (st : Start) (ops : List Op) :
    ∃ sp, (Spec.init st).run (run st ops).2 = some sp ∧
      (∀ r, (logAfter st ops).count (.fin r) = if r ∈ sp.regd ∧ r ∉ sp.liveRegs then 1 else 0) ∧
      (∀ r id, .call r id ∈ logAfter st ops → r ∈ sp.regd) ∧
      (logAfter st ops).Pairwise (fun a b => ∀ r id, a = .fin r → b ≠ .call r id) := by
  obtain ⟨sp, hrun, _, _, _, hl⟩ := run_refines st ops
  exact ⟨sp, hrun, hl.fins, hl.calls, hl.ordered⟩

/-- the registrations the monitor counts as live are exactly those stored in the table plus the fallback -/
theorem live_is_table (st : Start) (ops : List Op) :
    ∃ sp, (Spec.init st).run (run st ops).2 = some sp ∧
      (∀ p, p ∈ sp.live ↔ p ∈ liveList (stateAfter st ops).d.tab) ∧ sp.fb = (stateAfter st ops).d.err := by
  obtain ⟨sp, hrun, hrel, _⟩ := run_refines st ops
  exact ⟨sp, hrun, fun p => (hrel.live p).symm, hrel.fb⟩

/-- **teardown**: after `mpt_dispatch_fini` every registration ever accepted (fallback included) has had exactly
    one end-of-life call -/
theorem finalised_at_teardown (st : Start) (ops : List Op) :
    ∃ sp, (Spec.init st).run (run st (ops ++ [.fini])).2 = some sp ∧
      ∀ r, (logAfter st (ops ++ [.fini])).count (.fin r) = if r ∈ sp.regd then 1 else 0 := by
  obtain ⟨sp, hrun, hrel, _, _, hl⟩ := run_refines st (ops ++ [.fini])
  refine ⟨sp, hrun, ?_⟩
  have hlive : liveList (run st (ops ++ [.fini])).1.d.tab = [] ∧ (run st (ops ++ [.fini])).1.d.err = none := by
    have : ∀ (m : St) (l : List Op), (runFrom m (l ++ [.fini])).1 = (step (runFrom m l).1 .fini).1 := by
      intro m l
      induction l generalizing m with
      | nil => rfl
      | cons o rest ih => simp only [List.cons_append, runFrom]; exact ih _
    unfold run
    rw [this]
    simp [step, dispatchFini, liveList]
  have hnone : sp.liveRegs = [] := by
    unfold Spec.liveRegs
    have h1 : sp.live = [] := by
      apply List.eq_nil_iff_forall_not_mem.mpr
      intro p hp
      have := (hrel.live p).mpr hp
      rw [hlive.1] at this
      cases this
    rw [h1, hrel.fb, hlive.2]
    rfl
  intro r
  rw [show logAfter st (ops ++ [.fini]) = logOf (run st (ops ++ [.fini])).2 from rfl, hl.fins r, hnone]
  simp

example : logAfter .fb [.set 5, .cset 5, .reserve 1, .emitId 5 ⟨0, false⟩, .fini] = [.fin 1, .call 2 5, .fin 2, .fin 3, .fin 0] := by decide

/- ------------------------------------------------------------------------------------------------
   default_bookkeeping
   ------------------------------------------------------------------------------------------------ -/

/-- **default_bookkeeping**: when an emitted event (id `id`) reaches a handler that answers `h`, the value
    returned by `mpt_dispatch_emit` and the default id afterwards are those of `book`: an error is passed
    through and changes nothing; else `Default` in the answer makes the event id (as the handler left it) the
    default id, and the returned flags carry `Default` exactly when a default id exists afterwards.  When nobody
    is invoked, the library's built-in fallback (if it is still installed) answers `builtinAnswer` and the same
    bookkeeping applies; without any fallback the default id is unchanged. -/
theorem default_bookkeeping (st : Start) (ops : List Op) (id : Id) (h : HRes) :
    let m := stateAfter st ops
    let r := step m (.emitId id h)
    (r.2.log ≠ [] → r.2.ret = .val (book m.d.dflt id h).1 ∧ r.1.d.dflt = (book m.d.dflt id h).2) ∧
    (r.2.log = [] → m.d.bi = true →
      r.2.ret = .val (book m.d.dflt id (builtinAnswer id none)).1 ∧ r.1.d.dflt = (book m.d.dflt id (builtinAnswer id none)).2) ∧
    (r.2.log = [] → m.d.bi = false → r.1.d.dflt = m.d.dflt) := by
  obtain ⟨sp, hrun, hrel, hw, hs, _⟩ := run_refines st ops
  intro m r
  have hw' : TWf m.d.tab := hw
  have hr : r = ({ m with d := (emitResolved m.d (commandGet m.d.tab id) id none false h).1 }, (emitResolved m.d (commandGet m.d.tab id) id none false h).2) := rfl
  rw [hr, emitResolved_spec (get_user hw')]
  cases resolveReg (commandGet m.d.tab id) m.d.err with
  | some r => simp
  | none =>
    by_cases hb : m.d.bi = true
    · simp [hb]
    · simp [hb]

/-- the same for the default event (the event id is the default id itself; a default id that names no handler is
    refused and forgotten without asking any fallback: when nobody is invoked there is no default event afterwards) -/
theorem default_bookkeeping_none (st : Start) (ops : List Op) (h : HRes) :
    let m := stateAfter st ops
    let r := step m (.emitNone h)
    (r.2.log ≠ [] → r.2.ret = .val (book m.d.dflt m.d.dflt h).1 ∧ r.1.d.dflt = (book m.d.dflt m.d.dflt h).2) ∧
    (r.2.log = [] → r.1.d.dflt = 0) := by
  obtain ⟨sp, hrun, hrel, hw, hs, _⟩ := run_refines st ops
  intro m r
  have hw' : TWf m.d.tab := hw
  have hr : r = ({ m with d := (dispatchEmit m.d none h).1 }, (dispatchEmit m.d none h).2) := rfl
  rw [hr]
  unfold dispatchEmit
  by_cases hd0 : m.d.dflt = 0
  · simp [hd0]
  · simp only [hd0, if_false]
    cases hg : commandGet m.d.tab m.d.dflt with
    | none => simp
    | some c =>
      obtain ⟨i, s⟩ := c
      simp only
      rw [emitResolved_spec (cmd := some (i, s)) (fun i' s' he => by cases he; exact get_user hw' i s hg)]
      simp [resolveReg]

/-- the same for an event given as a message (the id is the first byte) -/
theorem default_bookkeeping_msg (st : Start) (ops : List Op) (b : Byte) (rest : List Byte) (h : HRes) :
    let m := stateAfter st ops
    let r := step m (.emitMsg (b :: rest) h)
    let id := b.toUInt64
    (r.2.log ≠ [] → r.2.ret = .val (book m.d.dflt id h).1 ∧ r.1.d.dflt = (book m.d.dflt id h).2) ∧
    (r.2.log = [] → m.d.bi = true →
      r.2.ret = .val (book m.d.dflt id (builtinAnswer id (some (b :: rest)))).1 ∧
      r.1.d.dflt = (book m.d.dflt id (builtinAnswer id (some (b :: rest)))).2) ∧
    (r.2.log = [] → m.d.bi = false → r.1.d.dflt = m.d.dflt) := by
  obtain ⟨sp, hrun, hrel, hw, hs, _⟩ := run_refines st ops
  intro m r id
  have hw' : TWf m.d.tab := hw
  have hr : r = ({ m with d := (emitResolved m.d (commandGet m.d.tab id) id (some (b :: rest)) false h).1 },
      (emitResolved m.d (commandGet m.d.tab id) id (some (b :: rest)) false h).2) := rfl
  rw [hr, emitResolved_spec (get_user hw')]
  cases resolveReg (commandGet m.d.tab id) m.d.err with
  | some r => simp
  | none =>
    by_cases hb : m.d.bi = true
    · simp [hb]
    · simp [hb]

/-- **bookkeeping follows the flags**, against the declarative statement `Follows` (Spec/Dispatch.lean: default id
    := event id as the handler left it exactly when the answer carries `Default`, every other flag handed through,
    `Default` in the returned value exactly when a default event exists afterwards, errors passed through), for an
    event with id, an event given as message and the default event; handler answers are C `int`s. -/
theorem bookkeeping_follows_flags (st : Start) (ops : List Op) (id : Id) (h : HRes) (hv : h.val < 2 ^ 31) :
    let m := stateAfter st ops
    let r := step m (.emitId id h)
    r.2.log ≠ [] → ∃ ret, r.2.ret = .val ret ∧ Follows m.d.dflt (if h.zero then 0 else id) h.val ret r.1.d.dflt := by
  intro m r hl
  obtain ⟨hret, hd⟩ := (default_bookkeeping st ops id h).1 hl
  exact ⟨_, hret, by rw [hd]; exact book_follows _ _ _ hv⟩

theorem bookkeeping_follows_flags_msg (st : Start) (ops : List Op) (b : Byte) (rest : List Byte) (h : HRes) (hv : h.val < 2 ^ 31) :
    let m := stateAfter st ops
    let r := step m (.emitMsg (b :: rest) h)
    r.2.log ≠ [] → ∃ ret, r.2.ret = .val ret ∧ Follows m.d.dflt (if h.zero then 0 else b.toUInt64) h.val ret r.1.d.dflt := by
  intro m r hl
  obtain ⟨hret, hd⟩ := (default_bookkeeping_msg st ops b rest h).1 hl
  exact ⟨_, hret, by rw [hd]; exact book_follows _ _ _ hv⟩

theorem bookkeeping_follows_flags_none (st : Start) (ops : List Op) (h : HRes) (hv : h.val < 2 ^ 31) :
    let m := stateAfter st ops
    let r := step m (.emitNone h)
    r.2.log ≠ [] → ∃ ret, r.2.ret = .val ret ∧ Follows m.d.dflt (if h.zero then 0 else m.d.dflt) h.val ret r.1.d.dflt := by
  intro m r hl
  obtain ⟨hret, hd⟩ := (default_bookkeeping_none st ops h).1 hl
  exact ⟨_, hret, by rw [hd]; exact book_follows _ _ _ hv⟩

/-- `Follows` pins the outcome down: there is exactly one (returned value, default id) that follows the flags -/
theorem bookkeeping_determined {dflt left : Id} {v r1 r2 : Int} {d1 d2 : Id}
    (h1 : Follows dflt left v r1 d1) (h2 : Follows dflt left v r2 d2) : r1 = r2 ∧ d1 = d2 := follows_unique h1 h2

/-- nested dispatch, against `Follows`: the outer bookkeeping follows the flags and the event id the inner
    `mpt_dispatch_hash` left -/
theorem nested_dispatch_follows_flags (st : Start) (ops : List Op) (b : Byte) (rest : List Byte) (h : HRes) :
    ∃ sp, (Spec.init st).run (run st ops).2 = some sp ∧ ∃ o, o ∈ sp.hashOutcomes (some (b :: rest)) h ∧
      let m := stateAfter st ops
      let r := step m (.emitCmd (b :: rest) h)
      ∀ t, sp.target b.toUInt64 = some t → o.2.1 < 2 ^ 31 →
        r.2.log = .call t b.toUInt64 :: o.1 ∧ ∃ ret, r.2.ret = .val ret ∧ Follows m.d.dflt o.2.2 o.2.1 ret r.1.d.dflt := by
  obtain ⟨sp, hrun, o, ho, hmain⟩ := nested_dispatch st ops b rest h
  refine ⟨sp, hrun, o, ho, ?_⟩
  intro m r t ht hv
  have hm := hmain
  simp only [ht] at hm
  obtain ⟨hlog, hret, hd⟩ := hm
  refine ⟨hlog, _, hret, ?_⟩
  rw [hd]
  have := book_follows m.d.dflt o.2.2 ⟨o.2.1, false⟩ hv
  simpa using this

/-- answer `Default|Fail` (3) with the id kept: event 7 becomes the default, the caller sees 3; answer 4 (another
    flag) while a default exists: handed through with `Default` added; an error changes nothing -/
example : Follows 0 7 3 3 7 ∧ Follows 7 9 4 5 7 ∧ Follows 7 9 (-5) (-5) 7 ∧ ¬ Follows 0 7 3 3 0 ∧ ¬ Follows 7 9 4 4 7 := by
  unfold Follows; decide
example : (step (stateAfter .fb [.set 7]) (.emitMsg [7, 1] ⟨3, false⟩)).1.d.dflt = 7 := by decide

example : book 0 7 ⟨3, false⟩ = (3, 7) ∧ book 7 7 ⟨3, true⟩ = (2, 0) ∧ book 7 9 ⟨-5, true⟩ = (-5, 7) ∧ book 7 9 ⟨4, false⟩ = (5, 7) := by decide
example : (step (stateAfter .fb [.set 7]) (.emitId 7 ⟨3, false⟩)).2.ret = .val 3 := by decide

/-- dispatching by hash leaves the default id alone (the flags are handed to the caller) -/
theorem hash_keeps_default (st : Start) (ops : List Op) (msg : List Byte) (h : HRes) :
    (step (stateAfter st ops) (.hash msg h)).1 = stateAfter st ops := rfl

/- ------------------------------------------------------------------------------------------------
   reserve_unique
   ------------------------------------------------------------------------------------------------ -/

/-- in every reachable state the ids of the live elements are pairwise distinct, and so are their registrations -/
theorem ids_distinct (st : Start) (ops : List Op) :
    ((liveList (stateAfter st ops).d.tab).map (·.1)).Nodup ∧ ((liveList (stateAfter st ops).d.tab).map (·.2)).Nodup := by
  obtain ⟨sp, _, _, hw, _⟩ := run_refines st ops
  exact ⟨hw.keys, hw.regs⟩

/-- **reserve on any table**: whatever the table holds — handlers, free elements, and reservations that are still
    outstanding (placeholder handler, not yet activated by the caller; such states are not produced by the histories
    above, where a reservation is activated at once) — an id handed out by `mpt_command_reserve` is carried by no
    active element, the active elements stay what they were, and distinct ids stay distinct. -/
theorem reserve_unique_any_table (tab tab' : Option Table) (w idx : Nat) (h : commandReserve tab w = (tab', some idx)) :
    ∃ t' s, tab' = some t' ∧ t'.slots[idx]? = some s ∧ s.cmd = some .logReply ∧
      (∀ r, (s.id, r) ∉ liveList tab) ∧
      (∀ p, p ∈ liveList tab' ↔ p ∈ liveList tab ∨ p = (s.id, s.arg)) ∧
      (((liveList tab).map (·.1)).Nodup → ((liveList tab').map (·.1)).Nodup) := by
  obtain ⟨a, b, idv, m, cap, rfl, rfl, hlive, _, hfresh⟩ := commandReserve_some h
  refine ⟨_, ⟨idv, some .logReply, m⟩, rfl, by simp, rfl, hfresh, ?_, ?_⟩
  · intro p
    rw [liveList_some, liveL_append, liveL_cons, ← hlive]
    simp only [Slot.live, Option.isSome_some, if_true, List.mem_append, List.mem_cons]
    constructor
    · rintro (h1 | h1 | h1)
      · exact Or.inl (Or.inl h1)
      · exact Or.inr h1
      · exact Or.inl (Or.inr h1)
    · rintro ((h1 | h1) | h1)
      · exact Or.inl h1
      · exact Or.inr (Or.inr h1)
      · exact Or.inr (Or.inl h1)
  · intro hnd
    rw [liveList_some, liveL_append, liveL_cons]
    rw [← hlive] at hnd hfresh
    simp only [Slot.live, Option.isSome_some, if_true, List.map_append, List.map_cons, List.nodup_append, List.nodup_cons,
      List.mem_map, List.mem_append, List.mem_cons] at hnd hfresh ⊢
    grind

/-- **known finding (outside the clauses of the property)**: while a reservation is outstanding — the element still
    carries the library's placeholder handler `log_reply`, which takes its second argument for a message — an event
    with the reserved id is undefined behaviour (the real code reads the event structure as a message:
    stack-buffer-overflow, `e holdemit 1` in the harness).  The histories of the theorems above activate a reservation
    at once, which is what `no_fault` rests on. -/
theorem outstanding_reservation_event_counterexample :
    (dispatchEmit ⟨(commandReserve none 1).1, 0, none, false⟩ (some ⟨1, none⟩) ⟨0, false⟩).2.ret = .fault := by decide

/-- **when reserve must succeed**: for a valid width class `mpt_command_reserve` hands out an id whenever some id of
    the class's range `1..max` is carried by no active element (it refuses only when the whole range is taken);
    again for any table. -/
theorem reserve_succeeds (tab : Option Table) (w i : Nat) (hw : widthMax w ≠ 0) (h1 : 1 ≤ i) (h2 : i ≤ widthMax w)
    (hfree : ∀ r, (UInt64.ofNat i, r) ∉ liveList tab) : ∃ tab' idx, commandReserve tab w = (tab', some idx) :=
  commandReserve_succeeds tab w i hw h1 h2 hfree

/-- two reservations in a row, the first one still outstanding: ids 1 and 2; with the 127 ids of width class 1 all
    outstanding the next one is refused -/
example : (commandReserve (commandReserve none 1).1 1).2 = some 1 ∧
    ((commandReserve (commandReserve none 1).1 1).1.map fun t => t.slots.map (·.id)) = some [1, 2] := by decide

/-- **reserve_unique**: an id handed out by `mpt_command_reserve` (any width class) after any history is a 64-bit
    value that no live element carries, and afterwards all live ids are still pairwise distinct; the elements
    that were live stay live with their ids and registrations. -/
theorem reserve_unique (st : Start) (ops : List Op) (w : Nat) (v : Int) :
    let m := stateAfter st ops
    let r := step m (.reserve w)
    r.2.ret = .val v →
      0 ≤ v ∧ v < 2 ^ 64 ∧ (∀ p, p ∈ liveList m.d.tab → (p.1.toNat : Int) ≠ v) ∧
      ((liveList r.1.d.tab).map (·.1)).Nodup ∧
      (∀ p, p ∈ liveList r.1.d.tab ↔ p ∈ liveList m.d.tab ∨ p = (UInt64.ofNat v.toNat, m.next)) := by
  obtain ⟨sp, hrun, hrel, hw, hs, _⟩ := run_refines st ops
  intro m r hret
  obtain ⟨sp', hst, hrel', hw'⟩ := step_refines (op := .reserve w) hw hrel hs
  have hr2 : (step (run st ops).1 (.reserve w)).2.ret = .val v := hret
  simp only [Spec.step] at hst
  rw [hr2] at hst
  simp only at hst
  split at hst
  · rename_i hc
    simp only [Bool.and_eq_true, decide_eq_true_eq, beq_iff_eq, Option.isNone_iff_eq_none] at hc
    obtain ⟨⟨⟨h0, h64⟩, _⟩, hlk⟩ := hc
    cases hst
    refine ⟨h0, h64, ?_, hw'.keys, ?_⟩
    · intro p hp hpv
      rw [Spec.lookup_eq_none] at hlk
      apply hlk p.2
      have : UInt64.ofNat v.toNat = p.1 := by
        rw [← hpv]; simp
      rw [this]
      exact (hrel.live p).mp hp
    · intro p
      have h1 := hrel'.live p
      simp only [List.mem_append, List.mem_singleton] at h1
      rw [show r.1 = (step (run st ops).1 (.reserve w)).1 from rfl, h1, ← hrel.live p, hrel.next]
      rfl
  · cases hst

example : (step (stateAfter .fb [.reserve 1, .cset 18446744073709551615, .cset 0]) (.reserve 1)).2.ret = .val 2 := by decide


/- ------------------------------------------------------------------------------------------------
   content traits (command_traits.c) and the C++ class (mpt++/event.cpp)
   ------------------------------------------------------------------------------------------------ -/

/-- **release through the traits**: releasing the handler table through the generic array interface
    (`mpt_array_clone(&_d, 0)`: buffer unref, `_command_fini` per element) gives every registered handler exactly
    its end-of-life call — the log of the operation is, up to order and without repetition, the `fin` of each live
    registration — and leaves an empty table. -/
theorem drop_finalises_all (st : Start) (ops : List Op) :
    ∃ sp, (Spec.init st).run (run st ops).2 = some sp ∧
      let r := step (stateAfter st ops) .drop
      r.2.log.Nodup ∧ (∀ e, e ∈ r.2.log ↔ ∃ p, p ∈ sp.live ∧ e = .fin p.2) ∧ liveList r.1.d.tab = [] := by
  obtain ⟨sp, hrun, hrel, hw, hs, _⟩ := run_refines st ops
  obtain ⟨sp', hst, _⟩ := step_refines (op := .drop) hw hrel hs
  refine ⟨sp, hrun, ?_⟩
  simp only [Spec.step] at hst
  split at hst
  · rename_i hc
    simp only [Bool.and_eq_true, sameSet_iff] at hc
    refine ⟨hc.2.1, ?_, rfl⟩
    intro e
    have hm : stateAfter st ops = (run st ops).1 := rfl
    rw [hm, hc.2.2 e]
    simp only [List.mem_map]
    constructor
    · rintro ⟨p, hp, rfl⟩; exact ⟨p, hp, rfl⟩
    · rintro ⟨p, hp, rfl⟩; exact ⟨p, hp, rfl⟩
  · cases hst

/-- **copy through the traits**: copy-constructing the table element of a live registration (`_command_init` with
    that element as source) is refused and invokes nobody, so a registration never gets a second owner -/
theorem traits_copy_refused (st : Start) (ops : List Op) (r : Reg) :
    (∃ id, (id, r) ∈ liveList (stateAfter st ops).d.tab) →
      (step (stateAfter st ops) (.tcopy r)).2 = ⟨.val Err.BadOperation.code, []⟩ ∧
      (step (stateAfter st ops) (.tcopy r)).1 = stateAfter st ops := by
  rintro ⟨id, hm⟩
  refine ⟨?_, rfl⟩
  have hout : (step (stateAfter st ops) (.tcopy r)).2 = ⟨.val (traitsCopy (stateAfter st ops).d.tab r), []⟩ := rfl
  rw [hout]
  congr 2
  unfold traitsCopy
  cases ht : (stateAfter st ops).d.tab with
  | none => rw [ht] at hm; simp [liveList] at hm
  | some t =>
    rw [ht, liveList_some, mem_liveL] at hm
    obtain ⟨s, hs, hl, he⟩ := hm
    have : t.slots.any (fun s => s.live && s.arg == r) = true := by
      rw [List.any_eq_true]
      refine ⟨s, hs, ?_⟩
      simp only [Prod.mk.injEq] at he
      simp [hl, he.2]
    simp [this]

example : (step (stateAfter .fb [.set 4, .reserve 1]) .drop).2.log = [.fin 1, .fin 2] := by decide
example : (step (stateAfter .fb [.set 4]) (.tcopy 1)).2 = ⟨.val (-4), []⟩ := by decide

/-- **C++ `dispatch::set_default(id)`** (after repair 862416a): accepted exactly when a handler is registered for
    `id`, and then `id` is the default event; refused calls change nothing -/
theorem set_default_iff_registered (st : Start) (ops : List Op) (id : Id) :
    ∃ sp, (Spec.init st).run (run st ops).2 = some sp ∧
      let r := step (stateAfter st ops) (.setDefault id)
      (sp.lookup id ≠ none → r.2.ret = .val 1 ∧ r.1.d.dflt = id) ∧
      (sp.lookup id = none → r.2.ret = .val (-1) ∧ r.1 = stateAfter st ops) := by
  obtain ⟨sp, hrun, hrel, hw, hs, _⟩ := run_refines st ops
  refine ⟨sp, hrun, ?_⟩
  have hlk := lookup_eq (id := id) hrel hs
  have hm : stateAfter st ops = (run st ops).1 := rfl
  rw [hm]
  cases hg : commandGet (run st ops).1.d.tab id with
  | some c => rw [hg] at hlk; simp [step, setDefaultX, hg, hlk]
  | none => rw [hg] at hlk; simp [step, setDefaultX, hg, hlk]

/-- **C++ `dispatch::set_error`**: the previous fallback registration gets its end-of-life call (the built-in one
    is dropped silently), the new registration is the fallback from then on -/
theorem set_error_finalises_old (st : Start) (ops : List Op) :
    let m := stateAfter st ops
    let r := step m .setError
    r.2.log = (match m.d.err with | some o => [.fin o] | none => []) ∧ r.1.d.err = some m.next ∧ r.1.d.bi = false := by
  intro m r
  refine ⟨?_, rfl, rfl⟩
  show errFin m.d.err = _
  unfold errFin
  cases m.d.err <;> rfl

/-- the built-in fallback `unknownEvent` of the model is the spec's `builtinAnswer` -/
theorem builtin_fallback_answer (evid : Id) (msg : Option (List Byte)) :
    unknownEvent evid msg = ((builtinAnswer evid msg).val, if (builtinAnswer evid msg).zero then 0 else evid) :=
  (unknownEvent_answer evid msg).1

example : (step (stateAfter .builtin [.set 1, .emitId 1 ⟨1, false⟩]) (.emitId 9 ⟨0, false⟩)).2 = ⟨.val 2, []⟩ := by decide
example : (step (stateAfter .builtin [.set 5, .setDefault 5, .setError, .setError]) (.emitId 9 ⟨0, false⟩)).2 = ⟨.val 1, [.call 3 9]⟩ := by decide

end Mpt.C11
