import MptModel.Impl.Dispatch
import MptModel.Spec.Dispatch
namespace Mpt.C11
theorem placeholder : True := trivial
end Mpt.C11
