/-
  C17 — fragmented messages read like contiguous ones.

  For every function `f` of mptcore/message working on a fragment list the theorem `f_flat` says:
  the implementation model (Impl/Message.lean, which walks the fragments like the C code does) gives
  the result of the same operation on the ONE contiguous byte string `frags.flatten`
  (Spec/Flat.lean) — for EVERY fragment list, including empty fragments anywhere.
  For functions that move the cursor the statement covers the bytes copied, the returned count and
  the content that remains.
-/
import MptModel.Impl.Message
import MptModel.Spec.Flat
import MptModel.Lemmas.Message
namespace Mpt.C17
open Mpt Mpt.Flat

/-- `mpt_message_read`: bytes copied, content left, returned count -/
theorem read_flat (m : Msg) (n : Nat) :
    (m.read n).out = (Flat.read m.flat n).1 ∧
    (m.read n).msg.flat = (Flat.read m.flat n).2 ∧
    (m.read n).total = (Flat.read m.flat n).1.length := by
  have h := readLoop_eq m.base m.cont n 0 []
  simp only [Msg.read, Flat.read, Msg.flat]
  refine ⟨by simpa using h.1, h.2.1, ?_⟩
  rw [h.2.2]; simp
example : (Msg.read ⟨[1, 2], [[], [3], [4, 5]]⟩ 4).out = [1, 2, 3, 4] ∧
    (Msg.read ⟨[1, 2], [[], [3], [4, 5]]⟩ 4).msg.flat = [5] := by decide

/-- `mpt_message_length` -/
theorem length_flat (m : Msg) : m.length = Flat.length m.flat := by
  simp [Msg.length, Flat.length, Msg.flat, foldl_len]
example : (Msg.mk [1, 2] [[], [3], [4, 5]]).length = 5 := by decide

/-- `mpt_memchr` -/
theorem chr_flat (frags : List Frag) (b : Byte) : Iov.memchr frags b = Flat.chr frags.flatten b :=
  memfcn_eq frags _
example : Iov.memchr [[1, 2], [], [3, 4]] 4 = some 3 := by decide

/-- `mpt_memrchr` -/
theorem rchr_flat (frags : List Frag) (b : Byte) : Iov.memrchr frags b = Flat.rchr frags.flatten b :=
  memrfcn_eq frags _
example : Iov.memrchr [[1, 2], [], [1, 4]] 1 = some 2 := by decide

/-- `mpt_memfcn` for every match function -/
theorem fcn_flat (frags : List Frag) (p : Byte → Bool) : Iov.memfcn frags p = Flat.find p frags.flatten :=
  memfcn_eq frags p

/-- `mpt_memrfcn` for every match function -/
theorem rfcn_flat (frags : List Frag) (p : Byte → Bool) : Iov.memrfcn frags p = Flat.rfind p frags.flatten :=
  memrfcn_eq frags p
example : Iov.memrfcn [[1, 2], [7], []] (· < 5) = some 1 := by decide

/-- `mpt_memstr` -/
theorem str_flat (frags : List Frag) (set : List Byte) : Iov.memstr frags set = Flat.str frags.flatten set := by
  simp only [Iov.memstr, Flat.str, memfcn_eq]
/-- `mpt_memrstr` -/
theorem rstr_flat (frags : List Frag) (set : List Byte) : Iov.memrstr frags set = Flat.rstr frags.flatten set := by
  simp only [Iov.memrstr, Flat.rstr, memrfcn_eq]
example : Iov.memstr [[1], [], [2, 3]] [9, 3] = some 2 := by decide

/-- `mpt_memtok` for every token/comment/escape set: the scanner state (open quote, previous
    character, comment) is carried across every fragment boundary -/
theorem tok_flat (frags : List Frag) (a : TokArgs) : Iov.memtok frags a = Flat.tok frags.flatten a :=
  memtok_eq frags a
example : Iov.memtok [[39, 97], [32, 98, 39], [], [32]] wsTok = some 5 := by decide

/-- `mpt_message_append` (after fix 4f20369): the array grows by exactly the message content -/
theorem append_flat (arr : List Byte) (m : Msg) : m.append arr = Flat.append arr m.flat :=
  append_eq arr m
example : (Msg.mk [1] [[], [2, 3]]).append [9] = [9, 1, 2, 3] := by decide

end Mpt.C17
