/-
  C17 — fragmented messages read like contiguous ones.

  For every function `f` of mptcore/message working on a fragment list the theorem `f_flat` says:
  the implementation model (Impl/Message.lean, which walks the fragments like the C code does) gives
  the result of the same operation on the ONE contiguous byte string `frags.flatten`
  (Spec/Flat.lean) — for EVERY fragment list, including empty fragments anywhere.
  For functions that move the cursor the statement covers the bytes copied, the returned count and
  the content that remains.
-/
import MptModel.Impl.Message
import MptModel.Spec.Flat
import MptModel.Lemmas.Message
import MptModel.Lemmas.MessageCpy
import MptModel.Lemmas.MessageArgv
import MptModel.Lemmas.MessageGet
namespace Mpt.C17
open Mpt Mpt.Flat

/-- `mpt_message_read`: bytes copied, content left, returned count -/
theorem read_flat (m : Msg) (n : Nat) :
    (m.read n).out = (Flat.read m.flat n).1 ∧
    (m.read n).msg.flat = (Flat.read m.flat n).2 ∧
    (m.read n).total = (Flat.read m.flat n).1.length := by
  have h := readLoop_eq m.base m.cont n 0 []
  simp only [Msg.read, Flat.read, Msg.flat]
  refine ⟨by simpa using h.1, h.2.1, ?_⟩
  rw [h.2.2]; simp
example : (Msg.read ⟨[1, 2], [[], [3], [4, 5]]⟩ 4).out = [1, 2, 3, 4] ∧
    (Msg.read ⟨[1, 2], [[], [3], [4, 5]]⟩ 4).msg.flat = [5] := by decide

/-- `mpt_message_length` -/
theorem length_flat (m : Msg) : m.length = Flat.length m.flat := by
  simp [Msg.length, Flat.length, Msg.flat, foldl_len]
example : (Msg.mk [1, 2] [[], [3], [4, 5]]).length = 5 := by decide

/-- `mpt_memchr` -/
theorem chr_flat (frags : List Frag) (b : Byte) : Iov.memchr frags b = Flat.chr frags.flatten b :=
  memfcn_eq frags _
example : Iov.memchr [[1, 2], [], [3, 4]] 4 = some 3 := by decide

/-- `mpt_memrchr` -/
theorem rchr_flat (frags : List Frag) (b : Byte) : Iov.memrchr frags b = Flat.rchr frags.flatten b :=
  memrfcn_eq frags _
example : Iov.memrchr [[1, 2], [], [1, 4]] 1 = some 2 := by decide

/-- `mpt_memfcn` for every match function -/
theorem fcn_flat (frags : List Frag) (p : Byte → Bool) : Iov.memfcn frags p = Flat.find p frags.flatten :=
  memfcn_eq frags p

/-- `mpt_memrfcn` for every match function -/
theorem rfcn_flat (frags : List Frag) (p : Byte → Bool) : Iov.memrfcn frags p = Flat.rfind p frags.flatten :=
  memrfcn_eq frags p
example : Iov.memrfcn [[1, 2], [7], []] (· < 5) = some 1 := by decide

/-- `mpt_memstr` -/
theorem str_flat (frags : List Frag) (set : List Byte) : Iov.memstr frags set = Flat.str frags.flatten set := by
  simp only [Iov.memstr, Flat.str, memfcn_eq]
/-- `mpt_memrstr` -/
theorem rstr_flat (frags : List Frag) (set : List Byte) : Iov.memrstr frags set = Flat.rstr frags.flatten set := by
  simp only [Iov.memrstr, Flat.rstr, memrfcn_eq]
example : Iov.memstr [[1], [], [2, 3]] [9, 3] = some 2 := by decide

/-- `mpt_memtok` for every token/comment/escape set.  The model has its own byte loop (`Iov.tokBytes`) and the two
    separate places where the C code moves to the next data part (top of the main loop / inside the comment
    skip, where the first byte of the new part is tested on its own); the theorem shows that both carry the
    scanner state (open quote, previous character, comment) correctly, i.e. agree with the one-pass scan of
    the contiguous bytes -/
theorem tok_flat (frags : List Frag) (a : TokArgs) : Iov.memtok frags a = Flat.tok frags.flatten a :=
  memtok_eq frags a
example : Iov.memtok [[39, 97], [32, 98, 39], [], [32]] wsTok = some 5 := by decide

/-- `nextSpace` of message_argv.c (the hand-written quote-aware search that replaced the two `mpt_memtok` calls,
    fix 3186d50), modelled as its own loop with `pos += len` per part: it finds what `mpt_memtok` with the
    white-space token set finds on the contiguous bytes -/
theorem next_space_flat (curr : Frag) (cont : List Frag) :
    Iov.nextSpace curr cont = Flat.tok (curr ++ cont.flatten) wsTok :=
  nextSpace_eq curr cont
example : Iov.nextSpace [39, 97] [[], [32, 98, 92], [39, 39, 32]] = some 7 := by decide

/-- `mpt_message_append` (after fix 4f20369): the array grows by exactly the message content -/
theorem append_flat (arr : List Byte) (m : Msg) : m.append arr = Flat.append arr m.flat :=
  append_eq arr m
example : (Msg.mk [1] [[], [2, 3]]).append [9] = [9, 1, 2, 3] := by decide

/-- `mpt_message_append` with the allocation behaviour of the array spelled out: when no allocation
    fails the result is the contiguous append … -/
theorem append_sched_ok (arr : List Byte) (m : Msg) :
    (m.appendSched arr 0).ret = 0 ∧ (m.appendSched arr 0).out = Flat.append arr m.flat := by
  have h := appendLoop_ok (m.base :: m.cont) (if arr.length = 0 then none else some (Msg.bufCap arr.length)) arr 0
  simp only [Msg.appendSched, h.1, if_true, h.2, Flat.append, Msg.flat]
  simp

/-- … and a **refused append leaves the array exactly as it was**, whichever allocation fails and
    however many fragments were already appended (the roll-back goes to the array's current buffer) -/
theorem append_refused_pure (arr : List Byte) (m : Msg) (failAt : Nat) (h : (m.appendSched arr failAt).ret < 0) :
    (m.appendSched arr failAt).out = arr := by
  unfold Msg.appendSched at h ⊢
  generalize (if arr.length = 0 then none else some (Msg.bufCap arr.length)) = cap0 at h ⊢
  obtain ⟨x, hx⟩ := appendLoop_prefix failAt (m.base :: m.cont) cap0 arr 0
  simp only [] at h ⊢
  by_cases hok : (Msg.appendLoop failAt (m.base :: m.cont) cap0 arr 0).1 = true
  · simp [hok] at h
  · simp [hok, hx]
example : (Msg.mk [1, 2, 3] [List.replicate 70 7]).appendSched [] 2 = ⟨Err.MissingBuffer.code, [], 2⟩ ∧
    ((Msg.mk [1, 2, 3] [List.replicate 70 7]).appendSched [9] 1).out = [9] := by decide

/-- `mpt_memcpy` between two fragment lists (at least one fragment each): return value, the target
    bytes afterwards, and every target fragment keeps its size.  All lengths, also negative
    ("as much as fits"). -/
theorem cpy_flat (len : Int) (src dst : List Frag) (hs : src ≠ []) (hd : dst ≠ []) :
    (Iov.memcpy len src dst).ret = (Flat.cpy len src.flatten dst.flatten).1 ∧
    (Iov.memcpy len src dst).dst.flatten = (Flat.cpy len src.flatten dst.flatten).2 ∧
    (Iov.memcpy len src dst).dst.map List.length = dst.map List.length :=
  memcpy_eq len src dst hs hd
example : (Iov.memcpy 3 [[1], [], [2, 3, 4]] [[0, 0], [], [0, 0]]).dst = [[1, 2], [], [3, 0]] := by decide

/-- the excluded corner of `cpy_flat`: with no source or no target fragment at all the function
    returns 0 for every length (a contiguous empty area refuses a positive length with −1/−2) -/
theorem cpy_nofrag (len : Int) (src dst : List Frag) (h : src = [] ∨ dst = []) :
    Iov.memcpy len src dst = ⟨0, dst⟩ :=
  memcpy_nofrag len src dst h

/-- `mpt_message_argv` agrees with the contiguous computation: same return value (argument length
    or MissingData) and the same content left after the white-space removal -/
def ArgvAgrees (m : Msg) (sep : Byte) : Prop :=
  match Flat.argv m.flat sep with
  | none => (m.argv sep).2 = .err .MissingData ∧ (m.argv sep).1.flat = m.flat
  | some (n, d') => (m.argv sep).2 = .ok n ∧ (m.argv sep).1.flat = d'

/-- `mpt_message_argv` for EVERY cursor and EVERY separator (0, visible characters, white space with
    quotes and backslashes): after fix 3186d50 the quote scanner keeps its state from the base fragment
    into the continuation, so the former keyed region `quote-open-at-base-end` is gone. -/
theorem argv_flat (m : Msg) (sep : Byte) : ArgvAgrees m sep :=
  argv_eq m sep
example : ((Msg.mk [32] [[], [32, 97], [98, 32, 99]]).argv 32).2 = .ok 2 := by decide
/-- the former counterexample: 'a | b' quoted, cut after `a` -/
example : ((Msg.mk [39, 97] [[32, 98, 39]]).argv 32).2 = .ok 5 ∧
    Flat.argv [39, 97, 32, 98, 39] 32 = some (5, [39, 97, 32, 98, 39]) := by decide

/-- `mpt_array_message` agrees with the contiguous computation (number of arguments, array content) -/
def ArgsAgrees (m : Msg) (sep : Byte) : Prop :=
  m.arrayMessage sep = match Flat.args m.flat sep with
    | some r => .ok r
    | none => .fault

/-- `mpt_array_message` for every cursor and separator -/
theorem args_flat (m : Msg) (sep : Byte) : ArgsAgrees m sep :=
  arrayMessage_eq m sep
example : (Msg.mk [97, 32] [[], [98, 99], [32]]).arrayMessage 32 = .ok (2, [97, 0, 98, 99, 0]) ∧
    (Msg.mk [39, 97] [[32, 98, 39]]).arrayMessage 32 = .ok (1, [39, 97, 32, 98, 39, 0]) := by decide

/-- allocation failure in `mpt_array_message` (its one allocation, the work array): refused with
    BadOperation, nothing else happens; an empty message needs no allocation -/
theorem args_nomem (m : Msg) (sep : Byte) :
    m.arrayMessage sep false = if m.length = 0 then .ok (0, []) else .err .BadOperation := by
  unfold Msg.arrayMessage; split <;> simp

/-- the contiguous argument loop never runs out of its fuel (so `.fault` above cannot occur) -/
theorem args_spec_total (d : List Byte) (sep : Byte) : (Flat.args d sep).isSome = true :=
  args_total d sep

/-- `mpt_dispatch_hash` (a caller that reads the type header, takes the command word with
    `mpt_message_argv` and hashes it in place or through a copy — after fix 8c79496 without a length
    limit on the copy path): the handler is reached with the same hash, or the message is refused,
    exactly as for the contiguous message -/
theorem dhash_flat (m : Msg) : m.dhash = .ok (Flat.dhash m.flat) :=
  dhash_eq m
example : (Msg.mk [4, 32] [[97], [], [98, 32, 99]]).dhash = .ok (some (Flat.hash [97, 98])) := by decide

/-- `mpt_stream_append` (mptio consumer of fragment lists, after fix 7541cab) / `mpt::encode_array::push(message)`
    and the end of the message: exactly one message arrives, the content, and its length is returned — empty
    fragments in any position neither add a delimiter nor lose bytes, and it does not matter in how many steps
    the push function takes each part (`step`: any number of bytes 1..n of the n offered per call) -/
theorem sappend_flat (m : Msg) (step : Nat → Nat) : m.sappend step = Flat.sappend m.flat := by
  simp [Msg.sappend, Flat.sappend, sappendLoop_eq, Msg.flat]
example : (Msg.mk [] [[1], [], [2, 3], []]).sappend = (3, [[1, 2, 3]]) := by decide
example : (Msg.mk [7] [[1, 2, 3, 4, 5], [], [6]]).sappend (fun n => n / 2) = (7, [[7, 1, 2, 3, 4, 5, 6]]) := by decide

/-- the same into a stream on which earlier messages are finished (`done`) and the current one has been started
    (`cur`, e.g. the message id pushed by `mpt_stream_reply`): the finished messages are untouched, the message
    under construction is continued by exactly the contiguous bytes -/
theorem sappend_started_flat (step : Nat → Nat) (frags : List Frag) (cur : List Byte) (done : List (List Byte)) :
    Msg.sappendLoop step frags cur done 0 = (frags.flatten.length, cur ++ frags.flatten, done) := by
  rw [sappendLoop_eq]; simp
example : Msg.sappendLoop (fun _ => 2) [[1, 2, 3], [], [4]] [9] [[8, 8]] 0 = (4, [9, 1, 2, 3, 4], [[8, 8]]) := by decide

/-- `mpt_message_get` on a queue (`len ≤ max`, `off ≤ max`): when the requested stretch lies inside the
    data, the message — one fragment, or two when the data wraps — denotes exactly those bytes of the
    queue's logical content -/
theorem get_flat (r : Ring) (h : r.len ≤ r.store.length ∧ r.off ≤ r.store.length) (pos take : Nat)
    (hle : pos + take ≤ r.len) :
    ∃ m, Msg.get r pos take = .ok m ∧ some m.flat = Flat.get r.content pos take := by
  obtain ⟨m, h1, h2⟩ := get_ok r h pos take hle
  refine ⟨m, h1, ?_⟩
  have hlen : r.content.length = r.len := by
    obtain ⟨a, b⟩ := h
    simp [Ring.content]; omega
  simp [Flat.get, hlen, hle, h2]
example : (Msg.get (Ring.make 4 3 [1, 2, 3]) 0 3) = .ok ⟨[1], [[2, 3]]⟩ := by decide

/-- … and refused otherwise -/
theorem get_refused (r : Ring) (pos take : Nat) (hgt : r.len < pos + take) :
    ∃ e, Msg.get r pos take = .err e :=
  Mpt.get_refused r pos take hgt

/-- `mpt_message_get` without a second iovec is refused (−3) EXACTLY when the requested stretch starts in the
    first data part (`low = min (max − off) len` bytes up to the end of the storage) and runs beyond it;
    in every other case the single-fragment message denoting exactly the stretch is returned -/
theorem get_novec (r : Ring) (h : r.len ≤ r.store.length ∧ r.off ≤ r.store.length) (pos take : Nat)
    (hle : pos + take ≤ r.len) :
    ((pos < min (r.store.length - r.off) r.len ∧ min (r.store.length - r.off) r.len < pos + take) →
      Msg.getNoVec r pos take = .err .BadType) ∧
    (¬ (pos < min (r.store.length - r.off) r.len ∧ min (r.store.length - r.off) r.len < pos + take) →
      ∃ m, Msg.getNoVec r pos take = .ok m ∧ m.cont = [] ∧ some m.flat = Flat.get r.content pos take) := by
  obtain ⟨m, h1, hw, hn⟩ := get_shape r h pos take hle
  obtain ⟨m', h1', h2'⟩ := get_flat r h pos take hle
  rw [h1] at h1'; cases h1'
  unfold Msg.getNoVec
  rw [h1]
  constructor
  · intro hc
    have := hw hc
    simp [this]
  · intro hc
    have := hn hc
    exact ⟨m, by simp [this], this, h2'⟩
example : Msg.getNoVec (Ring.make 4 3 [1, 2, 3]) 0 3 = .err .BadType ∧
    Msg.getNoVec (Ring.make 4 3 [1, 2, 3]) 1 2 = .ok ⟨[2, 3], []⟩ := by decide

end Mpt.C17
