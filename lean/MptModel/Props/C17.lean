import MptModel.Impl.Message
import MptModel.Spec.Flat
namespace Mpt.C17
theorem placeholder : True := trivial
end Mpt.C17
