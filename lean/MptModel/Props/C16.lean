import MptModel.Impl.Ident
import MptModel.Spec.Ident
namespace Mpt.C16
theorem placeholder : True := trivial
end Mpt.C16
